//! Generators (DESIGN.md §2): type-directed schemas (emitted as JSON text and parsed by the real
//! parser), conforming values with boundary pools.
use crate::rng::Rng;
use apache_avro::schema::{
    DecimalSchema, InnerDecimalSchema, Name, NamesRef, ResolvedSchema, Schema, UuidSchema,
};
use apache_avro::types::Value;
use apache_avro::{Days, Decimal, Duration, Millis, Months};
use serde_json::{Value as J, json};
use std::collections::HashMap;

pub struct SchemaGen {
    pub max_depth: usize,
    counter: usize,
    /// named types defined so far: (full name, is it safe to reference directly)
    defined: Vec<String>,
    /// the named logical types among them (fixed-backed uuid / duration / decimal)
    defined_logical: Vec<String>,
    /// records currently being defined (reference only below a union/array/map)
    open: Vec<String>,
}

const NAMESPACES: &[&str] = &["", "ns", "a.b", "org.x_y.Z9", "_u._v9._"];

fn join(ns: &str, n: &str) -> String {
    if ns.is_empty() { n.to_string() } else { format!("{ns}.{n}") }
}

impl SchemaGen {
    pub fn new(max_depth: usize) -> Self {
        SchemaGen { max_depth, counter: 0, defined: vec![], defined_logical: vec![], open: vec![] }
    }

    fn fresh(&mut self, rng: &mut Rng, prefix: &str) -> String {
        self.counter += 1;
        let pool = ["", "_", "x", "Ab", "é"];
        // names must match the grammar; "é" is excluded below (kept as a near-miss elsewhere)
        let suffix = pool[rng.below(4)];
        format!("{prefix}{}{suffix}", self.counter)
    }

    /// returns (json, name-key additions). `ns` is the enclosing namespace.
    fn named_header(&mut self, rng: &mut Rng, kind: &str, ns: &str) -> (serde_json::Map<String, J>, String, String) {
        let simple = self.fresh(rng, match kind { "record" => "R", "enum" => "E", _ => "F" });
        let mut m = serde_json::Map::new();
        m.insert("type".into(), J::String(kind.into()));
        let (full, new_ns) = match rng.below(10) {
            0 => {
                // explicit namespace key
                let n = *rng.pick(&NAMESPACES[1..]);
                m.insert("namespace".into(), J::String(n.into()));
                m.insert("name".into(), J::String(simple.clone()));
                (join(n, &simple), n.to_string())
            }
            1 => {
                // dotted name overrides everything
                let n = *rng.pick(&NAMESPACES[1..]);
                m.insert("name".into(), J::String(join(n, &simple)));
                (join(n, &simple), n.to_string())
            }
            _ => {
                m.insert("name".into(), J::String(simple.clone()));
                (join(ns, &simple), ns.to_string())
            }
        };
        if rng.chance(1, 6) {
            m.insert("doc".into(), J::String("a \"doc\"\n\\ with\tescapes é".into()));
        }
        if rng.chance(1, 8) {
            m.insert("aliases".into(), json!([format!("Alias{}", self.counter)]));
        }
        (m, full, new_ns)
    }

    fn reference(&self, rng: &mut Rng, full: &str, ns: &str) -> J {
        // a reference may be spelled fully or, inside the same namespace, by its simple name
        if let Some(idx) = full.rfind('.') {
            if &full[..idx] == ns && rng.chance(1, 2) {
                return J::String(full[idx + 1..].to_string());
            }
            J::String(full.to_string())
        } else if ns.is_empty() {
            J::String(full.to_string())
        } else {
            // null-namespace type referenced from inside a namespace: leading dot is not accepted
            // by the name grammar of this crate for references in all positions, so spell it plain
            // only when that resolves correctly (it does not inside a namespace) - avoid.
            J::Null
        }
    }

    fn primitive(&mut self, rng: &mut Rng) -> J {
        let p = ["null", "boolean", "int", "long", "float", "double", "bytes", "string"];
        let t = *rng.pick(&p);
        if rng.chance(1, 5) { json!({"type": t}) } else { J::String(t.into()) }
    }

    fn logical(&mut self, rng: &mut Rng, ns: &str) -> J {
        match rng.below(16) {
            0 => json!({"type":"int","logicalType":"date"}),
            1 => json!({"type":"int","logicalType":"time-millis"}),
            2 => json!({"type":"long","logicalType":"time-micros"}),
            3 => json!({"type":"long","logicalType":"timestamp-millis"}),
            4 => json!({"type":"long","logicalType":"timestamp-micros"}),
            5 => json!({"type":"long","logicalType":"timestamp-nanos"}),
            6 => json!({"type":"long","logicalType":"local-timestamp-millis"}),
            7 => json!({"type":"long","logicalType":"local-timestamp-micros"}),
            8 => json!({"type":"long","logicalType":"local-timestamp-nanos"}),
            9 => {
                let p = 1 + rng.below(20);
                let s = rng.below(p + 1);
                json!({"type":"bytes","logicalType":"decimal","precision":p,"scale":s})
            }
            10 => json!({"type":"bytes","logicalType":"big-decimal"}),
            11 => json!({"type":"string","logicalType":"uuid"}),
            12 => json!({"type":"bytes","logicalType":"uuid"}),
            13 => {
                let (mut m, full, _) = self.named_header(rng, "fixed", ns);
                m.insert("size".into(), json!(16));
                m.insert("logicalType".into(), json!("uuid"));
                self.defined_logical.push(full.clone());
                self.defined.push(full);
                J::Object(m)
            }
            14 => {
                let (mut m, full, _) = self.named_header(rng, "fixed", ns);
                m.insert("size".into(), json!(12));
                m.insert("logicalType".into(), json!("duration"));
                self.defined_logical.push(full.clone());
                self.defined.push(full);
                J::Object(m)
            }
            _ => {
                let (mut m, full, _) = self.named_header(rng, "fixed", ns);
                let size = *rng.pick(&[1usize, 2, 3, 8, 9, 16, 17]);
                m.insert("size".into(), json!(size));
                m.insert("logicalType".into(), json!("decimal"));
                let p = 1 + rng.below(2 * size);
                m.insert("precision".into(), json!(p));
                m.insert("scale".into(), json!(rng.below(p + 1)));
                self.defined_logical.push(full.clone());
                self.defined.push(full);
                J::Object(m)
            }
        }
    }

    /// base kind used by the union duplicate rule
    fn base_kind(j: &J) -> String {
        match j {
            J::String(s) => match s.as_str() {
                "null" | "boolean" | "int" | "long" | "float" | "double" | "bytes" | "string" => s.clone(),
                // a reference and a definition of one type are the same branch type: key both by the simple name
                other => format!("named:{}", other.rsplit('.').next().unwrap_or(other)),
            },
            J::Object(m) => match m.get("type") {
                Some(J::String(t)) => match t.as_str() {
                    "record" | "enum" | "fixed" => format!("named:{}", m.get("name").and_then(|n| n.as_str()).map(|n| n.rsplit('.').next().unwrap_or(n)).unwrap_or("")),
                    other => other.to_string(),
                },
                _ => "?".into(),
            },
            J::Array(_) => "union".into(),
            _ => "?".into(),
        }
    }

    pub fn schema(&mut self, rng: &mut Rng, depth: usize, ns: &str, allow_union: bool, under_indirection: bool) -> J {
        let leaf = depth >= self.max_depth;
        let roll = rng.below(if leaf { 12 } else { 24 });
        match roll {
            0..=5 => self.primitive(rng),
            6 if !self.defined_logical.is_empty() => {
                // one more chance for a reference once a named logical type exists
                let logical: Vec<String> = self.defined_logical.iter().filter(|n| self.defined.contains(n)).cloned().collect();
                if logical.is_empty() {
                    return self.primitive(rng);
                }
                let full = rng.pick(&logical).clone();
                match self.reference(rng, &full, ns) {
                    J::Null => self.primitive(rng),
                    r => r,
                }
            }
            6 => self.primitive(rng),
            7..=8 => self.logical(rng, ns),
            9 => {
                // enum
                let (mut m, full, _) = self.named_header(rng, "enum", ns);
                let n = 1 + rng.below(6);
                let syms: Vec<String> = (0..n).map(|i| format!("S{i}")).collect();
                if rng.chance(1, 3) {
                    m.insert("default".into(), J::String(rng.pick(&syms).clone()));
                }
                m.insert("symbols".into(), json!(syms));
                self.defined.push(full);
                J::Object(m)
            }
            10 => {
                let (mut m, full, _) = self.named_header(rng, "fixed", ns);
                m.insert("size".into(), json!(*rng.pick(&[0usize, 1, 2, 12, 16, 17])));
                self.defined.push(full);
                J::Object(m)
            }
            11 => {
                // reference to an earlier definition (or an open record when under indirection)
                let mut cands: Vec<String> = self.defined.clone();
                // a named logical type that is still defined is referenced half of the time
                let logical: Vec<String> = self.defined_logical.iter().filter(|n| self.defined.contains(n)).cloned().collect();
                if !logical.is_empty() && rng.chance(1, 2) {
                    cands = logical;
                } else if under_indirection {
                    cands.extend(self.open.iter().cloned());
                }
                if cands.is_empty() {
                    return self.primitive(rng);
                }
                let full = rng.pick(&cands).clone();
                match self.reference(rng, &full, ns) {
                    J::Null => self.primitive(rng),
                    r => r,
                }
            }
            12..=14 => json!({"type":"array","items": self.schema(rng, depth + 1, ns, true, true)}),
            15..=16 => json!({"type":"map","values": self.schema(rng, depth + 1, ns, true, true)}),
            17..=19 if allow_union => {
                let n = 1 + rng.below(5);
                let mut kinds: Vec<String> = vec![];
                let mut branches = vec![];
                for _ in 0..n {
                    // a branch that is dropped must not leave its definitions behind (later references would dangle)
                    let defined_before = self.defined.clone();
                    let b = if rng.chance(1, 4) { J::String("null".into()) } else { self.schema(rng, depth + 1, ns, false, true) };
                    let k = Self::base_kind(&b);
                    if kinds.contains(&k) {
                        self.defined = defined_before;
                        continue;
                    }
                    kinds.push(k);
                    branches.push(b);
                }
                if branches.is_empty() {
                    branches.push(J::String("null".into()));
                }
                J::Array(branches)
            }
            _ => {
                // record
                let (mut m, full, rns) = self.named_header(rng, "record", ns);
                self.open.push(full.clone());
                let n = rng.below(6);
                let mut fields = vec![];
                for i in 0..n {
                    let mut f = serde_json::Map::new();
                    f.insert("name".into(), J::String(format!("f{i}")));
                    f.insert("type".into(), self.schema(rng, depth + 1, &rns, true, false));
                    if rng.chance(1, 8) {
                        f.insert("aliases".into(), json!([format!("old_f{i}")]));
                    }
                    if rng.chance(1, 8) {
                        f.insert("doc".into(), J::String("field doc".into()));
                    }
                    fields.push(J::Object(f));
                }
                m.insert("fields".into(), J::Array(fields));
                self.open.pop();
                self.defined.push(full);
                J::Object(m)
            }
        }
    }
}

/// Generate a schema text the real parser accepts (retries on rejection); returns text + parsed.
pub fn gen_schema(rng: &mut Rng, max_depth: usize) -> (String, Schema) {
    loop {
        let mut g = SchemaGen::new(max_depth);
        let ns = *rng.pick(NAMESPACES);
        let j = g.schema(rng, 0, ns, true, false);
        // a top-level namespace can only be given on a named type; that is what named_header does
        let text = j.to_string();
        if let Ok(s) = Schema::parse_str(&text) {
            match ResolvedSchema::new(&s) {
                Ok(_) => return (text, s),
                Err(e) => {
                    if let Ok(mut g) = UNRESOLVABLE.lock() {
                        if g.len() < 5 {
                            g.push((text.clone(), e.to_string()));
                        }
                    }
                }
            }
        }
    }
}

static UNRESOLVABLE: std::sync::Mutex<Vec<(String, String)>> = std::sync::Mutex::new(Vec::new());

/// accepted by the parser, rejected by `ResolvedSchema::new` (reported by `Out::finish`)
pub fn take_unresolvable() -> Vec<(String, String)> {
    UNRESOLVABLE.lock().map(|mut g| std::mem::take(&mut *g)).unwrap_or_default()
}

// ---------------------------------------------------------------------------------------------
// values

pub const INT_POOL: &[i64] = &[
    0, 1, -1, 63, 64, 65, -63, -64, -65, 8191, 8192, 8193, -8192, -8193, 1048575, 1048576, -1048576,
    -1048577, 134217727, 134217728, -134217728, -134217729, 2147483647, 2147483646, -2147483648,
    -2147483647,
];

pub fn long_pool() -> Vec<i64> {
    let mut v: Vec<i64> = INT_POOL.to_vec();
    for k in 1..=9u32 {
        let b = 1i64 << (7 * k - 1);
        v.extend_from_slice(&[b - 1, b, b + 1, -b - 1, -b, -b + 1]);
    }
    v.extend_from_slice(&[i64::MAX, i64::MAX - 1, i64::MIN, i64::MIN + 1, 2147483648, -2147483649]);
    v
}

pub fn gen_int(rng: &mut Rng) -> i32 {
    if rng.chance(2, 3) { *rng.pick(INT_POOL) as i32 } else { rng.next() as i32 }
}

pub fn gen_long(rng: &mut Rng) -> i64 {
    if rng.chance(2, 3) {
        let p = long_pool();
        *rng.pick(&p)
    } else {
        (rng.next() as i64) >> rng.below(64)
    }
}

const F32_POOL: &[u32] = &[
    0, 0x8000_0000, 0x7F80_0000, 0xFF80_0000, 0x7FC0_0000, 0x7FA0_0001, 0xFFC1_2345, 1, 0x007F_FFFF,
    0x7F7F_FFFF, 0x3FC0_0000,
];
const F64_POOL: &[u64] = &[
    0, 0x8000_0000_0000_0000, 0x7FF0_0000_0000_0000, 0xFFF0_0000_0000_0000, 0x7FF8_0000_0000_0000,
    0x7FF4_0000_0000_0001, 0xFFF8_1234_5678_9ABC, 1, 0x000F_FFFF_FFFF_FFFF, 0x7FEF_FFFF_FFFF_FFFF,
    0x3FF8_0000_0000_0000,
];

const STR_POOL: &[&str] = &[
    "", "a", "abc", "é", "€", "\u{FFFF}", "\u{10FFFF}", "𝄞 clef", "tab\there", "quote\"\\", "\u{0}nul",
    "日本語のテキスト",
];

pub fn gen_string(rng: &mut Rng) -> String {
    if rng.chance(3, 4) {
        (*rng.pick(STR_POOL)).to_string()
    } else {
        let n = *rng.pick(&[1usize, 63, 64, 65, 127, 128, 200]);
        (0..n).map(|i| char::from(b'a' + ((i as u8 + rng.below(26) as u8) % 26))).collect()
    }
}

pub fn gen_bytes(rng: &mut Rng) -> Vec<u8> {
    let n = *rng.pick(&[0usize, 0, 1, 1, 2, 3, 5, 63, 64, 65, 127, 128, 300]);
    (0..n).map(|_| rng.next() as u8).collect()
}

pub fn gen_bytes_n(rng: &mut Rng, n: usize) -> Vec<u8> {
    (0..n).map(|_| if rng.chance(1, 4) { *rng.pick(&[0u8, 0xFF, 0x80, 0x7F]) } else { rng.next() as u8 }).collect()
}

fn coll_size(rng: &mut Rng, budget: usize) -> usize {
    if budget == 0 {
        return 0;
    }
    *rng.pick(&[0usize, 0, 1, 1, 2, 3, 5])
}

pub struct ValueGen<'a> {
    pub names: &'a NamesRef<'a>,
    pub max_depth: usize,
    /// set when a schema has no finite value within the hard depth cap (e.g. `R {f: [R]}`)
    pub gave_up: std::cell::Cell<bool>,
}

pub const HARD_DEPTH: usize = 48;

impl<'a> ValueGen<'a> {
    /// a value conforming to `s` in the canonical (strict) representation
    pub fn value(&self, rng: &mut Rng, s: &Schema, ns: Option<&str>, depth: usize) -> Value {
        let budget = self.max_depth.saturating_sub(depth);
        if depth > HARD_DEPTH {
            self.gave_up.set(true);
            return Value::Null;
        }
        match s {
            Schema::Null => Value::Null,
            Schema::Boolean => Value::Boolean(rng.chance(1, 2)),
            Schema::Int => Value::Int(gen_int(rng)),
            Schema::Date => Value::Date(gen_int(rng)),
            Schema::TimeMillis => Value::TimeMillis(gen_int(rng)),
            Schema::Long => Value::Long(gen_long(rng)),
            Schema::TimeMicros => Value::TimeMicros(gen_long(rng)),
            Schema::TimestampMillis => Value::TimestampMillis(gen_long(rng)),
            Schema::TimestampMicros => Value::TimestampMicros(gen_long(rng)),
            Schema::TimestampNanos => Value::TimestampNanos(gen_long(rng)),
            Schema::LocalTimestampMillis => Value::LocalTimestampMillis(gen_long(rng)),
            Schema::LocalTimestampMicros => Value::LocalTimestampMicros(gen_long(rng)),
            Schema::LocalTimestampNanos => Value::LocalTimestampNanos(gen_long(rng)),
            Schema::Float => Value::Float(f32::from_bits(if rng.chance(2, 3) { *rng.pick(F32_POOL) } else { rng.next() as u32 })),
            Schema::Double => Value::Double(f64::from_bits(if rng.chance(2, 3) { *rng.pick(F64_POOL) } else { rng.next() })),
            Schema::Bytes => Value::Bytes(gen_bytes(rng)),
            Schema::String => Value::String(gen_string(rng)),
            Schema::Fixed(f) => Value::Fixed(f.size, gen_bytes_n(rng, f.size)),
            Schema::Enum(e) => {
                let i = rng.below(e.symbols.len());
                Value::Enum(i as u32, e.symbols[i].clone())
            }
            Schema::Decimal(DecimalSchema { inner, .. }) => match inner {
                InnerDecimalSchema::Bytes => {
                    let n = *rng.pick(&[1usize, 1, 2, 3, 8, 9, 16, 17]);
                    Value::Decimal(Decimal::from(gen_bytes_n(rng, n)))
                }
                InnerDecimalSchema::Fixed(f) => Value::Decimal(Decimal::from(gen_bytes_n(rng, f.size))),
            },
            Schema::BigDecimal => {
                let mlen = *rng.pick(&[1usize, 1, 2, 8, 9, 20]);
                let mag = gen_bytes_n(rng, mlen);
                let big = num_bigint::BigInt::from_signed_bytes_be(&mag);
                let scale = *rng.pick(&[0i64, 1, 2, -1, -3, 18, 63, 64, i64::MAX, i64::MIN]);
                Value::BigDecimal(bigdecimal::BigDecimal::new(big, scale))
            }
            Schema::Uuid(_) => Value::Uuid(uuid::Uuid::from_bytes(gen_bytes_n(rng, 16).try_into().unwrap())),
            Schema::Duration(_) => {
                let p = [0u32, 1, 255, 256, 65535, 65536, u32::MAX, u32::MAX - 1];
                Value::Duration(Duration::new(Months::new(*rng.pick(&p)), Days::new(*rng.pick(&p)), Millis::new(*rng.pick(&p))))
            }
            Schema::Array(a) => {
                let n = coll_size(rng, budget);
                Value::Array((0..n).map(|_| self.value(rng, &a.items, ns, depth + 1)).collect())
            }
            Schema::Map(m) => {
                let n = coll_size(rng, budget);
                let mut h = HashMap::new();
                for i in 0..n {
                    let k = if rng.chance(1, 2) { format!("k{i}") } else { format!("{}{i}", gen_string(rng)) };
                    h.insert(k, self.value(rng, &m.types, ns, depth + 1));
                }
                Value::Map(h)
            }
            Schema::Union(u) => {
                let vs = u.variants();
                // when the budget is exhausted prefer a terminating branch
                let mut idx = rng.below(vs.len());
                if budget == 0 {
                    if let Some(p) = vs.iter().position(|b| matches!(b, Schema::Null)) {
                        idx = p;
                    } else if let Some(p) = vs.iter().position(|b| !matches!(b, Schema::Ref { .. } | Schema::Record(_))) {
                        idx = p;
                    }
                }
                Value::Union(idx as u32, Box::new(self.value(rng, &vs[idx], ns, depth + 1)))
            }
            Schema::Record(r) => {
                let fq = r.name.fully_qualified_name(ns).into_owned();
                let rns = fq.namespace().map(|s| s.to_string());
                Value::Record(
                    r.fields
                        .iter()
                        .map(|f| (f.name.clone(), self.value(rng, &f.schema, rns.as_deref(), depth + 1)))
                        .collect(),
                )
            }
            Schema::Ref { name } => {
                let fq: Name = name.fully_qualified_name(ns).into_owned();
                let target = self.names.get(&fq).expect("resolved reference");
                let tns = fq.namespace().map(|s| s.to_string());
                self.value(rng, target, tns.as_deref(), depth + 1)
            }
        }
    }
}

#[allow(dead_code)]
pub fn uuid_schema_kind(s: &Schema) -> Option<&UuidSchema> {
    if let Schema::Uuid(u) = s { Some(u) } else { None }
}
