//! C06 (and the decode half of C05): hostile / truncated / mutated bytes through both decoders.
//! Correspondence row `decode_internal` ↔ `Avro.decode` on arbitrary input; oracle = a successfully
//! decoded value validates, re-encodes and re-decodes to itself; strict prefixes of valid encodings
//! are errors; the generic decoder and the schema-aware deserializer agree.
use crate::genr::{ValueGen, gen_schema};
use crate::rng::Rng;
use crate::util::{Out, catch, value_eq};
use crate::wire;
use apache_avro::reader::datum::GenericDatumReader;
use apache_avro::schema::{ResolvedSchema, Schema};
use apache_avro::types::Value;
use apache_avro::writer::datum::GenericDatumWriter;

pub const SMALL_SCHEMAS: &[&str] = &[
    r#""null""#, r#""boolean""#, r#""int""#, r#""long""#, r#""float""#, r#""double""#, r#""bytes""#, r#""string""#,
    r#"{"type":"int","logicalType":"date"}"#,
    r#"{"type":"long","logicalType":"timestamp-micros"}"#,
    r#"{"type":"bytes","logicalType":"decimal","precision":4,"scale":1}"#,
    r#"{"type":"bytes","logicalType":"big-decimal"}"#,
    r#"{"type":"string","logicalType":"uuid"}"#,
    r#"{"type":"bytes","logicalType":"uuid"}"#,
    r#"{"type":"fixed","name":"F0","size":0}"#,
    r#"{"type":"fixed","name":"F1","size":1}"#,
    r#"{"type":"fixed","name":"F2","size":2}"#,
    r#"{"type":"fixed","name":"D","size":2,"logicalType":"decimal","precision":3}"#,
    r#"{"type":"fixed","name":"U","size":16,"logicalType":"uuid"}"#,
    r#"{"type":"fixed","name":"Du","size":12,"logicalType":"duration"}"#,
    r#"{"type":"enum","name":"E","symbols":["A","B","C"]}"#,
    r#"{"type":"enum","name":"E","symbols":["A"],"default":"A"}"#,
    r#"{"type":"array","items":"null"}"#,
    r#"{"type":"array","items":"int"}"#,
    r#"{"type":"array","items":"boolean"}"#,
    r#"{"type":"array","items":{"type":"array","items":"null"}}"#,
    r#"{"type":"map","values":"null"}"#,
    r#"{"type":"map","values":"int"}"#,
    r#"["null","int"]"#,
    r#"["int","null"]"#,
    r#"["null"]"#,
    r#"["string","boolean",{"type":"array","items":"long"}]"#,
    r#"{"type":"record","name":"R0","fields":[]}"#,
    r#"{"type":"record","name":"R1","fields":[{"name":"a","type":"boolean"},{"name":"b","type":["null","int"]}]}"#,
    r#"{"type":"record","name":"R2","fields":[{"name":"a","type":"null"},{"name":"b","type":"string"}]}"#,
    r#"{"type":"record","name":"L","fields":[{"name":"v","type":"int"},{"name":"n","type":["null","L"]}]}"#,
    r#"{"type":"record","name":"T","fields":[{"name":"kids","type":{"type":"array","items":"T"}}]}"#,
    r#"{"type":"record","name":"M","namespace":"ns","fields":[{"name":"m","type":{"type":"map","values":["null","M"]}}]}"#,
];

const BYTE_POOL: &[u8] = &[0, 1, 2, 3, 4, 5, 6, 7, 8, 0x0f, 0x10, 0x18, 0x19, 0x20, 0x3f, 0x40, 0x41, 0x61, 0x7e, 0x7f, 0x80, 0x81, 0xc3, 0xfe, 0xff];

pub struct Decoders<'a> {
    pub schema: &'a Schema,
    pub names_s: String,
    pub schema_s: String,
    pub text: &'a str,
    pub lim: usize,
    pub szv: usize,
    pub sze: usize,
}

/// run one input through the real decoders; `prefix_of_valid`: the input is a *strict* prefix of a valid encoding
pub fn probe(out: &mut Out, d: &Decoders, input: &[u8], prefix_of_valid: bool, tag: &str) {
    let req = format!("dec {} {} {} {} {} {}", d.lim, d.szv, d.sze, d.names_s, d.schema_s, wire::hex(input));
    let case = format!("schema={} input={} ({tag})", d.text, wire::hex(input));
    let rd = GenericDatumReader::builder(d.schema).build().unwrap();
    crate::util::begin_case(&case);
    let mut slice = input;
    let res = catch(|| rd.read_value(&mut slice));
    let rest = slice.len();
    out.count(&format!("input_{tag}"));
    // the schema-aware deserializer on the same bytes
    let mut slice2 = input;
    let res2 = catch(|| rd.read_deser::<crate::anyshape::AnyShape>(&mut slice2));
    let rest2 = slice2.len();
    match res {
        Err(()) => {
            out.pair(&req, "err panic");
            out.count("outcome_panic");
            out.oracle_fail("decode-panic", "generic decoder panicked", &case);
        }
        Ok(Err(e)) => {
            out.pair(&req, "err");
            out.count("outcome_err");
            if let Ok(Ok(_)) = res2 {
                // acceptable only when the generic decoder refuses for a reason the serde path does not check
                let msg = e.to_string();
                out.count("serde_ok_generic_err");
                use apache_avro::error::Details as D;
                // the generic decoder also checks the *content* of logical types (uuid text, the inner
                // structure of a big-decimal) and the allocation budget of collections; the serde
                // path hands the underlying bytes/string to the visitor unchecked
                let excused = matches!(
                    e.details(),
                    D::ConvertStrToUuid(_) | D::ConvertSliceToUuid(_) | D::ConvertFixedToUuid(_)
                        | D::BigDecimalLen(_) | D::BigDecimalScale | D::ReadDouble(_)
                        | D::MemoryAllocation { .. }
                );
                if !excused {
                    out.oracle_fail("decoders-disagree", &format!("serde decoder accepts, generic rejects: {msg}"), &case);
                }
            }
        }
        Ok(Ok(v)) => {
            out.pair(&req, &format!("ok {} {}", wire::value_str(&v, true), rest));
            out.count("outcome_ok");
            if prefix_of_valid {
                out.oracle_fail("truncated-accepted", &format!("strict prefix of a valid datum decodes to {}", wire::value_str(&v, true)), &case);
            }
            if !v.validate(d.schema) {
                out.oracle_fail("decoded-invalid", &format!("decoded value does not validate: {}", wire::value_str(&v, true)), &case);
            } else {
                let w = GenericDatumWriter::builder(d.schema).validate(false).build().unwrap();
                let mut buf = Vec::new();
                match catch(|| w.write_value_ref(&mut buf, &v)) {
                    Ok(Ok(_)) => {
                        let mut s3 = &buf[..];
                        match catch(|| rd.read_value(&mut s3)) {
                            Ok(Ok(v2)) if value_eq(&v2, &v) && s3.is_empty() => {}
                            Ok(Ok(v2)) => out.oracle_fail("reencode-differs", &format!("re-decoded {} rest {}", wire::value_str(&v2, true), s3.len()), &case),
                            Ok(Err(e)) => out.oracle_fail("reencode-undecodable", &format!("{e}"), &case),
                            Err(()) => out.oracle_fail("decode-panic", "panic decoding the re-encoding", &case),
                        }
                    }
                    Ok(Err(e)) => out.oracle_fail("reencode-error", &format!("decoded value cannot be re-encoded: {e}"), &case),
                    Err(()) => out.oracle_fail("encode-panic", "panic re-encoding", &case),
                }
            }
            match &res2 {
                Ok(Ok(_)) if rest2 == rest => {}
                Ok(Ok(_)) => out.oracle_fail("decoders-disagree", &format!("consumed lengths differ: generic rest {rest}, serde rest {rest2}"), &case),
                Ok(Err(e)) => out.oracle_fail("decoders-disagree", &format!("generic decoder accepts, serde rejects: {e}"), &case),
                Err(()) => out.oracle_fail("decode-panic", "serde decoder panicked", &case),
            }
        }
    }
    if let Err(()) = res2 {
        out.oracle_fail("decode-panic", "schema-aware deserializer panicked", &case);
    }
    crate::util::end_case();
}

pub fn run(args: &[String]) -> i32 {
    let dir = &args[0];
    let seed: u64 = args[1].parse().unwrap();
    let n: usize = args[2].parse().unwrap();
    let max_depth: usize = args.get(3).and_then(|s| s.parse().ok()).unwrap_or(3);
    let exhaustive: usize = args.get(4).and_then(|s| s.parse().ok()).unwrap_or(1);
    let want_lim: usize = args.get(5).and_then(|s| s.parse().ok()).unwrap_or(64 * 1024);
    let lim = apache_avro::util::max_allocation_bytes(want_lim);
    let szv = std::mem::size_of::<Value>();
    let sze = std::mem::size_of::<(String, Value)>();
    let mut out = Out::new(dir);
    crate::util::watchdog(dir, 15000);
    let mut rng = Rng::new(seed);

    // (i) exhaustive short strings over the fixed list of small schemas
    if exhaustive > 0 {
        for text in SMALL_SCHEMAS {
            let schema = Schema::parse_str(text).unwrap();
            let rs = ResolvedSchema::new(&schema).unwrap();
            let d = Decoders { schema: &schema, names_s: wire::names_str(rs.get_names()), schema_s: wire::schema_str(&schema), text, lim, szv, sze };
            probe(&mut out, &d, &[], false, "exh0");
            for a in 0..=255u8 {
                probe(&mut out, &d, &[a], false, "exh1");
            }
            if exhaustive >= 2 {
                for a in 0..=255u8 {
                    for b in 0..=255u8 {
                        probe(&mut out, &d, &[a, b], false, "exh2");
                    }
                }
            } else {
                for &a in BYTE_POOL {
                    for &b in BYTE_POOL {
                        probe(&mut out, &d, &[a, b], false, "pool2");
                    }
                }
            }
            for &a in BYTE_POOL {
                for &b in &[0u8, 1, 2, 0x7f, 0x80, 0xff] {
                    for &c in &[0u8, 1, 0x61, 0x80, 0xff] {
                        probe(&mut out, &d, &[a, b, c], false, "pool3");
                        probe(&mut out, &d, &[a, b, c, 0], false, "pool4");
                    }
                }
            }
        }
    }

    // (ii)-(iv) generated schemas: truncations, mutations, random bytes
    let mut done = 0;
    while done < n {
        let mut crng = rng.fork();
        let (text, schema) = gen_schema(&mut crng, max_depth);
        let rs = ResolvedSchema::new(&schema).unwrap();
        let names = rs.get_names();
        let vg = ValueGen { names, max_depth: max_depth + 2, gave_up: Default::default() };
        let d = Decoders { schema: &schema, names_s: wire::names_str(names), schema_s: wire::schema_str(&schema), text: &text, lim, szv, sze };
        let v = vg.value(&mut crng, &schema, None, 0);
        if vg.gave_up.get() {
            continue;
        }
        done += 1;
        let w = GenericDatumWriter::builder(&schema).validate(false).build().unwrap();
        let mut bytes = Vec::new();
        if w.write_value_ref(&mut bytes, &v).is_err() {
            continue;
        }
        // the valid encoding itself
        probe(&mut out, &d, &bytes, false, "valid");
        // truncations
        let cuts: Vec<usize> = if bytes.len() <= 48 { (0..bytes.len()).collect() } else { (0..24).map(|_| crng.below(bytes.len())).collect() };
        for c in cuts {
            probe(&mut out, &d, &bytes[..c], true, "trunc");
        }
        if !bytes.is_empty() {
            for _ in 0..6 {
                let mut m = bytes.clone();
                let i = crng.below(m.len());
                m[i] ^= 1 << crng.below(8);
                probe(&mut out, &d, &m, false, "bitflip");
            }
            for _ in 0..6 {
                let mut m = bytes.clone();
                let i = crng.below(m.len());
                m[i] = *crng.pick(BYTE_POOL);
                probe(&mut out, &d, &m, false, "bytesub");
            }
            // replace a byte by a boundary varint
            for _ in 0..3 {
                let mut m = bytes.clone();
                let i = crng.below(m.len());
                let ins: &[u8] = *crng.pick(&[
                    &[0xff, 0xff, 0xff, 0xff, 0xff, 0xff, 0xff, 0xff, 0xff, 0x01][..],
                    &[0xfe, 0xff, 0xff, 0xff, 0xff, 0xff, 0xff, 0xff, 0xff, 0x01][..],
                    &[0x80, 0x80, 0x80, 0x80, 0x80, 0x80, 0x80, 0x80, 0x80, 0x80, 0x01][..],
                    &[0xff, 0xff, 0xff, 0xff, 0x0f][..],
                    &[0x80, 0x00][..],
                    &[0x01, 0x00][..],
                    &[0x03, 0x08][..],
                ]);
                m.splice(i..i + 1, ins.iter().copied());
                probe(&mut out, &d, &m, false, "varint-splice");
            }
        }
        for _ in 0..2 {
            let len = crng.below(12);
            let r: Vec<u8> = (0..len).map(|_| if crng.chance(1, 2) { *crng.pick(BYTE_POOL) } else { crng.next() as u8 }).collect();
            probe(&mut out, &d, &r, false, "random");
        }
    }
    out.finish(dir, serde_json::json!({"lim": lim, "size_of_value": szv, "size_of_entry": sze, "cases": done}));
    0
}
