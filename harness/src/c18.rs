//! C18 (+ the Rabin half of C12): single-object messages.  Correspondence rows: `rabin::Rabin` ↔
//! `Avro.rabinDigest`, `RabinFingerprintHeader::build_header` ↔ `Avro.soHeader`, message bytes ↔
//! `SoWriter.write`, `GenericSingleObjectReader::read_value` ↔ `Avro.soRead`.
//! Oracle: every message is `C3 01 ++ LE(CRC-64-AVRO(canonical form)) ++ datum`, round-trips through
//! both readers also after earlier messages / failed writes on the same writer, and a message whose
//! header differs in any bit or is shorter than the header is rejected without being decoded.
use crate::anyshape::AnyShape;
use crate::c13::{Sink, Step};
use crate::genr::{ValueGen, gen_schema};
use crate::rng::Rng;
use crate::util::{Out, catch, value_eq};
use crate::wire;
use apache_avro::headers::{HeaderBuilder, RabinFingerprintHeader};
use apache_avro::rabin::Rabin;
use apache_avro::schema::{ResolvedSchema, Schema};
use apache_avro::types::Value;
use apache_avro::{AvroSchema, GenericSingleObjectReader, GenericSingleObjectWriter, SpecificSingleObjectWriter};

/// bit-serial CRC-64-AVRO, written independently of the crate (spec: schema fingerprints)
pub fn crc64_avro(bytes: &[u8]) -> u64 {
    const EMPTY: u64 = 0xC15D213AA4D7A795;
    let mut fp = EMPTY;
    for b in bytes {
        fp ^= *b as u64;
        for _ in 0..8 {
            fp = (fp >> 1) ^ (EMPTY & (0u64.wrapping_sub(fp & 1)));
        }
    }
    fp
}

/// a type whose schema says `string` but whose value is an int: validation must reject it
struct Liar;
impl AvroSchema for Liar {
    fn get_schema() -> Schema {
        Schema::String
    }
}
impl From<Liar> for Value {
    fn from(_: Liar) -> Value {
        Value::Int(7)
    }
}
struct Honest(String);
impl AvroSchema for Honest {
    fn get_schema() -> Schema {
        Schema::String
    }
}
impl From<Honest> for Value {
    fn from(h: Honest) -> Value {
        Value::String(h.0)
    }
}

pub fn run(args: &[String]) -> i32 {
    let dir = &args[0];
    let seed: u64 = args[1].parse().unwrap();
    let n: usize = args[2].parse().unwrap();
    let thorough = args.get(3).map(|s| s == "1").unwrap_or(false);
    let lim = apache_avro::util::max_allocation_bytes(64 * 1024 * 1024);
    let szv = std::mem::size_of::<Value>();
    let sze = std::mem::size_of::<(String, Value)>();
    let mut out = Out::new(dir);
    crate::util::watchdog(dir, 10000);
    let mut rng = Rng::new(seed);
    use digest::Digest;

    // Rabin on all byte strings of length <= 2 (thorough) / <= 1 + pools, and random longer ones
    let mut inputs: Vec<Vec<u8>> = vec![vec![]];
    for a in 0..=255u8 {
        inputs.push(vec![a]);
    }
    if thorough {
        for a in 0..=255u8 {
            for b in 0..=255u8 {
                inputs.push(vec![a, b]);
            }
        }
    } else {
        for a in (0..=255u8).step_by(5) {
            for b in [0u8, 1, 0x7f, 0x80, 0xff] {
                inputs.push(vec![a, b]);
            }
        }
    }
    for _ in 0..(if thorough { 4000 } else { 400 }) {
        let len = 3 + rng.below(200);
        inputs.push((0..len).map(|_| rng.next() as u8).collect());
    }
    for input in &inputs {
        let mut h = Rabin::new();
        h.update(input);
        let d = h.finalize();
        out.pair(&format!("rabin {}", wire::hex(input)), &wire::hex(&d));
        if d[..] != crc64_avro(input).to_le_bytes() {
            out.oracle_fail("rabin-differs-from-crc64-avro", &format!("digest {} reference {:016x} (LE)", wire::hex(&d), crc64_avro(input)), &wire::hex(input));
        }
        // the same digest in every run / instance
        let mut h2 = Rabin::new();
        for b in input {
            h2.update([*b]);
        }
        if h2.finalize() != d {
            out.oracle_fail("rabin-not-incremental", "byte-wise update differs from one update", &wire::hex(input));
        }
    }

    // specific writer: a value validation rejects must not leave bytes in the output
    {
        let w = SpecificSingleObjectWriter::<Liar>::new().unwrap();
        let mut sink = Vec::new();
        let r = catch(|| w.write_value(Liar, &mut sink));
        match r {
            Ok(Err(_)) if sink.is_empty() => {}
            Ok(Err(_)) => out.oracle_fail("rejected-value-leaves-bytes", &format!("SpecificSingleObjectWriter::write_value returned Err but {} bytes reached the output: {}", sink.len(), wire::hex(&sink)), "type Liar (schema string, value Int 7)"),
            Ok(Ok(_)) => out.oracle_fail("invalid-value-accepted", "a value that does not validate was written", "type Liar"),
            Err(()) => out.oracle_fail("panic", "specific writer panicked", "type Liar"),
        }
        let w = SpecificSingleObjectWriter::<Honest>::new().unwrap();
        let mut sink = Vec::new();
        let c = w.write_value(Honest("héllo".into()), &mut sink).unwrap_or(0);
        if c != sink.len() {
            out.oracle_fail("count-mismatch", &format!("write_value returned {c}, {} bytes written", sink.len()), "type Honest");
        }
        let rd = GenericSingleObjectReader::builder().schema(Schema::String).build().unwrap();
        match rd.read_value(&mut &sink[..]) {
            Ok(Value::String(s)) if s == "héllo" => {}
            other => out.oracle_fail("specific-roundtrip", &format!("{other:?}"), "type Honest"),
        }
    }

    let mut done = 0;
    while done < n {
        let mut crng = rng.fork();
        let (text, schema) = gen_schema(&mut crng, 3);
        let rs = ResolvedSchema::new(&schema).unwrap();
        let names = rs.get_names();
        let vg = ValueGen { names, max_depth: 4, gave_up: Default::default() };
        let vals: Vec<Value> = (0..5).map(|_| vg.value(&mut crng, &schema, None, 0)).collect();
        if vg.gave_up.get() {
            continue;
        }
        done += 1;
        let short = crate::util::trunc(&text, 300);
        let pcf = schema.canonical_form();
        let header = RabinFingerprintHeader::from_schema(&schema).build_header();
        out.pair(&format!("sohdr {}", wire::hex(pcf.as_bytes())), &wire::hex(&header));
        // spec: C3 01 + LE CRC-64-AVRO of the canonical form
        let mut want = vec![0xC3, 0x01];
        want.extend_from_slice(&crc64_avro(pcf.as_bytes()).to_le_bytes());
        if header != want {
            out.oracle_fail("header-not-spec", &format!("header {} expected {}", wire::hex(&header), wire::hex(&want)), short);
        }
        let names_s = wire::names_str(names);
        let schema_s = wire::schema_str(&schema);
        let rd = GenericSingleObjectReader::builder().schema(schema.clone()).build().unwrap();
        let mut w = GenericSingleObjectWriter::new_with_capacity(&schema, 16).unwrap();
        // a history through ONE writer: good values of different lengths, a rejected value, failing sinks
        let bad = if matches!(schema, Schema::Record(_)) { Value::Int(1) } else { Value::Record(vec![("zz".into(), Value::Null)]) };
        let bad_rejected = !bad.validate(&schema);
        let mut history = vec![];
        for (i, v) in vals.iter().enumerate() {
            let kind = crng.below(5);
            if kind == 0 && bad_rejected {
                // a value validation rejects
                let mut sink = Vec::new();
                let r = catch(|| w.write_value_ref(&bad, &mut sink));
                history.push("rejected");
                match r {
                    Ok(Err(_)) if sink.is_empty() => {}
                    Ok(Err(_)) => out.oracle_fail("rejected-value-leaves-bytes", &format!("{} bytes reached the output", sink.len()), short),
                    Ok(Ok(_)) => out.oracle_fail("invalid-value-accepted", "rejected value written", short),
                    Err(()) => out.oracle_fail("panic", "writer panicked", short),
                }
            } else if kind == 1 {
                // a sink that fails (possibly after taking part of the message)
                let script = if crng.chance(1, 2) { vec![Step::Fail(false)] } else { vec![Step::Accept(3), Step::Fail(false)] };
                let mut sink = Sink::new(script, None);
                let r = catch(|| w.write_value_ref(v, &mut sink));
                history.push("sink-error");
                if let Ok(Ok(_)) = r {
                    out.oracle_fail("sink-error-swallowed", "write reported success on a failing sink", short);
                }
            }
            // now a good message: must be exactly header ++ datum whatever happened before
            let mut sink = Vec::new();
            let r = catch(|| w.write_value_ref(v, &mut sink));
            history.push("good");
            let case = format!("schema={short} message #{i} after history {history:?} value={}", crate::util::trunc(&wire::value_str(v, true), 200).to_string());
            match r {
                Ok(Ok(count)) => {
                    out.pair(&format!("somsg {} {names_s} {schema_s} {}", wire::hex(pcf.as_bytes()), wire::value_str(v, false)), &format!("ok {}", wire::hex(&sink)));
                    if count != sink.len() {
                        out.oracle_fail("count-mismatch", &format!("returned {count}, wrote {}", sink.len()), &case);
                    }
                    if !sink.starts_with(&want) {
                        out.oracle_fail("message-header", &format!("message starts with {}", wire::hex(&sink[..sink.len().min(10)])), &case);
                    }
                    // independently decodable through both readers
                    let mut s1 = &sink[..];
                    match catch(|| rd.read_value(&mut s1)) {
                        Ok(Ok(back)) if value_eq(&back, v) && s1.is_empty() => {}
                        Ok(Ok(back)) => out.oracle_fail("message-roundtrip", &format!("generic reader returned {} (rest {})", wire::value_str(&back, true), s1.len()), &case),
                        Ok(Err(e)) => out.oracle_fail("message-roundtrip", &format!("generic reader: {e}"), &case),
                        Err(()) => out.oracle_fail("panic", "reader panicked", &case),
                    }
                    let mut s2 = &sink[..];
                    match catch(|| rd.read_deser::<AnyShape>(&mut s2)) {
                        Ok(Ok(_)) if s2.is_empty() => {}
                        Ok(Ok(_)) => out.oracle_fail("message-roundtrip", &format!("typed reader left {} bytes", s2.len()), &case),
                        Ok(Err(e)) => out.oracle_fail("message-roundtrip", &format!("typed reader: {e}"), &case),
                        Err(()) => out.oracle_fail("panic", "typed reader panicked", &case),
                    }
                    // header alterations and truncations (first message of each schema; all in thorough)
                    if i == 0 || thorough {
                        let mut variants: Vec<(Vec<u8>, String)> = vec![];
                        for bit in 0..80 {
                            let mut m = sink.clone();
                            m[bit / 8] ^= 1 << (bit % 8);
                            variants.push((m, format!("header bit {bit} flipped")));
                        }
                        for k in 0..10.min(sink.len()) {
                            variants.push((sink[..k].to_vec(), format!("truncated to {k} bytes")));
                        }
                        for (m, what) in variants {
                            let mut s = &m[..];
                            let res = catch(|| rd.read_value(&mut s));
                            let line = match &res {
                                Ok(Ok(v)) => {
                                    out.oracle_fail("foreign-message-decoded", &format!("{what}: decoded {}", wire::value_str(v, true)), &case);
                                    format!("ok {} {}", wire::value_str(v, true), s.len())
                                }
                                Ok(Err(_)) => "err".to_string(),
                                Err(()) => {
                                    out.oracle_fail("panic", &format!("{what}: reader panicked"), &case);
                                    "err panic".to_string()
                                }
                            };
                            out.pair(&format!("sord {} {lim} {szv} {sze} {names_s} {schema_s} {}", wire::hex(pcf.as_bytes()), wire::hex(&m)), &line);
                            let mut s = &m[..];
                            if let Ok(Ok(_)) = catch(|| rd.read_deser::<AnyShape>(&mut s)) {
                                out.oracle_fail("foreign-message-decoded", &format!("{what}: typed reader accepted"), &case);
                            }
                        }
                    }
                }
                Ok(Err(e)) => out.oracle_fail("good-value-rejected", &format!("{e}"), &case),
                Err(()) => out.oracle_fail("panic", "writer panicked", &case),
            }
        }
    }
    out.finish(dir, serde_json::json!({"schemas": done}));
    0
}
