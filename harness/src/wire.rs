//! Line-protocol printers (DESIGN.md Appendix B).  The same grammar is printed by the Lean driver.
use apache_avro::schema::{
    DecimalSchema, InnerDecimalSchema, Name, NamesRef, Schema, UuidSchema,
};
use apache_avro::types::Value;
use std::fmt::Write;

pub fn hex(b: &[u8]) -> String {
    let mut s = String::with_capacity(1 + 2 * b.len());
    s.push('x');
    for x in b {
        write!(s, "{x:02x}").unwrap();
    }
    s
}

pub fn unhex(s: &str) -> Option<Vec<u8>> {
    let s = s.strip_prefix('x')?;
    if s.len() % 2 != 0 {
        return None;
    }
    (0..s.len() / 2)
        .map(|i| u8::from_str_radix(&s[2 * i..2 * i + 2], 16).ok())
        .collect()
}

pub fn json_pub(j: &serde_json::Value, out: &mut String) {
    json(j, out)
}

fn json(j: &serde_json::Value, out: &mut String) {
    use serde_json::Value as J;
    match j {
        J::Null => out.push_str("jnull"),
        J::Bool(true) => out.push_str("jtrue"),
        J::Bool(false) => out.push_str("jfalse"),
        J::Number(n) => {
            if let Some(i) = n.as_i64() {
                write!(out, "(ji {i})").unwrap();
            } else if let Some(u) = n.as_u64() {
                write!(out, "(ji {u})").unwrap();
            } else {
                write!(out, "(jf {})", n.as_f64().unwrap().to_bits()).unwrap();
            }
        }
        J::String(s) => write!(out, "(js {})", hex(s.as_bytes())).unwrap(),
        J::Array(xs) => {
            out.push_str("(ja");
            for x in xs {
                out.push(' ');
                json(x, out);
            }
            out.push(')');
        }
        J::Object(m) => {
            out.push_str("(jo");
            for (k, v) in m {
                write!(out, " ({} ", hex(k.as_bytes())).unwrap();
                json(v, out);
                out.push(')');
            }
            out.push(')');
        }
    }
}

fn fq(name: &Name, enclosing: Option<&str>) -> Name {
    name.fully_qualified_name(enclosing).into_owned()
}

/// Print a schema with every definition and reference fully qualified, tracking the enclosing
/// namespace exactly like `schema::resolve::resolve_names` / `decode_internal` do.
pub fn schema(s: &Schema, enclosing: Option<&str>, out: &mut String) {
    match s {
        Schema::Null => out.push_str("null"),
        Schema::Boolean => out.push_str("boolean"),
        Schema::Int => out.push_str("int"),
        Schema::Long => out.push_str("long"),
        Schema::Float => out.push_str("float"),
        Schema::Double => out.push_str("double"),
        Schema::Bytes => out.push_str("bytes"),
        Schema::String => out.push_str("string"),
        Schema::Date => out.push_str("date"),
        Schema::TimeMillis => out.push_str("time-millis"),
        Schema::TimeMicros => out.push_str("time-micros"),
        Schema::TimestampMillis => out.push_str("ts-millis"),
        Schema::TimestampMicros => out.push_str("ts-micros"),
        Schema::TimestampNanos => out.push_str("ts-nanos"),
        Schema::LocalTimestampMillis => out.push_str("lts-millis"),
        Schema::LocalTimestampMicros => out.push_str("lts-micros"),
        Schema::LocalTimestampNanos => out.push_str("lts-nanos"),
        Schema::BigDecimal => out.push_str("bigdecimal"),
        Schema::Uuid(UuidSchema::String) => out.push_str("uuid-string"),
        Schema::Uuid(UuidSchema::Bytes) => out.push_str("uuid-bytes"),
        Schema::Uuid(UuidSchema::Fixed(f)) => {
            write!(out, "(uuid-fixed {} {})", hex(fq(&f.name, enclosing).to_string().as_bytes()), f.size).unwrap()
        }
        Schema::Duration(f) => {
            write!(out, "(duration {} {})", hex(fq(&f.name, enclosing).to_string().as_bytes()), f.size).unwrap()
        }
        Schema::Fixed(f) => {
            write!(out, "(fixed {} {})", hex(fq(&f.name, enclosing).to_string().as_bytes()), f.size).unwrap()
        }
        Schema::Decimal(DecimalSchema { precision, scale, inner }) => {
            write!(out, "(decimal {precision} {scale} ").unwrap();
            match inner {
                InnerDecimalSchema::Bytes => out.push_str("bytes"),
                InnerDecimalSchema::Fixed(f) => write!(
                    out,
                    "(fixed {} {})",
                    hex(fq(&f.name, enclosing).to_string().as_bytes()),
                    f.size
                )
                .unwrap(),
            }
            out.push(')');
        }
        Schema::Array(a) => {
            out.push_str("(array ");
            schema(&a.items, enclosing, out);
            out.push(')');
        }
        Schema::Map(m) => {
            out.push_str("(map ");
            schema(&m.types, enclosing, out);
            out.push(')');
        }
        Schema::Union(u) => {
            out.push_str("(union");
            for b in u.variants() {
                out.push(' ');
                schema(b, enclosing, out);
            }
            out.push(')');
        }
        Schema::Enum(e) => {
            write!(out, "(enum {} (", hex(fq(&e.name, enclosing).to_string().as_bytes())).unwrap();
            for (i, sym) in e.symbols.iter().enumerate() {
                if i > 0 {
                    out.push(' ');
                }
                out.push_str(&hex(sym.as_bytes()));
            }
            out.push_str(") ");
            match &e.default {
                Some(d) => out.push_str(&hex(d.as_bytes())),
                None => out.push_str("nodefault"),
            }
            out.push(')');
        }
        Schema::Record(r) => {
            let name = fq(&r.name, enclosing);
            write!(out, "(record {}", hex(name.to_string().as_bytes())).unwrap();
            let ns = name.namespace().map(|s| s.to_string());
            for f in &r.fields {
                write!(out, " (field {} (", hex(f.name.as_bytes())).unwrap();
                for (i, a) in f.aliases.iter().enumerate() {
                    if i > 0 {
                        out.push(' ');
                    }
                    out.push_str(&hex(a.as_bytes()));
                }
                out.push_str(") ");
                match &f.default {
                    Some(d) => json(d, out),
                    None => out.push_str("nodefault"),
                }
                out.push(' ');
                schema(&f.schema, ns.as_deref(), out);
                out.push(')');
            }
            out.push(')');
        }
        Schema::Ref { name } => {
            write!(out, "(ref {})", hex(fq(name, enclosing).to_string().as_bytes())).unwrap()
        }
    }
}

pub fn schema_str(s: &Schema) -> String {
    let mut out = String::new();
    schema(s, None, &mut out);
    out
}

/// The names table of a `ResolvedSchema`, sorted by name (the model's lookups do not depend on
/// the order; sorting makes the line deterministic).
pub fn names_str(names: &NamesRef) -> String {
    let mut entries: Vec<(String, String)> = names
        .iter()
        .map(|(n, s)| {
            let mut out = String::new();
            schema(s, n.namespace(), &mut out);
            (n.to_string(), out)
        })
        .collect();
    entries.sort();
    let mut out = String::from("(");
    for (i, (n, s)) in entries.iter().enumerate() {
        if i > 0 {
            out.push(' ');
        }
        write!(out, "({} {})", hex(n.as_bytes()), s).unwrap();
    }
    out.push(')');
    out
}

/// Print a value.  `sort_maps`: canonical output (sorted by key) vs. the iteration order of the
/// very `HashMap` instance (what the encoder will see).
pub fn value(v: &Value, sort_maps: bool, out: &mut String) {
    match v {
        Value::Null => out.push('n'),
        Value::Boolean(b) => write!(out, "(b {})", u8::from(*b)).unwrap(),
        Value::Int(i) => write!(out, "(i {i})").unwrap(),
        Value::Long(i) => write!(out, "(l {i})").unwrap(),
        Value::Float(x) => write!(out, "(f {})", x.to_bits()).unwrap(),
        Value::Double(x) => write!(out, "(d {})", x.to_bits()).unwrap(),
        Value::Bytes(b) => write!(out, "(by {})", hex(b)).unwrap(),
        Value::String(s) => write!(out, "(s {})", hex(s.as_bytes())).unwrap(),
        Value::Fixed(n, b) => write!(out, "(fx {n} {})", hex(b)).unwrap(),
        Value::Enum(i, s) => write!(out, "(en {i} {})", hex(s.as_bytes())).unwrap(),
        Value::Union(i, v) => {
            write!(out, "(un {i} ").unwrap();
            value(v, sort_maps, out);
            out.push(')');
        }
        Value::Array(vs) => {
            out.push_str("(ar");
            for v in vs {
                out.push(' ');
                value(v, sort_maps, out);
            }
            out.push(')');
        }
        Value::Map(m) => {
            out.push_str("(mp");
            let mut entries: Vec<(&String, &Value)> = m.iter().collect();
            if sort_maps {
                entries.sort_by(|a, b| a.0.as_bytes().cmp(b.0.as_bytes()));
            }
            for (k, v) in entries {
                write!(out, " ({} ", hex(k.as_bytes())).unwrap();
                value(v, sort_maps, out);
                out.push(')');
            }
            out.push(')');
        }
        Value::Record(fs) => {
            out.push_str("(rc");
            for (k, v) in fs {
                write!(out, " ({} ", hex(k.as_bytes())).unwrap();
                value(v, sort_maps, out);
                out.push(')');
            }
            out.push(')');
        }
        Value::Date(i) => write!(out, "(date {i})").unwrap(),
        Value::TimeMillis(i) => write!(out, "(time-millis {i})").unwrap(),
        Value::TimeMicros(i) => write!(out, "(time-micros {i})").unwrap(),
        Value::TimestampMillis(i) => write!(out, "(ts-millis {i})").unwrap(),
        Value::TimestampMicros(i) => write!(out, "(ts-micros {i})").unwrap(),
        Value::TimestampNanos(i) => write!(out, "(ts-nanos {i})").unwrap(),
        Value::LocalTimestampMillis(i) => write!(out, "(lts-millis {i})").unwrap(),
        Value::LocalTimestampMicros(i) => write!(out, "(lts-micros {i})").unwrap(),
        Value::LocalTimestampNanos(i) => write!(out, "(lts-nanos {i})").unwrap(),
        Value::Decimal(d) => {
            // `Decimal` exposes its (value, len) only through its byte form: `len` is the length of
            // `to_vec()`; the value is read back with num-bigint.
            let big: num_bigint::BigInt = d.clone().into();
            let len = decimal_len(d);
            write!(out, "(dec {big} {len})").unwrap()
        }
        Value::BigDecimal(bd) => {
            let (u, sc) = bd.as_bigint_and_exponent();
            write!(out, "(bigdec {u} {sc})").unwrap()
        }
        Value::Duration(d) => {
            let (m, dd, ms): (u32, u32, u32) = (d.months().into(), d.days().into(), d.millis().into());
            write!(out, "(dur {m} {dd} {ms})").unwrap()
        }
        Value::Uuid(u) => write!(out, "(uuid {})", hex(u.as_bytes())).unwrap(),
    }
}

/// `Decimal::len` is crate-private; the Debug output prints it.
pub fn decimal_len(d: &apache_avro::Decimal) -> usize {
    let dbg = format!("{d:?}");
    // Decimal { value: ..., len: N }
    dbg.rsplit("len: ")
        .next()
        .and_then(|t| t.trim_end_matches(|c: char| !c.is_ascii_digit()).parse().ok())
        .expect("Decimal debug format")
}

pub fn value_str(v: &Value, sort_maps: bool) -> String {
    let mut out = String::new();
    value(v, sort_maps, &mut out);
    out
}
