//! C16: the serde path and the generic-value path produce and accept the same bytes.
//!
//! Rows (exact): `sser <block size> <names> <schema> <recorded serde calls>` = `write_ser` bytes and
//! returned count ↔ `Avro.serS`, for the fragment the model covers.  Oracle (every corpus type, also
//! outside the fragment): `read_deser(write_ser(x)) = x`; the generic decoder reads exactly one
//! conforming datum; the returned count is the number of bytes emitted; and - where the two mappings
//! coincide - `to_value(x).resolve(schema)` encodes to a datum that decodes to the same value, and
//! `from_value` of the generically decoded value gives `x` back.
use crate::rng::Rng;
use crate::serrec::{Rec, rec_str, record};
use crate::util::{Out, catch, trunc, value_eq};
use crate::wire;
use apache_avro::reader::datum::GenericDatumReader;
use apache_avro::schema::{ResolvedSchema, Schema};
use apache_avro::writer::datum::GenericDatumWriter;
use apache_avro::{AvroSchema, from_value, to_value};
use serde::de::DeserializeOwned;
use serde::{Deserialize, Serialize};
use std::collections::HashMap;

// ---------------------------------------------------------------------------------------------
// corpus

#[derive(Serialize, Deserialize, AvroSchema, Debug, Clone)]
struct Scalars {
    a: bool,
    b: i8,
    c: i16,
    d: i32,
    e: i64,
    f: u8,
    g: u16,
    h: u32,
    i: f32,
    j: f64,
    k: char,
    l: String,
}

#[derive(Serialize, Deserialize, AvroSchema, Debug, Clone)]
enum Suit {
    Clubs,
    Hearts,
    Spades,
}

/// a unit-only enum with a skipped variant in the middle: serde's variant index runs ahead of the symbol index
#[derive(Serialize, Deserialize, AvroSchema, Debug, Clone)]
enum Card {
    Spades,
    #[serde(skip)]
    Joker,
    Hearts,
    Diamonds,
    Clubs,
}

#[derive(Serialize, Deserialize, AvroSchema, Debug, Clone)]
struct Hand {
    first: Card,
    rest: Vec<Card>,
    maybe: Option<Card>,
}

#[derive(Serialize, Deserialize, AvroSchema, Debug, Clone)]
struct Inner {
    x: i32,
    y: Option<String>,
}

#[derive(Serialize, Deserialize, AvroSchema, Debug, Clone)]
struct Wrapper(i64);

#[derive(Serialize, Deserialize, AvroSchema, Debug, Clone)]
struct Pair(i32, String);

#[derive(Serialize, Deserialize, AvroSchema, Debug, Clone)]
struct Nothing;

#[derive(Serialize, Deserialize, AvroSchema, Debug, Clone)]
struct Collections {
    opt_int: Option<i32>,
    opt_vec: Option<Vec<i64>>,
    longs: Vec<i64>,
    strings: Vec<String>,
    nested: Vec<Vec<i32>>,
    inners: Vec<Inner>,
    map: HashMap<String, i32>,
    tree: HashMap<String, Vec<String>>,
    opt_inner: Option<Inner>,
    suit: Suit,
    suits: Vec<Suit>,
    #[avro(with = apache_avro::serde::bytes::get_schema_in_ctxt)]
    #[serde(with = "apache_avro::serde::bytes")]
    raw: Vec<u8>,
}

#[derive(Serialize, Deserialize, AvroSchema, Debug, Clone)]
struct Shapes {
    pair: Pair,
    nothing: Nothing,
    wrapped: Wrapper,
    wrappeds: Vec<Wrapper>,
    deep: Option<Vec<HashMap<String, Option<Inner>>>>,
}

/// items that take no bytes on the wire (the block writers must count items, not bytes)
#[derive(Serialize, Deserialize, AvroSchema, Debug, Clone)]
struct Empties {
    before: i32,
    units: Vec<()>,
    nothings: Vec<Nothing>,
    unit_map: HashMap<String, ()>,
    after: i32,
}

/// tuples (the derive does not support them: the schema is written by hand)
#[derive(Serialize, Deserialize, Debug, Clone)]
struct Tups {
    unit: (),
    tup: (i32, String),
    one: (i64,),
    list: Vec<(bool, f64)>,
}

const TUPS_SCHEMA: &str = r#"{"type":"record","name":"Tups","fields":[
  {"name":"unit","type":"null"},
  {"name":"tup","type":{"type":"record","name":"T2","fields":[{"name":"f0","type":"int"},{"name":"f1","type":"string"}]}},
  {"name":"one","type":"long"},
  {"name":"list","type":{"type":"array","items":{"type":"record","name":"T2b","fields":[{"name":"f0","type":"boolean"},{"name":"f1","type":"double"}]}}}]}"#;

/// skipped and defaulted fields
#[derive(Serialize, Deserialize, AvroSchema, Debug, Clone)]
struct Skippy {
    keep: i32,
    #[serde(skip_serializing_if = "Option::is_none", default)]
    #[avro(default = "null")]
    maybe: Option<i64>,
    #[serde(skip_serializing_if = "Vec::is_empty", default)]
    #[avro(default = "[]")]
    list: Vec<String>,
    #[serde(skip_serializing_if = "is_zero", default)]
    #[avro(default = "0")]
    zero: i32,
    tail: String,
}

fn is_zero(n: &i32) -> bool {
    *n == 0
}

/// beyond the modelled fragment (oracle only)
#[derive(Serialize, Deserialize, AvroSchema, Debug, Clone)]
enum Shape {
    Circle(f64),
    Rect { w: i32, h: i32 },
    Empty,
    Line(i32, i32),
}

#[derive(Serialize, Deserialize, AvroSchema, Debug, Clone)]
struct Beyond {
    shapes: Vec<Shape>,
    count: i32,
}

// ---------------------------------------------------------------------------------------------
// generators

trait Gen: Sized {
    fn make(rng: &mut Rng) -> Self;
}

fn small_string(rng: &mut Rng) -> String {
    let pool = ["", "a", "héllo", "日本", "x\u{0}y", "the quick brown fox jumps over the lazy dog 0123456789"];
    if rng.chance(1, 3) { crate::genr::gen_string(rng) } else { (*rng.pick(&pool)).to_string() }
}

fn gen_f64(rng: &mut Rng) -> f64 {
    *rng.pick(&[0.0, -0.0, 1.5, -2.25e10, f64::MAX, f64::MIN_POSITIVE, f64::INFINITY, f64::NEG_INFINITY, 1e-320])
}

fn vec_of<T>(rng: &mut Rng, max: usize, mut f: impl FnMut(&mut Rng) -> T) -> Vec<T> {
    let n = *rng.pick(&[0usize, 0, 1, 2, 3, max]);
    (0..n).map(|_| f(rng)).collect()
}

impl Gen for Inner {
    fn make(rng: &mut Rng) -> Self {
        Inner { x: crate::genr::gen_int(rng), y: if rng.chance(1, 2) { Some(small_string(rng)) } else { None } }
    }
}

impl Gen for Card {
    fn make(rng: &mut Rng) -> Self {
        match rng.below(4) {
            0 => Card::Spades,
            1 => Card::Hearts,
            2 => Card::Diamonds,
            _ => Card::Clubs,
        }
    }
}

impl Gen for Hand {
    fn make(rng: &mut Rng) -> Self {
        Hand { first: Card::make(rng), rest: vec_of(rng, 5, Card::make), maybe: if rng.chance(1, 2) { Some(Card::make(rng)) } else { None } }
    }
}

impl Gen for Suit {
    fn make(rng: &mut Rng) -> Self {
        match rng.below(3) {
            0 => Suit::Clubs,
            1 => Suit::Hearts,
            _ => Suit::Spades,
        }
    }
}

impl Gen for Scalars {
    fn make(rng: &mut Rng) -> Self {
        Scalars {
            a: rng.chance(1, 2),
            b: *rng.pick(&[0i8, 1, -1, 63, 64, -64, -65, i8::MAX, i8::MIN]),
            c: *rng.pick(&[0i16, -1, 8191, 8192, -8192, -8193, i16::MAX, i16::MIN]),
            d: crate::genr::gen_int(rng),
            e: crate::genr::gen_long(rng),
            f: *rng.pick(&[0u8, 1, 63, 64, 127, 128, 255]),
            g: *rng.pick(&[0u16, 8191, 8192, 65535]),
            h: *rng.pick(&[0u32, 1, 1 << 31, u32::MAX, 1048576]),
            i: *rng.pick(&[0.0f32, -0.0, 1.5, f32::MAX, f32::MIN_POSITIVE, f32::INFINITY]),
            j: gen_f64(rng),
            k: *rng.pick(&['a', '\0', 'é', '日', '\u{1F600}', '\u{10FFFF}']),
            l: small_string(rng),
        }
    }
}

impl Gen for Collections {
    fn make(rng: &mut Rng) -> Self {
        Collections {
            opt_int: if rng.chance(1, 2) { Some(crate::genr::gen_int(rng)) } else { None },
            opt_vec: if rng.chance(1, 2) { Some(vec_of(rng, 5, crate::genr::gen_long)) } else { None },
            longs: vec_of(rng, 300, crate::genr::gen_long),
            strings: vec_of(rng, 40, small_string),
            nested: vec_of(rng, 4, |r| vec_of(r, 6, crate::genr::gen_int)),
            inners: vec_of(rng, 5, Inner::make),
            map: vec_of(rng, 6, |r| (small_string(r), crate::genr::gen_int(r))).into_iter().collect(),
            tree: vec_of(rng, 4, |r| (small_string(r), vec_of(r, 3, small_string))).into_iter().collect(),
            opt_inner: if rng.chance(1, 2) { Some(Inner::make(rng)) } else { None },
            suit: Suit::make(rng),
            suits: vec_of(rng, 5, Suit::make),
            raw: crate::genr::gen_bytes(rng),
        }
    }
}

impl Gen for Shapes {
    fn make(rng: &mut Rng) -> Self {
        Shapes {
            pair: Pair(crate::genr::gen_int(rng), small_string(rng)),
            nothing: Nothing,
            wrapped: Wrapper(crate::genr::gen_long(rng)),
            wrappeds: vec_of(rng, 3, |r| Wrapper(crate::genr::gen_long(r))),
            deep: if rng.chance(2, 3) {
                Some(vec_of(rng, 3, |r| vec_of(r, 3, |r| (small_string(r), if r.chance(1, 2) { Some(Inner::make(r)) } else { None })).into_iter().collect()))
            } else {
                None
            },
        }
    }
}

impl Gen for Empties {
    fn make(rng: &mut Rng) -> Self {
        Empties {
            before: crate::genr::gen_int(rng),
            units: vec_of(rng, 5, |_| ()),
            nothings: vec_of(rng, 5, |_| Nothing),
            unit_map: vec_of(rng, 4, |r| (small_string(r), ())).into_iter().collect(),
            after: crate::genr::gen_int(rng),
        }
    }
}

impl Gen for Tups {
    fn make(rng: &mut Rng) -> Self {
        Tups { unit: (), tup: (crate::genr::gen_int(rng), small_string(rng)), one: (crate::genr::gen_long(rng),), list: vec_of(rng, 4, |r| (r.chance(1, 2), gen_f64(r))) }
    }
}

impl Gen for Skippy {
    fn make(rng: &mut Rng) -> Self {
        Skippy {
            keep: crate::genr::gen_int(rng),
            maybe: if rng.chance(1, 2) { Some(crate::genr::gen_long(rng)) } else { None },
            list: if rng.chance(1, 2) { vec_of(rng, 3, small_string) } else { vec![] },
            zero: if rng.chance(1, 2) { 0 } else { crate::genr::gen_int(rng) },
            tail: small_string(rng),
        }
    }
}

impl Gen for Shape {
    fn make(rng: &mut Rng) -> Self {
        match rng.below(4) {
            0 => Shape::Circle(gen_f64(rng)),
            1 => Shape::Rect { w: crate::genr::gen_int(rng), h: crate::genr::gen_int(rng) },
            2 => Shape::Empty,
            _ => Shape::Line(crate::genr::gen_int(rng), crate::genr::gen_int(rng)),
        }
    }
}

impl Gen for Beyond {
    fn make(rng: &mut Rng) -> Self {
        Beyond { shapes: vec_of(rng, 4, Shape::make), count: crate::genr::gen_int(rng) }
    }
}

// ---------------------------------------------------------------------------------------------

/// maps in a canonical order (a deserialized `HashMap` iterates in another order than the original)
fn normal(r: &Rec) -> Rec {
    match r {
        Rec::Some(v) => Rec::Some(Box::new(normal(v))),
        Rec::NewtypeStruct(n, v) => Rec::NewtypeStruct(n.clone(), Box::new(normal(v))),
        Rec::NewtypeVariant(n, i, k, v) => Rec::NewtypeVariant(n.clone(), *i, k.clone(), Box::new(normal(v))),
        Rec::Seq(l, xs) => Rec::Seq(*l, xs.iter().map(normal).collect()),
        Rec::Tuple(xs) => Rec::Tuple(xs.iter().map(normal).collect()),
        Rec::TupleStruct(n, xs) => Rec::TupleStruct(n.clone(), xs.iter().map(normal).collect()),
        Rec::TupleVariant(n, i, k, xs) => Rec::TupleVariant(n.clone(), *i, k.clone(), xs.iter().map(normal).collect()),
        Rec::Map(l, es) => {
            let mut es: Vec<(Rec, Rec)> = es.iter().map(|(k, v)| (normal(k), normal(v))).collect();
            es.sort_by_key(|(k, _)| format!("{k:?}"));
            Rec::Map(*l, es)
        }
        Rec::Struct(n, fs) => Rec::Struct(n.clone(), fs.iter().map(|(k, v)| (k.clone(), v.as_ref().map(normal))).collect()),
        Rec::StructVariant(n, i, k, fs) => Rec::StructVariant(n.clone(), *i, k.clone(), fs.iter().map(|(a, v)| (a.clone(), v.as_ref().map(normal))).collect()),
        other => other.clone(),
    }
}

/// permute the fields of the top-level record of a schema (the Rust type then gives them "out of order")
fn permuted(schema: &Schema, rng: &mut Rng) -> Option<Schema> {
    let mut j: serde_json::Value = serde_json::to_value(schema).ok()?;
    let fields = j.get_mut("fields")?.as_array_mut()?;
    if fields.len() < 2 {
        return None;
    }
    // moving a field that DEFINES a named type behind one that references it would break the schema text
    let i = rng.below(fields.len());
    let f = fields.remove(i);
    let at = rng.below(fields.len() + 1);
    fields.insert(at, f);
    Schema::parse(&j).ok()
}

fn one_type<T: Serialize + DeserializeOwned + Gen + std::fmt::Debug>(out: &mut Out, rng: &mut Rng, n: usize, tname: &str, in_fragment: bool, coincide: bool, get: fn() -> Schema) {
    let derived = match catch(get) {
        Ok(s) => s,
        Err(()) => {
            out.oracle_fail("panic", &format!("{tname}::get_schema panicked"), tname);
            return;
        }
    };
    for case_i in 0..n {
        let x = T::make(rng);
        // the derived schema, or the same with its fields in another order
        let schema = if case_i % 3 == 2 { permuted(&derived, rng).unwrap_or_else(|| derived.clone()) } else { derived.clone() };
        let Ok(rs) = ResolvedSchema::new(&schema) else { continue };
        let names_s = wire::names_str(rs.get_names());
        let schema_s = wire::schema_str(&schema);
        let Ok(rec) = record(&x) else { continue };
        for tbs in [None, Some(1usize), Some(16), Some(4096)] {
            out.count(&format!("type_{tname}"));
            let case = format!("type={tname} block={tbs:?} schema={} value={}", trunc(&schema.canonical_form(), 300), trunc(&format!("{x:?}"), 300));
            crate::util::begin_case(&case);
            let w = GenericDatumWriter::builder(&schema).maybe_target_block_size(tbs).human_readable(false).build().unwrap();
            let mut bytes = Vec::new();
            let r = catch(|| w.write_ser(&mut bytes, &x));
            let tbs_s = tbs.map(|t| t.to_string()).unwrap_or("-".into());
            if in_fragment {
                let mut rs_s = String::new();
                if rec_str(&rec, &mut rs_s) {
                    out.pair(&format!("sser {tbs_s} {names_s} {schema_s} {rs_s}"), &match &r {
                        Ok(Ok(nw)) => format!("ok {} {nw}", wire::hex(&bytes)),
                        Ok(Err(_)) => "err".to_string(),
                        Err(()) => "err panic".to_string(),
                    });
                }
            }
            let nw = match r {
                Ok(Ok(nw)) => nw,
                Ok(Err(e)) => {
                    out.oracle_fail("serialize-fails", &format!("write_ser fails on a value of a type matching the schema: {e}"), &case);
                    continue;
                }
                Err(()) => {
                    out.oracle_fail("panic", "write_ser panicked", &case);
                    continue;
                }
            };
            if nw != bytes.len() {
                out.oracle_fail("count-differs", &format!("write_ser returned {nw}, {} bytes were written", bytes.len()), &case);
            }
            // the schema-aware deserializer gives the value back
            let rd = GenericDatumReader::builder(&schema).human_readable(false).build().unwrap();
            match catch(|| rd.read_deser::<T>(&mut &bytes[..])) {
                Ok(Ok(back)) => {
                    if record(&back).ok().as_ref().map(normal) != Some(normal(&rec)) {
                        out.oracle_fail("deser-differs", &format!("read_deser gives {}", trunc(&format!("{back:?}"), 300)), &case);
                    }
                }
                Ok(Err(e)) => out.oracle_fail("deser-fails", &format!("read_deser fails on bytes write_ser produced: {e}"), &case),
                Err(()) => out.oracle_fail("panic", "read_deser panicked", &case),
            }
            // the generic decoder reads exactly one conforming datum
            let mut sl = &bytes[..];
            let generic = match catch(|| rd.read_value(&mut sl)) {
                Ok(Ok(v)) => {
                    if !sl.is_empty() {
                        out.oracle_fail("generic-leaves-bytes", &format!("the generic decoder leaves {} bytes", sl.len()), &case);
                    }
                    if !v.validate(&schema) {
                        out.oracle_fail("generic-invalid", "the generically decoded value does not validate", &case);
                    }
                    Some(v)
                }
                Ok(Err(e)) => {
                    out.oracle_fail("generic-fails", &format!("the generic decoder fails on bytes write_ser produced: {e}"), &case);
                    None
                }
                Err(()) => {
                    out.oracle_fail("panic", "generic decoding panicked", &case);
                    None
                }
            };
            if coincide {
                if let Some(gv) = &generic {
                    // generic route: to_value, resolve, encode, decode
                    match catch(|| to_value(&x).and_then(|v| v.resolve(&schema))) {
                        Ok(Ok(rv)) => {
                            if !value_eq(&rv, gv) {
                                out.oracle_fail("generic-route-differs", &format!("to_value+resolve gives {}, the serde bytes decode to {}",
                                    trunc(&wire::value_str(&rv, true), 300), trunc(&wire::value_str(gv, true), 300)), &case);
                            }
                        }
                        Ok(Err(e)) => out.oracle_fail("generic-route-fails", &format!("to_value / resolve fails: {e}"), &case),
                        Err(()) => out.oracle_fail("panic", "to_value / resolve panicked", &case),
                    }
                    match catch(|| from_value::<T>(gv)) {
                        Ok(Ok(back)) => {
                            if record(&back).ok().as_ref().map(normal) != Some(normal(&rec)) {
                                out.oracle_fail("from-value-differs", &format!("from_value of the decoded value gives {}", trunc(&format!("{back:?}"), 300)), &case);
                            }
                        }
                        Ok(Err(e)) => out.oracle_fail("from-value-fails", &format!("from_value fails on the generically decoded value: {e}"), &case),
                        Err(()) => out.oracle_fail("panic", "from_value panicked", &case),
                    }
                }
            }
        }
    }
}

/// a hand-written `Serialize` that goes through `serialize_map` with a length hint for a record
/// (what serde's derive does for flattened structs, with `None`)
struct AsMap(i32, String);
impl Serialize for AsMap {
    fn serialize<S: serde::Serializer>(&self, s: S) -> Result<S::Ok, S::Error> {
        use serde::ser::SerializeMap;
        let mut m = s.serialize_map(Some(2))?;
        m.serialize_entry("a", &self.0)?;
        m.serialize_entry("b", &self.1)?;
        m.end()
    }
}

pub fn run(args: &[String]) -> i32 {
    let dir = &args[0];
    let seed: u64 = args[1].parse().unwrap();
    let n: usize = args[2].parse().unwrap();
    let mut out = Out::new(dir);
    crate::util::watchdog(dir, 30000);
    let mut rng = Rng::new(seed);
    one_type::<Scalars>(&mut out, &mut rng, n, "Scalars", true, true, Scalars::get_schema);
    one_type::<Collections>(&mut out, &mut rng, n, "Collections", true, true, Collections::get_schema);
    one_type::<Shapes>(&mut out, &mut rng, n, "Shapes", true, false, Shapes::get_schema);
    one_type::<Empties>(&mut out, &mut rng, n, "Empties", true, false, Empties::get_schema);
    one_type::<Hand>(&mut out, &mut rng, n, "Hand", true, true, Hand::get_schema);
    one_type::<Tups>(&mut out, &mut rng, n, "Tups", true, false, || Schema::parse_str(TUPS_SCHEMA).unwrap());
    one_type::<Skippy>(&mut out, &mut rng, n, "Skippy", true, true, Skippy::get_schema);
    one_type::<Beyond>(&mut out, &mut rng, n, "Beyond", false, false, Beyond::get_schema);
    // serialize_map on a record schema with a length hint: the count
    let schema = Schema::parse_str(r#"{"type":"record","name":"AsMap","fields":[{"name":"a","type":"int"},{"name":"b","type":"string"}]}"#).unwrap();
    for _ in 0..n.min(20) {
        let x = AsMap(crate::genr::gen_int(&mut rng), small_string(&mut rng));
        let w = GenericDatumWriter::builder(&schema).human_readable(false).build().unwrap();
        let mut bytes = Vec::new();
        let case = format!("type=AsMap (serialize_map(Some(2)) on a record schema) value=({}, {:?})", x.0, x.1);
        match catch(|| w.write_ser(&mut bytes, &x)) {
            Ok(Ok(nw)) => {
                if nw != bytes.len() {
                    out.oracle_fail("count-differs", &format!("write_ser returned {nw}, {} bytes were written", bytes.len()), &case);
                }
            }
            Ok(Err(e)) => out.oracle_fail("serialize-fails", &format!("{e}"), &case),
            Err(()) => out.oracle_fail("panic", "write_ser panicked", &case),
        }
    }
    crate::util::end_case();
    out.finish(dir, serde_json::json!({}));
    0
}

pub fn debug_beyond() {
    let s = Beyond::get_schema();
    println!("{}", serde_json::to_string(&s).unwrap());
    println!("{:?}", ResolvedSchema::new(&s).map(|_| ()));
}
