//! `AnyShape`: a `Deserialize` target that accepts whatever `deserialize_any` drives it with and
//! keeps nothing — used to ask the schema-aware deserializer "is this byte string one complete
//! datum, and how many bytes is it?" for an arbitrary schema.
use serde::de::{self, Deserialize, Deserializer, EnumAccess, MapAccess, SeqAccess, VariantAccess, Visitor};
use std::fmt;

pub struct AnyShape;

struct V;

impl<'de> Visitor<'de> for V {
    type Value = AnyShape;
    fn expecting(&self, f: &mut fmt::Formatter) -> fmt::Result {
        f.write_str("anything")
    }
    fn visit_bool<E>(self, _: bool) -> Result<AnyShape, E> { Ok(AnyShape) }
    fn visit_i64<E>(self, _: i64) -> Result<AnyShape, E> { Ok(AnyShape) }
    fn visit_i128<E>(self, _: i128) -> Result<AnyShape, E> { Ok(AnyShape) }
    fn visit_u64<E>(self, _: u64) -> Result<AnyShape, E> { Ok(AnyShape) }
    fn visit_u128<E>(self, _: u128) -> Result<AnyShape, E> { Ok(AnyShape) }
    fn visit_f64<E>(self, _: f64) -> Result<AnyShape, E> { Ok(AnyShape) }
    fn visit_str<E>(self, _: &str) -> Result<AnyShape, E> { Ok(AnyShape) }
    fn visit_bytes<E>(self, _: &[u8]) -> Result<AnyShape, E> { Ok(AnyShape) }
    fn visit_none<E>(self) -> Result<AnyShape, E> { Ok(AnyShape) }
    fn visit_unit<E>(self) -> Result<AnyShape, E> { Ok(AnyShape) }
    fn visit_some<D: Deserializer<'de>>(self, d: D) -> Result<AnyShape, D::Error> {
        AnyShape::deserialize(d)
    }
    fn visit_newtype_struct<D: Deserializer<'de>>(self, d: D) -> Result<AnyShape, D::Error> {
        AnyShape::deserialize(d)
    }
    fn visit_seq<A: SeqAccess<'de>>(self, mut seq: A) -> Result<AnyShape, A::Error> {
        while seq.next_element::<AnyShape>()?.is_some() {}
        Ok(AnyShape)
    }
    fn visit_map<A: MapAccess<'de>>(self, mut map: A) -> Result<AnyShape, A::Error> {
        while map.next_entry::<AnyShape, AnyShape>()?.is_some() {}
        Ok(AnyShape)
    }
    fn visit_enum<A: EnumAccess<'de>>(self, data: A) -> Result<AnyShape, A::Error> {
        let (_name, variant): (Ident, _) = data.variant()?;
        variant.unit_variant()?;
        Ok(AnyShape)
    }
}

impl<'de> Deserialize<'de> for AnyShape {
    fn deserialize<D: Deserializer<'de>>(d: D) -> Result<Self, D::Error> {
        d.deserialize_any(V)
    }
}

/// an enum variant / field identifier
struct Ident;
struct IdentV;
impl<'de> Visitor<'de> for IdentV {
    type Value = Ident;
    fn expecting(&self, f: &mut fmt::Formatter) -> fmt::Result {
        f.write_str("an identifier")
    }
    fn visit_u64<E>(self, _: u64) -> Result<Ident, E> { Ok(Ident) }
    fn visit_str<E>(self, _: &str) -> Result<Ident, E> { Ok(Ident) }
    fn visit_bytes<E>(self, _: &[u8]) -> Result<Ident, E> { Ok(Ident) }
}
impl<'de> Deserialize<'de> for Ident {
    fn deserialize<D: Deserializer<'de>>(d: D) -> Result<Self, D::Error> {
        d.deserialize_identifier(IdentV)
    }
}

#[allow(dead_code)]
fn _unused<E: de::Error>() {}
