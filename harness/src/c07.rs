//! C07: values accepted by validation are written readably (in the representation validation
//! matched them against); rejected ones write nothing.  Correspondence rows: `validate_internal` ↔
//! `Avro.validate` (`val`), `encode_internal` on non-canonical values ↔ `Avro.encode` (`enc`),
//! `resolve_internal` ↔ `Avro.resolve` (`res`, the canonical representation).
use crate::c03::SharedVec;
use crate::genr::{ValueGen, gen_schema};
use crate::rng::Rng;
use crate::util::{Out, catch, value_eq};
use crate::wire;
use apache_avro::reader::datum::GenericDatumReader;
use apache_avro::schema::{Name, NamesRef, ResolvedSchema, Schema};
use apache_avro::types::Value;
use apache_avro::writer::datum::GenericDatumWriter;
use apache_avro::{GenericSingleObjectWriter, Writer};
use std::collections::HashMap;

/// rewrite a conforming value into a non-canonical form validation may still accept, or a near miss
pub struct Mutator<'a> {
    pub names: &'a NamesRef<'a>,
    pub applied: Vec<&'static str>,
    /// apply only this non-canonical form (wherever it fits), so that every form also occurs alone
    pub focus: Option<&'static str>,
}

/// all the forms `mutate` can produce (the names it notes)
pub const FORMS: &[&str] = &[
    "bare value in a union position", "wrong union index", "string for an enum", "enum index out of range", "enum index/symbol mismatch",
    "unknown symbol string", "int for long", "long for int", "float for double", "double for float", "int for a logical int",
    "long for a logical long", "bytes for fixed", "fixed of the wrong size", "fixed whose length field disagrees with its bytes",
    "bytes for decimal", "fixed for decimal", "fixed(12) for duration", "fixed(12) with 3 bytes for duration",
    "string for uuid", "32-char non-uuid string for uuid", "bytes for uuid", "fixed for uuid", "map for a record",
    "record fields reordered", "extra record field", "nullable field left out", "required field left out", "value of another type",
];

/// is the form `what` applied here?
fn want(focus: Option<&'static str>, rate: u32, rng: &mut Rng, what: &'static str) -> bool {
    match focus {
        Some(f) => f == what && rng.chance(3, 4),
        None => rng.chance(rate, 100),
    }
}

impl Mutator<'_> {
    fn note(&mut self, what: &'static str) {
        if !self.applied.contains(&what) {
            self.applied.push(what);
        }
    }
    pub fn mutate(&mut self, rng: &mut Rng, s: &Schema, ns: Option<&str>, v: &Value, rate: u32) -> Value {
        match (s, v) {
            (Schema::Ref { name }, _) => {
                let fq: Name = name.fully_qualified_name(ns).into_owned();
                match self.names.get(&fq) {
                    Some(t) => {
                        let tns = fq.namespace().map(|x| x.to_string());
                        self.mutate(rng, t, tns.as_deref(), v, rate)
                    }
                    None => v.clone(),
                }
            }
            (Schema::Union(u), Value::Union(i, inner)) => {
                let b = &u.variants()[*i as usize];
                let m = self.mutate(rng, b, ns, inner, rate);
                if want(self.focus, rate, rng, "bare value in a union position") {
                    // the encoder has union handling for bare Null and Record values (they are written with the branch
                    // index); every other kind is the recorded finding
                    // (with several record branches the encoder's trial encoding can pick a wrong one - a recorded
                    // finding; with exactly one record branch a bare record is written correctly)
                    let record_branches = u.variants().iter().filter(|b| match b {
                        Schema::Record(_) => true,
                        Schema::Ref { name } => matches!(self.names.get(&name.fully_qualified_name(ns).into_owned()), Some(Schema::Record(_))),
                        _ => false,
                    }).count();
                    self.note(match &m {
                        Value::Record(_) if record_branches > 1 => "bare record in a union with several record branches",
                        Value::Record(_) => "bare record in a union position",
                        Value::Null => "bare null in a union position",
                        _ => "bare value in a union position",
                    });
                    m
                } else if want(self.focus, rate, rng, "wrong union index") && u.variants().len() > 1 {
                    self.note("wrong union index");
                    Value::Union((*i + 1) % u.variants().len() as u32, Box::new(m))
                } else {
                    Value::Union(*i, Box::new(m))
                }
            }
            (Schema::Enum(e), Value::Enum(i, sym)) => {
                if want(self.focus, rate, rng, "string for an enum") {
                    self.note("string for an enum");
                    Value::String(sym.clone())
                } else if want(self.focus, rate, rng, "enum index out of range") {
                    self.note("enum index out of range");
                    Value::Enum(e.symbols.len() as u32 + 3, "ZZ_unknown".into())
                } else if want(self.focus, rate, rng, "enum index/symbol mismatch") && e.symbols.len() > 1 {
                    self.note("enum index/symbol mismatch");
                    Value::Enum((*i + 1) % e.symbols.len() as u32, sym.clone())
                } else if want(self.focus, rate, rng, "unknown symbol string") {
                    self.note("unknown symbol string");
                    Value::String("ZZ_unknown".into())
                } else {
                    v.clone()
                }
            }
            (Schema::Long, Value::Long(n)) if want(self.focus, rate, rng, "int for long") && i32::try_from(*n).is_ok() => {
                self.note("int for long");
                Value::Int(*n as i32)
            }
            (Schema::Int, Value::Int(n)) if want(self.focus, rate, rng, "long for int") => {
                self.note("long for int");
                Value::Long(*n as i64)
            }
            (Schema::Double, Value::Double(x)) if want(self.focus, rate, rng, "float for double") => {
                self.note("float for double");
                Value::Float(*x as f32)
            }
            (Schema::Float, Value::Float(x)) if want(self.focus, rate, rng, "double for float") => {
                self.note("double for float");
                Value::Double(*x as f64)
            }
            (Schema::Date, Value::Date(n)) | (Schema::TimeMillis, Value::TimeMillis(n)) if want(self.focus, rate, rng, "int for a logical int") => {
                self.note("int for a logical int");
                Value::Int(*n)
            }
            (Schema::TimeMicros, Value::TimeMicros(n)) | (Schema::TimestampMillis, Value::TimestampMillis(n))
            | (Schema::TimestampMicros, Value::TimestampMicros(n)) | (Schema::TimestampNanos, Value::TimestampNanos(n))
            | (Schema::LocalTimestampMillis, Value::LocalTimestampMillis(n)) | (Schema::LocalTimestampMicros, Value::LocalTimestampMicros(n))
            | (Schema::LocalTimestampNanos, Value::LocalTimestampNanos(n)) if want(self.focus, rate, rng, "long for a logical long") => {
                self.note("long for a logical long");
                Value::Long(*n)
            }
            (Schema::Fixed(_), Value::Fixed(n, b)) => {
                if want(self.focus, rate, rng, "bytes for fixed") {
                    self.note("bytes for fixed");
                    Value::Bytes(b.clone())
                } else if want(self.focus, rate, rng, "fixed of the wrong size") {
                    self.note("fixed of the wrong size");
                    let mut b2 = b.clone();
                    b2.push(0);
                    Value::Fixed(n + 1, b2)
                } else if want(self.focus, rate, rng, "fixed whose length field disagrees with its bytes") && *n > 0 {
                    self.note("fixed whose length field disagrees with its bytes");
                    Value::Fixed(*n, b[..n - 1].to_vec())
                } else {
                    v.clone()
                }
            }
            (Schema::Decimal(_), Value::Decimal(d)) => {
                let bytes: Vec<u8> = <Vec<u8>>::try_from(d).unwrap_or_default();
                if want(self.focus, rate, rng, "bytes for decimal") {
                    self.note("bytes for decimal");
                    Value::Bytes(bytes)
                } else if want(self.focus, rate, rng, "fixed for decimal") {
                    self.note("fixed for decimal");
                    Value::Fixed(bytes.len(), bytes)
                } else {
                    v.clone()
                }
            }
            (Schema::Duration(_), Value::Duration(d)) if want(self.focus, rate, rng, "fixed(12) for duration") => {
                let raw: [u8; 12] = (*d).into();
                if rng.chance(1, 2) {
                    self.note("fixed(12) for duration");
                    Value::Fixed(12, raw.to_vec())
                } else {
                    self.note("fixed(12) with 3 bytes for duration");
                    Value::Fixed(12, raw[..3].to_vec())
                }
            }
            (Schema::Uuid(u), Value::Uuid(id)) if want(self.focus, rate, rng, "string for uuid") => match u {
                apache_avro::schema::UuidSchema::String => {
                    if rng.chance(1, 2) {
                        self.note("string for uuid");
                        Value::String(id.to_string())
                    } else {
                        self.note("32-char non-uuid string for uuid");
                        Value::String("zzzzzzzzzzzzzzzzzzzzzzzzzzzzzzzz".into())
                    }
                }
                apache_avro::schema::UuidSchema::Bytes => {
                    self.note("bytes for uuid");
                    Value::Bytes(id.as_bytes().to_vec())
                }
                apache_avro::schema::UuidSchema::Fixed(_) => {
                    self.note("fixed for uuid");
                    Value::Fixed(16, id.as_bytes().to_vec())
                }
            },
            (Schema::Array(a), Value::Array(items)) => Value::Array(items.iter().map(|it| self.mutate(rng, &a.items, ns, it, rate)).collect()),
            (Schema::Map(m), Value::Map(items)) => Value::Map(items.iter().map(|(k, it)| (k.clone(), self.mutate(rng, &m.types, ns, it, rate))).collect()),
            (Schema::Record(r), Value::Record(fs)) => {
                let fq = r.name.fully_qualified_name(ns).into_owned();
                let rns = fq.namespace().map(|x| x.to_string());
                let mut out: Vec<(String, Value)> = vec![];
                for (f, (n, fv)) in r.fields.iter().zip(fs) {
                    let m = self.mutate(rng, &f.schema, rns.as_deref(), fv, rate);
                    if f.is_nullable() && want(self.focus, rate, rng, "nullable field left out") {
                        self.note("nullable field left out");
                        continue;
                    }
                    if !f.is_nullable() && rng.chance(rate, 400) {
                        self.note("required field left out");
                        continue;
                    }
                    out.push((n.clone(), m));
                }
                if want(self.focus, rate, rng, "record fields reordered") && out.len() > 1 {
                    self.note("record fields reordered");
                    out.reverse();
                }
                if rng.chance(rate, 400) {
                    self.note("extra record field");
                    out.push(("zz_extra".into(), Value::Null));
                }
                if want(self.focus, rate, rng, "map for a record") {
                    self.note("map for a record");
                    Value::Map(out.into_iter().collect::<HashMap<_, _>>())
                } else {
                    Value::Record(out)
                }
            }
            (_, v) if rng.chance(rate, 600) => {
                self.note("value of another type");
                match v {
                    Value::String(_) => Value::Int(1),
                    _ => Value::String("other".into()),
                }
            }
            _ => v.clone(),
        }
    }
}

/// The schema's canonical representation of an accepted value, built structurally: the branch an
/// explicit union names (or the one branch selection picks for a bare value), schema field order,
/// a null branch for nullable fields left out, and the leaf conversions of `resolve` for scalars.
pub fn canon(names: &NamesRef, s: &Schema, ns: Option<&str>, v: &Value) -> Option<Value> {
    match (s, v) {
        (Schema::Ref { name }, _) => {
            let fq: Name = name.fully_qualified_name(ns).into_owned();
            let t = names.get(&fq)?;
            let tns = fq.namespace().map(|x| x.to_string());
            canon(names, t, tns.as_deref(), v)
        }
        (Schema::Union(u), Value::Union(i, inner)) => {
            let b = u.variants().get(*i as usize)?;
            Some(Value::Union(*i, Box::new(canon(names, b, ns, inner)?)))
        }
        (Schema::Union(u), other) => {
            let (i, b) = u.find_schema_with_known_schemata(other, Some(names), ns)?;
            Some(Value::Union(i as u32, Box::new(canon(names, b, ns, other)?)))
        }
        (Schema::Record(r), Value::Record(_) | Value::Map(_)) => {
            let rns = r.name.namespace().map(|x| x.to_string()).or(ns.map(|x| x.to_string()));
            let get = |n: &str| -> Option<&Value> {
                match v {
                    Value::Record(fs) => fs.iter().find(|(k, _)| k == n).map(|(_, x)| x),
                    Value::Map(m) => m.get(n),
                    _ => None,
                }
            };
            let mut outf = vec![];
            for f in &r.fields {
                match get(&f.name) {
                    Some(x) => outf.push((f.name.clone(), canon(names, &f.schema, rns.as_deref(), x)?)),
                    None => match &f.schema {
                        Schema::Union(u) => {
                            let i = u.variants().iter().position(|b| matches!(b, Schema::Null))?;
                            outf.push((f.name.clone(), Value::Union(i as u32, Box::new(Value::Null))));
                        }
                        _ => return None,
                    },
                }
            }
            Some(Value::Record(outf))
        }
        (Schema::Array(a), Value::Array(items)) => {
            Some(Value::Array(items.iter().map(|x| canon(names, &a.items, ns, x)).collect::<Option<Vec<_>>>()?))
        }
        (Schema::Map(m), Value::Map(items)) => {
            let mut o = HashMap::new();
            for (k, x) in items {
                o.insert(k.clone(), canon(names, &m.types, ns, x)?);
            }
            Some(Value::Map(o))
        }
        (Schema::Record(_) | Schema::Array(_) | Schema::Map(_), _) => None,
        _ => catch(|| v.clone().resolve(s)).ok()?.ok(),
    }
}

pub fn run(args: &[String]) -> i32 {
    let dir = &args[0];
    let seed: u64 = args[1].parse().unwrap();
    let n: usize = args[2].parse().unwrap();
    let max_depth: usize = args.get(3).and_then(|s| s.parse().ok()).unwrap_or(3);
    let lim = apache_avro::util::max_allocation_bytes(64 * 1024 * 1024);
    let mut out = Out::new(dir);
    crate::util::watchdog(dir, 10000);
    let mut rng = Rng::new(seed);
    let mut done = 0;
    // a fixed catalogue first: one small schema per kind, so that every rewrite is exercised in every run
    let catalogue: Vec<&str> = vec![
        r#"["null","float"]"#, r#"["null","string","long"]"#, r#""double""#, r#""float""#, r#""long""#, r#""int""#,
        r#"{"type":"enum","name":"E","symbols":["A","B","C"]}"#, r#"{"type":"enum","name":"E","symbols":["A","B","C"],"default":"B"}"#,
        r#"{"type":"fixed","name":"F","size":4}"#, r#"{"type":"fixed","name":"D","size":12,"logicalType":"duration"}"#,
        r#"{"type":"bytes","logicalType":"decimal","precision":6,"scale":2}"#,
        r#"{"type":"fixed","name":"DF","size":5,"logicalType":"decimal","precision":6,"scale":2}"#,
        r#"{"type":"string","logicalType":"uuid"}"#, r#"{"type":"bytes","logicalType":"uuid"}"#,
        r#"{"type":"fixed","name":"U","size":16,"logicalType":"uuid"}"#,
        r#"{"type":"int","logicalType":"date"}"#, r#"{"type":"long","logicalType":"timestamp-micros"}"#,
        r#"{"type":"record","name":"R","fields":[{"name":"a","type":["null","int"]},{"name":"b","type":"int"},{"name":"c","type":["null","string"]}]}"#,
        r#"{"type":"record","name":"R","fields":[{"name":"a","type":"double"},{"name":"b","type":{"type":"array","items":["null","long"]}}]}"#,
        r#"{"type":"map","values":{"type":"record","name":"R","fields":[{"name":"a","type":"float"}]}}"#,
        r#"{"type":"array","items":{"type":"string","logicalType":"uuid"}}"#,
        r#"[{"type":"fixed","name":"F","size":2},{"type":"bytes","logicalType":"decimal","precision":4,"scale":1},"double"]"#,
        r#"{"type":"record","name":"L","fields":[{"name":"v","type":"long"},{"name":"next","type":["null","L"]}]}"#,
        r#"{"type":"bytes","logicalType":"big-decimal"}"#,
        // a union whose record branch is a REFERENCE (second use of a named type; recursion)
        r#"{"type":"record","name":"W","fields":[{"name":"p","type":{"type":"record","name":"P","fields":[{"name":"x","type":"int"},{"name":"y","type":"int"}]}},{"name":"q","type":["P","null"]},{"name":"r","type":{"type":"array","items":["null","P"]}}]}"#,
        r#"{"type":"record","name":"ns.T","fields":[{"name":"v","type":"int"},{"name":"kids","type":{"type":"array","items":["ns.T","string"]}}]}"#,
    ];
    let mut cat_i = 0usize;
    while done < n {
        let mut crng = rng.fork();
        let from_catalogue = cat_i < catalogue.len();
        let (text, schema) = if from_catalogue {
            let t = catalogue[cat_i % catalogue.len()];
            cat_i += 1;
            (t.to_string(), Schema::parse_str(t).unwrap())
        } else {
            gen_schema(&mut crng, max_depth)
        };
        let rs = ResolvedSchema::new(&schema).unwrap();
        let names = rs.get_names();
        let vg = ValueGen { names, max_depth: max_depth + 2, gave_up: Default::default() };
        let base = vg.value(&mut crng, &schema, None, 0);
        if vg.gave_up.get() {
            continue;
        }
        let names_s = wire::names_str(names);
        let schema_s = wire::schema_str(&schema);
        // ONE single-object writer for all the rounds of a schema: a write that fails (the recorded findings make some
        // accepted values fail in the encoder) must leave it fit for the next value
        let mut so = GenericSingleObjectWriter::new_with_capacity(&schema, 32).unwrap();
        let rounds = if from_catalogue { 2 + 3 * FORMS.len() } else { 4 };
        for round in 0..rounds {
            // catalogue: canonical, every form at once, then each form alone; generated schemas: increasing rates
            let focus = if from_catalogue && round >= 2 { Some(FORMS[(round - 2) % FORMS.len()]) } else { None };
            // (focused rounds draw a fresh value each, so that the form meets every shape of value)
            let fresh;
            let base = if focus.is_some() {
                fresh = vg.value(&mut crng, &schema, None, 0);
                if vg.gave_up.replace(false) {
                    continue; // this draw hit a branch without a finite value
                }
                &fresh
            } else {
                &base
            };
            let mut mu = Mutator { names, applied: vec![], focus };
            let rate = if from_catalogue { [0u32, 100][round.min(1)] } else { [0u32, 15, 35, 60][round] };

            let v = mu.mutate(&mut crng, &schema, None, base, rate);
            done += 1;
            let forms = if mu.applied.is_empty() { "canonical".to_string() } else { mu.applied.join("; ") };
            for a in &mu.applied {
                out.count(&format!("form: {a}"));
            }
            let case = format!("schema={} forms=[{forms}] value={}", crate::util::trunc(&text, 300), crate::util::trunc(&wire::value_str(&v, true), 400));
            crate::util::begin_case(&case);
            let accepted = match catch(|| v.validate(&schema)) {
                Ok(a) => a,
                Err(()) => {
                    out.oracle_fail("panic", "validate panicked", &case);
                    continue;
                }
            };
            out.count(if accepted { "validation_accepts" } else { "validation_rejects" });
            out.pair(&format!("val {lim} {names_s} {schema_s} {}", wire::value_str(&v, false)), if accepted { "ok" } else { "rej" });
            // what the schema's canonical representation of this value is
            let canonical: Result<Result<Value, ()>, ()> = Ok(canon(names, &schema, None, &v).ok_or(()));
            if let Ok(r) = &catch(|| v.clone().resolve(&schema)) {
                out.pair(
                    &format!("res {lim} {names_s} {schema_s} {}", wire::value_str(&v, false)),
                    &match r { Ok(w) => format!("ok {}", wire::value_str(w, true)), Err(_) => "err".into() },
                );
            }
            // the three validating write paths
            let w = GenericDatumWriter::builder(&schema).validate(true).build().unwrap();
            let mut datum = Vec::new();
            let r_datum = catch(|| w.write_value_ref(&mut datum, &v));
            let sink = SharedVec::default();
            let mut cw = Writer::builder().schema(&schema).writer(sink.clone()).marker([1; 16]).build().unwrap();
            let _ = cw.flush();
            let before = sink.0.borrow().len();
            let r_cont = catch(|| cw.append_value_ref(&v).and_then(|_| cw.flush()));
            let cont_delta = sink.0.borrow().len() - before;
            let mut so_sink = Vec::new();
            let r_so = catch(|| so.write_value_ref(&v, &mut so_sink));
            drop(cw);
            let class_for = |kind: &str| -> String {
                // narrow classes: one per non-canonical form, so that a recorded finding covers only that form
                // (a value carrying several forms names all of them; `check` accepts such a class only when every
                // form in it is recorded on its own)
                let mut forms: Vec<&str> = mu.applied.iter().map(|s| &**s).collect();
                forms.sort();
                forms.dedup();
                if forms.is_empty() { format!("{kind}: canonical") } else { format!("{kind}: {}", forms.join(" + ")) }
            };
            if accepted {
                // the non-validating encoder on the same value (exact row)
                let wr = GenericDatumWriter::builder(&schema).validate(false).build().unwrap();
                let mut raw = Vec::new();
                let r_raw = catch(|| wr.write_value_ref(&mut raw, &v));
                out.pair(&format!("enc {names_s} {schema_s} {}", wire::value_str(&v, false)),
                    &match &r_raw { Ok(Ok(_)) => format!("ok {}", wire::hex(&raw)), Ok(Err(_)) => "err".into(), Err(()) => "err panic".into() });
                match &r_datum {
                    Err(()) => out.oracle_fail("panic", "datum writer panicked on an accepted value", &case),
                    Ok(Err(e)) => out.oracle_fail(&class_for("accepted-not-written"), &format!("validation accepts, the datum writer fails: {e}"), &case),
                    Ok(Ok(_)) => {
                        // decodes to the canonical representation?
                        let rd = GenericDatumReader::builder(&schema).build().unwrap();
                        let mut sl = &datum[..];
                        match (catch(|| rd.read_value(&mut sl)), &canonical) {
                            (Ok(Ok(back)), Ok(Ok(want))) => {
                                if !value_eq(&back, want) || !sl.is_empty() {
                                    out.oracle_fail(&class_for("accepted-written-differently"),
                                        &format!("written bytes {} decode to {} (rest {}), the schema's representation of the value is {}",
                                            wire::hex(&datum), crate::util::trunc(&wire::value_str(&back, true), 300), sl.len(), crate::util::trunc(&wire::value_str(want, true), 300)), &case);
                                }
                            }
                            (Ok(Ok(back)), _) => {
                                // `resolve` gives no representation to compare with (that is C08's business): an unmutated
                                // value must come back as itself, a mutated one at least as something the schema accepts
                                out.count("no_resolved_form_to_compare");
                                let fine = if mu.applied.is_empty() { value_eq(&back, &v) } else { back.validate(&schema) };
                                if !fine || !sl.is_empty() {
                                    out.oracle_fail(&class_for("accepted-written-differently"),
                                        &format!("written bytes {} decode to {} (rest {})", wire::hex(&datum), crate::util::trunc(&wire::value_str(&back, true), 300), sl.len()), &case);
                                }
                            }
                            (Ok(Err(e)), _) => out.oracle_fail(&class_for("accepted-written-unreadably"), &format!("written bytes {} do not decode: {e}", wire::hex(&datum)), &case),
                            (Err(()), _) => out.oracle_fail("panic", "decoder panicked", &case),
                        }
                    }
                }
                match &r_cont {
                    Ok(Err(e)) => out.oracle_fail(&class_for("accepted-not-written"), &format!("container writer fails: {e}"), &case),
                    Ok(Ok(_)) => {
                        // the same datum bytes, framed: count 1, size, datum, marker
                        let all = sink.0.borrow();
                        let blk = &all[before..];
                        let mut want = vec![2u8];
                        crate::c05::long(datum.len() as i64, &mut want);
                        want.extend(&datum);
                        want.extend([1u8; 16]);
                        if matches!(r_datum, Ok(Ok(_))) && blk != &want[..] {
                            out.oracle_fail("paths-differ", &format!("container block {} is not the framed datum {}", wire::hex(blk), wire::hex(&datum)), &case);
                        }
                    }
                    Err(()) => out.oracle_fail("panic", "container writer panicked on an accepted value", &case),
                }
                match &r_so {
                    Ok(Err(e)) => out.oracle_fail(&class_for("accepted-not-written"), &format!("single-object writer fails: {e}"), &case),
                    Ok(Ok(_)) => {
                        if matches!(r_datum, Ok(Ok(_))) && (so_sink.len() < 10 || so_sink[10..] != datum[..]) {
                            out.oracle_fail("paths-differ", &format!("single-object message {} does not carry the datum {}", wire::hex(&so_sink), wire::hex(&datum)), &case);
                        }
                    }
                    Err(()) => out.oracle_fail("panic", "single-object writer panicked on an accepted value", &case),
                }
            } else {
                match &r_datum {
                    Ok(Err(_)) if datum.is_empty() => {}
                    Ok(Err(_)) => out.oracle_fail("rejected-value-leaves-bytes", &format!("datum writer wrote {} bytes", datum.len()), &case),
                    Ok(Ok(_)) => out.oracle_fail("rejected-value-written", "datum writer wrote a value validation rejects", &case),
                    Err(()) => out.oracle_fail("panic", "datum writer panicked", &case),
                }
                match &r_cont {
                    Ok(Err(_)) if cont_delta == 0 => {}
                    Ok(Err(_)) => out.oracle_fail("rejected-value-leaves-bytes", &format!("container writer wrote {cont_delta} bytes"), &case),
                    Ok(Ok(_)) => out.oracle_fail("rejected-value-written", "container writer wrote a value validation rejects", &case),
                    Err(()) => out.oracle_fail("panic", "container writer panicked", &case),
                }
                match &r_so {
                    Ok(Err(_)) if so_sink.is_empty() => {}
                    Ok(Err(_)) => out.oracle_fail("rejected-value-leaves-bytes", &format!("single-object writer wrote {} bytes", so_sink.len()), &case),
                    Ok(Ok(_)) => out.oracle_fail("rejected-value-written", "single-object writer wrote a value validation rejects", &case),
                    Err(()) => out.oracle_fail("panic", "single-object writer panicked", &case),
                }
            }
        }
    }
    crate::util::end_case();
    out.finish(dir, serde_json::json!({"lim": lim}));
    0
}
