//! Correspondence / oracle harness: links the real crate from /repo's working tree.
mod alloc;
mod anyshape;
mod c01;
mod c02;
mod refcodec;
mod c03;
mod c04;
mod c05;
mod c06;
mod c07;
mod c08;
mod c09;
mod c10;
mod c16;
mod c17;
mod c17_corpus;
mod c17_extra;
mod serrec;
mod c20;
mod c13;
mod c14;
mod c15;
mod c18;
mod c19;
mod genr;
mod rng;
mod util;
mod wire;

#[global_allocator]
static GLOBAL: alloc::Counting = alloc::Counting;

fn main() {
    let args: Vec<String> = std::env::args().collect();
    if args.len() < 2 {
        eprintln!("usage: avro-harness <property> <outdir> <seed> <ncases> [opts]");
        std::process::exit(2);
    }
    // silence the default panic message: panics are caught and reported per case
    if std::env::var_os("VERIF_PANIC").is_none() {
        std::panic::set_hook(Box::new(|info| util::note_panic(info)));
    }
    let code = match args[1].as_str() {
        "c01" => c01::run(&args[2..]),
        "c02" => c02::run(&args[2..]),
        "c06" => c06::run(&args[2..]),
        "c07" => c07::run(&args[2..]),
        "c08" => c08::run(&args[2..]),
        "c09" => c09::run(&args[2..]),
        "c10" => c10::run(&args[2..], "c10"),
        "c11" => c10::run(&args[2..], "c11"),
        "c12" => c10::run(&args[2..], "c12"),
        "c20" => c20::run(&args[2..]),
        "c16" => c16::run(&args[2..]),
        "c17" => { c17::run(&args[2..]); 0 }
        "c16dbg" => { c16::debug_beyond(); 0 }
        "c05" => c05::run(&args[2..]),
        "c03" => c03::run(&args[2..]),
        "c04" => c04::run(&args[2..]),
        "c13" => c13::run(&args[2..]),
        "c14" => c14::run(&args[2..]),
        "c15" => c15::run(&args[2..]),
        "c18" => c18::run(&args[2..]),
        "c19" => c19::run(&args[2..]),
        "c19child" => c19::child(&args[2..]),
        "c19limit" => c19::child_limit(&args[2..]),
        "c19seq" => c19::child_use_then_set(&args[2..]),
        "c19root" => c19::child_root_setter(&args[2..]),
        other => {
            eprintln!("unknown property {other}");
            2
        }
    };
    std::process::exit(code);
}
