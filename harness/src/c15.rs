//! C15: codec round trips, interop with reference codecs, snappy trailer, output cap.
//! The compression algorithms are third-party; this is the *validation* of the assumption the
//! proofs take as a hypothesis (`decompress (compress x) = x`), plus the wrapper logic's rows.
use crate::c04::{PyCodecs, crc32, snappy_decode, snappy_encode_literal};
use crate::rng::Rng;
use crate::util::{Out, catch};
use crate::wire;
use apache_avro::{Bzip2Settings, Codec, DeflateSettings, XzSettings, ZstandardSettings};
use miniz_oxide::deflate::CompressionLevel;

fn payloads(rng: &mut Rng, thorough: bool) -> Vec<(String, Vec<u8>)> {
    let mut v: Vec<(String, Vec<u8>)> = vec![
        ("empty".into(), vec![]),
        ("one byte".into(), vec![0x42]),
        ("two bytes".into(), vec![0, 0xff]),
        ("compressible 4 KiB".into(), vec![7u8; 4096]),
        ("text".into(), b"the quick brown fox jumps over the lazy dog ".repeat(40)),
    ];
    let mut inc = |n: usize, name: &str, rng: &mut Rng| {
        (name.to_string(), (0..n).map(|_| rng.next() as u8).collect::<Vec<u8>>())
    };
    v.push(inc(300, "incompressible 300", rng));
    v.push(inc(40_000, "incompressible 40 KB (> 32 KiB deflate window)", rng));
    let mut mixed: Vec<u8> = Vec::new();
    for i in 0..70_000u32 {
        mixed.push(if i % 1000 < 700 { (i / 1000) as u8 } else { rng.next() as u8 });
    }
    v.push(("mixed 70 KB (> snappy 64 KiB block)".into(), mixed));
    if thorough {
        let big: Vec<u8> = (0..950_000u32).map(|i| if i % 7 == 0 { rng.next() as u8 } else { (i % 251) as u8 }).collect();
        v.push(("950 KB (> bzip2 900 KB block)".into(), big));
    }
    v
}

pub fn run(args: &[String]) -> i32 {
    let dir = &args[0];
    let seed: u64 = args[1].parse().unwrap();
    let thorough = args.get(2).map(|s| s == "1").unwrap_or(false);
    // "ratio" mode: one process with a 64 MiB limit and very compressible multi-MiB payloads (a block may expand by
    // more than 1000:1 and still be far below the allocation limit)
    let ratio = args.get(3).map(|s| s == "ratio").unwrap_or(false);
    // (the thorough tier has a 950 KB payload: the limit must admit it)
    let lim = apache_avro::util::max_allocation_bytes(if ratio { 64 << 20 } else if thorough { 2 << 20 } else { 256 * 1024 });
    let mut out = Out::new(dir);
    crate::util::watchdog(dir, 900000);
    let mut rng = Rng::new(seed);
    let mut py = PyCodecs::new();
    let pls = if ratio {
        vec![
            ("16 MiB of zeros".to_string(), vec![0u8; 16 << 20]),
            ("16 MiB of 0xFF".to_string(), vec![0xffu8; 16 << 20]),
            ("6 MiB of one byte then noise".to_string(), {
                let mut v = vec![0x41u8; 6 << 20];
                v.extend((0..1000).map(|_| rng.next() as u8));
                v
            }),
        ]
    } else {
        payloads(&mut rng, thorough)
    };

    let mut codecs: Vec<(String, &str, Codec)> = vec![("null".into(), "null", Codec::Null), ("snappy".into(), "snappy", Codec::Snappy)];
    for lv in [CompressionLevel::NoCompression, CompressionLevel::BestSpeed, CompressionLevel::DefaultLevel, CompressionLevel::BestCompression,
               CompressionLevel::UberCompression, CompressionLevel::DefaultCompression] {
        codecs.push((format!("deflate {lv:?}"), "deflate", Codec::Deflate(DeflateSettings::new(lv))));
    }
    for l in (1..=9u8).filter(|l| thorough || [1, 5, 9].contains(l)) {
        codecs.push((format!("bzip2 level {l}"), "bzip2", Codec::Bzip2(Bzip2Settings::new(l))));
    }
    for l in (0..=9u8).filter(|l| thorough || [0, 6, 9].contains(l)) {
        codecs.push((format!("xz level {l}"), "xz", Codec::Xz(XzSettings::new(l))));
    }
    for l in [0u8, 1, 3, 19, 22, 200].into_iter().filter(|l| thorough || *l < 19) {
        codecs.push((format!("zstandard level {l}"), "zstandard", Codec::Zstandard(ZstandardSettings::new(l))));
    }
    let timing = std::env::var_os("VERIF_TIMING").is_some();
    for (cname, family, codec) in &codecs {
        let t0 = std::time::Instant::now();
        if timing && false { eprintln!("start {cname}"); }
        let _guard = Timing(cname.clone(), t0, timing);
        for (pname, data) in &pls {
            if !thorough && data.len() > 50_000 && (cname.starts_with("xz level") || cname.starts_with("bzip2 level")) && !cname.ends_with(" 9") && !cname.ends_with(" 1") {
                continue;
            }
            // the ultra zstd levels are slow on large inputs; keep them for small payloads in the quick tier
            if data.len() > 5_000 && (cname == "zstandard level 22" || cname == "zstandard level 200") {
                continue; // ultra levels allocate 128 MiB windows per call: small payloads only
            }
            if ratio && ((cname.starts_with("xz level") && !cname.ends_with(" 0") && !cname.ends_with(" 6")) || (cname.starts_with("bzip2 level") && !cname.ends_with(" 1") && !cname.ends_with(" 9"))) {
                continue;
            }
            let case = format!("codec={cname} payload={pname} ({} bytes)", data.len());
            crate::util::begin_case(&case);
            out.count(&format!("roundtrip_{family}"));
            let mut buf = data.clone();
            match catch(|| codec.compress(&mut buf)) {
                Err(()) => {
                    out.oracle_fail("panic", "compress panicked", &case);
                    continue;
                }
                Ok(Err(e)) => {
                    out.oracle_fail("compress-error", &format!("{e}"), &case);
                    continue;
                }
                Ok(Ok(())) => {}
            }
            let compressed = buf.clone();
            match catch(|| codec.decompress(&mut buf)) {
                Ok(Ok(())) if buf == *data => {}
                Ok(Ok(())) => out.oracle_fail("roundtrip-differs", &format!("got {} bytes back", buf.len()), &case),
                Ok(Err(e)) => out.oracle_fail("roundtrip-error", &format!("{e}"), &case),
                Err(()) => out.oracle_fail("panic", "decompress panicked", &case),
            }
            if ratio {
                continue; // the multi-MiB payloads: round trip only
            }
            // interop with the reference codecs
            match *family {
                "deflate" | "bzip2" | "xz" => {
                    match py.call("decompress", family, &compressed, None) {
                        Some(d) if d == *data => {}
                        Some(_) => out.oracle_fail("reference-decoder-differs", "reference decompressor returns different data", &case),
                        None => out.oracle_fail("reference-decoder-rejects", &format!("reference {family} decompressor rejects the crate's stream"), &case),
                    }
                    if let Some(rc) = py.call("compress", family, data, None) {
                        let mut b = rc.clone();
                        match catch(|| codec.decompress(&mut b)) {
                            Ok(Ok(())) if b == *data => {}
                            Ok(Ok(())) => out.oracle_fail("reference-stream-misread", "reference-compressed stream decompresses to different data", &case),
                            Ok(Err(e)) => out.oracle_fail("reference-stream-rejected", &format!("{e}"), &case),
                            Err(()) => out.oracle_fail("panic", "decompress panicked on a reference stream", &case),
                        }
                    }
                }
                "snappy" => {
                    if compressed.len() < 4 {
                        out.oracle_fail("snappy-trailer", "block shorter than 4 bytes", &case);
                    } else {
                        let (body, trailer) = compressed.split_at(compressed.len() - 4);
                        if trailer != crc32(data).to_be_bytes() {
                            out.oracle_fail("snappy-trailer", &format!("trailer {} is not the big-endian CRC-32 of the uncompressed data {:08x}", wire::hex(trailer), crc32(data)), &case);
                        }
                        match snappy_decode(body) {
                            Some(d) if d == *data => {}
                            _ => out.oracle_fail("reference-decoder-differs", "reference snappy decoder disagrees", &case),
                        }
                        // the model's CRC-32 on the same data (exact row) — only for small payloads
                        if data.len() <= 4096 {
                            out.pair(&format!("crc32 {}", wire::hex(data)), &format!("{}", crc32fast_of(trailer)));
                        }
                        // a reference-compressed (literal-only) stream
                        let mut rs = snappy_encode_literal(data);
                        rs.extend_from_slice(&crc32(data).to_be_bytes());
                        let mut b = rs.clone();
                        match catch(|| Codec::Snappy.decompress(&mut b)) {
                            Ok(Ok(())) if b == *data => {}
                            _ => out.oracle_fail("reference-stream-rejected", "literal-only snappy stream not read back", &case),
                        }
                        // every bit of the checksum matters
                        for bit in 0..32 {
                            let mut m = compressed.clone();
                            let n = m.len();
                            m[n - 4 + bit / 8] ^= 1 << (bit % 8);
                            match catch(|| Codec::Snappy.decompress(&mut m)) {
                                Ok(Err(_)) => {}
                                Ok(Ok(())) => out.oracle_fail("wrong-checksum-accepted", &format!("checksum bit {bit} flipped, block accepted"), &case),
                                Err(()) => out.oracle_fail("panic", "decompress panicked", &case),
                            }
                        }
                    }
                }
                _ => {}
            }
        }
    }
    // output cap: limit-1, limit, limit+1, 4*limit of compressible data, every codec
    for (cname, _, codec) in codecs.iter().filter(|c| !ratio && (c.0 == "null" || c.0 == "snappy" || c.0.contains("DefaultLevel") || c.0.ends_with("level 3") || c.0.ends_with("level 9"))) {
        for n in [lim - 1, lim, lim + 1, 4 * lim] {
            let data = vec![0x55u8; n];
            let mut b = data.clone();
            if codec.compress(&mut b).is_err() {
                continue;
            }
            let case = format!("codec={cname} {n} bytes of 0x55 under limit {lim}");
            crate::util::begin_case(&case);
            out.count("cap_cases");
            let r = catch(|| codec.decompress(&mut b));
            match r {
                Ok(Ok(())) => {
                    if b.len() > lim && cname != "null" {
                        out.oracle_fail("decompress-over-limit", &format!("returned {} bytes", b.len()), &case);
                    } else if n <= lim && b != data {
                        out.oracle_fail("roundtrip-differs", "within-limit data differs", &case);
                    }
                }
                Ok(Err(_)) => {
                    if n <= lim {
                        out.oracle_fail("decompress-within-limit-rejected", "data within the limit rejected", &case);
                    }
                }
                Err(()) => out.oracle_fail("panic", "decompress panicked", &case),
            }
            if cname != "null" {
                // the model row is the cap logic of the decoders (the null codec passes the block through;
                // its size was bounded when the block was read)
                let observed = match &r { Ok(Ok(())) => "ok", _ => "err" };
                out.pair(&format!("capread {lim} {n}"), observed);
            }
        }
    }
    // settings outside a codec's documented range
    for (name, codec) in [("bzip2 level 0", Codec::Bzip2(Bzip2Settings::new(0))), ("bzip2 level 10", Codec::Bzip2(Bzip2Settings::new(10))),
                          ("xz level 10", Codec::Xz(XzSettings::new(10)))] {
        let mut b = b"abc".to_vec();
        match catch(|| codec.compress(&mut b)) {
            Err(()) => out.oracle_fail("out-of-range-level-panics", "compress panics instead of returning an error", name),
            Ok(_) => {}
        }
    }
    crate::util::end_case();
    out.finish(dir, serde_json::json!({"lim": lim}));
    0
}

struct Timing(String, std::time::Instant, bool);
impl Drop for Timing {
    fn drop(&mut self) {
        if self.2 {
            eprintln!("{:>8.2}s {}", self.1.elapsed().as_secs_f64(), self.0);
        }
    }
}

fn crc32fast_of(trailer: &[u8]) -> u32 {
    u32::from_be_bytes(trailer.try_into().unwrap())
}
