//! C03 (and the writer half of C04): container writer histories.  After *every* op the sink length
//! and the op's result are recorded and compared with the Lean `Writer.step`; the final bytes are
//! compared after parsing; the real `Reader` must return exactly the successfully appended values.
use crate::c05::long;
use crate::genr::{ValueGen, gen_schema};
use crate::rng::Rng;
use crate::util::{Out, catch, value_eq};
use crate::wire;
use apache_avro::schema::{ResolvedSchema, Schema};
use apache_avro::types::Value;
use apache_avro::{Clearable, Codec, Reader, Writer};
use std::cell::RefCell;
use std::io::{self, Write};
use std::rc::Rc;

#[derive(Clone, Default)]
pub struct SharedVec(pub Rc<RefCell<Vec<u8>>>);
impl Write for SharedVec {
    fn write(&mut self, buf: &[u8]) -> io::Result<usize> {
        self.0.borrow_mut().extend_from_slice(buf);
        Ok(buf.len())
    }
    fn flush(&mut self) -> io::Result<()> {
        Ok(())
    }
}
impl Clearable for SharedVec {
    fn clear(&mut self) {
        self.0.borrow_mut().clear();
    }
}

/// independent parse of a container file: (header bytes incl. marker, marker, blocks)
pub fn split_file(f: &[u8]) -> Option<(Vec<u8>, [u8; 16], Vec<(i64, Vec<u8>)>)> {
    fn varint(b: &[u8], p: &mut usize) -> Option<i64> {
        let mut z: u64 = 0;
        let mut shift = 0;
        loop {
            let x = *b.get(*p)?;
            *p += 1;
            z |= ((x & 0x7f) as u64) << shift;
            if x & 0x80 == 0 {
                break;
            }
            shift += 7;
            if shift > 63 {
                return None;
            }
        }
        Some(((z >> 1) as i64) ^ -((z & 1) as i64))
    }
    if f.len() < 4 || &f[..4] != b"Obj\x01" {
        return None;
    }
    let mut p = 4;
    loop {
        let mut n = varint(f, &mut p)?;
        if n == 0 {
            break;
        }
        if n < 0 {
            varint(f, &mut p)?;
            n = -n;
        }
        for _ in 0..n {
            for _ in 0..2 {
                let l = varint(f, &mut p)? as usize;
                p = p.checked_add(l)?;
                if p > f.len() {
                    return None;
                }
            }
        }
    }
    let marker: [u8; 16] = f.get(p..p + 16)?.try_into().ok()?;
    p += 16;
    let header = f[..p].to_vec();
    let mut blocks = vec![];
    while p < f.len() {
        let count = varint(f, &mut p)?;
        let size = varint(f, &mut p)? as usize;
        let payload = f.get(p..p + size)?.to_vec();
        p += size;
        if f.get(p..p + 16)? != marker {
            return None;
        }
        p += 16;
        blocks.push((count, payload));
    }
    Some((header, marker, blocks))
}

/// the same file with every payload decompressed (so that the codec-agnostic model can compare it)
pub fn normalise(f: &[u8], codec: Codec) -> Option<Vec<u8>> {
    let (header, marker, blocks) = split_file(f)?;
    let mut out = header;
    for (count, mut payload) in blocks {
        codec.decompress(&mut payload).ok()?;
        long(count, &mut out);
        long(payload.len() as i64, &mut out);
        out.extend_from_slice(&payload);
        out.extend_from_slice(&marker);
    }
    Some(out)
}

#[derive(serde::Serialize, Clone)]
struct Good {
    a: i64,
    b: String,
}
/// same first field, wrong second field: the serializer fails after it has written `a`
#[derive(serde::Serialize, Clone)]
struct Bad {
    a: i64,
    b: Vec<i32>,
}

fn codec_meta(name: &str) -> (Codec, Vec<(String, Vec<u8>)>) {
    use apache_avro::{Bzip2Settings, XzSettings, ZstandardSettings};
    match name {
        "deflate" => (Codec::Deflate(Default::default()), vec![("avro.codec".into(), b"deflate".to_vec())]),
        "snappy" => (Codec::Snappy, vec![("avro.codec".into(), b"snappy".to_vec())]),
        "bzip2" => (Codec::Bzip2(Bzip2Settings::new(3)), vec![("avro.codec".into(), b"bzip2".to_vec()), ("avro.codec.compression_level".into(), vec![3])]),
        "xz" => (Codec::Xz(XzSettings::new(1)), vec![("avro.codec".into(), b"xz".to_vec()), ("avro.codec.compression_level".into(), vec![1])]),
        "zstandard" => (Codec::Zstandard(ZstandardSettings::new(2)), vec![("avro.codec".into(), b"zstandard".to_vec()), ("avro.codec.compression_level".into(), vec![2])]),
        _ => (Codec::Null, vec![]),
    }
}

pub fn run(args: &[String]) -> i32 {
    let dir = &args[0];
    let seed: u64 = args[1].parse().unwrap();
    let n: usize = args[2].parse().unwrap();
    let max_ops: usize = args.get(3).and_then(|s| s.parse().ok()).unwrap_or(12);
    let lim = apache_avro::util::max_allocation_bytes(64 * 1024 * 1024);
    let szv = std::mem::size_of::<Value>();
    let sze = std::mem::size_of::<(String, Value)>();
    let mut out = Out::new(dir);
    crate::util::watchdog(dir, 10000);
    let mut rng = Rng::new(seed);
    let ser_schema = Schema::parse_str(r#"{"type":"record","name":"Good","fields":[{"name":"a","type":"long"},{"name":"b","type":"string"}]}"#).unwrap();

    for hist in 0..n {
        let mut crng = rng.fork();
        let use_ser = hist % 5 == 4;
        let (text, schema) = if use_ser { (ser_schema.canonical_form(), ser_schema.clone()) } else { gen_schema(&mut crng, 3) };
        let rs = ResolvedSchema::new(&schema).unwrap();
        let names = rs.get_names();
        let vg = ValueGen { names, max_depth: 4, gave_up: Default::default() };
        let sample = vg.value(&mut crng, &schema, None, 0);
        if vg.gave_up.get() {
            continue;
        }
        let sample_len = apache_avro::to_avro_datum(&schema, sample.clone()).map(|b| b.len()).unwrap_or(1);
        let codec_name = *crng.pick(&["null", "null", "deflate", "snappy", "bzip2", "xz", "zstandard"]);
        let (codec, cmeta) = codec_meta(codec_name);
        let block_size = *crng.pick(&[0usize, 1, sample_len.saturating_sub(1), sample_len, sample_len + 1, 2 * sample_len + 1, 16000]);
        let mut marker = [0u8; 16];
        for b in marker.iter_mut() {
            *b = crng.next() as u8;
        }
        let sink = SharedVec::default();
        let mut w = Writer::builder().schema(&schema).writer(sink.clone()).codec(codec).block_size(block_size).marker(marker).build().unwrap();
        let mut ops_s = String::from("(");
        let mut res_s = String::from("(");
        let mut log: Vec<Value> = vec![]; // values whose append returned Ok since the last reset
        let mut meta_log: Vec<(String, Vec<u8>)> = vec![];
        let mut panicked = false;
        let mut cur_marker = marker;
        let mut reset_positions: Vec<usize> = vec![]; // op indices of resets (their new marker is patched in later)
        let mut op_list: Vec<String> = vec![];
        let n_ops = 1 + crng.below(max_ops);
        let mut record = |op: String, r: Result<usize, ()>, sink: &SharedVec, op_list: &mut Vec<String>, res_s: &mut String| {
            op_list.push(op);
            match r {
                Ok(n) => res_s.push_str(&format!("(ok {n} {}) ", sink.0.borrow().len())),
                Err(()) => res_s.push_str(&format!("(err {}) ", sink.0.borrow().len())),
            }
        };
        let mut descr = vec![];
        for _ in 0..n_ops {
            let choice = crng.below(if use_ser { 16 } else { 13 });
            let v = vg.value(&mut crng, &schema, None, 0);
            if vg.gave_up.replace(false) {
                // this draw ran into a branch without a finite value (e.g. `R {f: [R]}` as one branch of a union): the
                // placeholder is no value of the schema, skip the operation
                continue;
            }
            let enc = apache_avro::writer::datum::GenericDatumWriter::builder(&schema).validate(false).build().unwrap().write_value_to_vec(v.clone());
            let r = catch(|| -> Result<(), ()> {
                match choice {
                    0..=3 => {
                        // validated append of a conforming value
                        let r = if choice % 2 == 0 { w.append_value_ref(&v) } else { w.append_value(v.clone()) };
                        descr.push("append".to_string());
                        match (&r, &enc) {
                            (Ok(_), Ok(e)) => {
                                log.push(v.clone());
                                record(format!("(ap {})", wire::hex(e)), r.map_err(|_| ()), &sink, &mut op_list, &mut res_s);
                            }
                            (Err(_), _) => record("(ae)".into(), Err(()), &sink, &mut op_list, &mut res_s),
                            (Ok(_), Err(_)) => record("(ap x)".into(), r.map_err(|_| ()), &sink, &mut op_list, &mut res_s),
                        }
                    }
                    4 => {
                        let r = w.unvalidated_append_value_ref(&v);
                        descr.push("unvalidated".to_string());
                        if let (Ok(_), Ok(e)) = (&r, &enc) {
                            log.push(v.clone());
                            record(format!("(ap {})", wire::hex(e)), r.map_err(|_| ()), &sink, &mut op_list, &mut res_s);
                        } else {
                            record("(ae)".into(), r.map_err(|_| ()), &sink, &mut op_list, &mut res_s);
                        }
                    }
                    5 => {
                        // a value validation rejects
                        let bad = if matches!(schema, Schema::Record(_)) { Value::Int(1) } else { Value::Record(vec![("zz".into(), Value::Null)]) };
                        if bad.validate(&schema) {
                            return Ok(());
                        }
                        descr.push("rejected".to_string());
                        let r = w.append_value_ref(&bad);
                        if r.is_ok() {
                            log.push(bad.clone());
                        }
                        record("(ar)".into(), r.map_err(|_| ()), &sink, &mut op_list, &mut res_s);
                    }
                    6 => {
                        // unvalidated append of a value the encoder fails on part-way (record cut short)
                        if let Value::Record(fs) = &v {
                            if fs.len() >= 2 {
                                let cut = Value::Record(fs[..fs.len() - 1].to_vec());
                                descr.push("encode-fails".to_string());
                                let r = w.unvalidated_append_value_ref(&cut);
                                if r.is_ok() {
                                    // the encoder accepted it after all (e.g. nullable last field): treat as a normal append
                                    let e = apache_avro::writer::datum::GenericDatumWriter::builder(&schema).validate(false).build().unwrap().write_value_to_vec(cut.clone()).unwrap_or_default();
                                    let back = apache_avro::from_avro_datum(&schema, &mut &e[..], None).unwrap_or(Value::Null);
                                    log.push(back);
                                    record(format!("(ap {})", wire::hex(&e)), r.map_err(|_| ()), &sink, &mut op_list, &mut res_s);
                                } else {
                                    record("(ae)".into(), Err(()), &sink, &mut op_list, &mut res_s);
                                }
                            }
                        }
                    }
                    7 => {
                        descr.push("flush".to_string());
                        let r = w.flush();
                        record("(fl)".into(), r.map_err(|_| ()), &sink, &mut op_list, &mut res_s);
                    }
                    8 => {
                        let k = (*crng.pick(&["k1", "k2", "avro.x", "user.meta", ""])).to_string();
                        let val: Vec<u8> = (0..crng.below(4)).map(|_| crng.next() as u8).collect();
                        descr.push(format!("add_user_metadata {k}"));
                        let r = w.add_user_metadata(k.clone(), &val);
                        if r.is_ok() {
                            meta_log.retain(|(kk, _)| *kk != k);
                            meta_log.push((k.clone(), val.clone()));
                        }
                        record(format!("(am {} {})", wire::hex(k.as_bytes()), wire::hex(&val)), r.map(|_| 0).map_err(|_| ()), &sink, &mut op_list, &mut res_s);
                    }
                    9 => {
                        if crng.chance(1, 3) {
                            descr.push("reset".to_string());
                            w.reset();
                            log.clear();
                            meta_log.clear();
                            reset_positions.push(op_list.len());
                            record("(rs ?)".into(), Ok(0), &sink, &mut op_list, &mut res_s);
                        }
                    }
                    10..=11 => {
                        let vs: Vec<Value> = (0..crng.below(4)).map(|_| vg.value(&mut crng, &schema, None, 0)).collect();
                        if vg.gave_up.replace(false) {
                            return Ok(());
                        }
                        descr.push(format!("extend {}", vs.len()));
                        // extend = append each, then flush: recorded as those ops with the summed result on the last
                        let before = sink.0.borrow().len();
                        let r = if choice == 10 { w.extend_from_slice(&vs) } else { w.extend(vs.clone()) };
                        let _ = before;
                        if r.is_ok() {
                            log.extend(vs.iter().cloned());
                        }
                        // model: the individual appends and the flush; only the final sink length/result is observable
                        let mut sub = String::new();
                        for x in &vs {
                            let e = apache_avro::writer::datum::GenericDatumWriter::builder(&schema).validate(false).build().unwrap().write_value_to_vec(x.clone()).unwrap_or_default();
                            sub.push_str(&format!("(ap {}) ", wire::hex(&e)));
                        }
                        sub.push_str("(fl)");
                        record(format!("(seq {sub})"), r.map_err(|_| ()), &sink, &mut op_list, &mut res_s);
                    }
                    12 => {
                        // finish the writer and reopen the output with the original marker
                        descr.push("into_inner + append_to".to_string());
                        let r = w.flush();
                        record("(fl)".into(), r.map_err(|_| ()), &sink, &mut op_list, &mut res_s);
                        // the marker in force (a reset draws a fresh random one): read it off the output
                        if let Some((_, m, _)) = split_file(&sink.0.borrow()) {
                            cur_marker = m;
                        }
                        let nw = Writer::builder().schema(&schema).writer(sink.clone()).codec(codec).block_size(block_size).marker(cur_marker).has_header(true).build().unwrap();
                        let old = std::mem::replace(&mut w, nw);
                        let r2 = old.into_inner();
                        record("(fi)".into(), r2.map(|_| 0).map_err(|_| ()), &sink, &mut op_list, &mut res_s);
                        op_list.push("(reopen)".into());
                        res_s.push_str(&format!("(ok 0 {}) ", sink.0.borrow().len()));
                    }
                    13 => {
                        let g = Good { a: crng.next() as i64 >> 20, b: crate::genr::gen_string(&mut crng) };
                        descr.push("append_ser".to_string());
                        let e = apache_avro::writer::datum::GenericDatumWriter::builder(&schema).build().unwrap().write_ser_to_vec(&g).unwrap();
                        let r = w.append_ser(&g);
                        if r.is_ok() {
                            log.push(Value::Record(vec![("a".into(), Value::Long(g.a)), ("b".into(), Value::String(g.b.clone()))]));
                        }
                        record(format!("(ap {})", wire::hex(&e)), r.map_err(|_| ()), &sink, &mut op_list, &mut res_s);
                    }
                    _ => {
                        let b = Bad { a: 77, b: vec![1, 2] };
                        descr.push("append_ser failing".to_string());
                        let r = w.append_ser(&b);
                        record("(ae)".into(), r.map_err(|_| ()), &sink, &mut op_list, &mut res_s);
                    }
                }
                Ok(())
            });
            if r.is_err() {
                panicked = true;
                break;
            }
        }
        let case = format!("schema={} codec={codec_name} block_size={block_size} ops=[{}]", crate::util::trunc(&text, 300), descr.join(", "));
        if panicked {
            out.oracle_fail("panic", "a writer operation panicked", &case);
            continue;
        }
        // finish: into_inner or drop
        let by_drop = crng.chance(1, 2);
        if by_drop {
            drop(w);
        } else if w.into_inner().is_err() {
            out.oracle_fail("finish-error", "into_inner failed on a perfect sink", &case);
            continue;
        }
        op_list.push("(fi)".into());
        let file = sink.0.borrow().clone();
        res_s.push_str(&format!("(ok -1 {})", file.len()));
        out.count(&format!("codec_{codec_name}"));
        out.count(if by_drop { "finish_drop" } else { "finish_into_inner" });
        out.add("ops", op_list.len() as u64);

        // the real reader on the real file
        let expect_meta = {
            let mut m = meta_log.clone();
            m.sort();
            m
        };
        match catch(|| Reader::new(&file[..])) {
            Ok(Ok(rd)) => {
                let mut got_meta: Vec<(String, Vec<u8>)> = rd.user_metadata().iter().map(|(k, v)| (k.clone(), v.clone())).collect();
                got_meta.sort();
                if got_meta != expect_meta {
                    out.oracle_fail("metadata-differs", &format!("read {got_meta:?} expected {expect_meta:?}"), &case);
                }
                if rd.writer_schema().canonical_form() != schema.canonical_form() {
                    out.oracle_fail("schema-differs", "embedded schema does not denote the writer schema", &case);
                }
                let items: Vec<Result<Value, String>> = rd.map(|x| x.map_err(|e| e.to_string())).collect();
                let ok_items: Vec<&Value> = items.iter().filter_map(|x| x.as_ref().ok()).collect();
                if items.iter().any(|x| x.is_err()) {
                    out.oracle_fail("read-error", &format!("reading the written file fails: {:?}", items.iter().find(|x| x.is_err())), &case);
                } else if ok_items.len() != log.len() || !ok_items.iter().zip(&log).all(|(a, b)| value_eq(a, b)) {
                    let detail = if std::env::var("VERIF_FULL").is_ok() { format!(" ops={} results={}", op_list.join(" "), res_s) } else { String::new() };
                    out.oracle_fail("values-differ", &format!("file holds {} values, {} appends returned Ok; first difference at {:?}{detail}",
                        ok_items.len(), log.len(), ok_items.iter().zip(&log).position(|(a, b)| !value_eq(a, b))), &case);
                }
            }
            Ok(Err(e)) => out.oracle_fail("read-error", &format!("the written file cannot be opened: {e}"), &case),
            Err(()) => out.oracle_fail("panic", "reader panicked on the written file", &case),
        }

        // model correspondence on the codec-normalised file
        let Some(norm) = normalise(&file, codec) else {
            out.oracle_fail("layout", "independent parser cannot split the written file into header and blocks", &case);
            continue;
        };
        // patch the markers chosen by reset (read them off the file: the marker in force at the end)
        if !reset_positions.is_empty() {
            if let Some((_, m, _)) = split_file(&file) {
                cur_marker = m;
            }
            // only the last reset's marker is observable; earlier resets wiped their output
            for p in &reset_positions {
                op_list[*p] = format!("(rs {})", wire::hex(&cur_marker));
            }
        }
        // sizes after each op are those of the *real* (possibly compressed) sink; they are comparable
        // with the model's only for the null codec
        let schema_json = serde_json::to_string(&schema).unwrap();
        let mut fmeta = format!("(({} {})", wire::hex(b"avro.schema"), wire::hex(schema_json.as_bytes()));
        for (k, v) in &cmeta {
            fmeta.push_str(&format!(" ({} {})", wire::hex(k.as_bytes()), wire::hex(v)));
        }
        fmeta.push(')');
        let _ = &mut ops_s;
        let ops_joined = op_list.join(" ");
        let res_arg = if codec_name == "null" { format!("{res_s})") } else { "nosizes".to_string() };
        out.pair(
            &format!("wrcheck {block_size} {fmeta} {} ({ops_joined}) {} {res_arg}", wire::hex(&marker), wire::hex(&norm)),
            "same",
        );
        // reader correspondence: the model reader on the normalised file vs the real reader
        let names_s = wire::names_str(names);
        let schema_s = wire::schema_str(&schema);
        let mut meta_sorted: Vec<(Vec<u8>, Vec<u8>)> = vec![(b"avro.schema".to_vec(), schema_json.as_bytes().to_vec())];
        for (k, v) in &cmeta {
            meta_sorted.push((k.as_bytes().to_vec(), v.clone()));
        }
        for (k, v) in &expect_meta {
            meta_sorted.push((k.as_bytes().to_vec(), v.clone()));
        }
        meta_sorted.sort();
        let mstr: Vec<String> = meta_sorted.iter().map(|(k, v)| format!("({} {})", wire::hex(k), wire::hex(v))).collect();
        let vstr: Vec<String> = log.iter().map(|v| wire::value_str(v, true)).collect();
        out.pair(
            &format!("rdfile {lim} {szv} {sze} {names_s} {schema_s} {}", wire::hex(&norm)),
            &format!("hdr ({}) {} items ({}) end clean", mstr.join(" "), wire::hex(&cur_marker), vstr.join(" ")),
        );
    }
    out.finish(dir, serde_json::json!({"lim": lim}));
    0
}
