//! C19: set-once settings under racing threads.  `c19` (parent) spawns fresh child processes
//! (`c19child`), because the settings can be set once per process.  In a child, N threads start from
//! a barrier with randomised spins and each performs one operation on the setting (a setter with
//! its own proposal, or a first *use* that initialises the default); each logs what it proposed
//! and what it observed.  The log must be a linearisation accepted by the model (`OnceCell`):
//! there is one winner, everybody observes the winner's value, exactly the winner's `set`
//! succeeded, and later reads still see the same value.
use crate::rng::Rng;
use crate::util::Out;
use crate::wire;
use apache_avro::schema::Schema;
use apache_avro::types::Value;
use std::process::Command;
use std::sync::{Arc, Barrier, Mutex};

/// validator accepting exactly the names that start with its tag (so the validator in force is observable)
struct TagValidator(u8);
impl apache_avro::validator::SchemaNameValidator for TagValidator {
    fn validate(&self, name: &str) -> apache_avro::AvroResult<usize> {
        if name.as_bytes().first() == Some(&(b'A' + self.0)) {
            Ok(0)
        } else {
            Err(apache_avro::error::Details::InvalidSchemaName(name.to_string(), "tag").into())
        }
    }
}
impl apache_avro::validator::EnumSymbolNameValidator for TagValidator {
    fn validate(&self, name: &str) -> apache_avro::AvroResult<()> {
        if name.as_bytes().first() == Some(&(b'A' + self.0)) {
            Ok(())
        } else {
            Err(apache_avro::error::Details::EnumSymbolName(name.to_string()).into())
        }
    }
}

fn observe_name_validator() -> i64 {
    // which tag does the validator in force accept? -1 = the default (spec) validator
    for t in 0..26u8 {
        let name = format!("{}9é", (b'A' + t) as char); // not a spec-valid name, only a tag validator accepts it
        if apache_avro::schema::Name::new(name.as_str()).is_ok() {
            return t as i64;
        }
    }
    -1
}

fn observe_enum_validator() -> i64 {
    for t in 0..26u8 {
        let sym = format!("{}-x", (b'A' + t) as char); // not a spec-valid symbol
        let js = format!(r#"{{"type":"enum","name":"E","symbols":["{sym}"]}}"#);
        if Schema::parse_str(&js).is_ok() {
            return t as i64;
        }
    }
    -1
}

/// child: prints one line per thread `t <thread> <op> <proposed> <observed>` and final reads `final <v>`
pub fn child(args: &[String]) -> i32 {
    let setting = args[0].as_str();
    let n: usize = args[1].parse().unwrap();
    let seed: u64 = args[2].parse().unwrap();
    let barrier = Arc::new(Barrier::new(n));
    let log = Arc::new(Mutex::new(Vec::<String>::new()));
    let mut handles = vec![];
    let mut rng = Rng::new(seed);
    for t in 0..n {
        let b = barrier.clone();
        let lg = log.clone();
        let spins = rng.below(4000);
        let role = rng.below(3); // 0,1 = setter ; 2 = first use
        let setting = setting.to_string();
        handles.push(std::thread::spawn(move || {
            b.wait();
            let mut x = 0u64;
            for i in 0..spins {
                x = x.wrapping_add(i as u64 ^ 0x55);
            }
            std::hint::black_box(x);
            let line = match setting.as_str() {
                "limit" => {
                    if role < 2 {
                        let proposal = 1000 + t * 7;
                        let got = apache_avro::util::max_allocation_bytes(proposal);
                        format!("t {t} getorinit {proposal} {got}")
                    } else {
                        // first use: decoding something goes through safe_len with the default
                        let _ = apache_avro::from_avro_datum(&Schema::Bytes, &mut &[2u8, 0x61][..], None);
                        let got = apache_avro::util::max_allocation_bytes(apache_avro::util::DEFAULT_MAX_ALLOCATION_BYTES);
                        format!("t {t} getorinit {} {got}", apache_avro::util::DEFAULT_MAX_ALLOCATION_BYTES)
                    }
                }
                "human" => {
                    if role < 2 {
                        let proposal = t % 2 == 0;
                        let got = apache_avro::util::set_serde_human_readable(proposal);
                        format!("t {t} getorinit {} {}", proposal as u8, got as u8)
                    } else {
                        // first use through to_value (reads the flag, initialising the default)
                        let _ = apache_avro::to_value(1i32);
                        let got = apache_avro::util::set_serde_human_readable(apache_avro::util::DEFAULT_SERDE_HUMAN_READABLE);
                        format!("t {t} getorinit {} {}", apache_avro::util::DEFAULT_SERDE_HUMAN_READABLE as u8, got as u8)
                    }
                }
                "name" => {
                    if role < 2 {
                        let tag = (t % 26) as u8;
                        let r = apache_avro::validator::set_schema_name_validator(Box::new(TagValidator(tag)));
                        format!("t {t} set {tag} {}", if r.is_ok() { "ok".to_string() } else { "err".to_string() })
                    } else {
                        let _ = apache_avro::schema::Name::new("plain_name");
                        format!("t {t} use -1 -")
                    }
                }
                _ => {
                    if role < 2 {
                        let tag = (t % 26) as u8;
                        let r = apache_avro::validator::set_enum_symbol_name_validator(Box::new(TagValidator(tag)));
                        format!("t {t} set {tag} {}", if r.is_ok() { "ok".to_string() } else { "err".to_string() })
                    } else {
                        let _ = Schema::parse_str(r#"{"type":"enum","name":"E","symbols":["a"]}"#);
                        format!("t {t} use -1 -")
                    }
                }
            };
            lg.lock().unwrap().push(line);
        }));
    }
    for h in handles {
        h.join().unwrap();
    }
    for l in log.lock().unwrap().iter() {
        println!("{l}");
    }
    // the value in force afterwards, read twice
    for _ in 0..2 {
        let v: i64 = match setting {
            "limit" => apache_avro::util::max_allocation_bytes(1) as i64,
            "human" => apache_avro::util::set_serde_human_readable(true) as i64,
            "name" => observe_name_validator(),
            _ => observe_enum_validator(),
        };
        println!("final {v}");
    }
    0
}

/// child: first USE of the allocation limit (a decode), then a late setter — the documented
/// default must have been fixed by the first use
pub fn child_use_then_set(args: &[String]) -> i32 {
    let which = args[0].as_str();
    // first use through a decoder that only needs the length guard
    let mut input = vec![];
    crate::c05::long(3, &mut input);
    input.extend_from_slice(b"abc");
    let schema = match which {
        "string" => Schema::String,
        "fixed" => Schema::parse_str(r#"{"type":"fixed","name":"F","size":3}"#).unwrap(),
        "array" => Schema::parse_str(r#"{"type":"array","items":"null"}"#).unwrap(),
        _ => Schema::Bytes,
    };
    let first: &[u8] = match which { "fixed" => b"abc", "array" => &[4, 0], _ => &input };
    let r0 = apache_avro::from_avro_datum(&schema, &mut &first[..], None).is_ok();
    let reported = apache_avro::util::max_allocation_bytes(1024);
    // a 2000-byte value: within the default, beyond the late proposal
    let mut big = vec![];
    crate::c05::long(2000, &mut big);
    big.extend(std::iter::repeat(0x61u8).take(2000));
    let r1 = apache_avro::from_avro_datum(&Schema::Bytes, &mut &big[..], None).is_ok();
    println!("first_use_ok {r0} reported {reported} later_2000_ok {r1}");
    0
}

/// child: the limit is set through the deprecated crate-root entry point; every other entry point and every decoder
/// must then see that value
#[allow(deprecated)]
pub fn child_root_setter(_args: &[String]) -> i32 {
    let set = apache_avro::max_allocation_bytes(1024);
    let seen = apache_avro::util::max_allocation_bytes(4096);
    let mut at = vec![];
    crate::c05::long(1024, &mut at);
    at.extend(std::iter::repeat(0x61u8).take(1024));
    let mut above = vec![];
    crate::c05::long(1025, &mut above);
    above.extend(std::iter::repeat(0x61u8).take(1025));
    let r_at = apache_avro::from_avro_datum(&Schema::Bytes, &mut &at[..], None).is_ok();
    let r_above = apache_avro::from_avro_datum(&Schema::Bytes, &mut &above[..], None).is_ok();
    println!("root_set {set} util_sees {seen} len_1024_ok {r_at} len_1025_ok {r_above}");
    0
}

/// child for the limit boundary: set the limit, then decode declared lengths around it
pub fn child_limit(args: &[String]) -> i32 {
    let lim: usize = args[0].parse().unwrap();
    let got = apache_avro::util::max_allocation_bytes(lim);
    println!("lim {got}");
    let szv = std::mem::size_of::<Value>();
    let sze = std::mem::size_of::<(String, Value)>();
    let mut lens: Vec<u64> = vec![0, 1];
    for d in [-1i64, 0, 1] {
        let x = lim as i128 + d as i128;
        if x >= 0 && x <= i64::MAX as i128 {
            lens.push(x as u64);
        }
        let y = (lim / szv) as i128 + d as i128;
        if y >= 0 {
            lens.push(y as u64);
        }
    }
    lens.push(1 << 40);
    lens.push(i64::MAX as u64);
    for (text, sexp) in [("\"bytes\"", "bytes"), ("\"string\"", "string"), ("{\"type\":\"array\",\"items\":\"null\"}", "(array null)"),
                         ("{\"type\":\"map\",\"values\":\"null\"}", "(map null)")] {
        let schema = Schema::parse_str(text).unwrap();
        for &l in &lens {
            // do not really allocate/iterate gigantic accepted sizes
            if l as u128 * (if sexp.starts_with('(') { szv as u128 } else { 1 }) > (64u128 << 20) && (l as usize) <= lim {
                continue;
            }
            let mut input = Vec::new();
            crate::c05::long(l as i64, &mut input);
            if sexp == "(array null)" {
                input.push(0);
            }
            let mut slice = &input[..];
            let r = apache_avro::from_avro_datum(&schema, &mut slice, None);
            let line = match r {
                Ok(v) => format!("ok {} {}", wire::value_str(&v, true), slice.len()),
                Err(_) => "err".to_string(),
            };
            println!("dec {got} {szv} {sze} () {sexp} {} => {line}", wire::hex(&input));
        }
    }
    0
}

pub fn run(args: &[String]) -> i32 {
    let dir = &args[0];
    let seed: u64 = args[1].parse().unwrap();
    let reps: usize = args[2].parse().unwrap();
    let mut out = Out::new(dir);
    let mut rng = Rng::new(seed);
    let exe = std::env::current_exe().unwrap();
    for setting in ["limit", "human", "name", "enum"] {
        for &n in &[2usize, 4, 8, 16] {
            for _ in 0..reps {
                let s = rng.next() % 1_000_000;
                let o = Command::new(&exe).args(["c19child", setting, &n.to_string(), &s.to_string()]).output().unwrap();
                let text = String::from_utf8_lossy(&o.stdout).to_string();
                let case = format!("setting={setting} threads={n} seed={s} log={}", text.replace('\n', " | "));
                out.count(&format!("races_{setting}"));
                if !o.status.success() {
                    out.oracle_fail("child-crash", &format!("child exited {:?}: {}", o.status, String::from_utf8_lossy(&o.stderr)), &case);
                    continue;
                }
                let mut ops: Vec<(String, i64, String)> = vec![]; // (op, proposed, observed)
                let mut finals: Vec<i64> = vec![];
                for l in text.lines() {
                    let f: Vec<&str> = l.split_whitespace().collect();
                    if f[0] == "t" {
                        ops.push((f[2].to_string(), f[3].parse().unwrap(), f[4].to_string()));
                    } else if f[0] == "final" {
                        finals.push(f[1].parse().unwrap());
                    }
                }
                // the winner
                let winner: i64 = if setting == "limit" || setting == "human" {
                    // every observation must be the same value, and it must be somebody's proposal
                    let obs: Vec<i64> = ops.iter().map(|o| o.2.parse().unwrap()).collect();
                    let w = obs[0];
                    if obs.iter().any(|x| *x != w) {
                        out.oracle_fail("observers-disagree", "threads observed different values of a set-once setting", &case);
                    }
                    if !ops.iter().any(|o| o.1 == w) {
                        out.oracle_fail("value-from-nowhere", "the value in force was proposed by nobody", &case);
                    }
                    w
                } else {
                    let oks: Vec<i64> = ops.iter().filter(|o| o.0 == "set" && o.2 == "ok").map(|o| o.1).collect();
                    let has_use = ops.iter().any(|o| o.0 == "use");
                    if oks.len() > 1 {
                        out.oracle_fail("two-setters-won", &format!("{} set calls returned Ok", oks.len()), &case);
                    }
                    if oks.is_empty() && !has_use {
                        out.oracle_fail("nobody-won", "every set call failed although nothing had initialised the setting", &case);
                    }
                    oks.first().copied().unwrap_or(-1)
                };
                if finals.iter().any(|f| *f != winner) {
                    out.oracle_fail("value-changed", &format!("later reads {finals:?} differ from the value in force {winner}"), &case);
                }
                // correspondence: a linearisation with the winner first, replayed through the model
                let mut lin: Vec<&(String, i64, String)> = vec![];
                let widx = ops.iter().position(|o| (o.0 == "getorinit" && o.1 == winner) || (o.0 == "set" && o.2 == "ok") || (o.0 == "use" && winner == -1));
                if let Some(wi) = widx {
                    lin.push(&ops[wi]);
                    for (i, o) in ops.iter().enumerate() {
                        if i != wi {
                            lin.push(o);
                        }
                    }
                    let mut req = String::from("once (");
                    let mut imp = String::new();
                    for o in &lin {
                        match o.0.as_str() {
                            "getorinit" => {
                                req.push_str(&format!("(g {}) ", o.1));
                                imp.push_str(&format!("v{} ", o.2));
                            }
                            "set" => {
                                req.push_str(&format!("(s {}) ", o.1));
                                imp.push_str(&format!("{} ", if o.2 == "ok" { "ok".to_string() } else { format!("e{}", o.1) }));
                            }
                            _ => {
                                req.push_str("(g -1) ");
                                imp.push_str("v-1 ");
                            }
                        }
                    }
                    req.push(')');
                    if setting == "name" || setting == "enum" {
                        // a "use" observes nothing directly; replace its report by the model-visible one
                        // (the value in force), which the final reads confirm
                        let fixed: Vec<String> = lin.iter().map(|o| match o.0.as_str() {
                            "use" => format!("v{winner}"),
                            "set" => if o.2 == "ok" { "ok".to_string() } else { format!("e{}", o.1) },
                            _ => format!("v{}", o.2),
                        }).collect();
                        imp = fixed.join(" ") + " ";
                    }
                    out.pair(&req, imp.trim_end());
                }
            }
        }
    }
    // first use, then a late setter: the default was fixed by the first use
    for which in ["bytes", "string", "fixed", "array"] {
        let o = Command::new(&exe).args(["c19seq", which]).output().unwrap();
        let text = String::from_utf8_lossy(&o.stdout).to_string();
        out.count("use_then_set");
        let want = format!("first_use_ok true reported {} later_2000_ok true", apache_avro::util::DEFAULT_MAX_ALLOCATION_BYTES);
        if text.trim() != want {
            out.oracle_fail("late-setter-changes-limit", &format!("observed `{}`, expected `{want}`", text.trim()),
                &format!("fresh process: decode a {which} datum (first use of the limit), then max_allocation_bytes(1024), then decode 2000 bytes"));
        }
        out.pair(&format!("once ((g {}) (g 1024))", apache_avro::util::DEFAULT_MAX_ALLOCATION_BYTES),
            &format!("v{} v{}", apache_avro::util::DEFAULT_MAX_ALLOCATION_BYTES, text.split_whitespace().nth(3).unwrap_or("?")));
    }
    // the deprecated crate-root setter and util's are one setting
    {
        let o = Command::new(&exe).args(["c19root"]).output().unwrap();
        let text = String::from_utf8_lossy(&o.stdout).to_string();
        out.count("root_setter");
        let want = "root_set 1024 util_sees 1024 len_1024_ok true len_1025_ok false";
        if text.trim() != want {
            out.oracle_fail("entry-points-disagree", &format!("observed `{}`, expected `{want}`", text.trim()),
                "fresh process: apache_avro::max_allocation_bytes(1024) (deprecated crate-root entry point), then util::max_allocation_bytes(4096), then decode bytes of declared length 1024 and 1025");
        }
    }
    // the limit in force is the one every decoder applies
    for lim in [0usize, 1, 4096, 65536, usize::MAX] {
        let o = Command::new(&exe).args(["c19limit", &lim.to_string()]).output().unwrap();
        let text = String::from_utf8_lossy(&o.stdout).to_string();
        if !o.status.success() {
            out.oracle_fail("child-crash", &format!("limit child exited {:?}", o.status), &format!("limit={lim}"));
            continue;
        }
        for l in text.lines() {
            if let Some((req, imp)) = l.split_once(" => ") {
                out.pair(req, imp);
                out.count("limit_boundary_cases");
            } else if let Some(v) = l.strip_prefix("lim ") {
                if v.parse::<usize>().ok() != Some(lim) {
                    out.oracle_fail("limit-not-first-set", &format!("first call set {lim}, reported {v}"), "fresh process");
                }
            }
        }
    }
    out.finish(dir, serde_json::json!({}));
    0
}
