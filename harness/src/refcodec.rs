//! An independent implementation of the Avro binary encoding, written from the specification
//! (not from the crate): a decoder, and an encoder that picks a *random specification-legal
//! layout* (block partitions of arrays/maps, negative counts with byte sizes).
use crate::rng::Rng;
use apache_avro::schema::{DecimalSchema, InnerDecimalSchema, NamesRef, Schema, UuidSchema};
use apache_avro::types::Value;
use apache_avro::{Days, Decimal, Duration, Millis, Months};
use std::collections::HashMap;

pub fn zigzag(n: i64) -> u64 {
    if n >= 0 { 2 * (n as u64) } else { 2 * ((-(n + 1)) as u64) + 1 }
}
pub fn unzigzag(z: u64) -> i64 {
    if z % 2 == 0 { (z / 2) as i64 } else { -((z / 2) as i64) - 1 }
}
pub fn put_long(n: i64, out: &mut Vec<u8>) {
    let mut z = zigzag(n);
    while z >= 128 {
        out.push(128 + (z % 128) as u8);
        z /= 128;
    }
    out.push(z as u8);
}
fn get_long(b: &[u8], p: &mut usize) -> Option<i64> {
    let mut z: u128 = 0;
    let mut mul: u128 = 1;
    for _ in 0..10 {
        let x = *b.get(*p)?;
        *p += 1;
        z += (x % 128) as u128 * mul;
        mul *= 128;
        if x < 128 {
            return Some(unzigzag((z % (1u128 << 64)) as u64));
        }
    }
    None
}
fn get_bytes<'a>(b: &'a [u8], p: &mut usize) -> Option<&'a [u8]> {
    let n = get_long(b, p)?;
    if n < 0 {
        return None;
    }
    let s = b.get(*p..p.checked_add(n as usize)?)?;
    *p += n as usize;
    Some(s)
}

pub struct Ctx<'a> {
    pub names: &'a NamesRef<'a>,
}

impl Ctx<'_> {
    pub fn decode(&self, s: &Schema, ns: Option<&str>, b: &[u8], p: &mut usize) -> Option<Value> {
        Some(match s {
            Schema::Null => Value::Null,
            Schema::Boolean => {
                let x = *b.get(*p)?;
                *p += 1;
                match x { 0 => Value::Boolean(false), 1 => Value::Boolean(true), _ => return None }
            }
            Schema::Int => Value::Int(i32::try_from(get_long(b, p)?).ok()?),
            Schema::Date => Value::Date(i32::try_from(get_long(b, p)?).ok()?),
            Schema::TimeMillis => Value::TimeMillis(i32::try_from(get_long(b, p)?).ok()?),
            Schema::Long => Value::Long(get_long(b, p)?),
            Schema::TimeMicros => Value::TimeMicros(get_long(b, p)?),
            Schema::TimestampMillis => Value::TimestampMillis(get_long(b, p)?),
            Schema::TimestampMicros => Value::TimestampMicros(get_long(b, p)?),
            Schema::TimestampNanos => Value::TimestampNanos(get_long(b, p)?),
            Schema::LocalTimestampMillis => Value::LocalTimestampMillis(get_long(b, p)?),
            Schema::LocalTimestampMicros => Value::LocalTimestampMicros(get_long(b, p)?),
            Schema::LocalTimestampNanos => Value::LocalTimestampNanos(get_long(b, p)?),
            Schema::Float => {
                let s = b.get(*p..*p + 4)?;
                *p += 4;
                Value::Float(f32::from_bits(u32::from_le_bytes(s.try_into().ok()?)))
            }
            Schema::Double => {
                let s = b.get(*p..*p + 8)?;
                *p += 8;
                Value::Double(f64::from_bits(u64::from_le_bytes(s.try_into().ok()?)))
            }
            Schema::Bytes => Value::Bytes(get_bytes(b, p)?.to_vec()),
            Schema::String => Value::String(String::from_utf8(get_bytes(b, p)?.to_vec()).ok()?),
            Schema::Fixed(f) => {
                let s = b.get(*p..p.checked_add(f.size)?)?;
                *p += f.size;
                Value::Fixed(f.size, s.to_vec())
            }
            Schema::Enum(e) => {
                let i = get_long(b, p)?;
                let sym = e.symbols.get(usize::try_from(i).ok()?)?;
                Value::Enum(i as u32, sym.clone())
            }
            Schema::Union(u) => {
                let i = get_long(b, p)?;
                let br = u.variants().get(usize::try_from(i).ok()?)?;
                Value::Union(i as u32, Box::new(self.decode(br, ns, b, p)?))
            }
            Schema::Array(a) => {
                let mut items = vec![];
                loop {
                    let mut n = get_long(b, p)?;
                    if n == 0 {
                        break;
                    }
                    if n < 0 {
                        get_long(b, p)?; // byte size of the block
                        n = n.checked_neg()?;
                    }
                    for _ in 0..n {
                        items.push(self.decode(&a.items, ns, b, p)?);
                    }
                }
                Value::Array(items)
            }
            Schema::Map(m) => {
                let mut items = HashMap::new();
                loop {
                    let mut n = get_long(b, p)?;
                    if n == 0 {
                        break;
                    }
                    if n < 0 {
                        get_long(b, p)?;
                        n = n.checked_neg()?;
                    }
                    for _ in 0..n {
                        let k = String::from_utf8(get_bytes(b, p)?.to_vec()).ok()?;
                        items.insert(k, self.decode(&m.types, ns, b, p)?);
                    }
                }
                Value::Map(items)
            }
            Schema::Record(r) => {
                let fq = r.name.fully_qualified_name(ns).into_owned();
                let rns = fq.namespace().map(|x| x.to_string());
                let mut fs = vec![];
                for f in &r.fields {
                    fs.push((f.name.clone(), self.decode(&f.schema, rns.as_deref(), b, p)?));
                }
                Value::Record(fs)
            }
            Schema::Ref { name } => {
                let fq = name.fully_qualified_name(ns).into_owned();
                let t = self.names.get(&fq)?;
                let tns = fq.namespace().map(|x| x.to_string());
                self.decode(t, tns.as_deref(), b, p)?
            }
            // logical types: stored as their underlying type
            Schema::Decimal(DecimalSchema { inner, .. }) => match inner {
                InnerDecimalSchema::Bytes => Value::Decimal(Decimal::from(get_bytes(b, p)?.to_vec())),
                InnerDecimalSchema::Fixed(f) => {
                    let s = b.get(*p..p.checked_add(f.size)?)?;
                    *p += f.size;
                    Value::Decimal(Decimal::from(s.to_vec()))
                }
            },
            Schema::BigDecimal => {
                let inner = get_bytes(b, p)?;
                let mut q = 0usize;
                let mag = get_bytes(inner, &mut q)?;
                let scale = get_long(inner, &mut q)?;
                Value::BigDecimal(bigdecimal::BigDecimal::new(num_bigint::BigInt::from_signed_bytes_be(mag), scale))
            }
            Schema::Uuid(UuidSchema::String) => {
                let s = std::str::from_utf8(get_bytes(b, p)?).ok()?.to_string();
                Value::Uuid(uuid::Uuid::parse_str(&s).ok()?)
            }
            Schema::Uuid(UuidSchema::Bytes) => Value::Uuid(uuid::Uuid::from_slice(get_bytes(b, p)?).ok()?),
            Schema::Uuid(UuidSchema::Fixed(_)) => {
                let s = b.get(*p..*p + 16)?;
                *p += 16;
                Value::Uuid(uuid::Uuid::from_slice(s).ok()?)
            }
            Schema::Duration(_) => {
                let s = b.get(*p..*p + 12)?;
                *p += 12;
                let g = |i: usize| u32::from_le_bytes(s[4 * i..4 * i + 4].try_into().unwrap());
                Value::Duration(Duration::new(Months::new(g(0)), Days::new(g(1)), Millis::new(g(2))))
            }
        })
    }

    /// a random specification-legal layout of a conforming value
    pub fn encode(&self, rng: &mut Rng, s: &Schema, ns: Option<&str>, v: &Value, out: &mut Vec<u8>) -> Option<()> {
        match (s, v) {
            (Schema::Ref { name }, _) => {
                let fq = name.fully_qualified_name(ns).into_owned();
                let t = self.names.get(&fq)?;
                let tns = fq.namespace().map(|x| x.to_string());
                return self.encode(rng, t, tns.as_deref(), v, out);
            }
            (Schema::Null, Value::Null) => {}
            (Schema::Boolean, Value::Boolean(b)) => out.push(*b as u8),
            (_, Value::Int(n)) | (_, Value::Date(n)) | (_, Value::TimeMillis(n)) => put_long(*n as i64, out),
            (_, Value::Long(n)) | (_, Value::TimeMicros(n)) | (_, Value::TimestampMillis(n)) | (_, Value::TimestampMicros(n))
            | (_, Value::TimestampNanos(n)) | (_, Value::LocalTimestampMillis(n)) | (_, Value::LocalTimestampMicros(n))
            | (_, Value::LocalTimestampNanos(n)) => put_long(*n, out),
            (_, Value::Float(x)) => out.extend_from_slice(&x.to_bits().to_le_bytes()),
            (_, Value::Double(x)) => out.extend_from_slice(&x.to_bits().to_le_bytes()),
            (_, Value::Bytes(b)) => {
                put_long(b.len() as i64, out);
                out.extend_from_slice(b);
            }
            (_, Value::String(st)) => {
                put_long(st.len() as i64, out);
                out.extend_from_slice(st.as_bytes());
            }
            (_, Value::Fixed(_, b)) => out.extend_from_slice(b),
            (_, Value::Enum(i, _)) => put_long(*i as i64, out),
            (Schema::Union(u), Value::Union(i, inner)) => {
                put_long(*i as i64, out);
                self.encode(rng, u.variants().get(*i as usize)?, ns, inner, out)?;
            }
            (Schema::Array(a), Value::Array(items)) => {
                let mut i = 0;
                while i < items.len() {
                    let n = 1 + rng.below(items.len() - i);
                    let mut blk = Vec::new();
                    for it in &items[i..i + n] {
                        self.encode(rng, &a.items, ns, it, &mut blk)?;
                    }
                    if rng.chance(1, 2) {
                        put_long(-(n as i64), out);
                        put_long(blk.len() as i64, out);
                    } else {
                        put_long(n as i64, out);
                    }
                    out.extend_from_slice(&blk);
                    i += n;
                }
                out.push(0);
            }
            (Schema::Map(m), Value::Map(items)) => {
                let entries: Vec<(&String, &Value)> = items.iter().collect();
                let mut i = 0;
                while i < entries.len() {
                    let n = 1 + rng.below(entries.len() - i);
                    let mut blk = Vec::new();
                    for (k, it) in &entries[i..i + n] {
                        put_long(k.len() as i64, &mut blk);
                        blk.extend_from_slice(k.as_bytes());
                        self.encode(rng, &m.types, ns, it, &mut blk)?;
                    }
                    if rng.chance(1, 2) {
                        put_long(-(n as i64), out);
                        put_long(blk.len() as i64, out);
                    } else {
                        put_long(n as i64, out);
                    }
                    out.extend_from_slice(&blk);
                    i += n;
                }
                out.push(0);
            }
            (Schema::Record(r), Value::Record(fs)) => {
                let fq = r.name.fully_qualified_name(ns).into_owned();
                let rns = fq.namespace().map(|x| x.to_string());
                for (f, (_, fv)) in r.fields.iter().zip(fs) {
                    self.encode(rng, &f.schema, rns.as_deref(), fv, out)?;
                }
            }
            (Schema::Decimal(DecimalSchema { inner, .. }), Value::Decimal(d)) => {
                let big: num_bigint::BigInt = d.clone().into();
                let len = crate::wire::decimal_len(d);
                // two's complement, big-endian, sign-extended to the value's width
                let raw = big.to_signed_bytes_be();
                let mut bytes = vec![if big.sign() == num_bigint::Sign::Minus { 0xffu8 } else { 0 }; len.saturating_sub(raw.len())];
                bytes.extend_from_slice(&raw[raw.len().saturating_sub(len)..]);
                if let InnerDecimalSchema::Bytes = inner {
                    put_long(bytes.len() as i64, out);
                }
                out.extend_from_slice(&bytes);
            }
            (_, Value::BigDecimal(bd)) => {
                let (u, sc) = bd.as_bigint_and_exponent();
                let mag = u.to_signed_bytes_be();
                let mut inner = Vec::new();
                put_long(mag.len() as i64, &mut inner);
                inner.extend_from_slice(&mag);
                put_long(sc, &mut inner);
                put_long(inner.len() as i64, out);
                out.extend_from_slice(&inner);
            }
            (Schema::Uuid(UuidSchema::String), Value::Uuid(u)) => {
                let t = u.hyphenated().to_string();
                put_long(t.len() as i64, out);
                out.extend_from_slice(t.as_bytes());
            }
            (Schema::Uuid(UuidSchema::Bytes), Value::Uuid(u)) => {
                put_long(16, out);
                out.extend_from_slice(u.as_bytes());
            }
            (Schema::Uuid(UuidSchema::Fixed(_)), Value::Uuid(u)) => out.extend_from_slice(u.as_bytes()),
            (_, Value::Duration(d)) => {
                let (m, dd, ms): (u32, u32, u32) = (d.months().into(), d.days().into(), d.millis().into());
                out.extend_from_slice(&m.to_le_bytes());
                out.extend_from_slice(&dd.to_le_bytes());
                out.extend_from_slice(&ms.to_le_bytes());
            }
            _ => return None,
        }
        Some(())
    }
}
