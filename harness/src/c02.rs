//! C02: interop with an independent implementation of the binary encoding (`refcodec`, written from
//! the specification).  Forward: what the crate writes is decoded by the reference decoder to the
//! same value.  Reverse: random specification-legal layouts (several blocks, negative counts with
//! byte sizes) produced by the reference encoder are decoded by the crate to the same value, and by
//! the Lean model (correspondence row `decode_internal` ↔ `Avro.decode` on multi-block input).
use crate::genr::{ValueGen, gen_schema};
use crate::refcodec::Ctx;
use crate::rng::Rng;
use crate::util::{Out, catch, value_eq};
use crate::wire;
use apache_avro::reader::datum::GenericDatumReader;
use apache_avro::schema::ResolvedSchema;
use apache_avro::types::Value;
use apache_avro::writer::datum::GenericDatumWriter;

pub fn run(args: &[String]) -> i32 {
    let dir = &args[0];
    let seed: u64 = args[1].parse().unwrap();
    let n: usize = args[2].parse().unwrap();
    let max_depth: usize = args.get(3).and_then(|s| s.parse().ok()).unwrap_or(4);
    let layouts: usize = args.get(4).and_then(|s| s.parse().ok()).unwrap_or(4);
    let lim = apache_avro::util::max_allocation_bytes(64 * 1024 * 1024);
    let szv = std::mem::size_of::<Value>();
    let sze = std::mem::size_of::<(String, Value)>();
    let mut out = Out::new(dir);
    crate::util::watchdog(dir, 10000);
    let mut rng = Rng::new(seed);
    let mut done = 0;
    while done < n {
        let mut crng = rng.fork();
        let (text, schema) = gen_schema(&mut crng, max_depth);
        let rs = ResolvedSchema::new(&schema).unwrap();
        let names = rs.get_names();
        let vg = ValueGen { names, max_depth: max_depth + 2, gave_up: Default::default() };
        let v = vg.value(&mut crng, &schema, None, 0);
        if vg.gave_up.get() {
            continue;
        }
        done += 1;
        let case = format!("schema={} value={}", crate::util::trunc(&text, 400), crate::util::trunc(&wire::value_str(&v, true), 300).to_string());
        let ctx = Ctx { names };
        // forward
        let w = GenericDatumWriter::builder(&schema).build().unwrap();
        match catch(|| w.write_value_to_vec(v.clone())) {
            Ok(Ok(bytes)) => {
                let mut p = 0usize;
                match ctx.decode(&schema, None, &bytes, &mut p) {
                    Some(back) if value_eq(&back, &v) && p == bytes.len() => out.count("forward_ok"),
                    Some(back) => out.oracle_fail("reference-decoder-differs", &format!("reference decoder read {} consuming {p} of {} bytes", wire::value_str(&back, true), bytes.len()), &case),
                    None => out.oracle_fail("reference-decoder-rejects", &format!("reference decoder rejects {}", wire::hex(&bytes)), &case),
                }
            }
            Ok(Err(e)) => out.oracle_fail("encode-error", &format!("{e}"), &case),
            Err(()) => out.oracle_fail("panic", "encoder panicked", &case),
        }
        // reverse: several random legal layouts
        let names_s = wire::names_str(names);
        let schema_s = wire::schema_str(&schema);
        let rd = GenericDatumReader::builder(&schema).build().unwrap();
        for _ in 0..layouts {
            let mut layout = Vec::new();
            if ctx.encode(&mut crng, &schema, None, &v, &mut layout).is_none() {
                out.oracle_fail("reference-encoder-gap", "reference encoder cannot lay out this value", &case);
                break;
            }
            out.count("layouts");
            if layout.windows(1).any(|_| false) {}
            let mut s = &layout[..];
            let res = catch(|| rd.read_value(&mut s));
            let line = match &res {
                Ok(Ok(back)) => {
                    if !value_eq(back, &v) || !s.is_empty() {
                        out.oracle_fail("legal-layout-misread", &format!("layout {} read as {} (rest {})", wire::hex(&layout), wire::value_str(back, true), s.len()), &case);
                    }
                    format!("ok {} {}", wire::value_str(back, true), s.len())
                }
                Ok(Err(e)) => {
                    out.oracle_fail("legal-layout-rejected", &format!("layout {} rejected: {e}", wire::hex(&layout)), &case);
                    "err".to_string()
                }
                Err(()) => {
                    out.oracle_fail("panic", "decoder panicked on a legal layout", &case);
                    "err panic".to_string()
                }
            };
            out.pair(&format!("dec {lim} {szv} {sze} {names_s} {schema_s} {}", wire::hex(&layout)), &line);
        }
    }
    out.finish(dir, serde_json::json!({"lim": lim}));
    0
}
