//! C08: reading with a different reader schema follows the specification's resolution rules.
//!
//! (W, R) pairs come from a generated schema by sequences of evolution steps on its JSON; values are
//! conforming values of W.  Rows: `res` = `Value::resolve(R)` ↔ `Avro.resolve` (exact).  Oracle: an
//! independent resolver written from the specification (`spec_resolve`, driven by BOTH schemas - the
//! crate's resolver only sees the value), result validates against R, resolving twice changes nothing,
//! and the reader paths (datum reader and container reader with a reader schema) agree with it.
use crate::genr::{SchemaGen, ValueGen};
use crate::rng::Rng;
use crate::util::{Out, catch, trunc, value_eq};
use crate::wire;
use apache_avro::reader::datum::GenericDatumReader;
use apache_avro::schema::{InnerDecimalSchema, Name, NamesRef, ResolvedSchema, Schema, UuidSchema};
use apache_avro::types::Value;
use apache_avro::writer::datum::GenericDatumWriter;
use apache_avro::{Decimal, Reader, Writer};
use serde_json::{Value as J, json};
use std::collections::HashMap;

// ---------------------------------------------------------------------------------------------
// evolution steps on the schema JSON

pub struct Evolver {
    pub applied: Vec<&'static str>,
    pub rate: u32,
    counter: usize,
    /// how many more sites may change (single-step evolutions keep W and R equal everywhere else)
    pub budget: std::cell::Cell<usize>,
    /// only the steps the specification defines as always safe (C09): promote, add a field with a default,
    /// remove / reorder fields, add a union branch, add an enum symbol
    pub safe_only: bool,
}

const PRIMS: &[&str] = &["null", "boolean", "int", "long", "float", "double", "bytes", "string"];

impl Evolver {
    pub fn new(rate: u32) -> Self {
        Evolver { applied: vec![], rate, counter: 0, budget: std::cell::Cell::new(usize::MAX), safe_only: false }
    }
    fn note(&mut self, s: &'static str) {
        if !self.applied.contains(&s) {
            self.applied.push(s);
        }
    }
    fn hit(&self, rng: &mut Rng) -> bool {
        if self.budget.get() == 0 {
            return false;
        }
        let h = rng.chance(self.rate, 100);
        if h && self.budget.get() != usize::MAX {
            self.budget.set(self.budget.get() - 1);
        }
        h
    }

    /// a new field's (type, default) - "defaults of every type"
    fn new_field_type(&mut self, rng: &mut Rng) -> (J, Option<J>) {
        self.counter += 1;
        let c = self.counter;
        let all: Vec<(J, J)> = vec![
            (json!("null"), J::Null),
            (json!("boolean"), json!(true)),
            (json!("int"), json!(-42)),
            (json!("long"), json!(9007199254740993i64)),
            (json!("float"), json!(1.5)),
            (json!("double"), json!(-2.25)),
            (json!("bytes"), json!("\u{00ff}\u{0001}a")),
            (json!("string"), json!("dflt é")),
            (json!({"type":"array","items":"int"}), json!([1, 2, 3])),
            (json!({"type":"map","values":"string"}), json!({"k": "v"})),
            (json!({"type":"enum","name":format!("NewE{c}"),"symbols":["A","B","C"]}), json!("B")),
            (json!({"type":"fixed","name":format!("NewF{c}"),"size":2}), json!("\u{0001}\u{00fe}")),
            (json!({"type":"record","name":format!("NewR{c}"),"fields":[{"name":"x","type":"int","default":7},{"name":"y","type":"string"}]}), json!({"y": "why"})),
            (json!(["null", "int"]), J::Null),
            (json!(["int", "null"]), json!(5)),
            (json!(["string", "long"]), json!("first branch")),
            (json!([{"type":"array","items":"long"}, "null"]), json!([4, 5])),
            (json!({"type":"int","logicalType":"date"}), json!(17)),
            (json!({"type":"long","logicalType":"timestamp-millis"}), json!(1234567)),
            (json!({"type":"string","logicalType":"uuid"}), json!("0f8fad5b-d9cb-469f-a165-70867728950e")),
            (json!({"type":"bytes","logicalType":"decimal","precision":4,"scale":2}), json!("\u{0001}\u{0002}")),
            (json!({"type":"array","items":{"type":"record","name":format!("NewR{c}b"),"fields":[{"name":"z","type":["null","double"],"default":null}]}}), json!([{}, {"z": 1.25}])),
        ];
        let (t, d) = rng.pick(&all).clone();
        if !self.safe_only && rng.chance(1, 6) {
            self.note("add a field without a default");
            (t, None)
        } else {
            self.note("add a field with a default");
            (t, Some(d))
        }
    }

    fn prim(&mut self, rng: &mut Rng, t: &str) -> Option<&'static str> {
        // promotions the specification allows, and changes it does not
        let promote: &[&'static str] = match t {
            "int" => &["long", "float", "double"],
            "long" => &["float", "double"],
            "float" => &["double"],
            "string" => &["bytes"],
            "bytes" => &["string"],
            _ => &[],
        };
        if !promote.is_empty() && (self.safe_only || rng.chance(2, 3)) {
            self.note("promote");
            return Some(*rng.pick(promote));
        }
        if self.safe_only {
            return None;
        }
        let other: Vec<&'static str> = PRIMS.iter().copied().filter(|p| *p != t && !promote.contains(p)).collect();
        self.note("incompatible change of a primitive");
        Some(*rng.pick(&other))
    }

    pub fn evolve(&mut self, rng: &mut Rng, j: &J, allow_union: bool) -> J {
        let out = self.evolve_inner(rng, j);
        if allow_union && !self.safe_only && !out.is_array() && self.hit(rng) && rng.chance(1, 2) {
            self.note("wrap in a union");
            return match rng.below(3) {
                0 => json!(["null", out]),
                1 => json!([out, "null"]),
                _ => json!([out]),
            };
        }
        out
    }

    fn evolve_inner(&mut self, rng: &mut Rng, j: &J) -> J {
        match j {
            J::String(t) if PRIMS.contains(&t.as_str()) => {
                if self.hit(rng) {
                    if !self.safe_only && (t == "int" || t == "long") && rng.chance(1, 4) {
                        self.note("plain to logical");
                        return if t == "int" { json!({"type":"int","logicalType":"date"}) } else { json!({"type":"long","logicalType":"timestamp-micros"}) };
                    }
                    match self.prim(rng, t) {
                        Some(n) => J::String(n.into()),
                        None => j.clone(),
                    }
                } else {
                    j.clone()
                }
            }
            J::String(_) => j.clone(), // a reference
            J::Array(branches) => {
                let mut bs: Vec<J> = branches.iter().map(|b| self.evolve(rng, b, false)).collect();
                if !self.safe_only && self.hit(rng) && bs.len() > 1 {
                    self.note("remove a union branch");
                    let i = if rng.chance(1, 2) { bs.len() - 1 } else { rng.below(bs.len()) };
                    bs.remove(i);
                }
                if self.hit(rng) {
                    let present: Vec<String> = bs.iter().map(kind_of).collect();
                    let cands: Vec<&&str> = PRIMS.iter().filter(|p| !present.contains(&p.to_string())).collect();
                    if !cands.is_empty() {
                        self.note("add a union branch");
                        let b = J::String(rng.pick(&cands).to_string());
                        let at = rng.below(bs.len() + 1);
                        bs.insert(at, b);
                    }
                }
                if !self.safe_only && self.hit(rng) && bs.len() > 1 {
                    self.note("reorder union branches");
                    let i = rng.below(bs.len());
                    let b = bs.remove(i);
                    let at = rng.below(bs.len() + 1);
                    bs.insert(at, b);
                }
                if !self.safe_only && self.hit(rng) && rng.chance(1, 3) {
                    self.note("unwrap from a union");
                    return rng.pick(&bs).clone();
                }
                J::Array(bs)
            }
            J::Object(m) => {
                let t = m.get("type").cloned().unwrap_or(J::Null);
                let mut m = m.clone();
                match t.as_str() {
                    Some("record") => {
                        let mut fields: Vec<J> = m.get("fields").and_then(|f| f.as_array()).cloned().unwrap_or_default();
                        let mut out: Vec<J> = vec![];
                        let mut removed: Vec<String> = vec![];
                        for f in fields.drain(..) {
                            let mut f = f.as_object().unwrap().clone();
                            if self.hit(rng) && rng.chance(1, 2) {
                                self.note("remove a field");
                                removed.push(f["name"].as_str().unwrap_or("").to_string());
                                continue;
                            }
                            let ft = self.evolve(rng, &f["type"].clone(), true);
                            f.insert("type".into(), ft);
                            if !self.safe_only && self.hit(rng) && rng.chance(1, 2) {
                                let old = f["name"].as_str().unwrap().to_string();
                                self.counter += 1;
                                if rng.chance(1, 5) {
                                    self.note("rename a field without an alias");
                                } else {
                                    self.note("rename a field with an alias");
                                    let mut al: Vec<J> = f.get("aliases").and_then(|a| a.as_array()).cloned().unwrap_or_default();
                                    if rng.chance(1, 2) {
                                        al.push(J::String(old));
                                    } else {
                                        al.insert(0, J::String(old));
                                    }
                                    f.insert("aliases".into(), J::Array(al));
                                }
                                f.insert("name".into(), J::String(format!("renamed{}", self.counter)));
                            }
                            out.push(J::Object(f));
                        }
                        // a kept field gets an alias that names a writer field the reader dropped: fields are matched by
                        // name first, so the alias must not capture the other field's data
                        if !removed.is_empty() && !out.is_empty() && (self.hit(rng) || rng.chance(1, 4)) {
                            let i = rng.below(out.len());
                            let name = out[i]["name"].as_str().unwrap_or("").to_string();
                            let target = rng.pick(&removed).clone();
                            let taken = out.iter().any(|f| {
                                f["name"].as_str() == Some(&target) || f.get("aliases").and_then(|a| a.as_array()).is_some_and(|a| a.iter().any(|x| x.as_str() == Some(&target)))
                            });
                            if !taken && !name.starts_with("renamed") && !name.starts_with("added") && !target.is_empty() {
                                self.note("alias that names a dropped writer field");
                                let f = out[i].as_object_mut().unwrap();
                                let mut al: Vec<J> = f.get("aliases").and_then(|a| a.as_array()).cloned().unwrap_or_default();
                                al.insert(0, J::String(target));
                                f.insert("aliases".into(), J::Array(al));
                            }
                        }
                        let mut adds = 0;
                        while self.hit(rng) && adds < 3 {
                            adds += 1;
                            let (t, d) = self.new_field_type(rng);
                            let mut f = serde_json::Map::new();
                            f.insert("name".into(), J::String(format!("added{}", self.counter)));
                            f.insert("type".into(), t);
                            if let Some(d) = d {
                                f.insert("default".into(), d);
                            }
                            let at = rng.below(out.len() + 1);
                            out.insert(at, J::Object(f));
                        }
                        if self.hit(rng) && out.len() > 1 {
                            self.note("reorder fields");
                            let i = rng.below(out.len());
                            let f = out.remove(i);
                            let at = rng.below(out.len() + 1);
                            out.insert(at, f);
                        }
                        m.insert("fields".into(), J::Array(out));
                        J::Object(m)
                    }
                    Some("enum") => {
                        let mut syms: Vec<J> = m["symbols"].as_array().cloned().unwrap_or_default();
                        if !self.safe_only && self.hit(rng) && syms.len() > 1 {
                            let i = rng.below(syms.len());
                            let removed = syms.remove(i);
                            if m.get("default") == Some(&removed) {
                                m.remove("default");
                            }
                            if m.get("default").is_none() && rng.chance(2, 3) {
                                self.note("remove an enum symbol, with a default");
                                m.insert("default".into(), rng.pick(&syms).clone());
                            } else if m.get("default").is_some() {
                                self.note("remove an enum symbol, with a default");
                            } else {
                                self.note("remove an enum symbol, no default");
                            }
                        }
                        if self.hit(rng) {
                            self.note("add an enum symbol");
                            self.counter += 1;
                            let at = rng.below(syms.len() + 1);
                            syms.insert(at, J::String(format!("N{}", self.counter)));
                        }
                        if !self.safe_only && self.hit(rng) && syms.len() > 1 {
                            self.note("reorder enum symbols");
                            let i = rng.below(syms.len());
                            let s = syms.remove(i);
                            let at = rng.below(syms.len() + 1);
                            syms.insert(at, s);
                        }
                        m.insert("symbols".into(), J::Array(syms));
                        J::Object(m)
                    }
                    Some("fixed") => {
                        if !self.safe_only && m.get("logicalType").is_none() && self.hit(rng) && rng.chance(1, 3) {
                            self.note("change a fixed size");
                            let s = m["size"].as_u64().unwrap_or(0);
                            m.insert("size".into(), json!(s + 1));
                        }
                        J::Object(m)
                    }
                    Some("array") => {
                        let it = self.evolve(rng, &m["items"].clone(), true);
                        m.insert("items".into(), it);
                        J::Object(m)
                    }
                    Some("map") => {
                        let it = self.evolve(rng, &m["values"].clone(), true);
                        m.insert("values".into(), it);
                        J::Object(m)
                    }
                    Some(p) if PRIMS.contains(&p) => {
                        let lt = m.get("logicalType").and_then(|l| l.as_str()).map(|s| s.to_string());
                        match lt.as_deref() {
                            None => self.evolve_inner(rng, &J::String(p.to_string())),
                            Some("date" | "time-millis" | "time-micros" | "timestamp-millis" | "timestamp-micros" | "timestamp-nanos"
                                | "local-timestamp-millis" | "local-timestamp-micros" | "local-timestamp-nanos") => {
                                if !self.safe_only && self.hit(rng) {
                                    self.note("logical to underlying");
                                    if rng.chance(1, 3) && p == "int" {
                                        self.note("promote");
                                        return J::String((*rng.pick(&["long", "float", "double"])).into());
                                    }
                                    return J::String(p.to_string());
                                }
                                J::Object(m)
                            }
                            Some(_) => J::Object(m),
                        }
                    }
                    _ => J::Object(m),
                }
            }
            _ => j.clone(),
        }
    }
}

fn kind_of(j: &J) -> String {
    match j {
        J::String(s) => s.clone(),
        J::Object(m) => m.get("type").and_then(|t| t.as_str()).unwrap_or("?").to_string(),
        _ => "?".into(),
    }
}

// ---------------------------------------------------------------------------------------------
// the specification's resolution, from both schemas

pub struct Side<'a> {
    pub names: &'a NamesRef<'a>,
}

pub fn deref<'a>(side: &Side<'a>, s: &'a Schema, ns: Option<String>) -> Result<(&'a Schema, Option<String>), String> {
    let mut s = s;
    let mut ns = ns;
    loop {
        match s {
            Schema::Ref { name } => {
                let fq: Name = name.fully_qualified_name(ns.as_deref()).into_owned();
                let t = side.names.get(&fq).ok_or_else(|| format!("unknown reference {fq:?}"))?;
                ns = fq.namespace().map(|x| x.to_string());
                s = t;
            }
            _ => return Ok((s, ns)),
        }
    }
}

pub fn inner_ns(s: &Schema, ns: &Option<String>) -> Option<String> {
    let n = match s {
        Schema::Record(r) => Some(&r.name),
        Schema::Enum(e) => Some(&e.name),
        Schema::Fixed(f) => Some(&f.name),
        _ => None,
    };
    match n {
        Some(n) => n.namespace().map(|x| x.to_string()).or(ns.clone()),
        None => ns.clone(),
    }
}

#[derive(PartialEq, Clone, Copy, Debug)]
pub enum Match {
    Exact,
    Promotable,
    No,
}

fn logical_long(s: &Schema) -> bool {
    matches!(s, Schema::TimeMicros | Schema::TimestampMillis | Schema::TimestampMicros | Schema::TimestampNanos
        | Schema::LocalTimestampMillis | Schema::LocalTimestampMicros | Schema::LocalTimestampNanos)
}

/// shallow match of a writer schema with a reader (union branch) schema
pub fn shallow(w: &Schema, r: &Schema) -> Match {
    use Schema::*;
    if std::mem::discriminant(w) == std::mem::discriminant(r) {
        return match (w, r) {
            (Record(a), Record(b)) => if a.name.name() == b.name.name() { Match::Exact } else { Match::No },
            (Enum(a), Enum(b)) => if a.name.name() == b.name.name() { Match::Exact } else { Match::No },
            (Fixed(a), Fixed(b)) | (Duration(a), Duration(b)) => if a.name.name() == b.name.name() && a.size == b.size { Match::Exact } else { Match::No },
            (Decimal(a), Decimal(b)) => if a.precision == b.precision && a.scale == b.scale
                && match (&a.inner, &b.inner) {
                    (InnerDecimalSchema::Bytes, InnerDecimalSchema::Bytes) => true,
                    (InnerDecimalSchema::Fixed(x), InnerDecimalSchema::Fixed(y)) => x.name.name() == y.name.name() && x.size == y.size,
                    _ => false,
                } { Match::Exact } else { Match::No },
            (Uuid(a), Uuid(b)) => match (a, b) {
                (UuidSchema::Fixed(x), UuidSchema::Fixed(y)) => if x.name.name() == y.name.name() { Match::Exact } else { Match::No },
                _ => if std::mem::discriminant(a) == std::mem::discriminant(b) { Match::Exact } else { Match::No },
            },
            _ => Match::Exact,
        };
    }
    match (w, r) {
        // a logical type annotates its underlying type: it is read as that type and the other way round
        (Date | TimeMillis, Int) | (Int, Date | TimeMillis) => Match::Exact,
        (w, Long) if logical_long(w) => Match::Exact,
        (Long, r) if logical_long(r) => Match::Exact,
        (Int, Long | Float | Double) | (Long, Float | Double) | (Float, Double) | (String, Bytes) | (Bytes, String) => Match::Promotable,
        (Date | TimeMillis, Long | Float | Double) => Match::Promotable,
        (w, Float | Double) if logical_long(w) => Match::Promotable,
        (Int, r) if logical_long(r) => Match::Promotable,
        _ => Match::No,
    }
}

pub fn spec_resolve(ws: &Side, w: &Schema, wns: Option<String>, rs: &Side, r: &Schema, rns: Option<String>, v: &Value) -> Result<Value, String> {
    let (w, wns) = deref(ws, w, wns)?;
    let (r, rns) = deref(rs, r, rns)?;
    use Schema as S;
    // writer union: the branch that was written
    if let S::Union(wu) = w {
        return match v {
            Value::Union(i, inner) => {
                let wi = wu.variants().get(*i as usize).ok_or("bad writer branch")?;
                spec_resolve(ws, wi, wns, rs, r, rns, inner)
            }
            _ => Err("writer union without a union value".into()),
        };
    }
    // reader union: first exact match, then first promotable
    if let S::Union(ru) = r {
        let mut pick = None;
        for want in [Match::Exact, Match::Promotable] {
            for (j, rj) in ru.variants().iter().enumerate() {
                let (rjd, _) = deref(rs, rj, rns.clone())?;
                if shallow(w, rjd) == want {
                    pick = Some((j, rj));
                    break;
                }
            }
            if pick.is_some() {
                break;
            }
        }
        return match pick {
            Some((j, rj)) => Ok(Value::Union(j as u32, Box::new(spec_resolve(ws, w, wns, rs, rj, rns, v)?))),
            None => Err("no reader branch matches".into()),
        };
    }
    let long_of = |v: &Value| -> Option<i64> {
        match v {
            Value::Int(n) | Value::Date(n) | Value::TimeMillis(n) => Some(*n as i64),
            Value::Long(n) | Value::TimeMicros(n) | Value::TimestampMillis(n) | Value::TimestampMicros(n) | Value::TimestampNanos(n)
            | Value::LocalTimestampMillis(n) | Value::LocalTimestampMicros(n) | Value::LocalTimestampNanos(n) => Some(*n),
            _ => None,
        }
    };
    let w_is_intlike = matches!(w, S::Int | S::Date | S::TimeMillis);
    let w_is_longlike = matches!(w, S::Long) || logical_long(w);
    match (w, r) {
        (S::Null, S::Null) | (S::Boolean, S::Boolean) | (S::Float, S::Float) | (S::Double, S::Double) | (S::Bytes, S::Bytes)
        | (S::String, S::String) | (S::BigDecimal, S::BigDecimal) => Ok(v.clone()),
        (_, S::Int) if w_is_intlike => Ok(Value::Int(long_of(v).ok_or("not an int")? as i32)),
        (_, S::Date) if w_is_intlike && !matches!(w, S::TimeMillis) => Ok(Value::Date(long_of(v).ok_or("not an int")? as i32)),
        (_, S::TimeMillis) if w_is_intlike && !matches!(w, S::Date) => Ok(Value::TimeMillis(long_of(v).ok_or("not an int")? as i32)),
        (_, S::Long) if w_is_intlike || w_is_longlike => Ok(Value::Long(long_of(v).ok_or("not a long")?)),
        (_, S::Float) if w_is_intlike || w_is_longlike => Ok(Value::Float(long_of(v).ok_or("not a long")? as f32)),
        (_, S::Double) if w_is_intlike || w_is_longlike => Ok(Value::Double(long_of(v).ok_or("not a long")? as f64)),
        (S::Float, S::Double) => match v { Value::Float(x) => Ok(Value::Double(f64::from(*x))), _ => Err("not a float".into()) },
        (_, r) if logical_long(r) && (matches!(w, S::Int | S::Long) || std::mem::discriminant(w) == std::mem::discriminant(r)) => {
            let n = long_of(v).ok_or("not a long")?;
            Ok(match r {
                S::TimeMicros => Value::TimeMicros(n),
                S::TimestampMillis => Value::TimestampMillis(n),
                S::TimestampMicros => Value::TimestampMicros(n),
                S::TimestampNanos => Value::TimestampNanos(n),
                S::LocalTimestampMillis => Value::LocalTimestampMillis(n),
                S::LocalTimestampMicros => Value::LocalTimestampMicros(n),
                _ => Value::LocalTimestampNanos(n),
            })
        }
        (S::String, S::Bytes) => match v { Value::String(s) => Ok(Value::Bytes(s.clone().into_bytes())), _ => Err("not a string".into()) },
        (S::Bytes, S::String) => match v {
            Value::Bytes(b) => String::from_utf8(b.clone()).map(Value::String).map_err(|_| "bytes are not UTF-8".into()),
            _ => Err("not bytes".into()),
        },
        (S::Array(wa), S::Array(ra)) => match v {
            Value::Array(items) => Ok(Value::Array(items.iter().map(|x| spec_resolve(ws, &wa.items, wns.clone(), rs, &ra.items, rns.clone(), x)).collect::<Result<Vec<_>, _>>()?)),
            _ => Err("not an array".into()),
        },
        (S::Map(wm), S::Map(rm)) => match v {
            Value::Map(items) => {
                let mut o = HashMap::new();
                for (k, x) in items {
                    o.insert(k.clone(), spec_resolve(ws, &wm.types, wns.clone(), rs, &rm.types, rns.clone(), x)?);
                }
                Ok(Value::Map(o))
            }
            _ => Err("not a map".into()),
        },
        (S::Enum(_), S::Enum(re)) => match v {
            Value::Enum(_, sym) => match re.symbols.iter().position(|s| s == sym) {
                Some(i) => Ok(Value::Enum(i as u32, sym.clone())),
                None => match &re.default {
                    Some(d) => match re.symbols.iter().position(|s| s == d) {
                        Some(i) => Ok(Value::Enum(i as u32, d.clone())),
                        None => Err("enum default is no symbol".into()),
                    },
                    None => Err("symbol unknown to the reader and no default".into()),
                },
            },
            _ => Err("not an enum".into()),
        },
        (S::Fixed(wf), S::Fixed(rf)) => if wf.size == rf.size { Ok(v.clone()) } else { Err("fixed sizes differ".into()) },
        (S::Duration(_), S::Duration(_)) => Ok(v.clone()),
        (S::Uuid(a), S::Uuid(b)) if std::mem::discriminant(a) == std::mem::discriminant(b) => Ok(v.clone()),
        (S::Decimal(a), S::Decimal(b)) if shallow(w, r) == Match::Exact && match (&a.inner, &b.inner) {
            (InnerDecimalSchema::Fixed(x), InnerDecimalSchema::Fixed(y)) => x.size == y.size,
            _ => true,
        } => Ok(v.clone()),
        (S::Record(wr), S::Record(rr)) => {
            let fields = match v {
                Value::Record(fs) => fs,
                _ => return Err("not a record".into()),
            };
            let wns2 = inner_ns(w, &wns);
            let rns2 = inner_ns(r, &rns);
            let mut out = vec![];
            for rf in &rr.fields {
                // by name, then by the reader's aliases
                let wf = wr.fields.iter().find(|wf| wf.name == rf.name).or_else(|| {
                    rf.aliases.iter().find_map(|a| wr.fields.iter().find(|wf| &wf.name == a))
                });
                match wf {
                    Some(wf) => {
                        let val = fields.iter().find(|(k, _)| k == &wf.name).map(|(_, x)| x).ok_or("value lacks a writer field")?;
                        out.push((rf.name.clone(), spec_resolve(ws, &wf.schema, wns2.clone(), rs, &rf.schema, rns2.clone(), val)?));
                    }
                    None => match &rf.default {
                        Some(d) => out.push((rf.name.clone(), default_value(rs, &rf.schema, rns2.clone(), d)?)),
                        None => return Err(format!("reader field {} has no writer field and no default", rf.name)),
                    },
                }
            }
            Ok(Value::Record(out))
        }
        _ => Err(format!("no rule for writer {:?} and reader {:?}", apache_avro::schema::SchemaKind::from(w), apache_avro::schema::SchemaKind::from(r))),
    }
}

/// a field default (JSON) as a value of the field's schema: for a union, of its FIRST branch
pub fn default_value(rs: &Side, s: &Schema, ns: Option<String>, j: &J) -> Result<Value, String> {
    let (s, ns) = deref(rs, s, ns)?;
    use Schema as S;
    let bytes_of = |t: &str| -> Result<Vec<u8>, String> { t.chars().map(|c| u8::try_from(c as u32).map_err(|_| "char above 0xFF in a bytes default".to_string())).collect() };
    let bad = || Err(format!("default {j} does not fit {:?}", apache_avro::schema::SchemaKind::from(s)));
    match s {
        S::Null => if j.is_null() { Ok(Value::Null) } else { bad() },
        S::Boolean => j.as_bool().map(Value::Boolean).ok_or_else(|| bad().unwrap_err()),
        S::Int => j.as_i64().and_then(|n| i32::try_from(n).ok()).map(Value::Int).ok_or_else(|| bad().unwrap_err()),
        S::Date => j.as_i64().and_then(|n| i32::try_from(n).ok()).map(Value::Date).ok_or_else(|| bad().unwrap_err()),
        S::TimeMillis => j.as_i64().and_then(|n| i32::try_from(n).ok()).map(Value::TimeMillis).ok_or_else(|| bad().unwrap_err()),
        S::Long => j.as_i64().map(Value::Long).ok_or_else(|| bad().unwrap_err()),
        S::TimeMicros => j.as_i64().map(Value::TimeMicros).ok_or_else(|| bad().unwrap_err()),
        S::TimestampMillis => j.as_i64().map(Value::TimestampMillis).ok_or_else(|| bad().unwrap_err()),
        S::TimestampMicros => j.as_i64().map(Value::TimestampMicros).ok_or_else(|| bad().unwrap_err()),
        S::TimestampNanos => j.as_i64().map(Value::TimestampNanos).ok_or_else(|| bad().unwrap_err()),
        S::LocalTimestampMillis => j.as_i64().map(Value::LocalTimestampMillis).ok_or_else(|| bad().unwrap_err()),
        S::LocalTimestampMicros => j.as_i64().map(Value::LocalTimestampMicros).ok_or_else(|| bad().unwrap_err()),
        S::LocalTimestampNanos => j.as_i64().map(Value::LocalTimestampNanos).ok_or_else(|| bad().unwrap_err()),
        S::Float => j.as_f64().map(|x| Value::Float(x as f32)).ok_or_else(|| bad().unwrap_err()),
        S::Double => j.as_f64().map(Value::Double).ok_or_else(|| bad().unwrap_err()),
        S::String => j.as_str().map(|t| Value::String(t.to_string())).ok_or_else(|| bad().unwrap_err()),
        S::Bytes => Ok(Value::Bytes(bytes_of(j.as_str().ok_or_else(|| bad().unwrap_err())?)?)),
        S::Fixed(f) => {
            let b = bytes_of(j.as_str().ok_or_else(|| bad().unwrap_err())?)?;
            if b.len() == f.size { Ok(Value::Fixed(f.size, b)) } else { bad() }
        }
        S::Enum(e) => {
            let t = j.as_str().ok_or_else(|| bad().unwrap_err())?;
            match e.symbols.iter().position(|x| x == t) {
                Some(i) => Ok(Value::Enum(i as u32, t.to_string())),
                // (a field default that is no symbol: the enum's own default takes over, as for an unknown written symbol)
                None => match e.default.as_ref().and_then(|d| e.symbols.iter().position(|x| x == d).map(|i| (i, d))) {
                    Some((i, d)) => Ok(Value::Enum(i as u32, d.clone())),
                    None => bad(),
                },
            }
        }
        S::Array(a) => Ok(Value::Array(j.as_array().ok_or_else(|| bad().unwrap_err())?.iter().map(|x| default_value(rs, &a.items, ns.clone(), x)).collect::<Result<Vec<_>, _>>()?)),
        S::Map(m) => {
            let mut o = HashMap::new();
            for (k, x) in j.as_object().ok_or_else(|| bad().unwrap_err())? {
                o.insert(k.clone(), default_value(rs, &m.types, ns.clone(), x)?);
            }
            Ok(Value::Map(o))
        }
        S::Union(u) => {
            // "the first schema that matches in the union" (1.12; before that: the first schema)
            // (a JSON number fits several numeric branches; the text says "the first schema that matches", the crate
            // reads a JSON integer as an int - a long when it does not fit - and any other number as a double, and takes
            // the branch of exactly that type when there is one: the oracle follows that reading)
            if j.is_number() {
                let own: fn(&Schema) -> bool = if j.is_i64() && i32::try_from(j.as_i64().unwrap()).is_ok() {
                    |b| matches!(b, S::Int | S::Date | S::TimeMillis)
                } else if j.is_i64() {
                    |b| matches!(b, S::Long) || logical_long(b)
                } else {
                    |b| matches!(b, S::Double)
                };
                if let Some((i, b)) = u.variants().iter().enumerate().find(|(_, b)| own(b)) {
                    if let Ok(x) = default_value(rs, b, ns.clone(), j) {
                        return Ok(Value::Union(i as u32, Box::new(x)));
                    }
                }
            }
            for (i, b) in u.variants().iter().enumerate() {
                if let Ok(x) = default_value(rs, b, ns.clone(), j) {
                    return Ok(Value::Union(i as u32, Box::new(x)));
                }
            }
            bad()
        }
        S::Record(r) => {
            let o = j.as_object().ok_or_else(|| bad().unwrap_err())?;
            let ns2 = inner_ns(s, &ns);
            let mut out = vec![];
            for f in &r.fields {
                match o.get(&f.name).or_else(|| f.aliases.iter().find_map(|a| o.get(a))).or(f.default.as_ref()) {
                    Some(x) => out.push((f.name.clone(), default_value(rs, &f.schema, ns2.clone(), x)?)),
                    None => return Err(format!("record default lacks {}", f.name)),
                }
            }
            Ok(Value::Record(out))
        }
        S::Uuid(UuidSchema::String) => uuid::Uuid::parse_str(j.as_str().ok_or_else(|| bad().unwrap_err())?).map(Value::Uuid).map_err(|e| e.to_string()),
        S::Decimal(d) if matches!(d.inner, InnerDecimalSchema::Bytes) => Ok(Value::Decimal(Decimal::from(bytes_of(j.as_str().ok_or_else(|| bad().unwrap_err())?)?))),
        _ => Err("default of a type the generator does not produce".into()),
    }
}

// ---------------------------------------------------------------------------------------------

pub fn kind_name(s: &Schema) -> String {
    match s {
        Schema::Decimal(d) => format!("decimal({})", if matches!(d.inner, InnerDecimalSchema::Bytes) { "bytes" } else { "fixed" }),
        Schema::Uuid(UuidSchema::String) => "uuid(string)".into(),
        Schema::Uuid(UuidSchema::Bytes) => "uuid(bytes)".into(),
        Schema::Uuid(UuidSchema::Fixed(_)) => "uuid(fixed)".into(),
        other => format!("{:?}", apache_avro::schema::SchemaKind::from(other)).to_lowercase(),
    }
}

fn agree(a: &Result<Value, String>, b: &Result<Value, apache_avro::Error>) -> bool {
    match (a, b) {
        (Ok(x), Ok(y)) => value_eq(x, y),
        (Err(_), Err(_)) => true,
        _ => false,
    }
}

/// Where do the rules and `resolve` part ways?  Descend while some child node (array item, map value,
/// matched record field, union payload) disagrees on its own; name the deepest such node by the writer
/// and reader kinds there (and, for a record, by how the offending reader field got its value).
pub fn localize(ws: &Side, w: &Schema, wns: Option<String>, rs: &Side, r: &Schema, rns: Option<String>, v: &Value, depth: usize) -> String {
    let Ok((w, wns)) = deref(ws, w, wns) else { return "?".into() };
    let Ok((r, rns)) = deref(rs, r, rns) else { return "?".into() };
    use Schema as S;
    let sub = |w2: &Schema, wns2: Option<String>, r2: &Schema, rns2: Option<String>, v2: &Value| -> Option<String> {
        if depth > 40 {
            return None;
        }
        let want = spec_resolve(ws, w2, wns2.clone(), rs, r2, rns2.clone(), v2);
        let got = catch(|| v2.clone().resolve_with_names(r2, rs.names)).ok()?;
        if let Err(e) = &got {
            if e.to_string().contains("Unresolved schema reference") {
                return None; // the sub-schema cannot be resolved out of its namespace context
            }
        }
        if agree(&want, &got) { None } else { Some(localize(ws, w2, wns2, rs, r2, rns2, v2, depth + 1)) }
    };
    if let (S::Union(wu), Value::Union(i, inner)) = (w, v) {
        if let Some(wi) = wu.variants().get(*i as usize) {
            if let Some(l) = sub(wi, wns.clone(), r, rns.clone(), inner) {
                return l;
            }
            let (wd, _) = deref(ws, wi, wns.clone()).unwrap_or((wi, None));
            return format!("writer union branch {} -> {}", kind_name(wd), kind_name(r));
        }
    }
    if let S::Union(ru) = r {
        // which branch do the rules choose?
        if let Ok(Value::Union(j, _)) = spec_resolve(ws, w, wns.clone(), rs, r, rns.clone(), v) {
            if let Some(rj) = ru.variants().get(j as usize) {
                if let Some(l) = sub(w, wns.clone(), rj, rns.clone(), v) {
                    return l;
                }
            }
        }
        // branch selection itself: which branch do the rules name, which one does resolve take?
        let spec_j = match spec_resolve(ws, w, wns.clone(), rs, r, rns.clone(), v) {
            Ok(Value::Union(j, _)) => Some(j as usize),
            _ => None,
        };
        let impl_j = match catch(|| v.clone().resolve_with_names(r, rs.names)) {
            Ok(Ok(Value::Union(j, _))) => Some(j as usize),
            _ => None,
        };
        let bk = |j: usize| -> String {
            ru.variants().get(j).map(|b| deref(rs, b, rns.clone()).map(|(d, _)| kind_name(d)).unwrap_or_else(|_| "?".into())).unwrap_or_else(|| "?".into())
        };
        return match (spec_j, impl_j) {
            (Some(a), Some(b)) if a != b => {
                if bk(a) == bk(b) {
                    format!("union: {} read as another {} of the reader union (picked by structure, not by name)", kind_name(w), bk(b))
                } else {
                    format!("union: {} read as {} although the reader union has {}", kind_name(w), bk(b), bk(a))
                }
            }
            (Some(a), None) => format!("union: no branch found for {} although the reader union has {}", kind_name(w), bk(a)),
            (None, Some(b)) => {
                if let Some(rb) = ru.variants().get(b) {
                    if shallow(w, deref(rs, rb, rns.clone()).map(|(d, _)| d).unwrap_or(rb)) != Match::No {
                        if let Some(l) = sub(w, wns.clone(), rb, rns.clone(), v) {
                            return l;
                        }
                    }
                }
                format!("union: {} read as {} although no reader branch matches", kind_name(w), bk(b))
            }
            _ => format!("union: {} (same branch, different content)", kind_name(w)),
        };
    }
    match (w, r, v) {
        (S::Array(wa), S::Array(ra), Value::Array(items)) => {
            for x in items {
                if let Some(l) = sub(&wa.items, wns.clone(), &ra.items, rns.clone(), x) {
                    return l;
                }
            }
        }
        (S::Map(wm), S::Map(rm), Value::Map(items)) => {
            let mut keys: Vec<&String> = items.keys().collect();
            keys.sort();
            for k in keys {
                if let Some(l) = sub(&wm.types, wns.clone(), &rm.types, rns.clone(), &items[k]) {
                    return l;
                }
            }
        }
        (S::Record(wr), S::Record(rr), Value::Record(fields)) => {
            let wns2 = inner_ns(w, &wns);
            let rns2 = inner_ns(r, &rns);
            let got = catch(|| v.clone().resolve_with_names(r, rs.names)).ok().and_then(|x| x.ok());
            // 1. a matched field that disagrees on its own
            for rf in &rr.fields {
                let by_name = wr.fields.iter().find(|wf| wf.name == rf.name);
                let by_alias = rf.aliases.iter().find_map(|a| wr.fields.iter().find(|wf| &wf.name == a));
                if let Some(wf) = by_name.or(by_alias) {
                    if let Some((_, val)) = fields.iter().find(|(k, _)| k == &wf.name) {
                        if let Some(l) = sub(&wf.schema, wns2.clone(), &rf.schema, rns2.clone(), val) {
                            return l;
                        }
                    }
                }
            }
            // 2. a field that should have been found through a reader alias
            for rf in &rr.fields {
                let by_name = wr.fields.iter().find(|wf| wf.name == rf.name);
                let by_alias = rf.aliases.iter().find_map(|a| wr.fields.iter().find(|wf| &wf.name == a));
                if by_name.is_none() && by_alias.is_some() {
                    let found = match &got {
                        Some(Value::Record(gf)) => gf.iter().any(|(k, _)| k == &rf.name),
                        _ => false,
                    };
                    if !found {
                        return "record field matched by a reader alias".into();
                    }
                }
            }
            // 3. the default of a reader-only field
            for rf in &rr.fields {
                let by_name = wr.fields.iter().find(|wf| wf.name == rf.name);
                let by_alias = rf.aliases.iter().find_map(|a| wr.fields.iter().find(|wf| &wf.name == a));
                if by_name.or(by_alias).is_some() {
                    continue;
                }
                match &rf.default {
                    Some(d) => {
                        let want = default_value(rs, &rf.schema, rns2.clone(), d);
                        let gotf = match &got {
                            Some(Value::Record(gf)) => gf.iter().find(|(k, _)| k == &rf.name).map(|(_, x)| x.clone()),
                            // the record as a whole failed: does the default alone?
                            _ => catch(|| Value::try_from(d.clone()).and_then(|x| x.resolve_with_names(&rf.schema, rs.names))).ok().and_then(|x| x.ok()),
                        };
                        let same = match (&want, &gotf) {
                            (Ok(a), Some(b)) => value_eq(a, b),
                            (Err(_), None) => true,
                            _ => false,
                        };
                        if !same {
                            let (fd, _) = deref(rs, &rf.schema, rns2.clone()).unwrap_or((&rf.schema, None));
                            let detail = match fd {
                                S::Union(u) => match &want {
                                    // the branch the default belongs to
                                    Ok(Value::Union(i, _)) => format!("union (the default is of its branch {})", u.variants().get(*i as usize).map(|b| deref(rs, b, rns2.clone()).map(|(d, _)| kind_name(d)).unwrap_or_default()).unwrap_or_default()),
                                    _ => "union (the default fits no branch)".to_string(),
                                },
                                S::Array(a) => format!("array of {}", kind_name(&a.items)),
                                S::Map(m) => format!("map of {}", kind_name(&m.types)),
                                other => kind_name(other),
                            };
                            return format!("default of a reader-only field of type {detail}");
                        }
                    }
                    None => return "reader-only field without a default".into(),
                }
            }
        }
        _ => {}
    }
    format!("{} -> {}", kind_name(w), kind_name(r))
}

fn show(r: &Result<Value, apache_avro::Error>) -> String {
    match r {
        Ok(x) => trunc(&wire::value_str(x, true), 250).to_string(),
        Err(e) => format!("error {}", trunc(&e.to_string(), 150)),
    }
}

pub fn run(args: &[String]) -> i32 {
    let dir = &args[0];
    let seed: u64 = args[1].parse().unwrap();
    let n: usize = args[2].parse().unwrap();
    let max_depth: usize = args.get(3).and_then(|s| s.parse().ok()).unwrap_or(3);
    let lim = apache_avro::util::max_allocation_bytes(64 * 1024 * 1024);
    let mut out = Out::new(dir);
    crate::util::watchdog(dir, 20000);
    let mut rng = Rng::new(seed);
    let mut done = 0;
    let mut attempts = 0usize;
    while done < n && attempts < n * 40 {
        attempts += 1;
        let mut crng = rng.fork();
        // writer schema
        let mut g = SchemaGen::new(max_depth);
        let ns = *crng.pick(&["", "ns", "a.b"]);
        let wj = g.schema(&mut crng, 0, ns, true, false);
        let wtext = wj.to_string();
        let Ok(w) = Schema::parse_str(&wtext) else { continue };
        let Ok(wrs) = ResolvedSchema::new(&w) else { continue };
        let wnames = wrs.get_names();
        // reader schema: 1..3 rounds of evolution at a varying rate
        let rate = [0u32, 8, 20, 40][crng.below(4)];
        let mut ev = Evolver::new(rate);
        let mut rj = wj.clone();
        if crng.chance(1, 3) {
            // exactly one step somewhere: W and R stay equal everywhere else
            ev.rate = 25;
            for _ in 0..6 {
                if !ev.applied.is_empty() {
                    break;
                }
                ev.budget.set(1);
                rj = ev.evolve(&mut crng, &wj, true);
            }
            out.count("single_step_evolutions");
        } else {
            for _ in 0..(1 + crng.below(3)) {
                rj = ev.evolve(&mut crng, &rj, true);
            }
        }
        let rtext = rj.to_string();
        let r = match catch(|| Schema::parse_str(&rtext)) {
            Ok(Ok(r)) => r,
            Ok(Err(_)) => {
                out.count("reader_schema_rejected_by_parser");
                continue;
            }
            Err(()) => {
                out.oracle_fail("panic", "parser panicked on an evolved schema", &trunc(&rtext, 600));
                continue;
            }
        };
        let Ok(rrs) = ResolvedSchema::new(&r) else { continue };
        let rnames = rrs.get_names();
        let vg = ValueGen { names: wnames, max_depth: max_depth + 2, gave_up: Default::default() };
        let rnames_s = wire::names_str(rnames);
        let r_s = wire::schema_str(&r);
        let steps = if ev.applied.is_empty() { "none".to_string() } else {
            let mut a = ev.applied.clone();
            a.sort();
            a.join(" + ")
        };
        for a in &ev.applied {
            out.count(&format!("step: {a}"));
        }
        if ev.applied.is_empty() {
            out.count("step: none");
        }
        for _ in 0..3 {
            let v = vg.value(&mut crng, &w, None, 0);
            if vg.gave_up.get() {
                break;
            }
            done += 1;
            let case = format!("W={} R={} steps=[{steps}] value={}", trunc(&wtext, 400), trunc(&rtext, 400), trunc(&wire::value_str(&v, true), 300));
            crate::util::begin_case(&case);
            let got = match catch(|| v.clone().resolve(&r)) {
                Ok(g) => g,
                Err(()) => {
                    out.oracle_fail("panic", "resolve panicked", &case);
                    continue;
                }
            };
            out.pair(
                &format!("res {lim} {rnames_s} {r_s} {}", wire::value_str(&v, false)),
                &match &got { Ok(x) => format!("ok {}", wire::value_str(x, true)), Err(_) => "err".into() },
            );
            let want = spec_resolve(&Side { names: wnames }, &w, None, &Side { names: rnames }, &r, None, &v);
            out.count(match (&want, &got) {
                (Ok(_), Ok(_)) => "spec_ok_impl_ok",
                (Ok(_), Err(_)) => "spec_ok_impl_err",
                (Err(_), Ok(_)) => "spec_err_impl_ok",
                (Err(_), Err(_)) => "spec_err_impl_err",
            });
            let wgot: Result<Value, apache_avro::Error> = match &got { Ok(x) => Ok(x.clone()), Err(_) => Err(apache_avro::error::Details::EmptyUnion.into()) };
            let steps = if agree(&want, &wgot) { steps.clone() } else {
                localize(&Side { names: wnames }, &w, None, &Side { names: rnames }, &r, None, &v, 0)
            };
            match (&want, &got) {
                (Ok(wv), Ok(gv)) => {
                    if !value_eq(wv, gv) {
                        out.oracle_fail(&format!("resolved-differently: {steps}"),
                            &format!("the rules give {}, resolve gives {}", trunc(&wire::value_str(wv, true), 300), trunc(&wire::value_str(gv, true), 300)), &case);
                    }
                }
                (Ok(wv), Err(e)) => out.oracle_fail(&format!("not-resolved: {steps}"),
                    &format!("the rules give {}, resolve fails: {}", trunc(&wire::value_str(wv, true), 300), trunc(&e.to_string(), 200)), &case),
                (Err(why), Ok(gv)) => out.oracle_fail(&format!("resolved-without-a-rule: {steps}"),
                    &format!("the rules give no result ({why}), resolve gives {}", trunc(&wire::value_str(gv, true), 300)), &case),
                (Err(_), Err(_)) => {}
            }
            if let Ok(gv) = &got {
                // (classes: if the first resolution already disagreed, its cause; otherwise the cause found by treating the
                // resolved value as written with R and read with R)
                let steps = if agree(&want, &wgot) {
                    let again = catch(|| gv.clone().resolve(&r)).ok().and_then(|x| x.ok());
                    if again.as_ref().is_some_and(|a| value_eq(a, gv)) && catch(|| gv.validate(&r)) == Ok(true) { steps.clone() } else {
                        localize(&Side { names: rnames }, &r, None, &Side { names: rnames }, &r, None, gv, 0)
                    }
                } else { steps.clone() };
                match catch(|| gv.validate(&r)) {
                    Ok(true) => {}
                    Ok(false) => out.oracle_fail(&format!("result-does-not-validate: {steps}"), &format!("resolved value {} is rejected by the reader schema", trunc(&wire::value_str(gv, true), 300)), &case),
                    Err(()) => out.oracle_fail("panic", "validate panicked on a resolved value", &case),
                }
                match catch(|| gv.clone().resolve(&r)) {
                    Ok(Ok(again)) if value_eq(&again, gv) => {}
                    Ok(Ok(again)) => out.oracle_fail(&format!("not-idempotent: {steps}"), &format!("resolving {} again gives {}", trunc(&wire::value_str(gv, true), 300), trunc(&wire::value_str(&again, true), 300)), &case),
                    Ok(Err(e)) => out.oracle_fail(&format!("not-idempotent: {steps}"), &format!("resolving {} again fails: {}", trunc(&wire::value_str(gv, true), 300), trunc(&e.to_string(), 200)), &case),
                    Err(()) => out.oracle_fail("panic", "second resolve panicked", &case),
                }
            }
            // the reader paths: datum reader and container reader with a reader schema
            let wr = GenericDatumWriter::builder(&w).build().unwrap();
            let mut bytes = Vec::new();
            if catch(|| wr.write_value_ref(&mut bytes, &v)).ok().and_then(|x| x.ok()).is_none() {
                out.count("writer_value_not_written");
                continue;
            }
            let via_datum = catch(|| {
                let rd = GenericDatumReader::builder(&w).reader_schema(&r).build()?;
                rd.read_value(&mut &bytes[..])
            });
            let same = |a: &Result<Value, apache_avro::Error>, b: &Result<Value, apache_avro::Error>| match (a, b) {
                (Ok(x), Ok(y)) => value_eq(x, y),
                (Err(_), Err(_)) => true,
                _ => false,
            };
            match &via_datum {
                Ok(d) => {
                    if !same(d, &got) {
                        out.oracle_fail(&format!("paths-differ: {steps}"), &format!("datum reader with reader schema: {}, Value::resolve: {}",
                            show(d),
                            show(&got)), &case);
                    }
                }
                Err(()) => out.oracle_fail("panic", "datum reader with a reader schema panicked", &case),
            }
            let via_container = catch(|| -> Result<Value, apache_avro::Error> {
                let mut cw = Writer::new(&w, Vec::new())?;
                cw.append_value_ref(&v)?;
                let file = cw.into_inner()?;
                let mut rd = Reader::builder(&file[..]).reader_schema(&r).build()?;
                rd.next().unwrap_or_else(|| Err(apache_avro::error::Details::ReadBytes(std::io::Error::other("no value")).into()))
            });
            match &via_container {
                Ok(c) => {
                    if !same(c, &got) {
                        out.oracle_fail(&format!("paths-differ: {steps}"), &format!("container reader with reader schema: {}, Value::resolve: {}",
                            show(c),
                            show(&got)), &case);
                    }
                }
                Err(()) => out.oracle_fail("panic", "container reader with a reader schema panicked", &case),
            }
        }
    }
    crate::util::end_case();
    out.finish(dir, serde_json::json!({"lim": lim}));
    0
}
