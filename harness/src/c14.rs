//! C14: truncation at every byte offset and alteration of every marker byte / the magic.
//! Oracle on the real `Reader`: only whole blocks before the cut are delivered, then the stop is an
//! error unless the cut is exactly on a block boundary; a cut inside the header fails to open; a
//! corrupted marker delivers nothing from its block or any later one and reports an error.
//! Correspondence: the model reader (`rdfile`) on the same bytes (null codec).
use crate::c03::{SharedVec, split_file};
use crate::genr::{ValueGen, gen_schema};
use crate::rng::Rng;
use crate::util::{Out, catch, value_eq};
use crate::wire;
use apache_avro::schema::{ResolvedSchema, Schema};
use apache_avro::types::Value;
use apache_avro::{Codec, Reader, Writer};

struct Built {
    file: Vec<u8>,
    header_len: usize,
    /// end offset of each block and the values it holds
    blocks: Vec<(usize, Vec<Value>)>,
}

fn build(schema: &Schema, codec: Codec, groups: &[Vec<Value>], marker: [u8; 16]) -> Option<Built> {
    let sink = SharedVec::default();
    let mut w = Writer::builder().schema(schema).writer(sink.clone()).codec(codec).block_size(1 << 22).marker(marker).build().ok()?;
    w.flush().ok()?;
    let header_len = sink.0.borrow().len();
    let mut blocks = vec![];
    for g in groups {
        for v in g {
            w.append_value_ref(v).ok()?;
        }
        w.flush().ok()?;
        blocks.push((sink.0.borrow().len(), g.clone()));
    }
    w.into_inner().ok()?;
    let file = sink.0.borrow().clone();
    Some(Built { file, header_len, blocks })
}

/// run the real reader: None = open failed; Some((values, ended_with_error))
fn read_all(bytes: &[u8]) -> Result<Option<(Vec<Value>, bool)>, ()> {
    catch(|| match Reader::new(bytes) {
        Err(_) => None,
        Ok(rd) => {
            let mut vals = vec![];
            let mut err = false;
            for item in rd {
                match item {
                    Ok(v) => vals.push(v),
                    Err(_) => {
                        err = true;
                    }
                }
            }
            Some((vals, err))
        }
    })
}

/// the typed iterator (`Reader::into_deser_iter`) on the same bytes: (items delivered, errors reported, items after
/// the first error); bounded, in case the iterator never ends
fn read_all_typed(bytes: &[u8]) -> Result<Option<(usize, usize, usize)>, ()> {
    catch(|| match Reader::new(bytes) {
        Err(_) => None,
        Ok(rd) => {
            let (mut ok, mut errs, mut after) = (0usize, 0usize, 0usize);
            for item in rd.into_deser_iter::<crate::anyshape::AnyShape>().take(100_000) {
                match item {
                    Ok(_) => {
                        ok += 1;
                        if errs > 0 {
                            after += 1;
                        }
                    }
                    Err(_) => {
                        if errs > 0 {
                            after += 1;
                        }
                        errs += 1;
                    }
                }
            }
            Some((ok, errs, after))
        }
    })
}

/// the typed iterator must tell the same story as the value iterator: the same number of values, an error exactly
/// when that one reports one, and nothing after the first error
fn compare_typed(out: &mut Out, bytes: &[u8], res: &Result<Option<(Vec<Value>, bool)>, ()>, case: &str) {
    let typed = read_all_typed(bytes);
    match (res, &typed) {
        (_, Err(())) => out.oracle_fail("panic", "the typed reader panicked", case),
        (Ok(None), Ok(None)) => {}
        (Ok(Some((vals, err))), Ok(Some((ok, errs, after)))) => {
            if *after > 0 || *errs > 1 {
                out.oracle_fail("typed-reader-continues-after-error", &format!("into_deser_iter yields {after} more items after its first error ({errs} errors in all)"), case);
            } else if *ok != vals.len() || (*errs > 0) != *err {
                out.oracle_fail("typed-reader-differs", &format!("into_deser_iter delivers {ok} values and {errs} errors, the value iterator {} values and error={err}", vals.len()), case);
            }
        }
        (Ok(a), Ok(b)) => out.oracle_fail("typed-reader-differs", &format!("opening: value reader {}, typed reader {}", a.is_some(), b.is_some()), case),
        (Err(()), _) => {}
    }
}

pub fn run(args: &[String]) -> i32 {
    let dir = &args[0];
    let seed: u64 = args[1].parse().unwrap();
    let n: usize = args[2].parse().unwrap();
    let thorough = args.get(3).map(|s| s == "1").unwrap_or(false);
    let lim = apache_avro::util::max_allocation_bytes(64 * 1024 * 1024);
    let szv = std::mem::size_of::<Value>();
    let sze = std::mem::size_of::<(String, Value)>();
    let mut out = Out::new(dir);
    crate::util::watchdog(dir, 20000);
    let mut rng = Rng::new(seed);
    let fixed: Vec<String> = [
        r#""long""#, r#""null""#, r#""string""#,
        r#"{"type":"record","name":"R","fields":[{"name":"a","type":"string"},{"name":"b","type":["null","int"]}]}"#,
        r#"{"type":"record","name":"Z","fields":[]}"#,
        r#"{"type":"array","items":"null"}"#,
    ].iter().map(|s| s.to_string()).collect();
    let mut schemas: Vec<(String, Schema)> = fixed.iter().map(|t| (t.clone(), Schema::parse_str(t).unwrap())).collect();
    for _ in 0..n {
        let mut crng = rng.fork();
        schemas.push(gen_schema(&mut crng, 2));
    }
    for (si, (text, schema)) in schemas.iter().enumerate() {
        let rs = ResolvedSchema::new(schema).unwrap();
        let names = rs.get_names();
        let vg = ValueGen { names, max_depth: 3, gave_up: Default::default() };
        let mut crng = rng.fork();
        // block partitions: counts needing 1 and 2 varint bytes
        let sizes: Vec<usize> = if si % 2 == 0 { vec![1, 3, 70, 2] } else { vec![2, 64, 1] };
        let groups: Vec<Vec<Value>> = sizes.iter().map(|&k| (0..k).map(|_| vg.value(&mut crng, schema, None, 0)).collect()).collect();
        if vg.gave_up.get() {
            continue;
        }
        let mut marker = [0u8; 16];
        for b in marker.iter_mut() {
            *b = crng.next() as u8;
        }
        let codecs: Vec<(&str, Codec)> = if si < fixed.len() || thorough {
            vec![("null", Codec::Null), ("deflate", Codec::Deflate(Default::default())), ("snappy", Codec::Snappy),
                 ("bzip2", Codec::Bzip2(Default::default())), ("xz", Codec::Xz(Default::default())), ("zstandard", Codec::Zstandard(Default::default()))]
        } else {
            vec![("null", Codec::Null)]
        };
        let names_s = wire::names_str(names);
        let schema_s = wire::schema_str(schema);
        for (cname, codec) in codecs {
            let Some(b) = build(schema, codec, &groups, marker) else { continue };
            out.count(&format!("files_{cname}"));
            let short_text = crate::util::trunc(&text, 200);
            // sanity of the harness's own bookkeeping
            if split_file(&b.file).map(|(h, _, bl)| (h.len(), bl.len())) != Some((b.header_len, b.blocks.len())) {
                out.oracle_fail("layout", "independent parser disagrees with the block boundaries observed while writing", short_text);
                continue;
            }
            let expect_prefix = |cut: usize| -> (Vec<&Value>, bool) {
                // values of blocks wholly before the cut; clean iff the cut is on a boundary
                let mut vals = vec![];
                let mut boundary = cut == b.header_len;
                for (end, vs) in &b.blocks {
                    if *end <= cut {
                        vals.extend(vs.iter());
                        if *end == cut {
                            boundary = true;
                        }
                    }
                }
                (vals, boundary)
            };
            let cuts: Vec<usize> = if cname == "null" || thorough { (0..=b.file.len()).collect() } else {
                // every offset around each boundary, sampled elsewhere
                let mut c: Vec<usize> = (0..=b.file.len()).filter(|o| {
                    *o <= b.header_len + 2 || b.blocks.iter().any(|(e, _)| (*o as i64 - *e as i64).abs() <= 20)
                }).collect();
                for _ in 0..60 {
                    c.push(crng.below(b.file.len() + 1));
                }
                c
            };
            for cut in cuts {
                let bytes = &b.file[..cut];
                let case = format!("schema={short_text} codec={cname} blocks={sizes:?} file_len={} header_len={} cut={cut}", b.file.len(), b.header_len);
                crate::util::begin_case(&case);
                let res = read_all(bytes);
                if cut % 3 == 0 {
                    compare_typed(&mut out, bytes, &res, &case);
                }
                crate::util::end_case();
                out.count("cuts");
                let (want, boundary) = expect_prefix(cut);
                let imp_line = match &res {
                    Err(()) => {
                        out.oracle_fail("panic", "reader panicked on a truncated file", &case);
                        "err panic".to_string()
                    }
                    Ok(None) => {
                        if cut >= b.header_len {
                            out.oracle_fail("open-fails", "a file cut after its header cannot be opened", &case);
                        }
                        "err open".to_string()
                    }
                    Ok(Some((vals, err))) => {
                        if cut < b.header_len {
                            out.oracle_fail("truncated-header-opens", "a file cut inside its header opens", &case);
                        } else {
                            if vals.len() != want.len() || !vals.iter().zip(&want).all(|(a, b)| value_eq(a, b)) {
                                out.oracle_fail("not-a-true-prefix", &format!("delivered {} values, the complete blocks before the cut hold {}", vals.len(), want.len()), &case);
                            }
                            if boundary && *err {
                                out.oracle_fail("clean-cut-reported-as-error", "cut on a block boundary reported as an error", &case);
                            }
                            if !boundary && !*err {
                                out.oracle_fail("truncation-not-reported", "cut inside a block: the reader stops without reporting an error", &case);
                            }
                        }
                        let vstr: Vec<String> = vals.iter().map(|v| wire::value_str(v, true)).collect();
                        format!("items ({}) end {}", vstr.join(" "), if *err { "err" } else { "clean" })
                    }
                };
                if cname == "null" {
                    out.pair(&format!("rditems {lim} {szv} {sze} {names_s} {schema_s} {}", wire::hex(bytes)), &imp_line);
                }
            }
            // marker and magic alterations
            let mut positions: Vec<(usize, usize)> = vec![]; // (offset, index of the block the marker closes; usize::MAX = header)
            for i in 0..4 {
                positions.push((i, usize::MAX - 1)); // magic
            }
            for i in 0..16 {
                positions.push((b.header_len - 16 + i, usize::MAX));
            }
            for (bi, (end, _)) in b.blocks.iter().enumerate() {
                for i in 0..16 {
                    positions.push((end - 16 + i, bi));
                }
            }
            for (off, which) in positions {
                let flips: Vec<u8> = if thorough { (0..8).map(|k| 1u8 << k).chain([0xff]).collect() } else { vec![1 << crng.below(8), 0xff] };
                for fl in flips {
                    let mut m = b.file.clone();
                    m[off] ^= fl;
                    let case = format!("schema={short_text} codec={cname} blocks={sizes:?} altered offset={off} xor={fl:#x} ({})",
                        if which == usize::MAX - 1 { "magic".to_string() } else if which == usize::MAX { "header marker".to_string() } else { format!("marker of block {which}") });
                    let res = read_all(&m);
                    compare_typed(&mut out, &m, &res, &case);
                    out.count("alterations");
                    let imp_line = match &res {
                        Err(()) => {
                            out.oracle_fail("panic", "reader panicked", &case);
                            "err panic".to_string()
                        }
                        Ok(None) => {
                            if which != usize::MAX - 1 {
                                out.oracle_fail("open-fails", "a marker alteration makes the file unopenable", &case);
                            }
                            "err open".to_string()
                        }
                        Ok(Some((vals, err))) => {
                            if which == usize::MAX - 1 {
                                out.oracle_fail("bad-magic-opens", "altered magic accepted", &case);
                            } else {
                                // header marker altered = every block's marker mismatches
                                let first_bad = if which == usize::MAX { 0 } else { which };
                                let want: Vec<&Value> = b.blocks[..first_bad].iter().flat_map(|(_, vs)| vs.iter()).collect();
                                if vals.len() != want.len() || !vals.iter().zip(&want).all(|(a, b)| value_eq(a, b)) {
                                    out.oracle_fail("corrupt-marker-delivers", &format!("delivered {} values, blocks before the corrupted marker hold {}", vals.len(), want.len()), &case);
                                }
                                if !*err {
                                    out.oracle_fail("corrupt-marker-not-reported", "no error reported", &case);
                                }
                            }
                            let vstr: Vec<String> = vals.iter().map(|v| wire::value_str(v, true)).collect();
                            format!("items ({}) end {}", vstr.join(" "), if *err { "err" } else { "clean" })
                        }
                    };
                    if cname == "null" {
                        out.pair(&format!("rditems {lim} {szv} {sze} {names_s} {schema_s} {}", wire::hex(&m)), &imp_line);
                    }
                }
            }
        }
    }
    out.finish(dir, serde_json::json!({"lim": lim}));
    0
}
