//! A serializer that records the exact sequence of serde data-model calls a `Serialize` impl makes
//! (DESIGN.md C16): the recorded tree is what the Lean model of the schema-aware serializer consumes.
use serde::ser::{self, Serialize};
use std::fmt::Write as _;

#[derive(Debug, Clone, PartialEq)]
pub enum Rec {
    Bool(bool),
    I8(i64), I16(i64), I32(i64), I64(i64),
    U8(i64), U16(i64), U32(i64), U64(u64),
    I128(i128), U128(u128),
    F32(u32), F64(u64),
    Char(String), Str(String), Bytes(Vec<u8>),
    None, Some(Box<Rec>), Unit,
    UnitStruct(String),
    UnitVariant(String, u32, String),
    NewtypeStruct(String, Box<Rec>),
    NewtypeVariant(String, u32, String, Box<Rec>),
    Seq(Option<usize>, Vec<Rec>),
    Tuple(Vec<Rec>),
    TupleStruct(String, Vec<Rec>),
    TupleVariant(String, u32, String, Vec<Rec>),
    Map(Option<usize>, Vec<(Rec, Rec)>),
    Struct(String, Vec<(String, Option<Rec>)>),
    StructVariant(String, u32, String, Vec<(String, Option<Rec>)>),
}

#[derive(Debug)]
pub struct RecErr(String);
impl std::fmt::Display for RecErr {
    fn fmt(&self, f: &mut std::fmt::Formatter<'_>) -> std::fmt::Result {
        f.write_str(&self.0)
    }
}
impl std::error::Error for RecErr {}
impl ser::Error for RecErr {
    fn custom<T: std::fmt::Display>(msg: T) -> Self {
        RecErr(msg.to_string())
    }
}

pub struct Recorder;

pub fn record<T: Serialize + ?Sized>(v: &T) -> Result<Rec, RecErr> {
    v.serialize(Recorder)
}

pub enum Kind {
    Seq(Option<usize>),
    Tuple,
    TupleStruct(String),
    TupleVariant(String, u32, String),
    Map(Option<usize>),
    Struct(String),
    StructVariant(String, u32, String),
}

pub struct Compound {
    kind: Kind,
    items: Vec<Rec>,
    entries: Vec<(Rec, Rec)>,
    key: Option<Rec>,
    fields: Vec<(String, Option<Rec>)>,
}

impl Compound {
    fn new(kind: Kind) -> Self {
        Compound { kind, items: vec![], entries: vec![], key: None, fields: vec![] }
    }
    fn finish(self) -> Rec {
        match self.kind {
            Kind::Seq(l) => Rec::Seq(l, self.items),
            Kind::Tuple => Rec::Tuple(self.items),
            Kind::TupleStruct(n) => Rec::TupleStruct(n, self.items),
            Kind::TupleVariant(n, i, v) => Rec::TupleVariant(n, i, v, self.items),
            Kind::Map(l) => Rec::Map(l, self.entries),
            Kind::Struct(n) => Rec::Struct(n, self.fields),
            Kind::StructVariant(n, i, v) => Rec::StructVariant(n, i, v, self.fields),
        }
    }
}

impl ser::Serializer for Recorder {
    type Ok = Rec;
    type Error = RecErr;
    type SerializeSeq = Compound;
    type SerializeTuple = Compound;
    type SerializeTupleStruct = Compound;
    type SerializeTupleVariant = Compound;
    type SerializeMap = Compound;
    type SerializeStruct = Compound;
    type SerializeStructVariant = Compound;

    fn serialize_bool(self, v: bool) -> Result<Rec, RecErr> { Ok(Rec::Bool(v)) }
    fn serialize_i8(self, v: i8) -> Result<Rec, RecErr> { Ok(Rec::I8(v as i64)) }
    fn serialize_i16(self, v: i16) -> Result<Rec, RecErr> { Ok(Rec::I16(v as i64)) }
    fn serialize_i32(self, v: i32) -> Result<Rec, RecErr> { Ok(Rec::I32(v as i64)) }
    fn serialize_i64(self, v: i64) -> Result<Rec, RecErr> { Ok(Rec::I64(v)) }
    fn serialize_i128(self, v: i128) -> Result<Rec, RecErr> { Ok(Rec::I128(v)) }
    fn serialize_u8(self, v: u8) -> Result<Rec, RecErr> { Ok(Rec::U8(v as i64)) }
    fn serialize_u16(self, v: u16) -> Result<Rec, RecErr> { Ok(Rec::U16(v as i64)) }
    fn serialize_u32(self, v: u32) -> Result<Rec, RecErr> { Ok(Rec::U32(v as i64)) }
    fn serialize_u64(self, v: u64) -> Result<Rec, RecErr> { Ok(Rec::U64(v)) }
    fn serialize_u128(self, v: u128) -> Result<Rec, RecErr> { Ok(Rec::U128(v)) }
    fn serialize_f32(self, v: f32) -> Result<Rec, RecErr> { Ok(Rec::F32(v.to_bits())) }
    fn serialize_f64(self, v: f64) -> Result<Rec, RecErr> { Ok(Rec::F64(v.to_bits())) }
    fn serialize_char(self, v: char) -> Result<Rec, RecErr> { Ok(Rec::Char(v.to_string())) }
    fn serialize_str(self, v: &str) -> Result<Rec, RecErr> { Ok(Rec::Str(v.to_string())) }
    fn serialize_bytes(self, v: &[u8]) -> Result<Rec, RecErr> { Ok(Rec::Bytes(v.to_vec())) }
    fn serialize_none(self) -> Result<Rec, RecErr> { Ok(Rec::None) }
    fn serialize_some<T: ?Sized + Serialize>(self, v: &T) -> Result<Rec, RecErr> { Ok(Rec::Some(Box::new(record(v)?))) }
    fn serialize_unit(self) -> Result<Rec, RecErr> { Ok(Rec::Unit) }
    fn serialize_unit_struct(self, name: &'static str) -> Result<Rec, RecErr> { Ok(Rec::UnitStruct(name.into())) }
    fn serialize_unit_variant(self, name: &'static str, i: u32, v: &'static str) -> Result<Rec, RecErr> { Ok(Rec::UnitVariant(name.into(), i, v.into())) }
    fn serialize_newtype_struct<T: ?Sized + Serialize>(self, name: &'static str, v: &T) -> Result<Rec, RecErr> { Ok(Rec::NewtypeStruct(name.into(), Box::new(record(v)?))) }
    fn serialize_newtype_variant<T: ?Sized + Serialize>(self, name: &'static str, i: u32, var: &'static str, v: &T) -> Result<Rec, RecErr> {
        Ok(Rec::NewtypeVariant(name.into(), i, var.into(), Box::new(record(v)?)))
    }
    fn serialize_seq(self, len: Option<usize>) -> Result<Compound, RecErr> { Ok(Compound::new(Kind::Seq(len))) }
    fn serialize_tuple(self, _len: usize) -> Result<Compound, RecErr> { Ok(Compound::new(Kind::Tuple)) }
    fn serialize_tuple_struct(self, name: &'static str, _len: usize) -> Result<Compound, RecErr> { Ok(Compound::new(Kind::TupleStruct(name.into()))) }
    fn serialize_tuple_variant(self, name: &'static str, i: u32, v: &'static str, _len: usize) -> Result<Compound, RecErr> { Ok(Compound::new(Kind::TupleVariant(name.into(), i, v.into()))) }
    fn serialize_map(self, len: Option<usize>) -> Result<Compound, RecErr> { Ok(Compound::new(Kind::Map(len))) }
    fn serialize_struct(self, name: &'static str, _len: usize) -> Result<Compound, RecErr> { Ok(Compound::new(Kind::Struct(name.into()))) }
    fn serialize_struct_variant(self, name: &'static str, i: u32, v: &'static str, _len: usize) -> Result<Compound, RecErr> { Ok(Compound::new(Kind::StructVariant(name.into(), i, v.into()))) }
    fn is_human_readable(&self) -> bool { false }
}

impl ser::SerializeSeq for Compound {
    type Ok = Rec;
    type Error = RecErr;
    fn serialize_element<T: ?Sized + Serialize>(&mut self, v: &T) -> Result<(), RecErr> { self.items.push(record(v)?); Ok(()) }
    fn end(self) -> Result<Rec, RecErr> { Ok(self.finish()) }
}
impl ser::SerializeTuple for Compound {
    type Ok = Rec;
    type Error = RecErr;
    fn serialize_element<T: ?Sized + Serialize>(&mut self, v: &T) -> Result<(), RecErr> { self.items.push(record(v)?); Ok(()) }
    fn end(self) -> Result<Rec, RecErr> { Ok(self.finish()) }
}
impl ser::SerializeTupleStruct for Compound {
    type Ok = Rec;
    type Error = RecErr;
    fn serialize_field<T: ?Sized + Serialize>(&mut self, v: &T) -> Result<(), RecErr> { self.items.push(record(v)?); Ok(()) }
    fn end(self) -> Result<Rec, RecErr> { Ok(self.finish()) }
}
impl ser::SerializeTupleVariant for Compound {
    type Ok = Rec;
    type Error = RecErr;
    fn serialize_field<T: ?Sized + Serialize>(&mut self, v: &T) -> Result<(), RecErr> { self.items.push(record(v)?); Ok(()) }
    fn end(self) -> Result<Rec, RecErr> { Ok(self.finish()) }
}
impl ser::SerializeMap for Compound {
    type Ok = Rec;
    type Error = RecErr;
    fn serialize_key<T: ?Sized + Serialize>(&mut self, k: &T) -> Result<(), RecErr> { self.key = Some(record(k)?); Ok(()) }
    fn serialize_value<T: ?Sized + Serialize>(&mut self, v: &T) -> Result<(), RecErr> {
        let k = self.key.take().ok_or_else(|| RecErr("value without key".into()))?;
        self.entries.push((k, record(v)?));
        Ok(())
    }
    fn end(self) -> Result<Rec, RecErr> { Ok(self.finish()) }
}
impl ser::SerializeStruct for Compound {
    type Ok = Rec;
    type Error = RecErr;
    fn serialize_field<T: ?Sized + Serialize>(&mut self, k: &'static str, v: &T) -> Result<(), RecErr> { self.fields.push((k.into(), Some(record(v)?))); Ok(()) }
    fn skip_field(&mut self, k: &'static str) -> Result<(), RecErr> { self.fields.push((k.into(), None)); Ok(()) }
    fn end(self) -> Result<Rec, RecErr> { Ok(self.finish()) }
}
impl ser::SerializeStructVariant for Compound {
    type Ok = Rec;
    type Error = RecErr;
    fn serialize_field<T: ?Sized + Serialize>(&mut self, k: &'static str, v: &T) -> Result<(), RecErr> { self.fields.push((k.into(), Some(record(v)?))); Ok(()) }
    fn skip_field(&mut self, k: &'static str) -> Result<(), RecErr> { self.fields.push((k.into(), None)); Ok(()) }
    fn end(self) -> Result<Rec, RecErr> { Ok(self.finish()) }
}

fn hx(s: &[u8]) -> String {
    crate::wire::hex(s)
}

/// the wire form of a recorded value; `None` if it uses a call the model does not cover
pub fn rec_str(r: &Rec, out: &mut String) -> bool {
    match r {
        Rec::Bool(b) => write!(out, "(bool {})", *b as u8).unwrap(),
        Rec::I8(n) => write!(out, "(i8 {n})").unwrap(),
        Rec::I16(n) => write!(out, "(i16 {n})").unwrap(),
        Rec::I32(n) => write!(out, "(i32 {n})").unwrap(),
        Rec::I64(n) => write!(out, "(i64 {n})").unwrap(),
        Rec::U8(n) => write!(out, "(u8 {n})").unwrap(),
        Rec::U16(n) => write!(out, "(u16 {n})").unwrap(),
        Rec::U32(n) => write!(out, "(u32 {n})").unwrap(),
        Rec::U64(_) | Rec::I128(_) | Rec::U128(_) => return false,
        Rec::F32(b) => write!(out, "(f32 {b})").unwrap(),
        Rec::F64(b) => write!(out, "(f64 {b})").unwrap(),
        Rec::Char(s) => write!(out, "(char {})", hx(s.as_bytes())).unwrap(),
        Rec::Str(s) => write!(out, "(str {})", hx(s.as_bytes())).unwrap(),
        Rec::Bytes(b) => write!(out, "(bytes {})", hx(b)).unwrap(),
        Rec::None => out.push_str("none"),
        Rec::Some(v) => {
            out.push_str("(some ");
            if !rec_str(v, out) {
                return false;
            }
            out.push(')');
        }
        Rec::Unit => out.push_str("unit"),
        Rec::UnitStruct(n) => write!(out, "(ustruct {})", hx(n.as_bytes())).unwrap(),
        Rec::UnitVariant(n, i, v) => write!(out, "(uvar {} {i} {})", hx(n.as_bytes()), hx(v.as_bytes())).unwrap(),
        Rec::NewtypeStruct(n, v) => {
            write!(out, "(nstruct {} ", hx(n.as_bytes())).unwrap();
            if !rec_str(v, out) {
                return false;
            }
            out.push(')');
        }
        Rec::Seq(l, items) => {
            write!(out, "(seq {}", l.map(|x| x.to_string()).unwrap_or("-".into())).unwrap();
            for i in items {
                out.push(' ');
                if !rec_str(i, out) {
                    return false;
                }
            }
            out.push(')');
        }
        Rec::Tuple(items) => {
            out.push_str("(tuple");
            for i in items {
                out.push(' ');
                if !rec_str(i, out) {
                    return false;
                }
            }
            out.push(')');
        }
        Rec::TupleStruct(n, items) => {
            write!(out, "(tstruct {}", hx(n.as_bytes())).unwrap();
            for i in items {
                out.push(' ');
                if !rec_str(i, out) {
                    return false;
                }
            }
            out.push(')');
        }
        Rec::Map(l, entries) => {
            write!(out, "(map {}", l.map(|x| x.to_string()).unwrap_or("-".into())).unwrap();
            for (k, v) in entries {
                out.push_str(" (");
                if !rec_str(k, out) {
                    return false;
                }
                out.push(' ');
                if !rec_str(v, out) {
                    return false;
                }
                out.push(')');
            }
            out.push(')');
        }
        Rec::Struct(n, fields) => {
            write!(out, "(struct {}", hx(n.as_bytes())).unwrap();
            for (k, v) in fields {
                write!(out, " ({} ", hx(k.as_bytes())).unwrap();
                match v {
                    Some(v) => {
                        if !rec_str(v, out) {
                            return false;
                        }
                    }
                    None => out.push_str("skip"),
                }
                out.push(')');
            }
            out.push(')');
        }
        Rec::NewtypeVariant(..) | Rec::TupleVariant(..) | Rec::StructVariant(..) => return false,
    }
    true
}
