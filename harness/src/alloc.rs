//! Counting global allocator: largest single request and peak live bytes since the last reset.
use std::alloc::{GlobalAlloc, Layout, System};
use std::sync::atomic::{AtomicUsize, Ordering};

pub struct Counting;

static LIVE: AtomicUsize = AtomicUsize::new(0);
static PEAK: AtomicUsize = AtomicUsize::new(0);
static MAX_REQ: AtomicUsize = AtomicUsize::new(0);
/// requests above this size make the allocation fail (so that a hostile 1 TiB request is
/// observed as a failed allocation in this process instead of an OOM kill of the machine)
static HARD_CAP: AtomicUsize = AtomicUsize::new(usize::MAX);
static OVER_CAP: AtomicUsize = AtomicUsize::new(0);

unsafe impl GlobalAlloc for Counting {
    unsafe fn alloc(&self, l: Layout) -> *mut u8 {
        note(l.size());
        if l.size() > HARD_CAP.load(Ordering::Relaxed) {
            over(l.size());
        }
        let p = unsafe { System.alloc(l) };
        if !p.is_null() {
            add(l.size());
        }
        p
    }
    unsafe fn alloc_zeroed(&self, l: Layout) -> *mut u8 {
        note(l.size());
        if l.size() > HARD_CAP.load(Ordering::Relaxed) {
            over(l.size());
        }
        let p = unsafe { System.alloc_zeroed(l) };
        if !p.is_null() {
            add(l.size());
        }
        p
    }
    unsafe fn dealloc(&self, p: *mut u8, l: Layout) {
        LIVE.fetch_sub(l.size(), Ordering::Relaxed);
        unsafe { System.dealloc(p, l) }
    }
    unsafe fn realloc(&self, p: *mut u8, l: Layout, new: usize) -> *mut u8 {
        note(new);
        if new > HARD_CAP.load(Ordering::Relaxed) {
            over(new);
        }
        let q = unsafe { System.realloc(p, l, new) };
        if !q.is_null() {
            LIVE.fetch_sub(l.size(), Ordering::Relaxed);
            add(new);
        }
        q
    }
}

/// a request the real process could never satisfy (it would abort): report the case and stop
fn over(n: usize) -> ! {
    OVER_CAP.store(n, Ordering::SeqCst);
    HARD_CAP.store(usize::MAX, Ordering::SeqCst);
    crate::util::report_abort(n);
    std::process::exit(4);
}

fn note(n: usize) {
    MAX_REQ.fetch_max(n, Ordering::Relaxed);
}
fn add(n: usize) {
    let live = LIVE.fetch_add(n, Ordering::Relaxed) + n;
    PEAK.fetch_max(live, Ordering::Relaxed);
}

pub fn reset() {
    MAX_REQ.store(0, Ordering::SeqCst);
    PEAK.store(LIVE.load(Ordering::SeqCst), Ordering::SeqCst);
}
pub fn max_request() -> usize {
    MAX_REQ.load(Ordering::SeqCst)
}
pub fn live() -> usize {
    LIVE.load(Ordering::SeqCst)
}
pub fn peak() -> usize {
    PEAK.load(Ordering::SeqCst)
}
pub fn set_hard_cap(n: usize) {
    HARD_CAP.store(n, Ordering::SeqCst);
}
pub fn over_cap() -> usize {
    OVER_CAP.load(Ordering::SeqCst)
}
