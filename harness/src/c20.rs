//! C20: multi-schema parsing is independent of input order and deterministic.
//!
//! Rows: `plist <texts> <observed outcomes>` / `pwlist ...`: every outcome `Schema::parse_list`
//! (`parse_str_with_list`) was seen to produce over repeated runs (fresh hash seeds) must be an
//! outcome the model can produce under SOME hash order of the pending inputs (the model enumerates all
//! of them).  Oracle: over all permutations of the input list and repeated runs the result is the same
//! (schemas in input order, same definitions and references), it succeeds exactly when the generator
//! built a closed set without duplicate names, and values written with the schemas of one ordering
//! read back with those of another.
use crate::c10::{json_sexp, tok_str, tokenize};
use crate::genr::ValueGen;
use crate::rng::Rng;
use crate::util::{Out, catch, trunc, value_eq};
use apache_avro::Schema;
use apache_avro::schema::ResolvedSchema;
use serde_json::{Value as J, json};

struct Set {
    texts: Vec<J>,
    kind: &'static str,
    /// does the specification say this set parses?
    expect_ok: bool,
}

fn gen_set(rng: &mut Rng) -> Set {
    let k = 2 + rng.below(4); // 2..5 inputs
    let nss = ["", "ns", "a.b"];
    let names: Vec<(String, String)> = (0..k).map(|i| (nss[rng.below(3)].to_string(), format!("T{i}"))).collect();
    let full = |i: usize| if names[i].0.is_empty() { names[i].1.clone() } else { format!("{}.{}", names[i].0, names[i].1) };
    // how a type in namespace `from` spells a reference to type j
    let spell = |rng: &mut Rng, from: &str, j: usize| -> String {
        if names[j].0 == from && !from.is_empty() && rng.chance(1, 2) { names[j].1.clone() }
        else if names[j].0.is_empty() && !from.is_empty() { format!(".{}", names[j].1) }
        else { full(j) }
    };
    let shape = rng.below(4); // 0 chain, 1 diamond/random dag, 2 cycles allowed, 3 independent
    let mut texts: Vec<J> = vec![];
    for i in 0..k {
        let (ns, nm) = &names[i];
        let kindroll = if i == k - 1 { 1 + rng.below(2) } else { rng.below(3) };
        let mut m = serde_json::Map::new();
        if !ns.is_empty() && rng.chance(1, 2) {
            m.insert("name".into(), json!(full(i)));
        } else {
            m.insert("name".into(), json!(nm));
            if !ns.is_empty() {
                m.insert("namespace".into(), json!(ns));
            }
        }
        match kindroll {
            0 => {
                m.insert("type".into(), json!("record"));
                let mut fields = vec![json!({"name":"x","type":"int"})];
                let targets: Vec<usize> = match shape {
                    0 => if i + 1 < k { vec![i + 1] } else { vec![] },
                    1 => (i + 1..k).filter(|_| rng.chance(1, 2)).collect(),
                    2 => (0..k).filter(|_| rng.chance(1, 3)).collect(),
                    _ => vec![],
                };
                for (fi, j) in targets.iter().enumerate() {
                    let r = spell(rng, ns, *j);
                    // a direct self / cyclic reference must sit below a union or array to have finite values
                    let ty = if *j <= i { json!(["null", r]) } else if rng.chance(1, 3) { json!({"type":"array","items":r}) } else { json!(r) };
                    fields.push(json!({"name": format!("f{fi}"), "type": ty}));
                }
                m.insert("fields".into(), J::Array(fields));
            }
            1 => {
                m.insert("type".into(), json!("enum"));
                m.insert("symbols".into(), json!(["A", "B"]));
            }
            _ => {
                m.insert("type".into(), json!("fixed"));
                m.insert("size".into(), json!(1 + i));
            }
        }
        texts.push(J::Object(m));
    }
    let mut kind = ["chain", "dag", "cyclic", "independent"][shape];
    let mut expect_ok = true;
    match rng.below(12) {
        0 => {
            // a dangling reference
            kind = "dangling reference";
            expect_ok = false;
            texts.push(json!({"type":"record","name":"Dangler","fields":[{"name":"m","type":"Missing"}]}));
        }
        1 => {
            kind = "duplicate input name";
            expect_ok = false;
            let mut d = texts[0].clone();
            d.as_object_mut().unwrap().insert("doc".into(), json!("second definition"));
            texts.push(d);
        }
        2 => {
            // an input defines, nested, a type that is also an input (with another definition)
            kind = "nested definition clashes with an input";
            expect_ok = false;
            let j = rng.below(k);
            let (ns, nm) = &names[j];
            let mut inner = serde_json::Map::new();
            inner.insert("type".into(), json!("fixed"));
            inner.insert("name".into(), json!(nm));
            inner.insert("namespace".into(), json!(ns));
            inner.insert("size".into(), json!(99));
            texts.push(json!({"type":"record","name":"Clasher","fields":[{"name":"n","type":J::Object(inner)}]}));
        }
        3 => {
            // an input refers to a type that another input defines NESTED (closed set, spec: fine)
            kind = "reference to a nested definition of another input";
            texts.push(json!({"type":"record","name":"Host","fields":[{"name":"n","type":{"type":"fixed","name":"Nested","size":3}}]}));
            texts.push(json!({"type":"record","name":"Guest","fields":[{"name":"n","type":"Nested"}]}));
        }
        5 | 6 => {
            // one simple name in the null namespace AND in a namespace, referred to without qualification from inside
            // that namespace: the reference means the type of the referrer's own namespace, whatever was parsed first
            kind = "simple name defined in two namespaces";
            // (keep the set small: the model enumerates every order of the pending inputs)
            texts.clear();
            texts.push(json!({"type":"fixed","name":"Shadow","size":1}));
            texts.push(json!({"type":"fixed","name":"Shadow","namespace":"sh.ns","size":2}));
            texts.push(json!({"type":"record","name":"sh.ns.UsesShadow","fields":[{"name":"s","type":"Shadow"},{"name":"t","type":{"type":"array","items":"Shadow"}}]}));
        }
        4 => {
            kind = "input whose type is a nested named type";
            expect_ok = false;
            texts.push(json!({"name":"Outer","type":{"type":"record","name":"Inner","fields":[]}}));
        }
        _ => {}
    }
    Set { texts, kind, expect_ok }
}

fn permutations(n: usize, cap: usize, rng: &mut Rng) -> Vec<Vec<usize>> {
    fn rec(cur: &mut Vec<usize>, used: &mut Vec<bool>, n: usize, out: &mut Vec<Vec<usize>>) {
        if cur.len() == n {
            out.push(cur.clone());
            return;
        }
        for i in 0..n {
            if !used[i] {
                used[i] = true;
                cur.push(i);
                rec(cur, used, n, out);
                cur.pop();
                used[i] = false;
            }
        }
    }
    let mut out = vec![];
    rec(&mut vec![], &mut vec![false; n], n, &mut out);
    while out.len() > cap {
        let i = 1 + rng.below(out.len() - 1);
        out.remove(i);
    }
    out
}

fn outcome_str(r: &Result<Vec<Schema>, apache_avro::Error>) -> String {
    match r {
        Err(_) => "err".into(),
        Ok(v) => {
            let mut o = String::from("(ok");
            for s in v {
                o.push(' ');
                match tokenize(&serde_json::to_string(s).unwrap_or_default()) {
                    Some(t) => tok_str(&t, &mut o),
                    None => o.push_str("<untokenizable>"),
                }
            }
            o.push(')');
            o
        }
    }
}

pub fn run(args: &[String]) -> i32 {
    let dir = &args[0];
    let seed: u64 = args[1].parse().unwrap();
    let n: usize = args[2].parse().unwrap();
    let repeats: usize = args.get(3).and_then(|s| s.parse().ok()).unwrap_or(4);
    let lim = apache_avro::util::max_allocation_bytes(64 * 1024 * 1024);
    let mut out = Out::new(dir);
    crate::util::watchdog(dir, 30000);
    let mut rng = Rng::new(seed);
    for _ in 0..n {
        let set = gen_set(&mut rng);
        out.count(&format!("kind: {}", set.kind));
        let k = set.texts.len();
        let perms = permutations(k, 24, &mut rng);
        let case0 = format!("kind={} inputs={}", set.kind, trunc(&J::Array(set.texts.clone()).to_string(), 1500));
        // normalised outcome (name of input -> serialized schema), per permutation and run
        let mut normalised: Vec<(Vec<usize>, String)> = vec![];
        let mut first_ok: Option<(Vec<usize>, Vec<Schema>)> = None;
        for p in &perms {
            let texts: Vec<String> = p.iter().map(|i| set.texts[*i].to_string()).collect();
            let case = format!("{case0} order={p:?}");
            crate::util::begin_case(&case);
            let mut observed: Vec<String> = vec![];
            for _ in 0..repeats {
                let r = catch(|| Schema::parse_list(texts.iter().map(|s| s.as_str())));
                let o = match &r {
                    Ok(r) => outcome_str(r),
                    Err(()) => "err-panic".to_string(),
                };
                if o == "err-panic" {
                    out.oracle_fail("panic", "parse_list panicked", &case);
                }
                if let Ok(Ok(v)) = &r {
                    // back to the order of the generated set
                    let mut by_index: Vec<(usize, String)> = p.iter().zip(v.iter()).map(|(i, s)| (*i, serde_json::to_string(s).unwrap_or_default())).collect();
                    by_index.sort();
                    normalised.push((p.clone(), format!("{by_index:?}")));
                    if first_ok.is_none() {
                        first_ok = Some((p.clone(), v.clone()));
                    } else if let Some((p0, v0)) = &first_ok {
                        // values written with the schemas of one ordering read back with those of another
                        cross_check(&mut out, &mut rng, p0, v0, p, v, &case, set.kind);
                    }
                } else {
                    normalised.push((p.clone(), o.clone()));
                }
                if !observed.contains(&o) {
                    observed.push(o);
                }
            }
            out.count(if observed.len() > 1 { "permutations_with_several_outcomes" } else { "permutations_with_one_outcome" });
            let texts_s = p.iter().map(|i| json_sexp(&set.texts[*i])).collect::<Vec<_>>().join(" ");
            out.pair(&format!("plist {lim} ({texts_s}) ({})", observed.iter().map(|o| if o == "err-panic" { "err".to_string() } else { o.clone() }).collect::<Vec<_>>().join(" ")), "ok");
        }
        // order independence and determinism
        let distinct: Vec<&String> = {
            let mut d: Vec<&String> = vec![];
            for (_, o) in &normalised {
                if !d.contains(&o) {
                    d.push(o);
                }
            }
            d
        };
        if distinct.len() > 1 {
            let some_ok = distinct.iter().any(|o| o.starts_with('['));
            let some_err = distinct.iter().any(|o| !o.starts_with('['));
            let what = if some_ok && some_err { "succeeds or fails depending on the order / the run" } else { "different definitions depending on the order / the run" };
            out.oracle_fail(&format!("order-dependent: {}", set.kind), &format!("{what}: {}", trunc(&format!("{distinct:?}"), 600)), &case0);
        } else if let Some(o) = distinct.first() {
            let ok = o.starts_with('[');
            if ok != set.expect_ok {
                out.oracle_fail(&format!("{}: {}", if ok { "accepted-although-not-closed" } else { "closed-set-rejected" }, set.kind),
                    &format!("every ordering gives {}", trunc(o, 300)), &case0);
            }
        }
        // parse_str_with_list: the first input as the main schema, the others as the list
        if k >= 2 {
            let main = set.texts[0].to_string();
            let rest: Vec<String> = set.texts[1..].iter().map(|t| t.to_string()).collect();
            let mut observed: Vec<String> = vec![];
            for _ in 0..repeats {
                let r = catch(|| Schema::parse_str_with_list(&main, rest.iter().map(|s| s.as_str())));
                let o = match r {
                    Ok(Ok((m, v))) => {
                        let mut all = vec![m];
                        all.extend(v);
                        outcome_str(&Ok(all))
                    }
                    Ok(Err(_)) => "err".to_string(),
                    Err(()) => {
                        out.oracle_fail("panic", "parse_str_with_list panicked", &case0);
                        "err".to_string()
                    }
                };
                if !observed.contains(&o) {
                    observed.push(o);
                }
            }
            let texts_s = set.texts[1..].iter().map(json_sexp).collect::<Vec<_>>().join(" ");
            out.pair(&format!("pwlist {lim} {} ({texts_s}) ({})", json_sexp(&set.texts[0]), observed.join(" ")), "ok");
        }
    }
    crate::util::end_case();
    out.finish(dir, serde_json::json!({"lim": lim}));
    0
}

fn cross_check(out: &mut Out, rng: &mut Rng, p0: &[usize], v0: &[Schema], p1: &[usize], v1: &[Schema], case: &str, kind: &str) {
    // the schema of input `i` under both orderings
    let Some(i) = p0.first() else { return };
    let a = &v0[0];
    let Some(pos) = p1.iter().position(|x| x == i) else { return };
    let b = &v1[pos];
    let refs0: Vec<&Schema> = v0.iter().collect();
    let refs1: Vec<&Schema> = v1.iter().collect();
    let (Ok(rs0), Ok(rs1)) = (catch(|| ResolvedSchema::new_with_schemata(refs0.clone())), catch(|| ResolvedSchema::new_with_schemata(refs1.clone()))) else { return };
    let (Ok(rs0), Ok(rs1)) = (rs0, rs1) else { return };
    let vg = ValueGen { names: rs0.get_names(), max_depth: 4, gave_up: Default::default() };
    let v = vg.value(rng, a, None, 0);
    if vg.gave_up.get() {
        return;
    }
    let Ok(Ok(bytes)) = catch(|| apache_avro::to_avro_datum_schemata(a, refs0.clone(), v.clone())) else { return };
    match catch(|| apache_avro::from_avro_datum_schemata(b, refs1.clone(), &mut &bytes[..], None)) {
        Ok(Ok(back)) => {
            if !value_eq(&back, &v) {
                out.oracle_fail(&format!("cross-ordering-decode-differs: {kind}"), "a value written with the schema from one ordering reads back differently with the schema from another", case);
            }
        }
        Ok(Err(e)) => out.oracle_fail(&format!("cross-ordering-decode-fails: {kind}"), &format!("a value written with the schema from one ordering does not read with the schema from another: {e}"), case),
        Err(()) => out.oracle_fail("panic", "decoding panicked", case),
    }
    let _ = rs1;
}
