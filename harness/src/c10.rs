//! The schema-text layer: C10 (schema → JSON → schema), C11 (the parser is total and accepts
//! exactly well-formed schemas), C12 (Parsing Canonical Form and fingerprints).
//!
//! Rows (exact): `sjson <json>` = `Schema::parse` then `serde_json::to_string`, read back with an
//! order- and duplicate-preserving JSON reader ↔ `Avro.parseTop` then `Avro.toJson`;
//! `pcf <json>` = `canonical_form` + Rabin fingerprint ↔ `Avro.canonicalForm` + `Avro.crc64Avro`.
use crate::genr::SchemaGen;
use crate::rng::Rng;
use crate::util::{Out, catch, trunc};
use crate::wire;
use apache_avro::Schema;
use apache_avro::rabin::Rabin;
use apache_avro::schema::ResolvedSchema;
use serde_json::{Value as J, json};
use std::fmt::Write as _;

// ---------------------------------------------------------------------------------------------
// an order- and duplicate-preserving JSON reader (strictness of the serializer's output)

#[derive(Debug, Clone, PartialEq)]
pub enum Tok {
    Null,
    Bool(bool),
    Int(i128),
    Float(u64),
    Str(String),
    Arr(Vec<Tok>),
    Obj(Vec<(String, Tok)>),
}

struct P<'a> {
    s: &'a [u8],
    i: usize,
}

impl P<'_> {
    fn ws(&mut self) {
        while self.i < self.s.len() && (self.s[self.i] as char).is_ascii_whitespace() {
            self.i += 1;
        }
    }
    fn string(&mut self) -> Option<String> {
        // delegate escapes to serde_json: find the closing quote, then parse the literal
        let start = self.i;
        self.i += 1;
        while self.i < self.s.len() {
            match self.s[self.i] {
                b'\\' => self.i += 2,
                b'"' => {
                    self.i += 1;
                    return serde_json::from_slice::<String>(&self.s[start..self.i]).ok();
                }
                _ => self.i += 1,
            }
        }
        None
    }
    fn value(&mut self) -> Option<Tok> {
        self.ws();
        match *self.s.get(self.i)? {
            b'n' => {
                self.i += 4;
                Some(Tok::Null)
            }
            b't' => {
                self.i += 4;
                Some(Tok::Bool(true))
            }
            b'f' => {
                self.i += 5;
                Some(Tok::Bool(false))
            }
            b'"' => self.string().map(Tok::Str),
            b'[' => {
                self.i += 1;
                let mut xs = vec![];
                loop {
                    self.ws();
                    if *self.s.get(self.i)? == b']' {
                        self.i += 1;
                        return Some(Tok::Arr(xs));
                    }
                    if *self.s.get(self.i)? == b',' {
                        self.i += 1;
                    }
                    xs.push(self.value()?);
                }
            }
            b'{' => {
                self.i += 1;
                let mut kvs = vec![];
                loop {
                    self.ws();
                    if *self.s.get(self.i)? == b'}' {
                        self.i += 1;
                        return Some(Tok::Obj(kvs));
                    }
                    if *self.s.get(self.i)? == b',' {
                        self.i += 1;
                        self.ws();
                    }
                    let k = self.string()?;
                    self.ws();
                    if *self.s.get(self.i)? != b':' {
                        return None;
                    }
                    self.i += 1;
                    kvs.push((k, self.value()?));
                }
            }
            _ => {
                let start = self.i;
                while self.i < self.s.len() && matches!(self.s[self.i], b'-' | b'+' | b'.' | b'e' | b'E' | b'0'..=b'9') {
                    self.i += 1;
                }
                let t = std::str::from_utf8(&self.s[start..self.i]).ok()?;
                if t.contains(['.', 'e', 'E']) {
                    t.parse::<f64>().ok().map(|x| Tok::Float(x.to_bits()))
                } else {
                    t.parse::<i128>().ok().map(Tok::Int)
                }
            }
        }
    }
}

pub fn tokenize(text: &str) -> Option<Tok> {
    let mut p = P { s: text.as_bytes(), i: 0 };
    let v = p.value()?;
    p.ws();
    if p.i == text.len() { Some(v) } else { None }
}

pub fn tok_str(t: &Tok, out: &mut String) {
    match t {
        Tok::Null => out.push_str("jnull"),
        Tok::Bool(true) => out.push_str("jtrue"),
        Tok::Bool(false) => out.push_str("jfalse"),
        Tok::Int(i) => write!(out, "(ji {i})").unwrap(),
        Tok::Float(b) => write!(out, "(jf {b})").unwrap(),
        Tok::Str(s) => write!(out, "(js {})", wire::hex(s.as_bytes())).unwrap(),
        Tok::Arr(xs) => {
            out.push_str("(ja");
            for x in xs {
                out.push(' ');
                tok_str(x, out);
            }
            out.push(')');
        }
        Tok::Obj(kvs) => {
            out.push_str("(jo");
            for (k, v) in kvs {
                write!(out, " ({} ", wire::hex(k.as_bytes())).unwrap();
                tok_str(v, out);
                out.push(')');
            }
            out.push(')');
        }
    }
}

pub fn duplicate_key(t: &Tok) -> Option<String> {
    match t {
        Tok::Arr(xs) => xs.iter().find_map(duplicate_key),
        Tok::Obj(kvs) => {
            for (i, (k, _)) in kvs.iter().enumerate() {
                if kvs[..i].iter().any(|(k2, _)| k2 == k) {
                    return Some(k.clone());
                }
            }
            kvs.iter().find_map(|(_, v)| duplicate_key(v))
        }
        _ => None,
    }
}

pub fn json_sexp(j: &J) -> String {
    let mut out = String::new();
    wire::json_pub(j, &mut out);
    out
}

// ---------------------------------------------------------------------------------------------
// schema texts: generated, decorated, mutated

/// add docs, aliases, custom attributes (also with reserved names), field defaults and `order`
pub fn decorate(rng: &mut Rng, j: &mut J, rate: u32, counter: &mut usize) {
    let attr_values = [json!(1), json!("text"), json!(null), json!(true), json!([1, "two"]), json!({"k": {"n": 1.5}}), json!(-7), json!(18446744073709551615u64),
        json!(2.5e300), json!("\u{e9}\"\\\n")];
    let attr_keys = ["custom", "x-attr", "order", "size", "symbols", "precision", "scale", "items", "values", "fields", "default", "logicalType2", "aliases2", "Name"];
    match j {
        J::Array(xs) => xs.iter_mut().for_each(|x| decorate(rng, x, rate, counter)),
        J::Object(m) => {
            let t = m.get("type").and_then(|t| t.as_str()).map(|s| s.to_string());
            if let Some(f) = m.get_mut("fields").and_then(|f| f.as_array_mut()) {
                for fld in f.iter_mut() {
                    if let Some(fm) = fld.as_object_mut() {
                        if let Some(ty) = fm.get_mut("type") {
                            decorate(rng, ty, rate, counter);
                        }
                        if rng.chance(rate, 100) {
                            if let Some(d) = simple_default(fm.get("type").unwrap()) {
                                fm.insert("default".into(), d);
                            }
                        }
                        if rng.chance(rate, 200) {
                            fm.insert("order".into(), rng.pick(&[json!("ascending"), json!("descending"), json!("ignore")]).clone());
                        }
                        if rng.chance(rate, 200) {
                            let k = *rng.pick(&attr_keys);
                            if k != "default" && !fm.contains_key(k) {
                                fm.insert(k.into(), rng.pick(&attr_values).clone());
                            }
                        }
                        if rng.chance(rate, 200) {
                            fm.insert("doc".into(), json!("field \"doc\" \u{1F600}"));
                        }
                    }
                }
            }
            for k in ["items", "values"] {
                if let Some(x) = m.get_mut(k) {
                    decorate(rng, x, rate, counter);
                }
            }
            if let Some(ty) = m.get_mut("type") {
                if ty.is_object() || ty.is_array() {
                    decorate(rng, ty, rate, counter);
                }
            }
            if rng.chance(rate, 100) {
                let k = *rng.pick(&attr_keys);
                // never clobber or fake a structural key of this node
                let structural: &[&str] = match t.as_deref() {
                    Some("record") => &["fields"],
                    Some("enum") => &["symbols", "default"],
                    Some("fixed") => &["size", "precision", "scale"],
                    Some("array") => &["items"],
                    Some("map") => &["values"],
                    _ => &["precision", "scale"],
                };
                if !m.contains_key(k) && !structural.contains(&k) {
                    m.insert(k.into(), rng.pick(&attr_values).clone());
                }
            }
            if matches!(t.as_deref(), Some("record" | "enum" | "fixed")) {
                if rng.chance(rate, 150) && !m.contains_key("doc") {
                    m.insert("doc".into(), json!("a doc\twith \"quotes\" and \\ and \u{0001}"));
                }
                if rng.chance(rate, 150) && !m.contains_key("aliases") {
                    *counter += 1;
                    m.insert("aliases".into(), json!([format!("Al{counter}"), format!("other.ns.Al{counter}")]));
                }
            }
        }
        _ => {}
    }
}

fn simple_default(ty: &J) -> Option<J> {
    match ty {
        J::String(s) => match s.as_str() {
            "null" => Some(J::Null),
            "boolean" => Some(json!(false)),
            "int" => Some(json!(-3)),
            "long" => Some(json!(1099511627776i64)),
            "float" => Some(json!(0.5)),
            "double" => Some(json!(-1.25e10)),
            "bytes" => Some(json!("\u{0}\u{7f}")),
            "string" => Some(json!("d\u{e9}faut")),
            _ => None,
        },
        J::Array(bs) => bs.first().and_then(simple_default),
        J::Object(m) => match m.get("type").and_then(|t| t.as_str()) {
            Some("array") => Some(json!([])),
            Some("map") => Some(json!({})),
            Some("enum") => m.get("symbols").and_then(|s| s.as_array()).and_then(|s| s.first()).cloned(),
            Some(p) if m.get("logicalType").is_none() && m.len() == 1 => simple_default(&J::String(p.into())),
            _ => None,
        },
        _ => None,
    }
}

/// all paths to nodes of a JSON value
fn paths(j: &J, cur: &mut Vec<String>, out: &mut Vec<Vec<String>>) {
    out.push(cur.clone());
    match j {
        J::Array(xs) => {
            for (i, x) in xs.iter().enumerate() {
                cur.push(i.to_string());
                paths(x, cur, out);
                cur.pop();
            }
        }
        J::Object(m) => {
            for (k, v) in m {
                cur.push(k.clone());
                paths(v, cur, out);
                cur.pop();
            }
        }
        _ => {}
    }
}

fn at<'a>(j: &'a mut J, path: &[String]) -> Option<&'a mut J> {
    let mut cur = j;
    for p in path {
        cur = match cur {
            J::Array(xs) => xs.get_mut(p.parse::<usize>().ok()?)?,
            J::Object(m) => m.get_mut(p)?,
            _ => return None,
        };
    }
    Some(cur)
}

/// one mutation of a valid schema: dropped / retyped / wrong-kind / extreme values at a random position
pub fn mutate(rng: &mut Rng, j: &J) -> (J, &'static str) {
    let mut all = vec![];
    paths(j, &mut vec![], &mut all);
    let path = rng.pick(&all).clone();
    let mut out = j.clone();
    let replacements = [json!(null), json!(true), json!(0), json!(-1), json!(1.5), json!(18446744073709551615u64), json!(9223372036854775808u64), json!(f64::MAX),
        json!(""), json!("int"), json!("record"), json!("enum"), json!("fixed"), json!("array"), json!("a..b"), json!(".x"), json!("9bad"), json!("ok.name"), json!([]),
        json!([[]]), json!(["int", "int"]), json!(["null", ["int"]]), json!({}), json!({"type": "int"}), json!({"type": {"type": "string"}}), json!({"type": "bytes", "logicalType": "decimal"}),
        json!({"type":"array","items":"int","logicalType":"date"}), json!({"type":"fixed","name":"Fx","size":-1}), json!({"type":"fixed","name":"Fx","size":"2"}),
        json!({"type":"enum","name":"Ex","symbols":["A","A"]}), json!({"type":"enum","name":"Ex","symbols":["A"],"default":"B"}), json!({"type":"record","name":"Rx"}),
        json!({"type":"record","name":"Rx","fields":[{"name":"a","type":"int","default":"no"}]}), json!({"type":"record","name":"Rx","fields":[{"name":"a","type":"int"},{"name":"a","type":"int"}]})];
    match rng.below(4) {
        0 if !path.is_empty() => {
            // drop the key / element
            let (last, parent) = path.split_last().unwrap();
            if let Some(p) = at(&mut out, parent) {
                match p {
                    J::Object(m) => {
                        m.remove(last);
                    }
                    J::Array(xs) => {
                        if let Ok(i) = last.parse::<usize>() {
                            if i < xs.len() {
                                xs.remove(i);
                            }
                        }
                    }
                    _ => {}
                }
            }
            (out, "drop")
        }
        1 => {
            if let Some(p) = at(&mut out, &path) {
                *p = rng.pick(&replacements).clone();
            }
            (out, "replace")
        }
        2 => {
            // duplicate an array element / rename a key to a sibling's name
            if let Some(p) = at(&mut out, &path) {
                match p {
                    J::Array(xs) if !xs.is_empty() => {
                        let x = xs[rng.below(xs.len())].clone();
                        xs.push(x);
                    }
                    J::Object(m) if !m.is_empty() => {
                        let keys: Vec<String> = m.keys().cloned().collect();
                        let k = rng.pick(&keys).clone();
                        let v = m.remove(&k).unwrap();
                        m.insert((*rng.pick(&["type", "name", "namespace", "fields", "symbols", "items", "values", "size", "logicalType", "precision", "scale", "default", "aliases"])).to_string(), v);
                    }
                    _ => {}
                }
            }
            (out, "duplicate-or-rekey")
        }
        _ => {
            if let Some(p) = at(&mut out, &path) {
                if let J::String(s) = p {
                    *s = (*rng.pick(&["", " ", "a b", "é", "a.", ".a.b", "_", "A1._b", "null", "Int", "bool", "x-y", "\u{0}"])).to_string();
                } else if p.is_number() {
                    *p = rng.pick(&[json!(0), json!(-5), json!(1e30), json!(4294967296u64), json!(9223372036854775807i64), json!(18446744073709551615u64), json!(0.5)]).clone();
                }
            }
            (out, "retype-leaf")
        }
    }
}

// ---------------------------------------------------------------------------------------------
// the specification's canonical form, from the JSON text (independent of the crate's serializer)

fn spec_fullname(m: &serde_json::Map<String, J>, enclosing: &Option<String>) -> (String, Option<String>) {
    let name = m.get("name").and_then(|n| n.as_str()).unwrap_or("");
    if let Some(idx) = name.rfind('.') {
        let ns = &name[..idx];
        let full = if ns.is_empty() { name[idx + 1..].to_string() } else { name.to_string() };
        (full, if ns.is_empty() { None } else { Some(ns.to_string()) })
    } else {
        let ns = match m.get("namespace").and_then(|n| n.as_str()) {
            Some(n) => if n.is_empty() { None } else { Some(n.to_string()) },
            None => enclosing.clone(),
        };
        match &ns {
            Some(n) => (format!("{n}.{name}"), ns.clone()),
            None => (name.to_string(), None),
        }
    }
}

/// Parsing Canonical Form by the specification's rules (PRIMITIVES, FULLNAMES, STRIP, ORDER, STRINGS,
/// INTEGERS, WHITESPACE), applied to the schema JSON; named types already written are references
pub fn spec_pcf(j: &J, enclosing: &Option<String>, defined: &mut Vec<String>, out: &mut String) -> Option<()> {
    match j {
        J::String(s) => {
            let prim = ["null", "boolean", "int", "long", "float", "double", "bytes", "string"].contains(&s.as_str());
            if prim {
                write!(out, "\"{s}\"").ok()
            } else {
                // a reference: full name
                let full = if let Some(stripped) = s.strip_prefix('.') { stripped.to_string() } else if s.contains('.') { s.clone() } else {
                    match enclosing {
                        Some(n) => format!("{n}.{s}"),
                        None => s.clone(),
                    }
                };
                write!(out, "\"{full}\"").ok()
            }
        }
        J::Array(bs) => {
            out.push('[');
            for (i, b) in bs.iter().enumerate() {
                if i > 0 {
                    out.push(',');
                }
                spec_pcf(b, enclosing, defined, out)?;
            }
            out.push(']');
            Some(())
        }
        J::Object(m) => match m.get("type")? {
            J::String(t) => match t.as_str() {
                "record" | "error" | "enum" | "fixed" => {
                    let (full, ns) = spec_fullname(m, enclosing);
                    if defined.contains(&full) && !(m.contains_key("fields") || m.contains_key("symbols") || m.contains_key("size")) {
                        return write!(out, "\"{full}\"").ok();
                    }
                    defined.push(full.clone());
                    write!(out, "{{\"name\":\"{full}\",\"type\":\"{t}\"").ok()?;
                    match t.as_str() {
                        "enum" => {
                            out.push_str(",\"symbols\":[");
                            for (i, s) in m.get("symbols")?.as_array()?.iter().enumerate() {
                                if i > 0 {
                                    out.push(',');
                                }
                                write!(out, "\"{}\"", s.as_str()?).ok()?;
                            }
                            out.push(']');
                        }
                        "fixed" => {
                            write!(out, ",\"size\":{}", m.get("size")?.as_u64()?).ok()?;
                        }
                        _ => {
                            out.push_str(",\"fields\":[");
                            let mut first = true;
                            for f in m.get("fields")?.as_array()? {
                                let Some(fm) = f.as_object() else { continue };
                                if !first {
                                    out.push(',');
                                }
                                first = false;
                                write!(out, "{{\"name\":\"{}\",\"type\":", fm.get("name")?.as_str()?).ok()?;
                                spec_pcf(fm.get("type")?, &ns, defined, out)?;
                                out.push('}');
                            }
                            out.push(']');
                        }
                    }
                    out.push('}');
                    Some(())
                }
                "array" => {
                    out.push_str("{\"type\":\"array\",\"items\":");
                    spec_pcf(m.get("items")?, enclosing, defined, out)?;
                    out.push('}');
                    Some(())
                }
                "map" => {
                    out.push_str("{\"type\":\"map\",\"values\":");
                    spec_pcf(m.get("values")?, enclosing, defined, out)?;
                    out.push('}');
                    Some(())
                }
                // a primitive (or a reference) with attributes: its simple form
                other => spec_pcf(&J::String(other.to_string()), enclosing, defined, out),
            },
            nested => spec_pcf(nested, enclosing, defined, out),
        },
        _ => None,
    }
}

// ---------------------------------------------------------------------------------------------

pub fn crc64_avro(data: &[u8]) -> u64 {
    crate::c18::crc64_avro(data)
}

pub struct Case {
    pub text: String,
    pub origin: &'static str,
}

pub fn gen_cases(rng: &mut Rng, n: usize, max_depth: usize) -> Vec<Case> {
    let mut cases: Vec<Case> = vec![];
    // a fixed catalogue first
    for t in [
        r#""int""#, r#"{"type":"int"}"#, r#"{"type":{"type":"string"}}"#, r#"["null","int"]"#, r#"[]"#,
        r#"{"type":"fixed","name":"F","size":3,"logicalType":"decimal","precision":5,"scale":2}"#,
        r#"{"type":"bytes","logicalType":"decimal","precision":5,"scale":2}"#,
        r#"{"type":"bytes","logicalType":"decimal","precision":0}"#,
        r#"{"type":"long","logicalType":"timestamp-micros"}"#,
        r#"{"type":"array","items":"int","logicalType":"date"}"#,
        r#"{"type":"record","name":"ns.R","fields":[{"name":"f","type":{"type":"fixed","name":"F","namespace":"","size":1}},{"name":"g","type":".F"}]}"#,
        r#"{"type":"record","name":"R","namespace":"ns","fields":[{"name":"f","type":{"type":"enum","name":"E","symbols":["A"]}},{"name":"g","type":"E"},{"name":"h","type":"ns.E"}]}"#,
        r#"{"type":"record","name":"R","fields":[],"size":"big"}"#,
        r#"{"type":"record","name":"R","fields":[{"name":"a","type":"int","size":1.5,"order":1}]}"#,
        r#"{"type":"enum","name":"E","symbols":["A"],"precision":"x"}"#,
        r#"{"type":"fixed","name":"F","size":18446744073709551615}"#,
        r#"{"type":"fixed","name":"F","size":9223372036854775808}"#,
        r#"{"type":"record","name":"A","fields":[{"name":"x","type":{"type":"fixed","name":"A","size":1}}]}"#,
        r#"{"type":"fixed","name":"F","size":1,"logicalType":"decimal","precision":30}"#,
        r#"{"type":"record","name":"R","fields":[{"name":"a","type":["null","int"],"default":5}]}"#,
        r#"{"type":"record","name":"R","aliases":["Old","x.Y"],"doc":"d","fields":[{"name":"a","aliases":["b"],"doc":"fd","type":"long","default":1}]}"#,
        r#"{"type":"record","name":"L","fields":[{"name":"v","type":"long"},{"name":"next","type":["null","L"]}]}"#,
        r#"{"type":"map","values":{"type":"string","logicalType":"uuid"},"x":1}"#,
        // named logical types defined once and referred to by name
        r#"{"type":"record","name":"R","fields":[{"name":"a","type":{"type":"fixed","name":"D","size":12,"logicalType":"duration"}},{"name":"b","type":"D"}]}"#,
        r#"{"type":"record","name":"ns.R","fields":[{"name":"a","type":{"type":"fixed","name":"U","size":16,"logicalType":"uuid"}},{"name":"b","type":["null","ns.U"]}]}"#,
        r#"{"type":"record","name":"R","fields":[{"name":"a","type":{"type":"fixed","name":"x.M","size":4,"logicalType":"decimal","precision":6,"scale":2}},{"name":"b","type":{"type":"array","items":"x.M"}}]}"#,
        // field defaults: conforming ones of the less common kinds, and near misses the parser has to reject
        r#"{"type":"record","name":"R","fields":[{"name":"a","type":["int","string"],"default":null}]}"#,
        r#"{"type":"record","name":"R","fields":[{"name":"a","type":["string","null"],"default":null}]}"#,
        r#"{"type":"record","name":"R","fields":[{"name":"a","type":[],"default":null}]}"#,
        r#"{"type":"record","name":"R","fields":[{"name":"a","type":{"type":"array","items":["int","string"]},"default":[null]}]}"#,
        r#"{"type":"record","name":"R","fields":[{"name":"a","type":"int","default":"1"}]}"#,
        r#"{"type":"record","name":"R","fields":[{"name":"a","type":"int","default":2147483648}]}"#,
        r#"{"type":"record","name":"R","fields":[{"name":"a","type":"string","default":1}]}"#,
        r#"{"type":"record","name":"R","fields":[{"name":"a","type":"boolean","default":0}]}"#,
        r#"{"type":"record","name":"R","fields":[{"name":"a","type":"null","default":0}]}"#,
        r#"{"type":"record","name":"R","fields":[{"name":"a","type":{"type":"map","values":"int"},"default":{"k":"v"}}]}"#,
        r#"{"type":"record","name":"R","fields":[{"name":"a","type":{"type":"map","values":"int"},"default":{"k":1}}]}"#,
        r#"{"type":"record","name":"R","fields":[{"name":"a","type":{"type":"record","name":"I","fields":[{"name":"x","type":"int"}]},"default":{}}]}"#,
        r#"{"type":"record","name":"R","fields":[{"name":"a","type":{"type":"record","name":"I","fields":[{"name":"x","type":"int"}]},"default":{"x":7}}]}"#,
        r#"{"type":"record","name":"R","fields":[{"name":"a","type":{"type":"enum","name":"E","symbols":["A","B"]},"default":"C"}]}"#,
        r#"{"type":"record","name":"R","fields":[{"name":"a","type":{"type":"fixed","name":"F","size":2},"default":"\u00ff\u0000"}]}"#,
        // unusual but legal names and namespaces
        r#"{"type":"record","name":"com._internal.Event","aliases":["com._internal._v2.Old"],"fields":[{"name":"k","type":{"type":"enum","name":"com._internal.Kind","symbols":["A"]}},{"name":"d","type":{"type":"fixed","name":"com._internal._v2.Digest","size":2}},{"name":"k2","type":"com._internal.Kind"}]}"#,
        r#"{"type":"fixed","name":"_","namespace":"_._","size":1}"#,
    ] {
        cases.push(Case { text: t.to_string(), origin: "catalogue" });
    }
    let mut counter = 0usize;
    while cases.len() < n {
        let mut g = SchemaGen::new(max_depth);
        // (no enclosing namespace at the top of a schema text: the generator's bookkeeping of full names is then exact,
        // namespaces come from explicit "namespace" keys and dotted names of the named types)
        let mut j = g.schema(rng, 0, "", true, false);
        match rng.below(10) {
            0..=2 => cases.push(Case { text: j.to_string(), origin: "generated" }),
            3..=5 => {
                let rate = [10u32, 30, 60][rng.below(3)];
                decorate(rng, &mut j, rate, &mut counter);
                cases.push(Case { text: j.to_string(), origin: "decorated" });
            }
            6..=8 => {
                if rng.chance(1, 2) {
                    decorate(rng, &mut j, 20, &mut counter);
                }
                let (m, _) = mutate(rng, &j);
                cases.push(Case { text: m.to_string(), origin: "mutated" });
            }
            _ => {
                // pretty-printed with other whitespace: the same schema
                cases.push(Case { text: serde_json::to_string_pretty(&j).unwrap(), origin: "generated" });
            }
        }
    }
    cases
}

/// is this parsed schema well formed?  (an independent walk of the result)
/// the first record field whose default is no value of the field's schema: (kind of the field's schema, description)
pub fn bad_default(side: &crate::c08::Side, s: &Schema, ns: Option<String>) -> Option<(String, String)> {
    let inner = crate::c08::inner_ns(s, &ns);
    match s {
        Schema::Record(r) => {
            for f in &r.fields {
                if let Some(d) = &f.default {
                    if let Err(e) = crate::c08::default_value(side, &f.schema, inner.clone(), d) {
                        let kind = match crate::c08::deref(side, &f.schema, inner.clone()) {
                            Ok((t, _)) => format!("{:?}", apache_avro::schema::SchemaKind::from(t)),
                            Err(_) => "?".to_string(),
                        };
                        return Some((kind, format!("field {} of {} has the default {d}, which is no value of its schema: {e}", f.name, r.name)));
                    }
                }
                if let Some(b) = bad_default(side, &f.schema, inner.clone()) {
                    return Some(b);
                }
            }
            None
        }
        Schema::Array(a) => bad_default(side, &a.items, ns),
        Schema::Map(m) => bad_default(side, &m.types, ns),
        Schema::Union(u) => u.variants().iter().find_map(|b| bad_default(side, b, ns.clone())),
        _ => None,
    }
}

pub fn well_formed(s: &Schema) -> Result<(), String> {
    fn ident(s: &str) -> bool {
        let mut c = s.chars();
        matches!(c.next(), Some(x) if x.is_ascii_alphabetic() || x == '_') && c.all(|x| x.is_ascii_alphanumeric() || x == '_')
    }
    fn name_ok(n: &apache_avro::schema::Name) -> bool {
        ident(n.name()) && n.namespace().is_none_or(|ns| !ns.is_empty() && ns.split('.').all(ident))
    }
    fn walk(s: &Schema, defined: &mut Vec<String>) -> Result<(), String> {
        match s {
            Schema::Record(r) => {
                if !name_ok(&r.name) {
                    return Err(format!("record name {:?} does not match the grammar", r.name));
                }
                let full = r.name.to_string();
                if defined.contains(&full) {
                    return Err(format!("full name {full} is defined twice"));
                }
                defined.push(full);
                let mut names = vec![];
                for f in &r.fields {
                    if !ident(&f.name) {
                        return Err(format!("field name {:?} does not match the grammar", f.name));
                    }
                    if names.contains(&f.name) {
                        return Err(format!("field name {} is used twice", f.name));
                    }
                    names.push(f.name.clone());
                    walk(&f.schema, defined)?;
                }
                Ok(())
            }
            Schema::Enum(e) => {
                if !name_ok(&e.name) {
                    return Err(format!("enum name {:?} does not match the grammar", e.name));
                }
                let full = e.name.to_string();
                if defined.contains(&full) {
                    return Err(format!("full name {full} is defined twice"));
                }
                defined.push(full);
                let mut seen = vec![];
                for sy in &e.symbols {
                    if !ident(sy) {
                        return Err(format!("symbol {sy:?} does not match the grammar"));
                    }
                    if seen.contains(sy) {
                        return Err(format!("symbol {sy} is used twice"));
                    }
                    seen.push(sy.clone());
                }
                if let Some(d) = &e.default {
                    if !e.symbols.contains(d) {
                        return Err(format!("enum default {d} is no symbol"));
                    }
                }
                Ok(())
            }
            Schema::Fixed(f) | Schema::Duration(f) | Schema::Uuid(apache_avro::schema::UuidSchema::Fixed(f))
            | Schema::Decimal(apache_avro::schema::DecimalSchema { inner: apache_avro::schema::InnerDecimalSchema::Fixed(f), .. }) => {
                if !name_ok(&f.name) {
                    return Err(format!("fixed name {:?} does not match the grammar", f.name));
                }
                let full = f.name.to_string();
                if defined.contains(&full) {
                    return Err(format!("full name {full} is defined twice"));
                }
                defined.push(full);
                if let Schema::Decimal(d) = s {
                    // the precision must fit the size
                    let max = (2.0_f64.powi(8 * f.size as i32 - 1) - 1.0).log10().floor();
                    if f.size < 1000 && (d.precision as f64) > max {
                        return Err(format!("decimal precision {} does not fit a fixed of size {}", d.precision, f.size));
                    }
                }
                Ok(())
            }
            Schema::Array(a) => walk(&a.items, defined),
            Schema::Map(m) => walk(&m.types, defined),
            Schema::Union(u) => {
                let mut kinds = vec![];
                let mut names = vec![];
                for b in u.variants() {
                    if matches!(b, Schema::Union(_)) {
                        return Err("a union directly inside a union".into());
                    }
                    match b.name() {
                        Some(n) => {
                            if names.contains(&n.to_string()) {
                                return Err(format!("union has the name {n} twice"));
                            }
                            names.push(n.to_string());
                        }
                        None => {
                            let k = format!("{:?}", apache_avro::schema::SchemaKind::from(b));
                            let k = match k.as_str() {
                                "Date" | "TimeMillis" => "Int".to_string(),
                                "TimeMicros" | "TimestampMillis" | "TimestampMicros" | "TimestampNanos" | "LocalTimestampMillis" | "LocalTimestampMicros" | "LocalTimestampNanos" => "Long".to_string(),
                                "Decimal" | "BigDecimal" => "Bytes".to_string(),
                                "Uuid" => match b {
                                    Schema::Uuid(apache_avro::schema::UuidSchema::String) => "String".to_string(),
                                    _ => "Bytes".to_string(),
                                },
                                _ => k,
                            };
                            if kinds.contains(&k) {
                                return Err(format!("union has two unnamed branches of type {k}"));
                            }
                            kinds.push(k);
                        }
                    }
                    walk(b, defined)?;
                }
                Ok(())
            }
            _ => Ok(()),
        }
    }
    walk(s, &mut vec![])
}

pub fn run(args: &[String], which: &str) -> i32 {
    let dir = &args[0];
    let seed: u64 = args[1].parse().unwrap();
    let n: usize = args[2].parse().unwrap();
    let max_depth: usize = args.get(3).and_then(|s| s.parse().ok()).unwrap_or(3);
    let lim = apache_avro::util::max_allocation_bytes(64 * 1024 * 1024);
    let mut out = Out::new(dir);
    crate::util::watchdog(dir, 20000);
    let mut rng = Rng::new(seed);
    let cases = gen_cases(&mut rng, n, max_depth);
    for c in cases {
        let case = format!("origin={} text={}", c.origin, trunc(&c.text, 1500));
        crate::util::begin_case(&case);
        out.count(&format!("origin_{}", c.origin));
        let Ok(j) = serde_json::from_str::<J>(&c.text) else { continue };
        let parsed = match catch(|| Schema::parse(&j)) {
            Ok(p) => p,
            Err(()) => {
                out.oracle_fail("panic", "Schema::parse panicked", &case);
                continue;
            }
        };
        out.count(if parsed.is_ok() { "accepted" } else { "rejected" });
        let js = json_sexp(&j);
        // ---- rows
        let ser = parsed.as_ref().ok().map(|s| catch(|| serde_json::to_string(s)));
        let ser_row = match &ser {
            None => "err".to_string(),
            Some(Ok(Ok(t))) => match tokenize(t) {
                Some(tok) => {
                    let mut o = String::from("ok ");
                    tok_str(&tok, &mut o);
                    o
                }
                None => "ok <untokenizable>".to_string(),
            },
            Some(_) => "err panic".to_string(),
        };
        out.pair(&format!("sjson {lim} {js}"), &ser_row);
        let pcf = parsed.as_ref().ok().map(|s| catch(|| (s.canonical_form(), s.fingerprint::<Rabin>())));
        let pcf_row = match &pcf {
            None => "err".to_string(),
            Some(Ok((t, fp))) => format!("ok {} {}", wire::hex(t.as_bytes()), u64::from_le_bytes(fp.bytes.clone().try_into().unwrap_or([0; 8]))),
            Some(Err(())) => "err panic".to_string(),
        };
        out.pair(&format!("pcf {lim} {js}"), &pcf_row);

        let Ok(schema) = &parsed else {
            if c.origin == "generated" || c.origin == "decorated" {
                if which == "c11" {
                    out.oracle_fail("well-formed-rejected", &format!("a well-formed schema is rejected: {}", parsed.as_ref().err().map(|e| e.to_string()).unwrap_or_default()), &case);
                }
            }
            continue;
        };
        match which {
            "c10" => {
                let Some(Ok(Ok(text1))) = &ser else {
                    out.oracle_fail("panic", "serializing an accepted schema failed or panicked", &case);
                    continue;
                };
                if let Some(tok) = tokenize(text1) {
                    if let Some(k) = duplicate_key(&tok) {
                        out.oracle_fail("duplicate-key", &format!("the serialized schema repeats the key {k:?}: {}", trunc(text1, 400)), &case);
                    }
                }
                match catch(|| Schema::parse_str(text1)) {
                    Ok(Ok(s2)) => {
                        let text2 = serde_json::to_string(&s2).unwrap_or_default();
                        if &text2 != text1 {
                            // the recorded finding needs a type that is explicitly put into the null namespace inside a namespaced one
                            let what = if c.text.contains("\"namespace\":\"\"") || c.text.contains("\".") { "reparse-differs (namespaces involved)" } else { "reparse-differs" };
                            out.oracle_fail(what, &format!("serialized {} re-parses and serializes as {}", trunc(text1, 500), trunc(&text2, 500)), &case);
                        } else if s2 != *schema {
                            out.oracle_fail("reparse-not-equal", "the re-parsed schema is not == the original", &case);
                        }
                    }
                    Ok(Err(e)) => {
                        let what = if c.text.contains("\"namespace\":\"\"") || c.text.contains("\".") { "reparse-rejected (namespaces involved)" } else { "reparse-rejected" };
                        out.oracle_fail(what, &format!("serialized {} does not parse: {e}", trunc(text1, 500)), &case)
                    }
                    Err(()) => out.oracle_fail("panic", "re-parsing panicked", &case),
                }
                // the container header embeds this JSON
                if let Ok(Ok(w)) = catch(|| apache_avro::Writer::new(schema, Vec::new()).and_then(|w| w.into_inner())) {
                    match catch(|| apache_avro::Reader::new(&w[..]).map(|r| serde_json::to_string(r.writer_schema()).unwrap_or_default())) {
                        Ok(Ok(t)) => {
                            if &t != text1 {
                                // (a re-parse difference shows up here as well; report it under its own class)
                                let what = if c.text.contains("\"namespace\":\"\"") || c.text.contains("\".") { "header-schema-differs (namespaces involved)" } else { "header-schema-differs" };
                                out.oracle_fail(what, &format!("the file header's schema serializes as {}", trunc(&t, 500)), &case);
                            }
                        }
                        Ok(Err(e)) => out.oracle_fail("header-schema-rejected", &format!("a file written with the schema cannot be opened: {e}"), &case),
                        Err(()) => out.oracle_fail("panic", "opening the written file panicked", &case),
                    }
                }
            }
            "c11" => {
                if let Err(why) = well_formed(schema) {
                    out.oracle_fail(&format!("accepted-not-well-formed: {}", why.split(' ').take(3).collect::<Vec<_>>().join(" ")), &why, &case);
                }
                // every field default conforms to its field's schema (the specification's reading of a JSON default)
                if let Ok(rs) = ResolvedSchema::new(schema) {
                    let side = crate::c08::Side { names: rs.get_names() };
                    if let Some((kind, why)) = bad_default(&side, schema, None) {
                        out.oracle_fail(&format!("accepted-default-does-not-conform: {kind}"), &why, &case);
                    }
                }
                // every operation on an accepted schema completes
                for (op, r) in [
                    ("canonical_form", catch(|| { let _ = schema.canonical_form(); })),
                    ("fingerprint", catch(|| { let _ = schema.fingerprint::<Rabin>(); let _ = schema.fingerprint::<sha2::Sha256>(); let _ = schema.fingerprint::<md5::Md5>(); })),
                    ("to_string", catch(|| { let _ = serde_json::to_string(schema); })),
                    ("ResolvedSchema::new", catch(|| { let _ = ResolvedSchema::new(schema); })),
                    ("Debug", catch(|| { let _ = format!("{schema:?}"); })),
                ] {
                    if r.is_err() {
                        out.oracle_fail(&format!("operation-panics: {op}"), &format!("{op} panicked on an accepted schema"), &case);
                    }
                }
                // every reference resolves
                if let Ok(Err(e)) = catch(|| ResolvedSchema::new(schema).map(|_| ())) {
                    let m = e.to_string();
                    let class = if m.contains("same fullname") || m.contains("mbiguous") { "accepted-not-well-formed: full name is" } else { "accepted-unresolvable" };
                    out.oracle_fail(class, &format!("ResolvedSchema::new fails on an accepted schema: {}", trunc(&m, 200)), &case);
                }
            }
            _ => {
                // c12 (schemas that are not well formed - C11's findings - have no canonical form to speak of)
                if well_formed(schema).is_err() {
                    out.count("skipped_not_well_formed");
                    continue;
                }
                let Some(Ok((form, fp))) = &pcf else {
                    out.oracle_fail("operation-panics: canonical_form", "canonical_form panicked", &case);
                    continue;
                };
                let mut want = String::new();
                if spec_pcf(&j, &None, &mut vec![], &mut want).is_some() {
                    if &want != form {
                        // the recorded finding: a primitive that carried a (stripped) logicalType keeps its object form
                        // `{"type":"int"}`; any OTHER difference is not that finding
                        let mut reduced = form.clone();
                        for p in ["null", "boolean", "int", "long", "float", "double", "bytes", "string"] {
                            reduced = reduced.replace(&format!("{{\"type\":\"{p}\"}}"), &format!("\"{p}\""));
                        }
                        let class = if c.text.contains("logicalType") && reduced == want { "pcf-differs-from-spec: logical type" } else { "pcf-differs-from-spec" };
                        out.oracle_fail(class, &format!("canonical_form = {}, the specification's rules give {}", trunc(form, 500), trunc(&want, 500)), &case);
                    }
                }
                // parsing the canonical form and canonicalising again is the identity
                match catch(|| Schema::parse_str(form).map(|s| s.canonical_form())) {
                    Ok(Ok(again)) => {
                        if &again != form {
                            let mut reduced = form.clone();
                            for p in ["null", "boolean", "int", "long", "float", "double", "bytes", "string"] {
                                reduced = reduced.replace(&format!("{{\"type\":\"{p}\"}}"), &format!("\"{p}\""));
                            }
                            let class = if c.text.contains("logicalType") && again == reduced { "pcf-not-idempotent: logical type" }
                                else if c.text.contains("\"namespace\":\"\"") || c.text.contains("\".") { "pcf-not-idempotent: null namespace inside a namespace" }
                                else { "pcf-not-idempotent" };
                            out.oracle_fail(class, &format!("{} canonicalises again as {}", trunc(form, 400), trunc(&again, 400)), &case);
                        }
                    }
                    Ok(Err(e)) => {
                        let class = if c.text.contains("\"namespace\":\"\"") || c.text.contains("\".") { "pcf-does-not-parse: null namespace inside a namespace" } else { "pcf-does-not-parse" };
                        out.oracle_fail(class, &format!("{} : {e}", trunc(form, 400)), &case)
                    }
                    Err(()) => out.oracle_fail("panic", "parsing a canonical form panicked", &case),
                }
                // fingerprints
                let rab = u64::from_le_bytes(fp.bytes.clone().try_into().unwrap_or([0; 8]));
                if rab != crc64_avro(form.as_bytes()) {
                    out.oracle_fail("rabin-differs", &format!("fingerprint {rab:016x}, CRC-64-AVRO of the canonical form {:016x}", crc64_avro(form.as_bytes())), &case);
                }
                use digest::Digest;
                let md = schema.fingerprint::<md5::Md5>();
                let sh = schema.fingerprint::<sha2::Sha256>();
                if md.bytes != md5::Md5::digest(form.as_bytes()).to_vec() || sh.bytes != sha2::Sha256::digest(form.as_bytes()).to_vec() {
                    out.oracle_fail("digest-differs", "MD5 / SHA-256 fingerprint is not the digest of the canonical form", &case);
                }
                if schema.canonical_form() != *form || schema.fingerprint::<Rabin>().bytes != fp.bytes {
                    out.oracle_fail("not-deterministic", "a second call gives another canonical form or fingerprint", &case);
                }
                // irrelevant edits keep the canonical form
                let mut edited = j.clone();
                strip_irrelevant(&mut edited);
                if let Ok(Ok(s2)) = catch(|| Schema::parse(&edited)) {
                    if let Ok(f2) = catch(|| s2.canonical_form()) {
                        if &f2 != form {
                            out.oracle_fail("irrelevant-edit-changes-pcf", &format!("without docs/aliases/defaults/other attributes the form is {}, with them {}", trunc(&f2, 400), trunc(form, 400)), &case);
                        }
                    }
                }
            }
        }
    }
    crate::util::end_case();
    out.finish(dir, serde_json::json!({"lim": lim}));
    0
}

/// remove everything the specification calls irrelevant for the canonical form
pub fn strip_irrelevant(j: &mut J) {
    match j {
        J::Array(xs) => xs.iter_mut().for_each(strip_irrelevant),
        J::Object(m) => {
            let keep = ["type", "name", "namespace", "fields", "symbols", "items", "values", "size", "logicalType", "precision", "scale"];
            let keys: Vec<String> = m.keys().cloned().collect();
            for k in keys {
                if !keep.contains(&k.as_str()) {
                    m.remove(&k);
                }
            }
            for (k, v) in m.iter_mut() {
                if ["type", "fields", "items", "values"].contains(&k.as_str()) {
                    strip_irrelevant(v);
                }
            }
        }
        _ => {}
    }
}
