//! C04 (and the codec interop half of C15): the container layout in both directions against an
//! independent implementation: `split_file` + `refcodec` (Rust, from the specification), Python's
//! zlib(-15)/bz2/lzma for the payload codecs, and a snappy raw-format codec + CRC-32 written here.
use crate::c03::{SharedVec, split_file};
use crate::c05::{bytes_field, long};
use crate::genr::{ValueGen, gen_schema};
use crate::refcodec::Ctx;
use crate::rng::Rng;
use crate::util::{Out, catch, value_eq};
use apache_avro::schema::{ResolvedSchema, Schema};
use apache_avro::types::Value;
use apache_avro::{Codec, Reader, Writer};
use std::io::{BufRead, BufReader, Write};
use std::process::{Child, ChildStdin, ChildStdout, Command, Stdio};

pub struct PyCodecs {
    _child: Child,
    stdin: ChildStdin,
    stdout: BufReader<ChildStdout>,
}

impl PyCodecs {
    pub fn new() -> PyCodecs {
        let script = std::env::var("VERIF_ROOT").unwrap_or_else(|_| "/verif".into()) + "/tools/refcodecs.py";
        let mut child = Command::new("python3").arg(script).stdin(Stdio::piped()).stdout(Stdio::piped()).spawn().expect("python3");
        let stdin = child.stdin.take().unwrap();
        let stdout = BufReader::new(child.stdout.take().unwrap());
        PyCodecs { _child: child, stdin, stdout }
    }
    pub fn call(&mut self, op: &str, codec: &str, data: &[u8], level: Option<u32>) -> Option<Vec<u8>> {
        let hexs: String = data.iter().map(|b| format!("{b:02x}")).collect();
        let lv = level.map(|l| format!(" {l}")).unwrap_or_default();
        writeln!(self.stdin, "{op} {codec} x{hexs}{lv}").ok()?;
        self.stdin.flush().ok()?;
        let mut line = String::new();
        self.stdout.read_line(&mut line).ok()?;
        let line = line.trim();
        let h = line.strip_prefix("ok x")?;
        (0..h.len() / 2).map(|i| u8::from_str_radix(&h[2 * i..2 * i + 2], 16).ok()).collect()
    }
}

/// CRC-32 (IEEE, reflected, as used by the snappy codec trailer), bit-serial
pub fn crc32(data: &[u8]) -> u32 {
    let mut c: u32 = 0xffff_ffff;
    for b in data {
        c ^= *b as u32;
        for _ in 0..8 {
            c = if c & 1 != 0 { (c >> 1) ^ 0xEDB8_8320 } else { c >> 1 };
        }
    }
    !c
}

/// snappy raw format, decoder (from the format description)
pub fn snappy_decode(b: &[u8]) -> Option<Vec<u8>> {
    let mut p = 0usize;
    let mut len: u64 = 0;
    let mut shift = 0;
    loop {
        let x = *b.get(p)?;
        p += 1;
        len |= ((x & 0x7f) as u64) << shift;
        if x & 0x80 == 0 {
            break;
        }
        shift += 7;
        if shift > 35 {
            return None;
        }
    }
    let mut out: Vec<u8> = Vec::with_capacity(len as usize);
    while p < b.len() {
        let tag = b[p];
        p += 1;
        match tag & 3 {
            0 => {
                let mut l = (tag >> 2) as usize;
                if l >= 60 {
                    let nb = l - 59;
                    let mut v = 0usize;
                    for i in 0..nb {
                        v |= (*b.get(p + i)? as usize) << (8 * i);
                    }
                    p += nb;
                    l = v;
                }
                l += 1;
                out.extend_from_slice(b.get(p..p + l)?);
                p += l;
            }
            k => {
                let (l, off) = match k {
                    1 => {
                        let l = 4 + ((tag >> 2) & 7) as usize;
                        let off = (((tag >> 5) as usize) << 8) | *b.get(p)? as usize;
                        p += 1;
                        (l, off)
                    }
                    2 => {
                        let l = 1 + (tag >> 2) as usize;
                        let off = *b.get(p)? as usize | ((*b.get(p + 1)? as usize) << 8);
                        p += 2;
                        (l, off)
                    }
                    _ => {
                        let l = 1 + (tag >> 2) as usize;
                        let off = u32::from_le_bytes(b.get(p..p + 4)?.try_into().ok()?) as usize;
                        p += 4;
                        (l, off)
                    }
                };
                if off == 0 || off > out.len() {
                    return None;
                }
                for _ in 0..l {
                    let c = out[out.len() - off];
                    out.push(c);
                }
            }
        }
    }
    if out.len() as u64 == len { Some(out) } else { None }
}

/// snappy raw format, literal-only encoder (a valid stream any decoder must accept)
pub fn snappy_encode_literal(data: &[u8]) -> Vec<u8> {
    let mut out = Vec::new();
    let mut n = data.len() as u64;
    loop {
        if n < 128 {
            out.push(n as u8);
            break;
        }
        out.push(0x80 | (n & 0x7f) as u8);
        n >>= 7;
    }
    for chunk in data.chunks(60) {
        out.push(((chunk.len() - 1) as u8) << 2);
        out.extend_from_slice(chunk);
    }
    out
}

fn ref_decompress(py: &mut PyCodecs, codec: &str, payload: &[u8]) -> Option<Vec<u8>> {
    match codec {
        "null" => Some(payload.to_vec()),
        "snappy" => {
            if payload.len() < 4 {
                return None;
            }
            let (body, crc) = payload.split_at(payload.len() - 4);
            let data = snappy_decode(body)?;
            if crc32(&data).to_be_bytes() != crc { None } else { Some(data) }
        }
        c => py.call("decompress", c, payload, None),
    }
}

fn ref_compress(py: &mut PyCodecs, codec: &str, data: &[u8]) -> Option<Vec<u8>> {
    match codec {
        "null" => Some(data.to_vec()),
        "snappy" => {
            let mut o = snappy_encode_literal(data);
            o.extend_from_slice(&crc32(data).to_be_bytes());
            Some(o)
        }
        c => py.call("compress", c, data, None),
    }
}

/// parse the header metadata with the reference datum decoder
fn ref_header(file: &[u8]) -> Option<(Vec<(String, Vec<u8>)>, usize)> {
    if file.len() < 4 || &file[..4] != b"Obj\x01" {
        return None;
    }
    let names = std::collections::HashMap::new();
    let ctx = Ctx { names: &names };
    let mut p = 4usize;
    let v = ctx.decode(&Schema::map(Schema::Bytes).build(), None, file, &mut p)?;
    let Value::Map(m) = v else { return None };
    let mut out: Vec<(String, Vec<u8>)> = m.into_iter().filter_map(|(k, v)| if let Value::Bytes(b) = v { Some((k, b)) } else { None }).collect();
    out.sort();
    Some((out, p))
}

pub fn run(args: &[String]) -> i32 {
    let dir = &args[0];
    let seed: u64 = args[1].parse().unwrap();
    let n: usize = args[2].parse().unwrap();
    let mut out = Out::new(dir);
    crate::util::watchdog(dir, 20000);
    let mut rng = Rng::new(seed);
    let mut py = PyCodecs::new();
    let mut done = 0;
    while done < n {
        let mut crng = rng.fork();
        let (text, schema) = gen_schema(&mut crng, 3);
        let rs = ResolvedSchema::new(&schema).unwrap();
        let names = rs.get_names();
        let vg = ValueGen { names, max_depth: 4, gave_up: Default::default() };
        let nvals = *crng.pick(&[0usize, 1, 2, 5, 9]);
        let vals: Vec<Value> = (0..nvals).map(|_| vg.value(&mut crng, &schema, None, 0)).collect();
        if vg.gave_up.get() {
            continue;
        }
        done += 1;
        let ctx = Ctx { names };
        let short = crate::util::trunc(&text, 300);
        let schema_json = serde_json::to_string(&schema).unwrap();

        // ---- A. written by the library, read by the independent implementation
        for (cname, codec) in [("null", Codec::Null), ("deflate", Codec::Deflate(Default::default())), ("snappy", Codec::Snappy),
                               ("bzip2", Codec::Bzip2(Default::default())), ("xz", Codec::Xz(Default::default()))] {
            let sink = SharedVec::default();
            let bsz = *crng.pick(&[0usize, 1, 64, 16000]);
            let Ok(mut w) = Writer::builder().schema(&schema).writer(sink.clone()).codec(codec).block_size(bsz).build() else { continue };
            let _ = w.add_user_metadata("user.key".into(), b"v1");
            let mut okv = true;
            for v in &vals {
                okv &= w.append_value_ref(v).is_ok();
            }
            okv &= w.into_inner().is_ok();
            if !okv {
                continue;
            }
            let file = sink.0.borrow().clone();
            let case = format!("written by the library: schema={short} codec={cname} block_size={bsz} values={}", vals.len());
            out.count(&format!("library_files_{cname}"));
            let Some((meta, _)) = ref_header(&file) else {
                out.oracle_fail("reference-reader-rejects", "header is not magic + map<bytes>", &case);
                continue;
            };
            let get = |k: &str| meta.iter().find(|(kk, _)| kk == k).map(|(_, v)| v.clone());
            match get("avro.schema").and_then(|b| serde_json::from_slice::<serde_json::Value>(&b).ok()) {
                Some(j) if j == serde_json::to_value(&schema).unwrap() => {}
                _ => out.oracle_fail("header-schema", "avro.schema is missing or is not the writer schema's JSON", &case),
            }
            let codec_meta = get("avro.codec").map(|b| String::from_utf8_lossy(&b).to_string());
            if (cname == "null" && codec_meta.as_deref().is_some_and(|c| c != "null")) || (cname != "null" && codec_meta.as_deref() != Some(cname)) {
                out.oracle_fail("header-codec", &format!("avro.codec = {codec_meta:?}"), &case);
            }
            if get("user.key").as_deref() != Some(b"v1") {
                out.oracle_fail("header-user-metadata", "user metadata missing", &case);
            }
            let Some((_, _, blocks)) = split_file(&file) else {
                out.oracle_fail("reference-reader-rejects", "blocks are not count/size/payload/marker", &case);
                continue;
            };
            let mut got = vec![];
            let mut bad = false;
            for (count, payload) in &blocks {
                let Some(data) = ref_decompress(&mut py, cname, payload) else {
                    out.oracle_fail("reference-codec-rejects", &format!("reference {cname} decoder rejects a block payload"), &case);
                    bad = true;
                    break;
                };
                let mut p = 0usize;
                for _ in 0..*count {
                    match ctx.decode(&schema, None, &data, &mut p) {
                        Some(v) => got.push(v),
                        None => {
                            bad = true;
                            break;
                        }
                    }
                }
                if p != data.len() {
                    bad = true;
                }
            }
            if bad || got.len() != vals.len() || !got.iter().zip(&vals).all(|(a, b)| value_eq(a, b)) {
                out.oracle_fail("reference-reader-differs", &format!("reference reader got {} values, {} were appended", got.len(), vals.len()), &case);
            }
        }

        // ---- B. written by the independent implementation, read by the library
        let encs: Vec<Vec<u8>> = vals.iter().map(|v| { let mut e = Vec::new(); ctx.encode(&mut crng, &schema, None, v, &mut e); e }).collect();
        for cname in ["null", "deflate", "snappy", "bzip2", "xz"] {
            // a random partition, incl. the extremes
            let style = crng.below(4);
            let mut parts: Vec<Vec<usize>> = vec![];
            let mut i = 0;
            while i < vals.len() {
                let k = match style { 0 => 1, 1 => vals.len(), _ => 1 + crng.below(vals.len() - i) };
                parts.push((i..(i + k).min(vals.len())).collect());
                i += k;
            }
            let zero_block = crng.chance(1, 4) && !parts.is_empty();
            let mut marker = [0u8; 16];
            for b in marker.iter_mut() {
                *b = crng.next() as u8;
            }
            // metadata map in a random legal layout: entry order shuffled, blocks, negative counts
            let mut meta: Vec<(String, Vec<u8>)> = vec![("avro.schema".into(), schema_json.as_bytes().to_vec())];
            if cname != "null" || crng.chance(1, 2) {
                meta.push(("avro.codec".into(), cname.as_bytes().to_vec()));
            }
            meta.push(("avro.unknown.key".into(), vec![1, 2, 3]));
            meta.push(("user.a".into(), b"hello".to_vec()));
            meta.push(("b".into(), vec![]));
            for k in (1..meta.len()).rev() {
                let j = crng.below(k + 1);
                meta.swap(k, j);
            }
            let mut f = b"Obj\x01".to_vec();
            let mut mi = 0;
            while mi < meta.len() {
                let k = 1 + crng.below(meta.len() - mi);
                let mut blk = Vec::new();
                for (kk, vv) in &meta[mi..mi + k] {
                    bytes_field(kk.as_bytes(), &mut blk);
                    bytes_field(vv, &mut blk);
                }
                if crng.chance(1, 2) {
                    long(-(k as i64), &mut f);
                    long(blk.len() as i64, &mut f);
                } else {
                    long(k as i64, &mut f);
                }
                f.extend_from_slice(&blk);
                mi += k;
            }
            f.push(0);
            f.extend_from_slice(&marker);
            let mut refused = false;
            for (pi, part) in parts.iter().enumerate() {
                if zero_block && pi == parts.len() / 2 {
                    // an empty block between two blocks
                    let Some(pl) = ref_compress(&mut py, cname, &[]) else { refused = true; break };
                    long(0, &mut f);
                    long(pl.len() as i64, &mut f);
                    f.extend_from_slice(&pl);
                    f.extend_from_slice(&marker);
                }
                let mut data = Vec::new();
                for &vi in part {
                    data.extend_from_slice(&encs[vi]);
                }
                let Some(pl) = ref_compress(&mut py, cname, &data) else { refused = true; break };
                long(part.len() as i64, &mut f);
                long(pl.len() as i64, &mut f);
                f.extend_from_slice(&pl);
                f.extend_from_slice(&marker);
            }
            if refused {
                continue;
            }
            out.count(&format!("reference_files_{cname}"));
            let case = format!("written by the reference: schema={short} codec={cname} partition={:?} zero_count_block={zero_block} values={}",
                parts.iter().map(|p| p.len()).collect::<Vec<_>>(), vals.len());
            match catch(|| Reader::new(&f[..])) {
                Err(()) => out.oracle_fail("panic", "reader panicked on a conforming file", &case),
                Ok(Err(e)) => out.oracle_fail("conforming-file-rejected", &format!("{e}"), &case),
                Ok(Ok(rd)) => {
                    let mut um: Vec<(String, Vec<u8>)> = rd.user_metadata().iter().map(|(k, v)| (k.clone(), v.clone())).collect();
                    um.sort();
                    let want_um = vec![("b".to_string(), vec![]), ("user.a".to_string(), b"hello".to_vec())];
                    if um != want_um {
                        out.oracle_fail("user-metadata-differs", &format!("{um:?}"), &case);
                    }
                    if rd.writer_schema().canonical_form() != schema.canonical_form() {
                        out.oracle_fail("schema-differs", "writer schema differs", &case);
                    }
                    let items: Vec<_> = rd.collect();
                    let oks: Vec<&Value> = items.iter().filter_map(|x| x.as_ref().ok()).collect();
                    let class = if zero_block { "zero-count-block-ends-iteration" } else { "conforming-file-misread" };
                    if items.iter().any(|x| x.is_err()) {
                        out.oracle_fail(class, &format!("error while reading: {:?}", items.iter().find(|x| x.is_err()).map(|e| e.as_ref().err().map(|x| x.to_string()))), &case);
                    } else if oks.len() != vals.len() || !oks.iter().zip(&vals).all(|(a, b)| value_eq(a, b)) {
                        out.oracle_fail(class, &format!("read {} values, the file holds {}", oks.len(), vals.len()), &case);
                    }
                }
            }
        }
    }
    out.finish(dir, serde_json::json!({}));
    0
}
