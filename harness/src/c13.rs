//! C13: every write path against instrumented sinks (short writes, errors at each call index,
//! `Interrupted`).  Oracle: a path either delivers exactly what it delivers to a `Vec<u8>` or returns
//! an error; documented byte counts equal the bytes accepted; dropping after an error never panics.
//! Correspondence row: std's `Write::write_all` on a scripted sink ↔ `Avro.Sink.writeAll`.
use crate::genr::{ValueGen, gen_schema};
use crate::rng::Rng;
use crate::util::{Out, catch};
use crate::wire;
use apache_avro::schema::{ResolvedSchema, Schema};
use apache_avro::types::Value;
use apache_avro::writer::datum::GenericDatumWriter;
use apache_avro::{Codec, GenericSingleObjectWriter, Writer};
use std::cell::RefCell;
use std::io::{self, ErrorKind, Write};
use std::rc::Rc;

#[derive(Clone, Debug)]
pub enum Step {
    Accept(usize),
    Fail(bool), // interrupted?
}

#[derive(Default)]
pub struct SinkState {
    pub script: Vec<Step>,
    pub pos: usize,
    pub delivered: Vec<u8>,
    pub write_calls: usize,
    pub flush_calls: usize,
    pub fail_flush_at: Option<usize>,
}

#[derive(Clone)]
pub struct Sink(pub Rc<RefCell<SinkState>>);

impl Sink {
    pub fn new(script: Vec<Step>, fail_flush_at: Option<usize>) -> Sink {
        Sink(Rc::new(RefCell::new(SinkState { script, fail_flush_at, ..Default::default() })))
    }
}

impl Write for Sink {
    fn write(&mut self, buf: &[u8]) -> io::Result<usize> {
        let mut s = self.0.borrow_mut();
        s.write_calls += 1;
        let step = s.script.get(s.pos).cloned();
        s.pos += 1;
        match step {
            None => {
                s.delivered.extend_from_slice(buf);
                Ok(buf.len())
            }
            Some(Step::Accept(k)) => {
                let n = k.min(buf.len());
                s.delivered.extend_from_slice(&buf[..n]);
                Ok(n)
            }
            Some(Step::Fail(true)) => Err(io::Error::from(ErrorKind::Interrupted)),
            Some(Step::Fail(false)) => Err(io::Error::other("injected")),
        }
    }
    fn flush(&mut self) -> io::Result<()> {
        let mut s = self.0.borrow_mut();
        let i = s.flush_calls;
        s.flush_calls += 1;
        if s.fail_flush_at == Some(i) { Err(io::Error::other("injected flush")) } else { Ok(()) }
    }
}

/// what a scenario reports: Ok(counts returned by the calls that document a byte count) or Err
type Outcome = Result<Vec<usize>, String>;

pub struct Scenario<'a> {
    pub name: String,
    pub run: Box<dyn Fn(Sink) -> Outcome + 'a>,
}

fn script_str(script: &[Step]) -> String {
    let mut s = String::from("(");
    for (i, st) in script.iter().enumerate() {
        if i > 0 {
            s.push(' ');
        }
        match st {
            Step::Accept(k) => s.push_str(&format!("(a {k})")),
            Step::Fail(true) => s.push_str("(f 1)"),
            Step::Fail(false) => s.push_str("(f 0)"),
        }
    }
    s.push(')');
    s
}

fn check_scenario(out: &mut Out, rng: &mut Rng, sc: &Scenario, thorough: bool) {
    // reference run on a perfect sink
    let perfect = Sink::new(vec![], None);
    let ref_out = match catch(|| (sc.run)(perfect.clone())) {
        Ok(Ok(c)) => c,
        Ok(Err(_)) => return, // the scenario itself fails on a perfect sink: not a C13 case
        Err(()) => {
            out.oracle_fail("panic", "scenario panicked on a perfect sink", &sc.name);
            return;
        }
    };
    let (ref_bytes, n_w, n_f) = {
        let s = perfect.0.borrow();
        (s.delivered.clone(), s.write_calls, s.flush_calls)
    };
    out.count("scenarios");
    out.add("reference_bytes", ref_bytes.len() as u64);
    // documented counts must add up to the bytes delivered
    let total: usize = ref_out.iter().sum();
    if total != ref_bytes.len() {
        out.oracle_fail("count-mismatch", &format!("returned byte counts sum to {total}, sink accepted {}", ref_bytes.len()), &sc.name);
    }
    let mut scripts: Vec<(Vec<Step>, Option<usize>, String)> = vec![];
    for k in [1usize, 2, 3, 7] {
        scripts.push((vec![Step::Accept(k); 4 * ref_bytes.len() + 8], None, format!("accept {k} per call")));
    }
    for r in 0..(if thorough { 8 } else { 3 }) {
        let sc: Vec<Step> = (0..4 * ref_bytes.len() + 8).map(|_| Step::Accept(1 + rng.below(9))).collect();
        scripts.push((sc, None, format!("pseudo-random accepts #{r}")));
    }
    let idxs: Vec<usize> = if thorough || n_w <= 12 { (0..n_w).collect() } else { (0..12).map(|_| rng.below(n_w)).collect() };
    for i in idxs {
        for intr in [false, true] {
            let mut s = vec![Step::Accept(usize::MAX); i];
            s.push(Step::Fail(intr));
            scripts.push((s, None, format!("{} at write call {i}", if intr { "Interrupted" } else { "error" })));
        }
        // a short write followed by an error
        let mut s = vec![Step::Accept(usize::MAX); i];
        s.push(Step::Accept(1));
        s.push(Step::Fail(false));
        scripts.push((s, None, format!("1 byte then error at write call {i}")));
    }
    for i in 0..n_f {
        scripts.push((vec![], Some(i), format!("error at flush call {i}")));
    }
    for (script, ff, descr) in scripts {
        let sink = Sink::new(script.clone(), ff);
        let case = format!("scenario={} sink={descr} script={}", sc.name, if script.len() < 40 { script_str(&script) } else { "(long)".into() });
        crate::util::begin_case(&case);
        let res = catch(|| (sc.run)(sink.clone()));
        crate::util::end_case();
        out.count("sink_runs");
        let delivered = sink.0.borrow().delivered.clone();
        match res {
            Err(()) => out.oracle_fail("panic", "write path (or drop after a sink error) panicked", &case),
            Ok(Err(_)) => out.count("outcome_err"),
            Ok(Ok(counts)) => {
                out.count("outcome_ok");
                if delivered != ref_bytes && !same_container(&delivered, &ref_bytes) {
                    out.oracle_fail(
                        "silent-data-loss",
                        &format!("write path reported success but the sink holds {} of {} bytes (first difference at {})",
                            delivered.len(), ref_bytes.len(),
                            delivered.iter().zip(&ref_bytes).position(|(a, b)| a != b).unwrap_or(delivered.len().min(ref_bytes.len()))),
                        &case,
                    );
                } else {
                    let total: usize = counts.iter().sum();
                    if total != delivered.len() {
                        out.oracle_fail("count-mismatch", &format!("returned byte counts sum to {total}, sink accepted {}", delivered.len()), &case);
                    }
                }
            }
        }
    }
}

/// container headers hold their metadata in a `HashMap`, so two runs may order the entries
/// differently: two files of equal length that read back to the same schema, metadata and values
/// are the same file for this property
fn same_container(a: &[u8], b: &[u8]) -> bool {
    if a.len() != b.len() || !a.starts_with(b"Obj\x01") {
        return false;
    }
    let read = |x: &[u8]| -> Option<(String, Vec<(String, Vec<u8>)>, Vec<String>)> {
        let r = apache_avro::Reader::new(x).ok()?;
        let schema = r.writer_schema().canonical_form();
        let mut meta: Vec<(String, Vec<u8>)> = r.user_metadata().iter().map(|(k, v)| (k.clone(), v.clone())).collect();
        meta.sort();
        let mut vals = vec![];
        for v in r {
            vals.push(wire::value_str(&v.ok()?, true));
        }
        Some((schema, meta, vals))
    };
    match (read(a), read(b)) {
        (Some(x), Some(y)) => x == y,
        _ => false,
    }
}

#[derive(serde::Serialize, Clone)]
struct SerRec {
    a: i64,
    b: String,
    c: Vec<i32>,
    d: std::collections::BTreeMap<String, bool>,
    e: Option<f64>,
}

pub fn run(args: &[String]) -> i32 {
    let dir = &args[0];
    let seed: u64 = args[1].parse().unwrap();
    let n: usize = args[2].parse().unwrap();
    let thorough = args.get(3).map(|s| s == "1").unwrap_or(false);
    let mut out = Out::new(dir);
    crate::util::watchdog(dir, 10000);
    let mut rng = Rng::new(seed);

    // correspondence: std's write_all on a scripted sink vs the Lean model of the contract
    for _ in 0..(if thorough { 4000 } else { 600 }) {
        let len = rng.below(12);
        let payload: Vec<u8> = (0..len).map(|_| rng.next() as u8).collect();
        let sl = rng.below(8);
        let script: Vec<Step> = (0..sl)
            .map(|_| match rng.below(6) {
                0 => Step::Fail(true),
                1 => Step::Fail(false),
                2 => Step::Accept(0),
                _ => Step::Accept(1 + rng.below(5)),
            })
            .collect();
        let mut sink = Sink::new(script.clone(), None);
        let r = sink.write_all(&payload);
        let delivered = sink.0.borrow().delivered.clone();
        let imp = match r {
            Ok(()) => format!("ok {}", wire::hex(&delivered)),
            Err(e) => format!("err {} {}", if e.kind() == ErrorKind::WriteZero { "write-zero" } else { "io" }, wire::hex(&delivered)),
        };
        out.pair(&format!("sinkwriteall {} {}", script_str(&script), wire::hex(&payload)), &imp);
    }

    // fixed scenarios with a serde type
    let ser_schema = Schema::parse_str(r#"{"type":"record","name":"SerRec","fields":[{"name":"a","type":"long"},{"name":"b","type":"string"},{"name":"c","type":{"type":"array","items":"int"}},{"name":"d","type":{"type":"map","values":"boolean"}},{"name":"e","type":["null","double"]}]}"#).unwrap();
    let ser_val = SerRec { a: -5, b: "héllo".into(), c: vec![1, -2, 300], d: [("k".to_string(), true)].into_iter().collect(), e: Some(1.5) };
    for tbs in [None, Some(1usize), Some(16)] {
        let sv = ser_val.clone();
        let sch = ser_schema.clone();
        let sc = Scenario {
            name: format!("datum write_ser target_block_size={tbs:?}"),
            run: Box::new(move |mut sink: Sink| {
                let w = GenericDatumWriter::builder(&sch).maybe_target_block_size(tbs).build().map_err(|e| e.to_string())?;
                let c = w.write_ser(&mut sink, &sv).map_err(|e| e.to_string())?;
                Ok(vec![c])
            }),
        };
        check_scenario(&mut out, &mut rng, &sc, thorough);
        let sv = ser_val.clone();
        let sch = ser_schema.clone();
        let sc = Scenario {
            name: format!("container append_ser x2 + into_inner target_block_size={tbs:?}"),
            run: Box::new(move |sink: Sink| {
                let mut w = Writer::builder().schema(&sch).writer(sink).marker([9; 16]).maybe_map_array_target_block_size(tbs).build().map_err(|e| e.to_string())?;
                let c1 = w.append_ser(&sv).map_err(|e| e.to_string())?;
                let c2 = w.append_ser(&sv).map_err(|e| e.to_string())?;
                let c3 = w.flush().map_err(|e| e.to_string())?;
                w.into_inner().map_err(|e| e.to_string())?;
                Ok(vec![c1, c2, c3])
            }),
        };
        check_scenario(&mut out, &mut rng, &sc, thorough);
    }

    // generated (schema, values)
    let mut done = 0;
    while done < n {
        let mut crng = rng.fork();
        let (text, schema) = gen_schema(&mut crng, 3);
        let rs = ResolvedSchema::new(&schema).unwrap();
        let vg = ValueGen { names: rs.get_names(), max_depth: 4, gave_up: Default::default() };
        let vals: Vec<Value> = (0..3).map(|_| vg.value(&mut crng, &schema, None, 0)).collect();
        if vg.gave_up.get() {
            continue;
        }
        done += 1;
        let vdesc = wire::value_str(&vals[0], true);
        let short = |s: &str| crate::util::trunc(s, 300).to_string();
        // datum writer
        {
            let (schema, v) = (&schema, vals[0].clone());
            let sc = Scenario {
                name: format!("datum write_value_ref schema={} value={}", short(&text), short(&vdesc)),
                run: Box::new(move |mut sink: Sink| {
                    let w = GenericDatumWriter::builder(schema).build().map_err(|e| e.to_string())?;
                    let c = w.write_value_ref(&mut sink, &v).map_err(|e| e.to_string())?;
                    Ok(vec![c])
                }),
            };
            check_scenario(&mut out, &mut rng, &sc, thorough);
        }
        // container writer: appends, flush, into_inner / drop, several block sizes and codecs
        for (codec_name, codec) in [("null", Codec::Null), ("deflate", Codec::Deflate(Default::default())), ("snappy", Codec::Snappy)] {
            for bsz in [0usize, 1, 16000] {
                for finish in ["into_inner", "drop"] {
                    if codec_name != "null" && (bsz == 1 || finish == "drop") && !thorough {
                        continue;
                    }
                    let (schema, vs) = (&schema, vals.clone());
                    let sc = Scenario {
                        name: format!("container codec={codec_name} block_size={bsz} finish={finish} schema={} first={}", short(&text), short(&vdesc)),
                        run: Box::new(move |sink: Sink| {
                            let mut counts = vec![];
                            let mut w = Writer::builder().schema(schema).writer(sink).codec(codec).block_size(bsz).marker([3; 16]).build().map_err(|e| e.to_string())?;
                            counts.push(w.append_value_ref(&vs[0]).map_err(|e| e.to_string())?);
                            counts.push(w.append_value_ref(&vs[1]).map_err(|e| e.to_string())?);
                            counts.push(w.flush().map_err(|e| e.to_string())?);
                            counts.push(w.extend_from_slice(&vs[2..]).map_err(|e| e.to_string())?);
                            if finish == "into_inner" {
                                w.into_inner().map_err(|e| e.to_string())?;
                            } else {
                                drop(w);
                            }
                            Ok(counts)
                        }),
                    };
                    check_scenario(&mut out, &mut rng, &sc, thorough);
                }
            }
        }
        reuse_after_sink_error(&mut out, &schema, &text, &vals);
        retry_after_failed_flush(&mut out, &schema, &text, &vals);
        // single-object writer, two messages through one instance
        {
            let (schema, vs) = (&schema, vals.clone());
            let sc = Scenario {
                name: format!("single-object generic x2 schema={} first={}", short(&text), short(&vdesc)),
                run: Box::new(move |mut sink: Sink| {
                    let mut w = GenericSingleObjectWriter::new_with_capacity(schema, 64).map_err(|e| e.to_string())?;
                    let c1 = w.write_value_ref(&vs[0], &mut sink).map_err(|e| e.to_string())?;
                    let c2 = w.write_value_ref(&vs[1], &mut sink).map_err(|e| e.to_string())?;
                    Ok(vec![c1, c2])
                }),
            };
            check_scenario(&mut out, &mut rng, &sc, thorough);
        }
    }
    out.finish(dir, serde_json::json!({"schemas": done}));
    0
}

/// a sink that accepts `budget` bytes (in pieces of at most 3) and then fails
struct FailAfter {
    budget: usize,
    got: Vec<u8>,
}
impl std::io::Write for FailAfter {
    fn write(&mut self, buf: &[u8]) -> std::io::Result<usize> {
        if self.budget == 0 {
            return Err(std::io::Error::new(ErrorKind::Other, "injected"));
        }
        let n = buf.len().min(3).min(self.budget);
        self.budget -= n;
        self.got.extend_from_slice(&buf[..n]);
        Ok(n)
    }
    fn flush(&mut self) -> std::io::Result<()> {
        Ok(())
    }
}

/// a sink whose `flush` fails once (its writes all succeed): the block was delivered, so a `flush()` that is retried,
/// and everything after it, must deliver exactly what a perfect sink gets - in particular not the block again
struct FlushFailsOnce {
    failed: bool,
    got: std::rc::Rc<std::cell::RefCell<Vec<u8>>>,
}
impl std::io::Write for FlushFailsOnce {
    fn write(&mut self, buf: &[u8]) -> std::io::Result<usize> {
        self.got.borrow_mut().extend_from_slice(buf);
        Ok(buf.len())
    }
    fn flush(&mut self) -> std::io::Result<()> {
        if !self.failed {
            self.failed = true;
            return Err(std::io::Error::new(ErrorKind::Interrupted, "injected"));
        }
        Ok(())
    }
}

fn retry_after_failed_flush(out: &mut Out, schema: &Schema, text: &str, vals: &[Value]) {
    let run = |fail: bool| -> Result<(Vec<u8>, bool), String> {
        let got = std::rc::Rc::new(std::cell::RefCell::new(Vec::new()));
        let sink = FlushFailsOnce { failed: !fail, got: got.clone() };
        let mut w = Writer::builder().schema(schema).writer(sink).marker([5; 16]).build().map_err(|e| e.to_string())?;
        w.append_value_ref(&vals[0]).map_err(|e| e.to_string())?;
        let first = w.flush();
        let second = w.flush().map_err(|e| e.to_string())?;
        let _ = second;
        w.append_value_ref(&vals[1]).map_err(|e| e.to_string())?;
        w.into_inner().map_err(|e| e.to_string())?;
        let bytes = got.borrow().clone();
        Ok((bytes, first.is_err()))
    };
    let case = format!("container: append, flush (the sink's flush fails once), flush again, append, into_inner; schema={}", crate::util::trunc(text, 300));
    match (crate::util::catch(|| run(false)), crate::util::catch(|| run(true))) {
        (Ok(Ok((want, _))), Ok(Ok((got, reported)))) => {
            if !reported {
                out.oracle_fail("sink-error-not-reported", "the failing flush of the sink was not reported", &case);
            }
            if got != want && !same_container(&got, &want) {
                out.oracle_fail("retried-flush-delivers-again", &format!("after the retried flush the sink holds {} bytes, a perfect sink {}", got.len(), want.len()), &case);
            }
        }
        (_, Err(())) => out.oracle_fail("panic", "the writer panicked", &case),
        _ => {}
    }
}

/// after a sink error a single-object writer that is used again delivers exactly what a fresh writer delivers
fn reuse_after_sink_error(out: &mut Out, schema: &Schema, text: &str, vals: &[Value]) {
    let Ok(mut fresh) = GenericSingleObjectWriter::new_with_capacity(schema, 64) else { return };
    let mut want = Vec::new();
    if fresh.write_value_ref(&vals[1], &mut want).is_err() {
        return;
    }
    for budget in [0usize, 1, 5, 11] {
        let case = format!("single-object generic: sink fails after {budget} bytes, then the writer is used again; schema={}", crate::util::trunc(text, 300));
        let Ok(mut w) = GenericSingleObjectWriter::new_with_capacity(schema, 64) else { return };
        let mut bad = FailAfter { budget, got: vec![] };
        let first = crate::util::catch(|| w.write_value_ref(&vals[0], &mut bad));
        if !matches!(first, Ok(Err(_))) {
            continue; // the message fitted the budget (or panicked: reported elsewhere)
        }
        let mut got = Vec::new();
        match crate::util::catch(|| w.write_value_ref(&vals[1], &mut got)) {
            Ok(Ok(n)) => {
                if got != want || n != want.len() {
                    out.oracle_fail("reuse-after-sink-error", &format!("the next message is {} (returned {n}), a fresh writer delivers {}", wire::hex(&got), wire::hex(&want)), &case);
                }
            }
            Ok(Err(e)) => out.oracle_fail("reuse-after-sink-error", &format!("the writer refuses every later message: {e}"), &case),
            Err(()) => out.oracle_fail("panic", "the writer panicked when used again after a sink error", &case),
        }
    }
}
