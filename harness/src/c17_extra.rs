//! Hand-written corpus types for C17 that lie outside the modelled definition language (no model
//! row; oracle only): flatten, transparent, the enum representations bare union / tag+content /
//! internally tagged, generic types, arrays, and uses of such types twice in one definition.
#![allow(dead_code)]
use crate::c17_corpus::Make;
use crate::rng::Rng;
use apache_avro::AvroSchema;
use serde::{Deserialize, Serialize};
use std::collections::HashMap;

fn int(rng: &mut Rng) -> i32 {
    crate::genr::gen_int(rng)
}
fn string(rng: &mut Rng) -> String {
    crate::genr::gen_string(rng)
}

// ---- flatten

#[derive(Serialize, Deserialize, AvroSchema, Debug, Clone, PartialEq, Default)]
pub struct Point {
    pub x: i32,
    pub y: i64,
}
impl Make for Point {
    fn make(rng: &mut Rng, _: usize) -> Self {
        Point { x: int(rng), y: crate::genr::gen_long(rng) }
    }
}

#[derive(Serialize, Deserialize, AvroSchema, Debug, Clone, PartialEq, Default)]
pub struct FlatOne {
    pub label: String,
    #[serde(flatten)]
    pub at: Point,
    pub tail: bool,
}
impl Make for FlatOne {
    fn make(rng: &mut Rng, d: usize) -> Self {
        FlatOne { label: string(rng), at: Point::make(rng, d), tail: rng.chance(1, 2) }
    }
}

#[derive(Serialize, Deserialize, AvroSchema, Debug, Clone, PartialEq, Default)]
#[avro(namespace = "geo")]
pub struct Spot {
    pub name: String,
    pub at: Point,
    pub more: Option<Point>,
}
impl Make for Spot {
    fn make(rng: &mut Rng, d: usize) -> Self {
        Spot { name: string(rng), at: Point::make(rng, d), more: if rng.chance(1, 2) { Some(Point::make(rng, d)) } else { None } }
    }
}

/// flattening a namespaced struct that mentions other types, next to a direct use of those types
#[derive(Serialize, Deserialize, AvroSchema, Debug, Clone, PartialEq, Default)]
pub struct FlatNs {
    pub first: Point,
    #[serde(flatten)]
    pub spot: Spot,
}
impl Make for FlatNs {
    fn make(rng: &mut Rng, d: usize) -> Self {
        FlatNs { first: Point::make(rng, d), spot: Spot::make(rng, d) }
    }
}

#[derive(Serialize, Deserialize, AvroSchema, Debug, Clone, PartialEq, Default)]
pub struct FlatNested {
    #[serde(flatten)]
    pub inner: FlatOne,
    pub n: i32,
}
impl Make for FlatNested {
    fn make(rng: &mut Rng, d: usize) -> Self {
        FlatNested { inner: FlatOne::make(rng, d), n: int(rng) }
    }
}

#[derive(Serialize, Deserialize, AvroSchema, Debug, Clone, PartialEq, Default)]
#[serde(rename_all = "camelCase")]
pub struct FlatRenamed {
    pub outer_field: i32,
    #[serde(flatten)]
    pub flat_one: FlatOne,
    #[serde(skip)]
    pub ignored: i32,
}
impl Make for FlatRenamed {
    fn make(rng: &mut Rng, d: usize) -> Self {
        FlatRenamed { outer_field: int(rng), flat_one: FlatOne::make(rng, d), ignored: 0 }
    }
}

// ---- transparent

#[derive(Serialize, Deserialize, AvroSchema, Debug, Clone, PartialEq, Default)]
#[serde(transparent)]
pub struct Meters {
    pub v: f64,
}
impl Make for Meters {
    fn make(rng: &mut Rng, _: usize) -> Self {
        Meters { v: *rng.pick(&[0.0, 1.5, -2.0, 1e300]) }
    }
}

#[derive(Serialize, Deserialize, AvroSchema, Debug, Clone, PartialEq, Default)]
#[serde(transparent)]
pub struct Wrapped {
    pub p: Point,
    #[serde(skip)]
    pub cache: i32,
}
impl Make for Wrapped {
    fn make(rng: &mut Rng, d: usize) -> Self {
        Wrapped { p: Point::make(rng, d), cache: 0 }
    }
}

#[derive(Serialize, Deserialize, AvroSchema, Debug, Clone, PartialEq, Default)]
#[serde(transparent)]
pub struct MaybeInt {
    pub v: Option<i32>,
}
impl Make for MaybeInt {
    fn make(rng: &mut Rng, _: usize) -> Self {
        MaybeInt { v: if rng.chance(1, 2) { Some(int(rng)) } else { None } }
    }
}

#[derive(Serialize, Deserialize, AvroSchema, Debug, Clone, PartialEq, Default)]
pub struct UsesTransparent {
    pub len: Meters,
    pub lens: Vec<Meters>,
    pub w: Wrapped,
    pub w2: Wrapped,
    pub m: MaybeInt,
    #[serde(flatten)]
    pub flat: Wrapped,
}
impl Make for UsesTransparent {
    fn make(rng: &mut Rng, d: usize) -> Self {
        UsesTransparent {
            len: Meters::make(rng, d),
            lens: (0..rng.below(3)).map(|_| Meters::make(rng, d)).collect(),
            w: Wrapped::make(rng, d),
            w2: Wrapped::make(rng, d),
            m: MaybeInt::make(rng, d),
            flat: Wrapped::make(rng, d),
        }
    }
}

// ---- bare unions

#[derive(Serialize, Deserialize, AvroSchema, Debug, Clone, PartialEq, Default)]
#[avro(repr = "bare_union")]
#[serde(untagged)]
pub enum Untagged {
    #[default]
    Nothing,
    Num(i32),
    Text(String),
    Pt(Point),
    Pair(bool, f64),
    Named { a: i64, b: String, c: bool },
}
impl Make for Untagged {
    fn make(rng: &mut Rng, d: usize) -> Self {
        match rng.below(6) {
            0 => Untagged::Nothing,
            1 => Untagged::Num(int(rng)),
            2 => Untagged::Text(string(rng)),
            3 => Untagged::Pt(Point::make(rng, d)),
            4 => Untagged::Pair(rng.chance(1, 2), *rng.pick(&[0.0, 2.5])),
            _ => Untagged::Named { a: crate::genr::gen_long(rng), b: string(rng), c: rng.chance(1, 2) },
        }
    }
}

#[derive(Serialize, Deserialize, AvroSchema, Debug, Clone, PartialEq, Default)]
#[avro(repr = "bare_union")]
pub enum Bare {
    #[default]
    Nothing,
    Num(i64),
    Flag(bool),
    Pt(Point),
    Items(Vec<i32>),
}
impl Make for Bare {
    fn make(rng: &mut Rng, d: usize) -> Self {
        match rng.below(5) {
            0 => Bare::Nothing,
            1 => Bare::Num(crate::genr::gen_long(rng)),
            2 => Bare::Flag(rng.chance(1, 2)),
            3 => Bare::Pt(Point::make(rng, d)),
            _ => Bare::Items((0..rng.below(3)).map(|_| int(rng)).collect()),
        }
    }
}

/// known finding: a skipped variant in a (tagged) bare union shifts serde's variant index
#[derive(Serialize, Deserialize, AvroSchema, Debug, Clone, PartialEq, Default)]
#[avro(repr = "bare_union")]
pub enum BareSkip {
    #[default]
    Nothing,
    Num(i64),
    #[serde(skip)]
    Hidden(String),
    Flag(bool),
    Items(Vec<i32>),
}
impl Make for BareSkip {
    fn make(rng: &mut Rng, _: usize) -> Self {
        match rng.below(4) {
            0 => BareSkip::Nothing,
            1 => BareSkip::Num(crate::genr::gen_long(rng)),
            2 => BareSkip::Flag(rng.chance(1, 2)),
            _ => BareSkip::Items((0..rng.below(3)).map(|_| int(rng)).collect()),
        }
    }
}

#[derive(Serialize, Deserialize, AvroSchema, Debug, Clone, PartialEq, Default)]
pub struct TwoBare {
    pub first: Bare,
    pub second: Bare,
    pub many: Vec<Untagged>,
    pub keyed: HashMap<String, Untagged>,
}
impl Make for TwoBare {
    fn make(rng: &mut Rng, d: usize) -> Self {
        TwoBare {
            first: Bare::make(rng, d),
            second: Bare::make(rng, d),
            many: (0..rng.below(3)).map(|_| Untagged::make(rng, d)).collect(),
            keyed: (0..rng.below(3)).map(|i| (format!("k{i}"), Untagged::make(rng, d))).collect(),
        }
    }
}

// ---- tag + content

#[derive(Serialize, Deserialize, AvroSchema, Debug, Clone, PartialEq, Default)]
#[serde(tag = "kind", content = "value")]
pub enum Adjacent {
    #[default]
    Empty,
    Num(i32),
    Text(String),
    Pair(i32, String),
    Rec { p: Point, flag: bool },
    #[serde(skip)]
    Gone(i64),
    Last(f32),
}
impl Make for Adjacent {
    fn make(rng: &mut Rng, d: usize) -> Self {
        match rng.below(6) {
            0 => Adjacent::Empty,
            1 => Adjacent::Num(int(rng)),
            2 => Adjacent::Text(string(rng)),
            3 => Adjacent::Pair(int(rng), string(rng)),
            4 => Adjacent::Rec { p: Point::make(rng, d), flag: rng.chance(1, 2) },
            _ => Adjacent::Last(*rng.pick(&[0.5f32, -1.0])),
        }
    }
}

#[derive(Serialize, Deserialize, AvroSchema, Debug, Clone, PartialEq, Default)]
#[serde(tag = "kind", content = "value", rename_all = "snake_case")]
pub enum Adjacent2 {
    #[default]
    NoValue,
    SomeNumber(i64),
}
impl Make for Adjacent2 {
    fn make(rng: &mut Rng, _: usize) -> Self {
        if rng.chance(1, 2) { Adjacent2::NoValue } else { Adjacent2::SomeNumber(crate::genr::gen_long(rng)) }
    }
}

/// one struct type as the payload of two variants
#[derive(Serialize, Deserialize, AvroSchema, Debug, Clone, PartialEq, Default)]
#[serde(tag = "k3", content = "v3")]
pub enum Adjacent3 {
    #[default]
    Zero,
    From(Point),
    To(Point),
    Count(i32),
    Size(i32),
}
impl Make for Adjacent3 {
    fn make(rng: &mut Rng, d: usize) -> Self {
        match rng.below(5) {
            0 => Adjacent3::Zero,
            1 => Adjacent3::From(Point::make(rng, d)),
            2 => Adjacent3::To(Point::make(rng, d)),
            3 => Adjacent3::Count(int(rng)),
            _ => Adjacent3::Size(int(rng)),
        }
    }
}

/// the same with an untagged-free bare union is a compile error (duplicate schemas); internally tagged:
#[derive(Serialize, Deserialize, AvroSchema, Debug, Clone, PartialEq, Default)]
#[serde(tag = "type")]
pub enum Internal2 {
    #[default]
    Idle,
    A(OptPoint),
    B(OptPoint),
}
impl Make for Internal2 {
    fn make(rng: &mut Rng, d: usize) -> Self {
        match rng.below(3) {
            0 => Internal2::Idle,
            1 => Internal2::A(OptPoint::make(rng, d)),
            _ => Internal2::B(OptPoint::make(rng, d)),
        }
    }
}

/// two adjacently tagged enums with the same tag name in one record
#[derive(Serialize, Deserialize, AvroSchema, Debug, Clone, PartialEq, Default)]
pub struct TwoAdjacent {
    pub a: Adjacent,
    pub b: Adjacent2,
    pub again: Option<Adjacent>,
}
impl Make for TwoAdjacent {
    fn make(rng: &mut Rng, d: usize) -> Self {
        TwoAdjacent { a: Adjacent::make(rng, d), b: Adjacent2::make(rng, d), again: if rng.chance(1, 2) { Some(Adjacent::make(rng, d)) } else { None } }
    }
}

// ---- internally tagged

#[derive(Serialize, Deserialize, AvroSchema, Debug, Clone, PartialEq, Default)]
#[serde(tag = "type")]
pub enum Internal {
    #[default]
    Idle,
    Move {
        #[avro(default = "0")]
        dx: i32,
        #[avro(default = "0")]
        dy: i32,
    },
    Say {
        text: Option<String>,
    },
    At(OptPoint),
}
#[derive(Serialize, Deserialize, AvroSchema, Debug, Clone, PartialEq, Default)]
pub struct OptPoint {
    pub px: Option<i32>,
    pub py: Option<i64>,
}
impl Make for OptPoint {
    fn make(rng: &mut Rng, _: usize) -> Self {
        OptPoint { px: if rng.chance(1, 2) { Some(int(rng)) } else { None }, py: if rng.chance(1, 2) { Some(crate::genr::gen_long(rng)) } else { None } }
    }
}
impl Make for Internal {
    fn make(rng: &mut Rng, d: usize) -> Self {
        match rng.below(4) {
            0 => Internal::Idle,
            1 => Internal::Move { dx: int(rng), dy: int(rng) },
            2 => Internal::Say { text: if rng.chance(1, 2) { Some(string(rng)) } else { None } },
            _ => Internal::At(OptPoint::make(rng, d)),
        }
    }
}

#[derive(Serialize, Deserialize, AvroSchema, Debug, Clone, PartialEq, Default)]
pub struct UsesInternal {
    pub cmd: Internal,
    pub log: Vec<Internal>,
}
impl Make for UsesInternal {
    fn make(rng: &mut Rng, d: usize) -> Self {
        UsesInternal { cmd: Internal::make(rng, d), log: (0..rng.below(3)).map(|_| Internal::make(rng, d)).collect() }
    }
}

// ---- generic types

#[derive(Serialize, Deserialize, AvroSchema, Debug, Clone, PartialEq, Default)]
pub struct Holder<T: apache_avro::AvroSchemaComponent> {
    pub v: T,
    pub o: Option<T>,
    pub l: Vec<T>,
}
impl<T: apache_avro::AvroSchemaComponent + Make> Make for Holder<T> {
    fn make(rng: &mut Rng, d: usize) -> Self {
        Holder { v: T::make(rng, d), o: if rng.chance(1, 2) { Some(T::make(rng, d)) } else { None }, l: (0..rng.below(3)).map(|_| T::make(rng, d)).collect() }
    }
}
pub type HolderOfPoint = Holder<Point>;
pub type HolderOfMeters = Holder<Meters>;

/// one generic type at two instantiations in one record
#[derive(Serialize, Deserialize, AvroSchema, Debug, Clone, PartialEq, Default)]
pub struct TwoHolders {
    pub a: Holder<Point>,
    pub b: Holder<Meters>,
}
impl Make for TwoHolders {
    fn make(rng: &mut Rng, d: usize) -> Self {
        TwoHolders { a: Holder::make(rng, d), b: Holder::make(rng, d) }
    }
}

// ---- arrays, nested containers

#[derive(Serialize, Deserialize, AvroSchema, Debug, Clone, PartialEq, Default)]
pub struct Containers {
    pub fixed3: [i32; 3],
    pub grid: Vec<Vec<Option<i64>>>,
    pub by_name: HashMap<String, Vec<Point>>,
    pub opt_map: Option<HashMap<String, bool>>,
    pub boxed: Box<Option<Box<Point>>>,
}
impl Make for Containers {
    fn make(rng: &mut Rng, d: usize) -> Self {
        Containers {
            fixed3: [int(rng), int(rng), int(rng)],
            grid: (0..rng.below(3)).map(|_| (0..rng.below(3)).map(|_| if rng.chance(1, 2) { Some(crate::genr::gen_long(rng)) } else { None }).collect()).collect(),
            by_name: (0..rng.below(3)).map(|i| (format!("k{i}"), (0..rng.below(3)).map(|_| Point::make(rng, d)).collect())).collect(),
            opt_map: if rng.chance(1, 2) { Some((0..rng.below(3)).map(|i| (format!("k{i}"), rng.chance(1, 2))).collect()) } else { None },
            boxed: Box::new(if rng.chance(1, 2) { Some(Box::new(Point::make(rng, d))) } else { None }),
        }
    }
}

#[macro_export]
macro_rules! for_each_c17_extra_type {
    ($m:ident) => {
        $m!(Point);
        $m!(FlatOne);
        $m!(Spot);
        $m!(FlatNs);
        $m!(FlatNested);
        $m!(FlatRenamed);
        $m!(Meters);
        $m!(Wrapped);
        $m!(MaybeInt);
        $m!(UsesTransparent);
        $m!(Untagged);
        $m!(Bare);
        $m!(BareSkip);
        $m!(TwoBare);
        $m!(Adjacent);
        $m!(Adjacent2);
        $m!(TwoAdjacent);
        $m!(Adjacent3);
        $m!(Internal2);
        $m!(OptPoint);
        $m!(Internal);
        $m!(UsesInternal);
        $m!(HolderOfPoint);
        $m!(HolderOfMeters);
        $m!(TwoHolders);
        $m!(Containers);
    };
}
