//! shared helpers: output files, value equality, stats
use apache_avro::types::Value;
use std::collections::BTreeMap;
use std::fs::File;
use std::io::{BufWriter, Write};
use std::path::Path;

pub struct Out {
    pub req: BufWriter<File>,
    pub imp: BufWriter<File>,
    pub oracle: BufWriter<File>,
    pub lines: usize,
    pub oracle_failures: usize,
    pub stats: BTreeMap<String, u64>,
    pub samples: Vec<String>,
}

impl Out {
    pub fn new(dir: &str) -> Out {
        std::fs::create_dir_all(dir).unwrap();
        let p = Path::new(dir);
        Out {
            req: BufWriter::new(File::create(p.join("req.txt")).unwrap()),
            imp: BufWriter::new(File::create(p.join("impl.txt")).unwrap()),
            oracle: BufWriter::new(File::create(p.join("oracle.txt")).unwrap()),
            lines: 0,
            oracle_failures: 0,
            stats: BTreeMap::new(),
            samples: vec![],
        }
    }
    /// one request line for the model and the implementation's canonical answer to it
    pub fn pair(&mut self, req: &str, imp: &str) {
        writeln!(self.req, "{req}").unwrap();
        writeln!(self.imp, "{imp}").unwrap();
        self.lines += 1;
        if self.samples.len() < 5 && req.len() < 600 {
            self.samples.push(format!("{req}  =>  {imp}"));
        }
    }
    /// the property itself failed on the real crate
    pub fn oracle_fail(&mut self, class: &str, what: &str, case: &str) {
        let j = serde_json::json!({"class": class, "what": what, "case": case});
        writeln!(self.oracle, "{j}").unwrap();
        self.oracle_failures += 1;
    }
    pub fn count(&mut self, key: &str) {
        *self.stats.entry(key.to_string()).or_insert(0) += 1;
    }
    pub fn add(&mut self, key: &str, n: u64) {
        *self.stats.entry(key.to_string()).or_insert(0) += n;
    }
    pub fn finish(mut self, dir: &str, extra: serde_json::Value) {
        // schemas the generator produced, the parser accepted and ResolvedSchema rejected: every
        // property over "all accepted schemas" fails on them (they are not silently regenerated)
        for (text, err) in crate::genr::take_unresolvable() {
            self.oracle_fail("accepted-unresolvable", &format!("the parser accepts a generated schema that ResolvedSchema::new rejects ({err}): no datum can be written or read with it"), &format!("schema={text}"));
        }
        self.req.flush().unwrap();
        self.imp.flush().unwrap();
        self.oracle.flush().unwrap();
        let j = serde_json::json!({
            "lines": self.lines,
            "oracle_failures": self.oracle_failures,
            "stats": self.stats,
            "samples": self.samples,
            "extra": extra,
        });
        std::fs::write(Path::new(dir).join("stats.json"), serde_json::to_string_pretty(&j).unwrap()).unwrap();
    }
}

/// equality the properties talk about: floats bit for bit, decimals numerically, maps by key
pub fn value_eq(a: &Value, b: &Value) -> bool {
    use Value::*;
    match (a, b) {
        (Float(x), Float(y)) => x.to_bits() == y.to_bits(),
        (Double(x), Double(y)) => x.to_bits() == y.to_bits(),
        (Union(i, x), Union(j, y)) => i == j && value_eq(x, y),
        (Array(x), Array(y)) => x.len() == y.len() && x.iter().zip(y).all(|(p, q)| value_eq(p, q)),
        (Map(x), Map(y)) => x.len() == y.len() && x.iter().all(|(k, v)| y.get(k).is_some_and(|w| value_eq(v, w))),
        (Record(x), Record(y)) => {
            x.len() == y.len() && x.iter().zip(y).all(|((k, v), (l, w))| k == l && value_eq(v, w))
        }
        _ => a == b,
    }
}

pub fn catch<T>(f: impl FnOnce() -> T) -> Result<T, ()> {
    std::panic::catch_unwind(std::panic::AssertUnwindSafe(f)).map_err(|_| ())
}

static LAST_PANIC: Mutex<String> = Mutex::new(String::new());

/// panic hook: remember the message of the last panic (nothing is printed)
pub fn note_panic(info: &std::panic::PanicHookInfo<'_>) {
    let msg = info.payload().downcast_ref::<&str>().map(|s| s.to_string()).or_else(|| info.payload().downcast_ref::<String>().cloned()).unwrap_or_default();
    if let Ok(mut g) = LAST_PANIC.try_lock() {
        g.clear();
        g.push_str(&msg);
    }
}

pub fn last_panic() -> String {
    LAST_PANIC.lock().map(|g| g.clone()).unwrap_or_default()
}

// ---------------------------------------------------------------------------------------------
// watchdog: a case that does not finish within the cap is reported (hang.txt) and the process exits 3

use std::sync::Mutex;
use std::sync::atomic::{AtomicU64, Ordering};

static CURRENT: Mutex<String> = Mutex::new(String::new());
static STARTED_MS: AtomicU64 = AtomicU64::new(0);

fn now_ms() -> u64 {
    std::time::SystemTime::now().duration_since(std::time::UNIX_EPOCH).unwrap().as_millis() as u64
}

pub fn watchdog(dir: &str, cap_ms: u64) {
    if let Ok(mut g) = DIR.lock() {
        g.push_str(dir);
    }
    let dir = dir.to_string();
    std::thread::spawn(move || loop {
        std::thread::sleep(std::time::Duration::from_millis(200));
        let st = STARTED_MS.load(Ordering::SeqCst);
        if st != 0 && now_ms() - st > cap_ms {
            let case = CURRENT.lock().map(|g| g.clone()).unwrap_or_default();
            let j = serde_json::json!({"class": "hang", "what": format!("case did not finish within {cap_ms} ms"), "case": case});
            let _ = std::fs::write(std::path::Path::new(&dir).join("hang.txt"), j.to_string());
            std::process::exit(3);
        }
    });
}

static DIR: Mutex<String> = Mutex::new(String::new());

/// called from the allocator when a request exceeds the hard cap (the real process would abort
/// with "memory allocation of N bytes failed")
pub fn report_abort(n: usize) {
    let case = CURRENT.try_lock().map(|g| g.clone()).unwrap_or_default();
    let dir = DIR.try_lock().map(|g| g.clone()).unwrap_or_default();
    let j = serde_json::json!({"class": "abort-alloc", "what": format!("allocation request of {n} bytes (process would abort)"), "case": case});
    let _ = std::fs::write(std::path::Path::new(&dir).join("hang.txt"), j.to_string());
}

pub fn begin_case(case: &str) {
    if let Ok(mut g) = CURRENT.lock() {
        g.clear();
        g.push_str(case);
    }
    STARTED_MS.store(now_ms(), Ordering::SeqCst);
}

pub fn end_case() {
    STARTED_MS.store(0, Ordering::SeqCst);
}

/// truncate for messages, on a char boundary
pub fn trunc(s: &str, n: usize) -> &str {
    // VERIF_FULL=1: keep whole schemas/values in oracle reports (for replaying a case by hand)
    static FULL: std::sync::OnceLock<bool> = std::sync::OnceLock::new();
    if s.len() <= n || *FULL.get_or_init(|| std::env::var("VERIF_FULL").is_ok()) {
        return s;
    }
    let mut k = n;
    while !s.is_char_boundary(k) {
        k -= 1;
    }
    &s[..k]
}
