//! C05: every reading entry point on hostile bytes / hostile embedded schemas / hostile declared
//! lengths, under a configured allocation limit: no panic, no abort, no hang, and no single
//! allocation request beyond the limit (+ a fixed bookkeeping slack).
use crate::alloc;
use crate::anyshape::AnyShape;
use crate::rng::Rng;
use crate::util::{Out, begin_case, catch, end_case};
use crate::wire;
use apache_avro::reader::datum::GenericDatumReader;
use apache_avro::schema::{ResolvedSchema, Schema};
use apache_avro::types::Value;
use apache_avro::{Codec, GenericSingleObjectReader, Reader};

/// requests that are not sized from the data: error strings, the 8 KiB BufReader style buffers,
/// hash-map bookkeeping of the schema parser, …
pub const SLACK: usize = 16 * 1024;

pub fn varint(mut z: u64, out: &mut Vec<u8>) {
    loop {
        if z <= 0x7f {
            out.push(z as u8);
            break;
        }
        out.push(0x80 | (z & 0x7f) as u8);
        z >>= 7;
    }
}
pub fn long(n: i64, out: &mut Vec<u8>) {
    varint(((n << 1) ^ (n >> 63)) as u64, out)
}
pub fn bytes_field(b: &[u8], out: &mut Vec<u8>) {
    long(b.len() as i64, out);
    out.extend_from_slice(b);
}

/// an object container file written by this independent reference writer
pub fn mk_file(meta: &[(&str, Vec<u8>)], marker: &[u8; 16], blocks: &[(i64, Vec<u8>)]) -> Vec<u8> {
    let mut f = b"Obj\x01".to_vec();
    if !meta.is_empty() {
        long(meta.len() as i64, &mut f);
        for (k, v) in meta {
            bytes_field(k.as_bytes(), &mut f);
            bytes_field(v, &mut f);
        }
    }
    f.push(0);
    f.extend_from_slice(marker);
    for (count, payload) in blocks {
        long(*count, &mut f);
        long(payload.len() as i64, &mut f);
        f.extend_from_slice(payload);
        f.extend_from_slice(marker);
    }
    f
}

struct Ctx<'a> {
    out: &'a mut Out,
    lim: usize,
    worst: usize,
}

impl Ctx<'_> {
    /// run one case of one entry point under the counters
    fn case(&mut self, entry: &str, descr: &str, f: impl FnOnce() -> String) {
        let case = format!("entry={entry} {descr}");
        begin_case(&case);
        alloc::reset();
        let before = alloc::live();
        let res = catch(f);
        let mr = alloc::max_request();
        let peak = alloc::peak().saturating_sub(before);
        end_case();
        self.out.count(&format!("entry_{entry}"));
        self.worst = self.worst.max(mr);
        match res {
            Err(()) => {
                self.out.count("outcome_panic");
                self.out.oracle_fail("panic", &format!("{entry} panicked"), &case);
            }
            Ok(s) => {
                self.out.count(if s.starts_with("ok") { "outcome_ok" } else { "outcome_err" });
            }
        }
        if mr > self.lim + SLACK {
            // narrow classes for the two recorded findings (known-findings.json); anything else is fresh
            let codec_ws = (entry == "container" || entry == "decompress")
                && ["bzip2", "xz", "zstandard"].iter().any(|c| descr.contains(&format!("codec={c}")) || descr.contains(&format!("codec=\"{c}\"")))
                && mr <= 160 * 1024 * 1024;
            let hashmap = entry.starts_with("datum") && descr.contains("\"map\"") && mr <= 3 * self.lim;
            // output buffers grown by Vec's amortised doubling (resize / read_to_end): capacity up to 2x the cap
            let growth = (entry == "container" || entry == "decompress") && mr <= 2 * self.lim + SLACK;
            let class = if codec_ws { "over-allocation-codec-working-memory" } else if hashmap { "over-allocation-hashmap-rounding" }
                else if growth { "over-allocation-amortized-growth" } else { "over-allocation" };
            self.out.oracle_fail(class, &format!("single allocation request of {mr} bytes under limit {} (peak live {peak})", self.lim), &case);
        }
    }
}

fn datum_cases(cx: &mut Ctx, rng: &mut Rng, thorough: bool) {
    let lim = cx.lim as i64;
    let szv = std::mem::size_of::<Value>() as i64;
    let sze = std::mem::size_of::<(String, Value)>() as i64;
    let lens: Vec<i64> = vec![0, 1, lim - 1, lim, lim + 1, 2 * lim, lim / szv, lim / szv + 1, lim / sze, lim / sze + 1,
        lim / szv - 1, lim / sze - 1, 1 << 31, (1 << 31) + 1, 1 << 40, 1 << 62, i64::MAX, -1, -lim, -(lim / szv), -(lim / szv) - 1, -(1 << 40), i64::MIN, i64::MIN + 1];
    let schemas: Vec<String> = {
        let mut v: Vec<String> = [
            r#""bytes""#, r#""string""#, r#"{"type":"array","items":"null"}"#, r#"{"type":"array","items":"int"}"#,
            r#"{"type":"map","values":"null"}"#, r#"{"type":"map","values":"long"}"#,
            r#"{"type":"array","items":{"type":"array","items":"null"}}"#,
            r#"{"type":"bytes","logicalType":"decimal","precision":4}"#, r#"{"type":"bytes","logicalType":"big-decimal"}"#,
            r#"{"type":"string","logicalType":"uuid"}"#,
            r#"["null",{"type":"array","items":"null"},"bytes"]"#,
            r#"{"type":"record","name":"R","fields":[{"name":"a","type":"bytes"},{"name":"b","type":{"type":"map","values":"null"}}]}"#,
        ].iter().map(|s| s.to_string()).collect();
        // sizes declared in the *schema*
        for size in [0i64, 1, lim - 1, lim, lim + 1, 2 * lim, 1 << 31, 1 << 40] {
            v.push(format!(r#"{{"type":"fixed","name":"F","size":{size}}}"#));
            v.push(format!(r#"{{"type":"record","name":"R","fields":[{{"name":"f","type":{{"type":"fixed","name":"F","size":{size}}}}}]}}"#));
            v.push(format!(r#"{{"type":"fixed","name":"F","size":{size},"logicalType":"decimal","precision":2}}"#));
        }
        v
    };
    for text in &schemas {
        let Ok(schema) = Schema::parse_str(text) else { continue };
        if ResolvedSchema::new(&schema).is_err() {
            continue;
        }
        let mut inputs: Vec<Vec<u8>> = vec![vec![], vec![0], vec![0xff; 3]];
        for &l in &lens {
            let mut b = Vec::new();
            long(l, &mut b);
            inputs.push(b.clone()); // declared length, nothing follows
            let mut c = b.clone();
            c.extend_from_slice(&[0, 0, 0, 0]);
            inputs.push(c); // … a few bytes follow
            if l < 0 {
                // negative count: a byte size follows
                let mut d = b.clone();
                long(4, &mut d);
                d.extend_from_slice(&[0, 0, 0, 0, 0]);
                inputs.push(d);
            }
            if l > 0 && l <= 4 * lim {
                // enough zero bytes to satisfy the declaration (zero-width or 1-byte items), then end
                let mut e = b.clone();
                e.extend(std::iter::repeat(0u8).take(l as usize + 2));
                inputs.push(e);
                // the same count three times (cumulative collection size)
                let mut g = Vec::new();
                for _ in 0..3 {
                    g.extend_from_slice(&b);
                }
                g.push(0);
                inputs.push(g);
            }
            // union branch prefix
            for idx in [1u8, 2] {
                let mut u = vec![idx * 2];
                u.extend_from_slice(&b);
                u.extend_from_slice(&[0, 0]);
                inputs.push(u);
            }
        }
        if thorough {
            for _ in 0..200 {
                let n = rng.below(24);
                inputs.push((0..n).map(|_| rng.next() as u8).collect());
            }
        }
        let rd = match GenericDatumReader::builder(&schema).build() {
            Ok(r) => r,
            Err(_) => continue,
        };
        for input in &inputs {
            let d = format!("schema={text} input={}", wire::hex(input));
            cx.case("datum-generic", &d, || {
                let mut s = &input[..];
                match rd.read_value(&mut s) { Ok(_) => "ok".into(), Err(_) => "err".into() }
            });
            cx.case("datum-serde", &d, || {
                let mut s = &input[..];
                match rd.read_deser::<AnyShape>(&mut s) { Ok(_) => "ok".into(), Err(_) => "err".into() }
            });
        }
    }
}

fn drain(file: &[u8]) -> String {
    match Reader::new(file) {
        Err(_) => "err open".into(),
        Ok(rd) => {
            let mut n = 0usize;
            for item in rd {
                match item {
                    Ok(_) => n += 1,
                    Err(_) => return format!("ok {n} then err"),
                }
                if n > 1_000_000 {
                    return "ok many".into();
                }
            }
            format!("ok {n}")
        }
    }
}

fn container_cases(cx: &mut Ctx, rng: &mut Rng, thorough: bool) {
    let lim = cx.lim as i64;
    let marker = [7u8; 16];
    let schema_long = br#""long""#.to_vec();
    let mut payload = Vec::new();
    for i in 0..5 {
        long(i * 1000 - 3, &mut payload);
    }
    let good = mk_file(&[("avro.schema", schema_long.clone()), ("avro.codec", b"null".to_vec())], &marker, &[(5, payload.clone()), (5, payload.clone())]);
    cx.case("container", "valid reference file", || drain(&good));
    // every truncation, bit flips
    for cut in 0..good.len() {
        cx.case("container", &format!("truncated at {cut}"), || drain(&good[..cut]));
    }
    let flips = if thorough { good.len() * 8 } else { 160 };
    for k in 0..flips {
        let bit = if thorough { k } else { rng.below(good.len() * 8) };
        let mut m = good.clone();
        m[bit / 8] ^= 1 << (bit % 8);
        cx.case("container", &format!("bit {bit} flipped"), || drain(&m));
    }
    // hostile block headers
    for &count in &[0i64, -1, 1, 5, 6, lim, lim + 1, 1 << 40, i64::MAX, i64::MIN] {
        for &size in &[0i64, -1, 1, payload.len() as i64, payload.len() as i64 + 1, lim - 1, lim, lim + 1, 1 << 40, i64::MAX] {
            let mut f = mk_file(&[("avro.schema", schema_long.clone())], &marker, &[]);
            long(count, &mut f);
            long(size, &mut f);
            f.extend_from_slice(&payload);
            f.extend_from_slice(&marker);
            cx.case("container", &format!("block count={count} size={size}"), || drain(&f));
        }
    }
    // hostile metadata
    let hostile_schemas: Vec<Vec<u8>> = vec![
        format!(r#"{{"type":"fixed","name":"F","size":{}}}"#, 1u64 << 40).into_bytes(),
        format!(r#"{{"type":"fixed","name":"F","size":{}}}"#, lim + 1).into_bytes(),
        br#"{"type":"array","items":"null"}"#.to_vec(),
        // (a zero-progress self-reference `R {a: R}` recurses without bound by the schema alone; the
        // property leaves unbounded recursion depth out, so it is not in this list)
        br#"{"type":"record","name":"R","fields":[{"name":"a","type":["null","R"]}]}"#.to_vec(),
        br#"not json"#.to_vec(),
        br#"{"type":"enum","name":"E","symbols":[]}"#.to_vec(),
        vec![0xff, 0xfe],
        vec![],
    ];
    for hs in &hostile_schemas {
        let mut blockp = Vec::new();
        long(1 << 40, &mut blockp);
        blockp.extend_from_slice(&[0; 8]);
        let f = mk_file(&[("avro.schema", hs.clone())], &marker, &[(1, blockp.clone()), (3, vec![6, 0, 0, 0])]);
        cx.case("container", &format!("embedded schema {}", String::from_utf8_lossy(hs)), || drain(&f));
    }
    for codec in ["null", "deflate", "snappy", "bzip2", "xz", "zstandard", "", "unknown", "\u{fffd}"] {
        for level in [None, Some(vec![]), Some(vec![0]), Some(vec![9]), Some(vec![10]), Some(vec![255]), Some(vec![1, 2, 3])] {
            let mut meta = vec![("avro.schema", schema_long.clone()), ("avro.codec", codec.as_bytes().to_vec())];
            if let Some(l) = &level {
                meta.push(("avro.codec.compression_level", l.clone()));
            }
            let f = mk_file(&meta, &marker, &[(5, payload.clone())]);
            cx.case("container", &format!("codec={codec:?} level={level:?}"), || drain(&f));
        }
    }
    // metadata map with hostile counts
    for &c in &[-1i64, lim / 80 + 1, 1 << 40, i64::MIN] {
        let mut f = b"Obj\x01".to_vec();
        long(c, &mut f);
        if c < 0 {
            long(10, &mut f);
        }
        f.extend_from_slice(&[0; 40]);
        cx.case("container", &format!("metadata map count={c}"), || drain(&f));
    }
}

fn single_object_cases(cx: &mut Ctx, rng: &mut Rng) {
    let lim = cx.lim as i64;
    for text in [r#""bytes""#, r#"{"type":"array","items":"null"}"#, r#"{"type":"map","values":"int"}"#] {
        let schema = Schema::parse_str(text).unwrap();
        let rd = GenericSingleObjectReader::builder().schema(schema.clone()).build().unwrap();
        let header = {
            use apache_avro::headers::{HeaderBuilder, RabinFingerprintHeader};
            RabinFingerprintHeader::from_schema(&schema).build_header()
        };
        let mut inputs: Vec<Vec<u8>> = (0..=header.len()).map(|k| header[..k].to_vec()).collect();
        for &l in &[0i64, 1, lim, lim + 1, lim / 56 + 1, 1 << 40, i64::MAX, -1, i64::MIN] {
            let mut m = header.clone();
            long(l, &mut m);
            m.extend_from_slice(&[0, 0, 0]);
            inputs.push(m);
        }
        for _ in 0..40 {
            let mut m = header.clone();
            let bit = rng.below(80);
            m[bit / 8] ^= 1 << (bit % 8);
            m.extend_from_slice(&[2, 0x61]);
            inputs.push(m);
        }
        for input in &inputs {
            let d = format!("schema={text} input={}", wire::hex(input));
            cx.case("single-object-generic", &d, || {
                let mut s = &input[..];
                match rd.read_value(&mut s) { Ok(_) => "ok".into(), Err(_) => "err".into() }
            });
            cx.case("single-object-serde", &d, || {
                let mut s = &input[..];
                match rd.read_deser::<AnyShape>(&mut s) { Ok(_) => "ok".into(), Err(_) => "err".into() }
            });
        }
    }
}

fn codec_cases(cx: &mut Ctx, rng: &mut Rng, thorough: bool) {
    use apache_avro::{Bzip2Settings, DeflateSettings, XzSettings, ZstandardSettings};
    let lim = cx.lim;
    let codecs: Vec<(&str, Codec)> = vec![
        ("null", Codec::Null),
        ("deflate", Codec::Deflate(DeflateSettings::default())),
        ("snappy", Codec::Snappy),
        ("bzip2", Codec::Bzip2(Bzip2Settings::default())),
        ("xz", Codec::Xz(XzSettings::default())),
        ("zstandard", Codec::Zstandard(ZstandardSettings::default())),
    ];
    for (name, codec) in codecs {
        // bombs: lim-1, lim, lim+1, 8*lim highly compressible bytes
        for n in [lim.saturating_sub(1), lim, lim + 1, 8 * lim] {
            let mut data = vec![0u8; n];
            if codec.compress(&mut data).is_err() {
                continue;
            }
            let d = format!("codec={name} compressed zeros n={n}");
            let want_ok = n <= lim || name == "null";
            let mut verdict = String::new();
            let mut s = data.clone();
            cx.case("decompress", &d, || {
                let r = match codec.decompress(&mut s) {
                    Ok(()) => format!("ok {}", s.len()),
                    Err(_) => "err".into(),
                };
                verdict = r.clone();
                r
            });
            if name != "null" {
                if want_ok && !verdict.starts_with(&format!("ok {n}")) {
                    cx.out.oracle_fail("decompress-within-limit-rejected", &format!("{verdict}"), &d);
                }
                if !want_ok && verdict.starts_with("ok") {
                    cx.out.oracle_fail("decompress-over-limit", &format!("{verdict} under limit {lim}"), &d);
                }
            }
            // truncations / corruptions of the valid stream
            // thorough: every cut of a short stream, 1024 evenly spaced cuts of a long one (each cut decompresses the prefix:
            // every cut of a 16 MiB stream would be quadratic)
            let k = if thorough { data.len().min(1024) } else { data.len().min(24) };
            for i in 0..k {
                let cut = if thorough { if data.len() <= 1024 { i } else { i * (data.len() / 1024) + rng.below((data.len() / 1024).max(1)) } } else { rng.below(data.len().max(1)) };
                let d2 = format!("codec={name} n={n} truncated at {cut}");
                let mut s = data[..cut].to_vec();
                cx.case("decompress", &d2, || {
                    match codec.decompress(&mut s) { Ok(()) => format!("ok {}", s.len()), Err(_) => "err".into() }
                });
                let mut m = data.clone();
                if !m.is_empty() {
                    let j = rng.below(m.len());
                    m[j] ^= 1 << rng.below(8);
                }
                let d3 = format!("codec={name} n={n} corrupted {}", wire::hex(&m[..m.len().min(40)]));
                let mut s = m.clone();
                cx.case("decompress", &d3, || {
                    match codec.decompress(&mut s) { Ok(()) => format!("ok {}", s.len()), Err(_) => "err".into() }
                });
            }
        }
        for len in 0..6usize {
            for _ in 0..8 {
                let r: Vec<u8> = (0..len).map(|_| rng.next() as u8).collect();
                let d = format!("codec={name} random {}", wire::hex(&r));
                let mut s = r.clone();
                cx.case("decompress", &d, || {
                    match codec.decompress(&mut s) { Ok(()) => format!("ok {}", s.len()), Err(_) => "err".into() }
                });
            }
        }
    }
}

pub fn run(args: &[String]) -> i32 {
    let dir = &args[0];
    let seed: u64 = args[1].parse().unwrap();
    let want_lim: usize = args[2].parse().unwrap();
    let thorough = args.get(3).map(|s| s == "1").unwrap_or(false);
    let lim = apache_avro::util::max_allocation_bytes(want_lim);
    alloc::set_hard_cap(4usize << 30);
    let mut out = Out::new(dir);
    crate::util::watchdog(dir, 20000);
    let mut rng = Rng::new(seed);
    let mut cx = Ctx { out: &mut out, lim, worst: 0 };
    datum_cases(&mut cx, &mut rng, thorough);
    container_cases(&mut cx, &mut rng, thorough);
    single_object_cases(&mut cx, &mut rng);
    codec_cases(&mut cx, &mut rng, thorough);
    let worst = cx.worst;
    // the decoders' own guards at limit-1, limit, limit+1 (byte strings)
    out.finish(dir, serde_json::json!({"lim": lim, "worst_single_request": worst, "slack": SLACK}));
    0
}
