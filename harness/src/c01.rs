//! C01: datum round trip.  Correspondence rows `encode_internal` ↔ `Avro.encode`,
//! `decode_internal` ↔ `Avro.decode`; oracle = the property on the real crate.
use crate::genr::{ValueGen, gen_schema};
use crate::rng::Rng;
use crate::util::{Out, catch, value_eq};
use crate::wire;
use apache_avro::reader::datum::GenericDatumReader;
use apache_avro::schema::ResolvedSchema;
use apache_avro::types::Value;
use apache_avro::writer::datum::GenericDatumWriter;

pub fn run(args: &[String]) -> i32 {
    let dir = &args[0];
    let seed: u64 = args[1].parse().unwrap();
    let n: usize = args[2].parse().unwrap();
    let max_depth: usize = args.get(3).and_then(|s| s.parse().ok()).unwrap_or(4);
    let lim = apache_avro::util::max_allocation_bytes(64 * 1024 * 1024);
    let szv = std::mem::size_of::<Value>();
    let sze = std::mem::size_of::<(String, Value)>();
    let mut out = Out::new(dir);
    let mut rng = Rng::new(seed);
    let mut done = 0;
    while done < n {
        let mut crng = rng.fork();
        let (text, schema) = gen_schema(&mut crng, max_depth);
        let rs = ResolvedSchema::new(&schema).unwrap();
        let names = rs.get_names();
        let vg = ValueGen { names, max_depth: max_depth + 2, gave_up: Default::default() };
        let names_s = wire::names_str(names);
        let schema_s = wire::schema_str(&schema);
        // several values per schema
        for _ in 0..3 {
            let v = vg.value(&mut crng, &schema, None, 0);
            if vg.gave_up.get() {
                out.count("schemas_without_finite_value");
                break;
            }
            done += 1;
            out.count(&format!("value_kind_{:?}", apache_avro::types::ValueKind::from(&v)));
            let case = format!("schema={text} value={}", wire::value_str(&v, true));
            let w_val = GenericDatumWriter::builder(&schema).validate(true).build().unwrap();
            let w_raw = GenericDatumWriter::builder(&schema).validate(false).build().unwrap();
            let enc_req = format!("enc {names_s} {schema_s} {}", wire::value_str(&v, false));
            let b_val = catch(|| w_val.write_value_to_vec(v.clone()));
            let b_raw = catch(|| {
                let mut buf = Vec::new();
                w_raw.write_value_ref(&mut buf, &v).map(|_| buf)
            });
            let bytes = match &b_raw {
                Ok(Ok(b)) => {
                    out.pair(&enc_req, &format!("ok {}", wire::hex(b)));
                    b.clone()
                }
                Ok(Err(e)) => {
                    out.pair(&enc_req, "err");
                    out.oracle_fail("encode-error", &format!("conforming value does not encode: {e}"), &case);
                    continue;
                }
                Err(()) => {
                    out.pair(&enc_req, "err panic");
                    out.oracle_fail("encode-panic", "encoder panicked", &case);
                    continue;
                }
            };
            match &b_val {
                Ok(Ok(b)) if *b == bytes => {}
                Ok(Ok(_)) => out.oracle_fail("validate-changes-bytes", "validating and non-validating writers differ", &case),
                Ok(Err(e)) => out.oracle_fail("validate-rejects", &format!("validating writer rejects a conforming value: {e}"), &case),
                Err(()) => out.oracle_fail("encode-panic", "validating writer panicked", &case),
            }
            out.add("encoded_bytes", bytes.len() as u64);
            // decode with a tail: exactly the produced bytes are consumed
            let tail: Vec<u8> = match crng.below(3) {
                0 => vec![],
                1 => vec![0x02],
                _ => bytes.clone(),
            };
            let mut input = bytes.clone();
            input.extend_from_slice(&tail);
            let dec_req = format!("dec {lim} {szv} {sze} {names_s} {schema_s} {}", wire::hex(&input));
            let rd = GenericDatumReader::builder(&schema).build().unwrap();
            let mut slice = &input[..];
            let res = catch(|| rd.read_value(&mut slice));
            match res {
                Ok(Ok(back)) => {
                    out.pair(&dec_req, &format!("ok {} {}", wire::value_str(&back, true), slice.len()));
                    if !value_eq(&back, &v) {
                        out.oracle_fail("roundtrip-differs", &format!("decoded {}", wire::value_str(&back, true)), &case);
                    }
                    if slice.len() != tail.len() {
                        out.oracle_fail("consumed-length", &format!("rest {} expected {}", slice.len(), tail.len()), &case);
                    }
                }
                Ok(Err(e)) => {
                    out.pair(&dec_req, "err");
                    out.oracle_fail("decode-error", &format!("own encoding does not decode: {e}"), &case);
                }
                Err(()) => {
                    out.pair(&dec_req, "err panic");
                    out.oracle_fail("decode-panic", "decoder panicked", &case);
                }
            }
        }
    }
    out.finish(dir, serde_json::json!({"lim": lim, "size_of_value": szv, "size_of_entry": sze, "cases": done}));
    0
}
