//! C09: compatibility verdicts are sound with respect to actual reading.
//!
//! Rows: `compat W R` = (`can_read`, `mutual_read`) ↔ `Avro.canRead` / `Avro.mutualRead` (exact).
//! Oracle: a `Full` verdict means every generated value of W reads with R; pairs that differ only by
//! always-safe steps are not reported incompatible; every schema is fully compatible with itself;
//! `mutual_read` is symmetric.  Pairs: the evolution generator of C08 (all steps / safe steps only)
//! and every ordered pair of a small fixed schema universe.
use crate::c08::{Evolver, Match, Side, deref, inner_ns, kind_name, shallow};
use apache_avro::types::Value;
use crate::genr::{SchemaGen, ValueGen};
use crate::rng::Rng;
use crate::util::{Out, catch, trunc};
use crate::wire;
use apache_avro::reader::datum::GenericDatumReader;
use apache_avro::schema::{ResolvedSchema, Schema};
use apache_avro::schema_compatibility::{Compatibility, SchemaCompatibility};
use apache_avro::writer::datum::GenericDatumWriter;

fn verdict(r: &Result<Compatibility, apache_avro::error::CompatibilityError>) -> &'static str {
    match r {
        Ok(Compatibility::Full) => "full",
        Ok(Compatibility::Partial) => "partial",
        Err(_) => "err",
    }
}

/// the bounded-exhaustive universe: every ordered pair of these is checked
fn universe() -> Vec<&'static str> {
    vec![
        r#""null""#, r#""boolean""#, r#""int""#, r#""long""#, r#""float""#, r#""double""#, r#""bytes""#, r#""string""#,
        r#"{"type":"int","logicalType":"date"}"#, r#"{"type":"int","logicalType":"time-millis"}"#,
        r#"{"type":"long","logicalType":"timestamp-millis"}"#, r#"{"type":"long","logicalType":"time-micros"}"#,
        r#"{"type":"bytes","logicalType":"decimal","precision":4,"scale":1}"#, r#"{"type":"bytes","logicalType":"decimal","precision":5,"scale":1}"#,
        r#"{"type":"bytes","logicalType":"big-decimal"}"#, r#"{"type":"string","logicalType":"uuid"}"#, r#"{"type":"bytes","logicalType":"uuid"}"#,
        r#"{"type":"fixed","name":"F","size":16,"logicalType":"uuid"}"#, r#"{"type":"fixed","name":"F","size":12,"logicalType":"duration"}"#,
        r#"{"type":"fixed","name":"F","size":2,"logicalType":"decimal","precision":4,"scale":1}"#,
        r#"{"type":"fixed","name":"F","size":2}"#, r#"{"type":"fixed","name":"F","size":16}"#, r#"{"type":"fixed","name":"G","size":2}"#,
        r#"{"type":"enum","name":"E","symbols":["A","B"]}"#, r#"{"type":"enum","name":"E","symbols":["B","C"]}"#, r#"{"type":"enum","name":"E","symbols":["C"]}"#,
        r#"{"type":"enum","name":"E","symbols":["A","B","C"],"default":"C"}"#, r#"{"type":"enum","name":"E2","symbols":["A","B"]}"#,
        r#"{"type":"array","items":"int"}"#, r#"{"type":"array","items":"long"}"#, r#"{"type":"array","items":"string"}"#,
        r#"{"type":"map","values":"int"}"#, r#"{"type":"map","values":"double"}"#,
        r#"["null","int"]"#, r#"["int","null"]"#, r#"["null","long","string"]"#, r#"["string"]"#, r#"["float","double"]"#,
        r#"{"type":"record","name":"R","fields":[]}"#,
        r#"{"type":"record","name":"R","fields":[{"name":"a","type":"int"}]}"#,
        r#"{"type":"record","name":"R","fields":[{"name":"a","type":"long"},{"name":"b","type":"string","default":"x"}]}"#,
        r#"{"type":"record","name":"R","fields":[{"name":"b","type":"string"},{"name":"a","type":"int"}]}"#,
        r#"{"type":"record","name":"R","fields":[{"name":"c","aliases":["a"],"type":"int"}]}"#,
        r#"{"type":"record","name":"R","fields":[{"name":"a","type":["null","int"],"default":null}]}"#,
        r#"{"type":"record","name":"S","fields":[{"name":"a","type":"int"}]}"#,
        r#"{"type":"record","name":"R","fields":[{"name":"a","type":"int"},{"name":"next","type":["null","R"]}]}"#,
        r#"{"type":"record","name":"R","fields":[{"name":"e","type":{"type":"enum","name":"E","symbols":["A","B"]}},{"name":"e2","type":"E"}]}"#,
        r#"{"type":"record","name":"R","fields":[{"name":"e2","type":{"type":"enum","name":"E","symbols":["A","B"]}},{"name":"e","type":"E"}]}"#,
    ]
}

/// the deepest node at which `resolve` fails on its own: named by the writer and reader kinds there
fn fail_site(ws: &Side, w: &Schema, wns: Option<String>, rs: &Side, r: &Schema, rns: Option<String>, v: &Value, depth: usize) -> String {
    let Ok((w, wns)) = deref(ws, w, wns) else { return "?".into() };
    let Ok((r, rns)) = deref(rs, r, rns) else { return "?".into() };
    let fails = |r2: &Schema, v2: &Value| -> bool {
        match catch(|| v2.clone().resolve_with_names(r2, rs.names)) {
            Ok(Ok(_)) => false,
            Ok(Err(e)) => !e.to_string().contains("Unresolved schema reference"),
            Err(()) => true,
        }
    };
    if depth > 40 {
        return "?".into();
    }
    use Schema as S;
    if let (S::Union(wu), Value::Union(i, inner)) = (w, v) {
        if let Some(wi) = wu.variants().get(*i as usize) {
            return fail_site(ws, wi, wns, rs, r, rns, inner, depth + 1);
        }
    }
    if let S::Union(ru) = r {
        for want in [Match::Exact, Match::Promotable] {
            for rj in ru.variants() {
                let rjd = deref(rs, rj, rns.clone()).map(|(d, _)| d).unwrap_or(rj);
                if shallow(w, rjd) == want {
                    return if fails(rj, v) { fail_site(ws, w, wns, rs, rj, rns, v, depth + 1) } else { format!("{} found no branch in a reader union that has {}", kind_name(w), kind_name(rjd)) };
                }
            }
        }
        return format!("{} has no branch in the reader union", kind_name(w));
    }
    match (w, r, v) {
        (S::Array(wa), S::Array(ra), Value::Array(items)) => {
            for x in items {
                if fails(&ra.items, x) {
                    return fail_site(ws, &wa.items, wns, rs, &ra.items, rns, x, depth + 1);
                }
            }
        }
        (S::Map(wm), S::Map(rm), Value::Map(items)) => {
            let mut keys: Vec<&String> = items.keys().collect();
            keys.sort();
            for k in keys {
                if fails(&rm.types, &items[k]) {
                    return fail_site(ws, &wm.types, wns, rs, &rm.types, rns, &items[k], depth + 1);
                }
            }
        }
        (S::Record(wr), S::Record(rr), Value::Record(fields)) => {
            let wns2 = inner_ns(w, &wns);
            let rns2 = inner_ns(r, &rns);
            for rf in &rr.fields {
                let wf = wr.fields.iter().find(|wf| wf.name == rf.name).or_else(|| rf.aliases.iter().find_map(|a| wr.fields.iter().find(|wf| &wf.name == a)));
                if let Some(wf) = wf {
                    if let Some((_, val)) = fields.iter().find(|(k, _)| k == &wf.name) {
                        if fails(&rf.schema, val) {
                            return fail_site(ws, &wf.schema, wns2, rs, &rf.schema, rns2, val, depth + 1);
                        }
                    }
                }
            }
        }
        (S::Bytes, S::String, Value::Bytes(b)) if std::str::from_utf8(b).is_err() => return "bytes -> string (not UTF-8)".into(),
        _ => {}
    }
    format!("{} -> {}", kind_name(w), kind_name(r))
}

pub fn run(args: &[String]) -> i32 {
    let dir = &args[0];
    let seed: u64 = args[1].parse().unwrap();
    let n: usize = args[2].parse().unwrap();
    let max_depth: usize = args.get(3).and_then(|s| s.parse().ok()).unwrap_or(3);
    let exhaustive = args.get(4).map(|s| s == "1").unwrap_or(true);
    let mut out = Out::new(dir);
    crate::util::watchdog(dir, 20000);
    let mut rng = Rng::new(seed);
    let mut pairs: Vec<(String, String, Vec<&'static str>, bool)> = vec![];
    if exhaustive {
        let u = universe();
        for w in &u {
            for r in &u {
                pairs.push((w.to_string(), r.to_string(), vec!["universe"], false));
            }
        }
    }
    let mut attempts = 0;
    while pairs.len() < n + if exhaustive { universe().len().pow(2) } else { 0 } && attempts < n * 20 {
        attempts += 1;
        let mut g = SchemaGen::new(max_depth);
        let ns = *rng.pick(&["", "ns", "a.b"]);
        let wj = g.schema(&mut rng, 0, ns, true, false);
        let safe = rng.chance(1, 2);
        let mut ev = Evolver::new([5u32, 15, 35][rng.below(3)]);
        ev.safe_only = safe;
        let mut rj = wj.clone();
        for _ in 0..(1 + rng.below(2)) {
            rj = ev.evolve(&mut rng, &rj, true);
        }
        pairs.push((wj.to_string(), rj.to_string(), ev.applied.clone(), safe));
    }
    for (wtext, rtext, steps, safe) in pairs {
        let mut crng = rng.fork();
        let (Ok(w), Ok(r)) = (Schema::parse_str(&wtext), catch(|| Schema::parse_str(&rtext)).unwrap_or(Schema::parse_str("\"nope\""))) else { continue };
        let (Ok(wrs), Ok(rrs)) = (ResolvedSchema::new(&w), ResolvedSchema::new(&r)) else { continue };
        let steps_s = if steps.is_empty() { "none".to_string() } else {
            let mut a = steps.clone();
            a.sort();
            a.join(" + ")
        };
        for a in &steps {
            out.count(&format!("step: {a}"));
        }
        let case = format!("W={} R={} steps=[{steps_s}]", trunc(&wtext, 500), trunc(&rtext, 500));
        crate::util::begin_case(&case);
        let (cr, mr, mr_rev, self_w) = match catch(|| (
            SchemaCompatibility::can_read(&w, &r),
            SchemaCompatibility::mutual_read(&w, &r),
            SchemaCompatibility::mutual_read(&r, &w),
            SchemaCompatibility::can_read(&w, &w),
        )) {
            Ok(x) => x,
            Err(()) => {
                out.oracle_fail("panic", "the compatibility checker panicked", &case);
                continue;
            }
        };
        out.count(&format!("verdict_{}", verdict(&cr)));
        out.pair(&format!("compat {} {}", wire::schema_str(&w), wire::schema_str(&r)), &format!("{} {}", verdict(&cr), verdict(&mr)));
        if verdict(&self_w) != "full" {
            out.oracle_fail("self-not-full", &format!("can_read(W, W) = {}: {:?}", verdict(&self_w), self_w.as_ref().err()), &case);
        }
        if verdict(&mr) != verdict(&mr_rev) {
            out.oracle_fail("mutual-not-symmetric", &format!("mutual_read(W, R) = {}, mutual_read(R, W) = {}", verdict(&mr), verdict(&mr_rev)), &case);
        }
        let safe = safe || (wtext.contains(r#""name":"e","type":{"type":"enum""#) && rtext.contains(r#""name":"e2","type":{"type":"enum""#))
            || (rtext.contains(r#""name":"e","type":{"type":"enum""#) && wtext.contains(r#""name":"e2","type":{"type":"enum""#));
        let steps_s = if steps_s == "universe" && safe { "reorder fields (the definition of a named type moves to the other field)".to_string() } else { steps_s };
        if safe && !steps.is_empty() && cr.is_err() {
            out.oracle_fail(&format!("safe-steps-incompatible: {steps_s}"), &format!("only always-safe steps were applied, can_read says {:?}", cr.as_ref().err()), &case);
        }
        // soundness: a Full verdict means every value of W reads with R
        if matches!(cr, Ok(Compatibility::Full)) {
            let vg = ValueGen { names: wrs.get_names(), max_depth: max_depth + 2, gave_up: Default::default() };
            for _ in 0..6 {
                let v = vg.value(&mut crng, &w, None, 0);
                if vg.gave_up.get() {
                    break;
                }
                out.count("soundness_values");
                let wr = GenericDatumWriter::builder(&w).build().unwrap();
                let mut bytes = Vec::new();
                if catch(|| wr.write_value_ref(&mut bytes, &v)).ok().and_then(|x| x.ok()).is_none() {
                    continue;
                }
                let read = catch(|| {
                    let rd = GenericDatumReader::builder(&w).reader_schema(&r).build()?;
                    rd.read_value(&mut &bytes[..])
                });
                match read {
                    Ok(Ok(_)) => {}
                    Ok(Err(e)) => {
                        let cause = fail_site(&Side { names: wrs.get_names() }, &w, None, &Side { names: rrs.get_names() }, &r, None, &v, 0);
                        out.oracle_fail(&format!("full-but-unreadable: {cause}"),
                            &format!("can_read = Full, but the value {} does not read: {}", trunc(&wire::value_str(&v, true), 300), trunc(&e.to_string(), 200)), &case);
                        break;
                    }
                    Err(()) => out.oracle_fail("panic", "reading panicked", &case),
                }
            }
        }
    }
    crate::util::end_case();
    out.finish(dir, serde_json::json!({}));
    0
}
