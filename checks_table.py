"""Per-property configuration of ./check: theorems (audited by name + pinned statement hash),
Lean modules, harness runs per tier, projection of response lines, non-triviality rule."""

DATUM_TB = [
    "modelled, not verified: Rust std (Vec, HashMap insert-overwrites, Read::read_exact, String::from_utf8, to_le_bytes, integer casts)",
    "modelled: num-bigint to/from_signed_bytes_be, uuid text forms, bigdecimal (unscaled, scale) pairs",
    "namespace qualification of definitions/references is done by the harness printer with Name::fully_qualified_name (mirrors schema::resolve)",
    "target: 64-bit usize, little-endian host",
]


def c01_runs(tier, scale):
    if tier == "thorough":
        return [("c01", [40000 * scale, 5 + (i % 3)], None) for i in range(16)]
    return [("c01", [1500 * scale, 4], None), ("c01", [1000 * scale, 6], None)]


def complex_line(l):
    return any(t in l for t in ("(record", "(array", "(map", "(union", "(ref"))


def c06_runs(tier, scale):
    if tier == "thorough":
        return [("c06", [3000 * scale, 3 + (i % 3), 2 if i == 0 else 0, [4096, 65536, 1 << 20, 512 << 20][i % 4]], None) for i in range(16)]
    return [("c06", [250 * scale, 3, 1, 65536], None), ("c06", [150 * scale, 5, 0, 4096], None)]


PROPS = {
    "C01": {
        "lean_modules": ["AvroProofs.C01"],
        "theorems": [
            "Avro.C01.zag_zig_bits", "Avro.C01.zag_zig", "Avro.C01.decodeVar_encodeVar",
            "Avro.C01.decode_encode", "Avro.C01.decode_concat",
        ],
        "harness": c01_runs,
        "projection": "okerr",
        "nontrivial": complex_line,
        "rule": "type-directed schemas (parsed by the real parser) x conforming values from boundary pools; "
                "one request line per encode and per decode; non-trivial = distinct request lines whose schema "
                "contains a record/array/map/union/reference (hash of the canonical line)",
        "trusted_base": DATUM_TB,
        "partial": [
            {"theorem": "Avro.C01.decode_encode",
             "excluded_by": "none for structure; Conforms carries, for decimal/big-decimal/uuid-string values, the "
                            "round-trip of the *modelled third-party primitive* (num-bigint signed bytes, uuid text) as an "
                            "explicit hypothesis - discharged separately in AvroProofs.Lemmas.Prim where proved"},
        ],
        "assumptions": ["values within the allocation limit (Conforms includes length <= lim); lim < 2^63"],
    },
    "C06": {
        "lean_modules": ["AvroProofs.C06", "AvroProofs.C01"],
        "theorems": ["Avro.C06.decode_conforms", "Avro.C06.decode_reencode", "Avro.C01.decode_encode"],
        "partial": [
            {"theorem": "Avro.C06.decode_conforms",
             "excluded_by": "hypothesis PrimFacts (closed statements about the model's num-bigint / uuid-text functions, not yet "
                            "all proved in Lean); wfS s / EnvOk env (what the parser and ResolvedSchema guarantee); 36 <= lim"},
            {"theorem": "(not yet stated) truncation_errors / decoders_agree",
             "excluded_by": "covered only by the implementation oracle of the correspondence run so far"},
        ],
        "harness": c06_runs,
        "projection": "okerr",
        "nontrivial": lambda l: True,
        "rule": "byte strings = exhaustive short strings over 38 fixed small schemas, every truncation of valid encodings "
                "of generated (schema, value) pairs, bit flips, byte substitutions, boundary-varint splices, random bytes; "
                "each through the generic decoder and the schema-aware deserializer; distinct = distinct request lines",
        "trusted_base": DATUM_TB,
        "assumptions": [],
    },
}
