"""Per-property configuration of ./check: theorems (audited by name + pinned statement hash),
Lean modules, harness runs per tier, projection of response lines, non-triviality rule."""

DATUM_TB = [
    "modelled, not verified: Rust std (Vec, HashMap insert-overwrites, Read::read_exact, String::from_utf8, to_le_bytes, integer casts)",
    "modelled: num-bigint to/from_signed_bytes_be, uuid text forms, bigdecimal (unscaled, scale) pairs",
    "namespace qualification of definitions/references is done by the harness printer with Name::fully_qualified_name (mirrors schema::resolve)",
    "target: 64-bit usize, little-endian host",
]


def c01_runs(tier, scale):
    if tier == "thorough":
        return [("c01", [40000 * scale, 5 + (i % 3)], None) for i in range(16)]
    return [("c01", [1500 * scale, 4], None), ("c01", [1000 * scale, 6], None)]


def complex_line(l):
    return any(t in l for t in ("(record", "(array", "(map", "(union", "(ref"))


def c06_runs(tier, scale):
    if tier == "thorough":
        return [("c06", [3000 * scale, 3 + (i % 3), 2 if i == 0 else 0, [4096, 65536, 1 << 20, 512 << 20][i % 4]], None) for i in range(16)]
    return [("c06", [250 * scale, 3, 1, 65536], None), ("c06", [150 * scale, 5, 0, 4096], None)]


def c07_runs(tier, scale):
    if tier == "thorough":
        return [("c07", [8000 * scale, 2 + (i % 4)], None) for i in range(16)]
    # (the catalogue alone is 28 schemas x (2 + 3 x 29 forms) rounds = 2492 cases)
    return [("c07", [2900 * scale, 3], None), ("c07", [2700 * scale, 4], None)]


def c08_runs(tier, scale):
    if tier == "thorough":
        return [("c08", [8000 * scale, 2 + (i % 4)], None) for i in range(16)]
    return [("c08", [1500 * scale, 3], None), ("c08", [1000 * scale, 4], None)]


def c09_runs(tier, scale):
    if tier == "thorough":
        return [("c09", [6000 * scale, 2 + (i % 4), 1 if i == 0 else 0], None) for i in range(16)]
    return [("c09", [800 * scale, 3, 1], None), ("c09", [700 * scale, 4, 0], None)]


def c10_runs(tier, scale):
    if tier == "thorough":
        return [("c10", [4000 * scale, 2 + (i % 4)], None) for i in range(16)]
    return [("c10", [900 * scale, 3], None), ("c10", [600 * scale, 4], None)]


def c11_runs(tier, scale):
    if tier == "thorough":
        return [("c11", [4000 * scale, 2 + (i % 4)], None) for i in range(16)]
    return [("c11", [900 * scale, 3], None), ("c11", [600 * scale, 4], None)]


def c12_runs(tier, scale):
    if tier == "thorough":
        return [("c12", [4000 * scale, 2 + (i % 4)], None) for i in range(16)]
    return [("c12", [900 * scale, 3], None), ("c12", [600 * scale, 4], None)]


def c20_runs(tier, scale):
    if tier == "thorough":
        return [("c20", [120 * scale, 6], None) for i in range(16)]
    return [("c20", [25 * scale, 4], None), ("c20", [15 * scale, 4], None)]


def c16_runs(tier, scale):
    if tier == "thorough":
        return [("c16", [150 * scale], None) for i in range(16)]
    return [("c16", [25 * scale], None), ("c16", [15 * scale], None)]


def c17_runs(tier, scale):
    # the corpus of type definitions is compiled in; the argument is the number of values per type
    if tier == "thorough":
        return [("c17", [60 * scale], None) for i in range(4)]
    return [("c17", [6 * scale], None)]


def c05_runs(tier, scale):
    th = 1 if tier == "thorough" else 0
    runs = [("c05", [lim, th], None) for lim in ([4096, 65536, 1 << 20] if tier == "quick" else [4096, 16384, 65536, 1 << 20, 16 << 20])]
    # the datum decoders on the hostile-bytes streams of C06 under two limits (model correspondence)
    runs += [("c06", [150 * scale, 3, 1, 4096], None), ("c06", [150 * scale, 4, 0, 65536], None)]
    if scale > 1:
        runs = [(s, a, e) for (s, a, e) in runs if s == "c06"] + [("c05", [8192 * (i + 1), 1], None) for i in range(3)]
    return runs


# request verbs whose response lines are compared verbatim (everything else: ok-lines verbatim, any err = err)
EXACT_VERBS = {"sser", "crc32", "capread", "sohdr", "sinkwriteall", "rabin", "crc64", "once", "rditems", "rdfile", "wrcheck"}


def c13_runs(tier, scale):
    if tier == "thorough":
        return [("c13", [60 * scale, 1], None) for _ in range(16)]
    return [("c13", [12 * scale, 0], None), ("c13", [12 * scale, 0], None)]


def c03_runs(tier, scale):
    if tier == "thorough":
        return [("c03", [2500 * scale, 40], None) for _ in range(16)]
    return [("c03", [400 * scale, 12], None), ("c03", [200 * scale, 20], None)]


def c14_runs(tier, scale):
    if tier == "thorough":
        return [("c14", [6 * scale, 1], None) for _ in range(16)]
    return [("c14", [4 * scale, 0], None), ("c14", [4 * scale, 0], None)]


def c18_runs(tier, scale):
    if tier == "thorough":
        return [("c18", [150 * scale, 1], None) for _ in range(16)]
    return [("c18", [60 * scale, 0], None), ("c18", [40 * scale, 0], None)]


def c19_runs(tier, scale):
    if tier == "thorough":
        return [("c19", [40 * scale], None) for _ in range(8)]
    return [("c19", [4 * scale], None)]


def c02_runs(tier, scale):
    if tier == "thorough":
        return [("c02", [20000 * scale, 4 + (i % 3), 32], None) for i in range(16)]
    # + the serde path's block writers (negative counts with byte sizes) read by the generic decoder: C16's rows and oracle
    return [("c02", [1200 * scale, 4, 4], None), ("c02", [600 * scale, 6, 4], None), ("c01", [800 * scale, 4], None), ("c16", [10 * scale], None)]


def c04_runs(tier, scale):
    if tier == "thorough":
        return [("c04", [400 * scale], None) for _ in range(12)] + [("c03", [1500 * scale, 30], None) for _ in range(4)]
    return [("c04", [60 * scale], None), ("c04", [60 * scale], None), ("c03", [250 * scale, 12], None)]


def c15_runs(tier, scale):
    if tier == "thorough":
        return [("c15", [1], None), ("c15", [1, "ratio"], None), ("c04", [300 * scale], None), ("c05", [65536, 1], None)]
    return [("c15", [0], None), ("c15", [0, "ratio"], None), ("c04", [40 * scale], None)]


TEXT_TB = ["the schema-text model (names, parser state machine, serializer, canonical form) is hand-written and validated by exact rows; JSON objects are key-sorted without duplicates (serde_json without preserve_order)",
                         "the parser's default check is the resolution model applied to the lowered schema (AvroModel/SchemaDefault.lean)",
                         "regex_lite matching of the four grammars is modelled by explicit recognisers (isIdent, isNamespace, schemaNameIndex)",
                         "JSON text escaping and float formatting are serde_json's; rows compare token trees read back by an order- and duplicate-preserving reader in the harness"]

PROPS = {
    "C01": {
        "lean_modules": ["AvroProofs.C01"],
        "theorems": [
            "Avro.C01.zag_zig_bits", "Avro.C01.zag_zig", "Avro.C01.decodeVar_encodeVar",
            "Avro.C01.decode_encode", "Avro.C01.decode_concat",
            "Avro.C01.conforms_decimal_bytes", "Avro.C01.conforms_decimal_fixed", "Avro.C01.conforms_bigDecimal",
            "Avro.C01.conforms_uuidString", "Avro.C01.decimal_roundtrip",
        ],
        "harness": c01_runs,
        "projection": "okerr",
        "nontrivial": complex_line,
        "rule": "type-directed schemas (parsed by the real parser) x conforming values from boundary pools; "
                "one request line per encode and per decode; non-trivial = distinct request lines whose schema "
                "contains a record/array/map/union/reference (hash of the canonical line)",
        "trusted_base": DATUM_TB,
        "partial": [
            {"theorem": "Avro.C01.decode_encode",
             "excluded_by": "none for structure. Conforms carries, for decimal / big-decimal / uuid-string values, the round trip of the modelled "
                            "third-party primitive (num-bigint signed bytes, uuid text) as a premise; these are proved for every number and every uuid "
                            "(AvroProofs/Lemmas/Prim.lean), so conforms_decimal_bytes / _fixed / conforms_bigDecimal / conforms_uuidString give conformance "
                            "outright: a decimal conforms iff its unscaled number fits the width (decimalWidth i <= len), every big decimal and every uuid "
                            "conforms. What remains outside is the floating-point payload (bit patterns are carried verbatim) and values beyond the allocation limit"},
        ],
        "assumptions": ["values within the allocation limit (Conforms includes length <= lim); lim < 2^63"],
    },
    "C06": {
        "lean_modules": ["AvroProofs.C06", "AvroProofs.C01"],
        "theorems": ["Avro.C06.decode_conforms", "Avro.C06.decode_reencode", "Avro.C06.decode_framed", "Avro.C06.truncated_datum_is_error",
                     "Avro.C06.truncated_encoding_is_error", "Avro.C06.prefix_free", "Avro.C01.decode_encode"],
        "partial": [
            {"theorem": "Avro.C06.decode_conforms",
             "excluded_by": "wfS s / EnvOk env (what the parser and ResolvedSchema guarantee); 36 <= lim. (The five facts about the model's num-bigint / "
                            "uuid-text functions that used to be a hypothesis are proved: AvroProofs/Lemmas/Prim.lean, primFacts)"},
            {"theorem": "Avro.C06.truncated_datum_is_error",
             "excluded_by": "nothing: proved for every schema, every byte string that is exactly one datum (canonical or not) and every cut point, from "
                            "decode_framed (the decoder consumes a prefix and does not depend on what follows). It is a statement about the MODEL decoder after "
                            "the repair of D7 (boolean / string / union at end of input); the tie to decode_internal is the differential run on every truncation"},
            {"theorem": "(not stated) the generic decoder and the schema-aware deserializer agree on what a complete datum is",
             "excluded_by": "the schema-aware deserializer is not modelled; decided by the implementation oracle of the correspondence run (both decoders on every input)"},
        ],
        "harness": c06_runs,
        "projection": "okerr",
        "nontrivial": lambda l: True,
        "rule": "byte strings = exhaustive short strings over 38 fixed small schemas, every truncation of valid encodings "
                "of generated (schema, value) pairs, bit flips, byte substitutions, boundary-varint splices, random bytes; "
                "each through the generic decoder and the schema-aware deserializer; distinct = distinct request lines",
        "trusted_base": DATUM_TB,
        "assumptions": [],
    },
    "C07": {
        "lean_modules": ["AvroProofs.C07", "AvroProofs.C01"],
        "theorems": ["Avro.C07.rejected_writes_nothing", "Avro.C07.accepted_written_readably_partial",
                     "Avro.C07.written_unreadably_float_for_double", "Avro.C07.not_written_map_for_record",
                     "Avro.C07.written_differently_bare_value_in_union", "Avro.C07.not_written_bare_value_in_union",
                     "Avro.C07.not_written_nullable_field_left_out", "Avro.C07.not_written_bytes_for_decimal",
                     "Avro.C07.written_unreadably_fixed_for_decimal", "Avro.C07.inconsistent_fixed_rejected",
                     "Avro.C07.written_unreadably_enum_index",
                     "Avro.C07.not_written_required_field_left_out"],
        "partial": [
            {"theorem": "Avro.C07.accepted_written_readably_partial",
             "excluded_by": "hypothesis Conforms (the value is already in the schema's canonical representation). The full statement "
                            "(every value validate accepts) is FALSE of the code: the witness theorems not_written_* / written_unreadably_* / "
                            "written_differently_* are kernel-checked counterexamples on the model, the correspondence run shows the model and the "
                            "implementation agree on them, and they are the open known findings C07.*"},
        ],
        "harness": c07_runs,
        "projection": "okerr",
        "nontrivial": lambda l: True,
        "rule": "generated (schema, conforming value) pairs, each rewritten 4 times at mutation rates 0/15/35/60 % by 29 per-position rewrites "
                "(bare value in a union position, wrong union index, string for an enum, out-of-range / mismatching enum index, unknown symbol, "
                "int for long, long for int, float for double, double for float, int/long for logical types, bytes for fixed, wrong-size fixed, "
                "fixed with disagreeing length, bytes/fixed for decimal, fixed for duration, string/bytes/fixed for uuid, nullable / required field "
                "left out, fields reordered, extra field, map for a record, value of another type); rows: validate, resolve, non-validating encode "
                "(model correspondence) and the three validating writers + read-back (implementation oracle); distinct = distinct request lines",
        "trusted_base": DATUM_TB + ["f32/f64 conversions are a parameter of the model (FloatOps); the driver instantiates it with the host's IEEE operations"],
        "assumptions": [],
    },
    "C08": {
        "lean_modules": ["AvroProofs.C08"],
        "theorems": ["Avro.C08.int_to_long", "Avro.C08.int_to_float", "Avro.C08.int_to_double", "Avro.C08.long_to_float", "Avro.C08.long_to_double",
                     "Avro.C08.float_to_double", "Avro.C08.string_to_bytes", "Avro.C08.bytes_to_string", "Avro.C08.logical_to_underlying",
                     "Avro.C08.underlying_to_logical", "Avro.C08.logical_not_promoted_to_float", "Avro.C08.null_reader", "Avro.C08.boolean_reader", "Avro.C08.int_reader", "Avro.C08.long_reader",
                     "Avro.C08.string_reader", "Avro.C08.enum_by_name", "Avro.C08.enum_unknown_default", "Avro.C08.enum_unknown_no_default",
                     "Avro.C08.record_reader_order", "Avro.C08.field_by_name", "Avro.C08.field_by_alias", "Avro.C08.field_missing_no_default",
                     "Avro.C08.field_default_plain", "Avro.C08.union_branch_sound", "Avro.C08.union_no_branch"],
        "partial": [
            {"theorem": "rule-by-rule theorems (Avro.C08.*)",
             "excluded_by": "the crate resolves a decoded VALUE against the reader schema and never consults the writer schema, so the rules are proved per "
                            "(value, reader type): promotions, logical/underlying, exact characterisations of the null/boolean/int/long/string readers, enums, "
                            "records (reader order, name-then-alias, defaults, missing), unions (result names a real branch and holds the value resolved against it). "
                            "NOT proved: that the branch a union picks is the one the writer's branch matches by the specification (it is picked from the value's "
                            "kind and structure - open findings), 'the result validates against R' and idempotence in general (both FALSE of the code for the "
                            "recorded findings); these are decided by the specification oracle of the correspondence run"},
        ],
        "harness": c08_runs,
        "projection": "okerr",
        "nontrivial": lambda l: True,
        "rule": "(W, R) = generated schema and 1..3 rounds of evolution steps on its JSON at rates 0/8/20/40 % per node (promote, incompatible primitive change, "
                "plain<->logical, wrap in / unwrap from a union, add / remove / reorder union branches, add field with one of 22 (type, default) pairs or without "
                "default, remove / reorder / rename-with-alias / rename-without-alias fields, add / remove (with, without default) / reorder enum symbols, change "
                "fixed size, items / values types recursively) x 3 conforming values of W each; rows: Value::resolve(R) vs the model (exact); oracle: independent "
                "resolver written from the specification over BOTH schemas, result validates against R, resolve twice = once, datum reader and container reader "
                "with reader schema agree with Value::resolve; failures are localized to the deepest disagreeing node and classed by (writer kind, reader kind)",
        "trusted_base": DATUM_TB + ["f32/f64 conversions are a parameter of the model (FloatOps)", "the specification oracle (harness/src/c08.rs spec_resolve, default_value) is hand-written from the Avro 1.12 text"],
        "assumptions": [],
    },
    "C09": {
        "lean_modules": ["AvroProofs.C09"],
        "theorems": ["Avro.C09.self_full", "Avro.C09.mutual_symmetric", "Avro.C09.promotions_full", "Avro.C09.enum_symbols_added",
                     "Avro.C09.reader_union_branch_added", "Avro.C09.reader_union_superset", "Avro.C09.record_safe",
                     "Avro.C09.full_sound_scalars_partial", "Avro.C09.full_unsound_logical_to_float", "Avro.C09.full_unsound_bytes_to_string",
                     "Avro.C09.full_unsound_string_to_uuid", "Avro.C09.reorder_with_named_type_incompatible"],
        "partial": [
            {"theorem": "Avro.C09.full_sound_scalars_partial",
             "excluded_by": "restricted to null/boolean/int/long/float/double on both sides. The general soundness statement (Full => every value of W reads with R) is "
                            "FALSE of the code: full_unsound_* are kernel-checked counterexamples on the models of the checker and of resolve, reproduced on the "
                            "crate by the oracle and recorded as open findings C09.*; for nested types soundness is decided by the oracle (6 values per Full pair)"},
            {"theorem": "Avro.C09.record_safe / reader_union_* / enum_symbols_added / promotions_full",
             "excluded_by": "each always-safe step is proved to keep Full at the node where it is applied, given Full below it; a safe reorder that moves the DEFINITION of "
                            "a named type to another field is reported incompatible (reorder_with_named_type_incompatible, open finding)"},
        ],
        "harness": c09_runs,
        "projection": "exact",
        "nontrivial": lambda l: True,
        "rule": "ordered pairs: all 48x48 pairs of a fixed universe (every primitive, logical types, fixed/enum/record/array/map/union variants incl. a recursive record and a "
                "definition-moving reorder) + pairs from the C08 evolution generator (half of them with always-safe steps only); rows: (can_read, mutual_read) vs the model, exact; "
                "oracle: Full => 6 generated values of W read through GenericDatumReader with reader schema; safe-only pairs are not Err; can_read(W, W) = Full; mutual_read symmetric",
        "trusted_base": ["the pointer-keyed memo table of the checker is not modelled (it caches results of a pure function after they are computed; DefaultHasher collisions on addresses are ignored)",
                         "schemas are printed for the model with fully qualified names (harness printer)"],
        "assumptions": [],
    },
    "C10": {
        "lean_modules": ["AvroProofs.C10"],
        "theorems": ["Avro.C10.toJson_strict", "Avro.C10.customAttrs_ok", "Avro.C10.fieldAttrs_ok", "Avro.C10.name_roundtrip_with_namespace", "Avro.C10.null_namespace_inherits"],
        "partial": [{"theorem": "Avro.C10.toJson_strict", "excluded_by": "hypothesis wfA (custom attributes never carry the name of a key the serializer writes for that node): the parser's attribute filters establish it node by node (customAttrs_ok, fieldAttrs_ok, for JSON objects with distinct keys); the induction over the parser that would make it a corollary for every accepted schema is not mechanised - the harness checks every serialized text with a duplicate-detecting JSON reader instead"},
                    {"theorem": "(not stated) parse (toJson s) = s", "excluded_by": "the full round trip is decided by exact rows (parse then serialize, 128k texts in the thorough tier) and the oracle (re-parse, re-serialize identical, header schema identical); it is FALSE of the code for names without a namespace nested in a namespaced type: null_namespace_inherits proves that for every such name (open finding)"}],
        "harness": c10_runs,
        "projection": "exact",
        "nontrivial": lambda l: True,
        "rule": "schema texts: a fixed catalogue (every repaired / recorded defect), generated schemas (nested namespaces inherited / overridden / empty, dotted names, references, every logical type), "
                "decorated ones (docs with escapes, aliases, custom attributes incl. reserved names on every node, field defaults, order), single mutations of those at a random JSON path, "
                "pretty-printed variants; rows: parse -> serialize (token tree) and parse -> canonical form + Rabin, exact; oracle: no duplicate keys, re-parse + re-serialize identical, == holds, "
                "the header of a file written with the schema carries the same JSON",
        "trusted_base": TEXT_TB,
        "assumptions": [],
    },
    "C11": {
        "lean_modules": ["AvroProofs.C11"],
        "theorems": ["Avro.C11.parse_wf", "Avro.C11.names_match_grammar", "Avro.C11.union_rules", "Avro.C11.record_rules", "Avro.C11.enum_rules", "Avro.C11.decimal_rules"],
        "partial": [{"theorem": "Avro.C11.parse_wf", "excluded_by": "wfP covers the grammars of names / symbols / field names, the union rules, enum defaults, unique field names and decimal precision / scale for every accepted schema; NOT in wfP because false of the code (open findings): unique full names, precision fitting a fixed's size; every reference resolves and every default conforms are properties of the parser state / of the dflt parameter and are decided by the oracle (ResolvedSchema::new, independent default check)"},
                    {"theorem": "(totality)", "excluded_by": "the model parser is a total function; that the crate neither panics nor hangs is observed on every text (catch_unwind, watchdog), and 'every well-formed schema is accepted' is decided on the generated and decorated texts only"}],
        "harness": c11_runs,
        "projection": "exact",
        "nontrivial": lambda l: True,
        "rule": "as C10 (mutations weigh more); oracle: no panic in parse; an accepted schema is well formed by an independent walk (name / symbol / field-name grammars, unique full names, "
                "union rules, enum default, unique field names) and ResolvedSchema::new succeeds; canonical_form, fingerprint x3, to_string, ResolvedSchema::new, Debug complete; generated and "
                "decorated (well-formed) texts are accepted",
        "trusted_base": TEXT_TB,
        "assumptions": [],
    },
    "C12": {
        "lean_modules": ["AvroProofs.C12"],
        "theorems": ["Avro.C12.rabin_is_crc64", "Avro.C12.pcf_name", "Avro.C12.pcfEntries_skip_irrelevant", "Avro.C12.pcfEntries_only_relevant", "Avro.C12.relevant_record", "Avro.C12.relevant_enum", "Avro.C12.relevant_fixed", "Avro.C12.relevant_array", "Avro.C12.relevant_map", "Avro.C12.logical_primitive_not_reduced", "Avro.C12.decimal_stripped"],
        "partial": [{"theorem": "Avro.C12.pcfEntries_only_relevant", "excluded_by": "objects with exactly one entry are excluded (hn : n != 1): there the PRIMITIVES rule applies, and an object that had a stripped attribute keeps its object form (logical_primitive_not_reduced, open finding pinned by the crate's own test). Equality of the whole form with the specification's rules and idempotence through the parser are decided by the oracle (independent implementation of the seven rules; parse(form) canonicalises to form)"}],
        "harness": c12_runs,
        "projection": "exact",
        "nontrivial": lambda l: True,
        "rule": "as C10; oracle: canonical_form = an independent implementation of the specification's seven rules on the schema JSON; parse(canonical form) canonicalises to itself; Rabin = the "
                "harness's bit-serial CRC-64-AVRO, MD5 / SHA-256 = those digests of the same bytes (md-5, sha2 crates); second call identical; removing docs / aliases / defaults / other attributes "
                "keeps the form",
        "trusted_base": TEXT_TB,
        "assumptions": [],
    },
    "C20": {
        "lean_modules": ["AvroProofs.C20"],
        "theorems": ["Avro.C20.duplicate_input_names_rejected", "Avro.C20.one_schema_per_input", "Avro.C20.order_dependent_success",
                     "Avro.C20.order_dependent_definition"],
        "partial": [
            {"theorem": "(not stated) the result is the same for every hash order / input order",
             "excluded_by": "FALSE of the code: order_dependent_success and order_dependent_definition are kernel-checked witnesses on the parser model (a closed set that parses or "
                            "fails depending on the hash order; a clash whose winner depends on it), reproduced on the crate over repeated runs (open findings). For clash-free sets "
                            "without references to nested definitions the statement is not proved either: at run time the driver enumerates ALL hash orders (all permutations of the "
                            "pending inputs) of the model for every generated set and every input order, and the check requires every outcome the crate produced to be one of them"},
        ],
        "harness": c20_runs,
        "projection": "exact",
        "nontrivial": lambda l: True,
        "rule": "sets of 2..7 named schemas: chains, dags, cycles, independent types over three namespaces with full / relative / leading-dot spellings; plus dangling reference, duplicate input "
                "name, nested definition clashing with an input, reference to a definition nested in another input, input whose type is a nested named type; x all permutations of the input "
                "list (capped at 24) x repeated runs (4 / 6: fresh hash seeds) through parse_list, and parse_str_with_list with the first input as the main schema; rows: the set of observed "
                "outcomes must be among the model's outcomes over all hash orders; oracle: same result for every ordering and run, success iff the set is closed and duplicate-free, values "
                "written with the schemas of one ordering read back with those of another",
        "trusted_base": TEXT_TB + ["the hash order of the pending inputs is an explicit argument of the model; the HashMap's iteration order is assumed to be SOME fixed order of the keys that removals do not disturb"],
        "assumptions": [],
    },
    "C16": {
        "lean_modules": ["AvroProofs.C16", "AvroProofs.C16Datum"],
        "theorems": ["Avro.C16.count_eq_length", "Avro.C16.direct_layout", "Avro.C16.buffered_layout", "Avro.C16.record_in_schema_order",
                     "Avro.C16.ser_is_spec_datum", "Avro.C16.ser_decodes_as_one_datum"],
        "partial": [
            {"theorem": "Avro.C16.ser_is_spec_datum / ser_decodes_as_one_datum (with count_eq_length, direct_layout, buffered_layout, record_in_schema_order)",
             "excluded_by": "the model (serS) covers scalars, char/str, bytes, options, unit, unit structs, unit variants, newtype structs, sequences, tuples, tuple structs, "
                            "string-keyed maps and structs (any field order, skipped fields from defaults) over schemas whose only unions are Option-shaped; UnionSerializer (enums with "
                            "data, bare unions), u64/i128/u128 and flattened structs are outside it and are covered by the oracle only. Proved for that fragment, for EVERY target block "
                            "size: returned count = bytes emitted; a struct's fields come out in schema order, each from the value given under its name or alias or from its default, for "
                            "every hand-over order and every set of skipped / missing fields; under SerOk (integer ranges of the Rust types, valid UTF-8, declared lengths, distinct map "
                            "keys, sizes within the reader's limit) the bytes written are a specification-legal encoding (Spec.SpecEnc, the relation of C02) of some value under the schema, "
                            "which the generic decoder reads back as exactly one datum whatever follows (logical types in the form their Rust types hand them over: uuid as 16 bytes or canonical "
                            "text, duration as 12 bytes, big-decimal in its serialized form). NOT in the statement: that the value read back is the one the Rust value converts to (to_value + resolve); the schema-aware deserializer - decided by "
                            "the exact rows and the oracle (read_deser, generic decode + validate, to_value/resolve, from_value)"},
        ],
        "harness": c16_runs,
        "projection": "okerr",
        "nontrivial": lambda l: True,
        "rule": "corpus of Rust types with derived Serialize/Deserialize (and derived or hand-written schemas): all scalar widths, char, String, bytes, Option of scalars / vectors / structs, "
                "Vec of scalars / strings / vectors / structs / enums, HashMap<String, _>, nested structs, unit-only enum, newtype / tuple / unit structs, tuples, skipped + defaulted fields, "
                "an enum with newtype / struct / tuple / unit variants (oracle only), a hand-written Serialize using serialize_map on a record; every third case with the record's fields "
                "permuted in the schema (out-of-order fields); x random values from boundary pools x target block sizes {none, 1, 16, 4096}; the serde call sequence of every value is "
                "recorded by a recording Serializer and replayed on the model",
        "trusted_base": DATUM_TB + ["serde's derive decides which Serializer methods are called; the harness records them with its own Serializer and the model consumes the recording"],
        "assumptions": [],
    },
    "C17": {
        "lean_modules": ["AvroProofs.C17"],
        "theorems": ["Avro.C17.derived_fields_are_serde_fields", "Avro.C17.derived_tuple_fields", "Avro.C17.derived_variants_are_serde_variants",
                     "Avro.C17.plain_enum_default_is_symbol", "Avro.C17.plain_enum_shape", "Avro.C17.option_shape", "Avro.C17.option_of_union_is_a_panic",
                     "Avro.C17.defined_name_gives_ref", "Avro.C17.transparent_is_its_field", "Avro.C17.flatten_splices",
                     "Avro.C17.flatten_of_non_record_panics", "Avro.C17.derive_wf_partial", "Avro.C17.option_of_union_panics", "Avro.C17.option_of_option_panics",
                     "Avro.C17.kebab_case_symbol_outside_grammar", "Avro.C17.variant_records_defined_twice"],
        "partial": [
            {"theorem": "Avro.C17.* (structure of the derived schema)",
             "excluded_by": "the full statement (every derived schema is well formed and accepts every value of its type) is FALSE of the code: three kernel-checked witnesses "
                            "(option_of_union_panics, kebab_case_symbol_outside_grammar, variant_records_defined_twice) are replayed on the crate as known findings. Proved for every "
                            "definition of the modelled language: record fields / union branches are exactly the unskipped fields / variants in declaration order under serde's names; "
                            "a plain enum's default is one of its symbols; Option<T> is [null, T] or a panic, and a panic exactly when that is no legal union; an already defined name "
                            "derives to a reference; and derive_wf_partial: when the names the attributes produce are identifiers and distinct per record / enum (DeriveEnvOk, decidable, "
                            "exactly what the kebab-case finding violates) every derived schema satisfies wfP, the local well-formedness the parser guarantees (C11) - uniqueness of "
                            "definitions across the whole schema is not part of wfP and is what variant_records_defined_twice refutes. NOT proved: acceptance of every value by the serializer and the round trip through read_deser and the container - these involve "
                            "serde's generated code and the schema-aware (de)serializer and are decided by the oracle on generated values of every corpus type. The model covers structs "
                            "with named fields, unit-only enums and enums with data in the default union-of-records representation, with namespace / rename / rename_all / "
                            "rename_all_fields / doc / alias / skip / default attributes, #[serde(flatten)] fields, #[serde(transparent)] structs, and enums as bare unions (externally tagged and untagged), adjacently tagged (tag + content) and "
                            "internally tagged records, including the record builder's distinct-field-names assertion (derive_wf_partial excludes definitions with flattened fields and "
                            "those three representations); generic types are not modelled: a hand-written corpus covers them with the oracle only"},
        ],
        "harness": c17_runs,
        "projection": "exact",
        "nontrivial": lambda l: True,
        "rule": "a generated corpus of 195 type definitions (tools/gen_c17.py, committed as harness/src/c17_corpus.rs and compiled with /repo's derive macro on every run): structs, "
                "unit-only enums, enums with unit / newtype / tuple / struct variants; field types from 12 scalars, Option, Vec, HashMap<String, _>, Box and earlier corpus types (biased "
                "towards mentioning a definition twice), one recursive type, 19 #[serde(transparent)] structs (with and without a skipped second field, with a declared default), 25 structs "
                "with a #[serde(flatten)] field of an earlier struct type, 24 enums in the other representations (bare union with and without #[serde(untagged)], tag + content, "
                "internally tagged with an auxiliary all-defaults struct); container attributes namespace / rename / doc / alias / rename_all (8 rules) / rename_all_fields, field "
                "attributes rename / skip / default / alias / doc, variant attributes rename / skip / #[default]; every type's description in the model's definition language is "
                "generated alongside; x generated values per type (boundary pools), written with write_ser, read with read_deser, and through Writer::append_ser / "
                "Reader::into_deser_iter; plus 24 hand-written types outside the modelled language (oracle only, no model row): #[serde(flatten)] (plain, nested, of a namespaced "
                "struct, under rename_all), #[serde(transparent)] (scalar, struct, Option; used twice and flattened), bare unions (untagged and externally tagged, with a skipped variant, "
                "used twice), adjacently tagged enums (two with one tag name), internally tagged enums, a generic struct at two instantiations, arrays and nested containers",
        "trusted_base": TEXT_TB + ["tools/gen_c17.py emits each Rust definition together with its description in the model's language; that the two say the same is not checked "
                                   "beyond the rows agreeing", "serde's derive (the Serialize / Deserialize impls of the corpus types)"],
        "assumptions": [],
    },
    "C05": {
        "lean_modules": ["AvroProofs.C05", "AvroProofs.C06"],
        "theorems": ["Avro.C05.safeLen_iff", "Avro.C05.safeCollectionLen_iff", "Avro.C05.allocBytes_le", "Avro.C05.allocFixed_le",
                     "Avro.C05.allocArrayBlock_le", "Avro.C05.allocMapBlock_le", "Avro.C05.allocBlockBuf_le", "Avro.C05.blockCount_le",
                     "Avro.C05.decodeVar_consumes_le_10", "Avro.C06.decode_conforms", "Avro.C05.array_items_bounded", "Avro.C05.map_entries_bounded"],
        "partial": [
            {"theorem": "per-site allocation bounds (Avro.C05.alloc*_le)",
             "excluded_by": "the theorems bound the size REQUESTED at each guarded site of the model; panics, aborts, hangs, what the "
                            "allocator/hashbrown/compression libraries really request, and the schema-aware deserializer (not yet modelled) are "
                            "decided by the harness observations only (counting allocator, catch_unwind, watchdog) - labelled partial"},
        ],
        "harness": c05_runs,
        "projection": "okerr",
        "nontrivial": lambda l: True,
        "rule": "entry points {datum generic, datum serde, container reader, single-object generic/serde, Codec::decompress x6} x "
                "hostile declared lengths around the limit (limit-1, limit, limit+1, limit/size_of +-1, 2^31, 2^40, 2^62, i64 extremes, negative "
                "counts with byte sizes, cumulative blocks), hostile sizes in the (embedded) schema, every truncation and sampled bit flips of a "
                "reference container file, hostile block headers and codec metadata, compression bombs; one process per allocation limit with a "
                "counting global allocator (largest single request), catch_unwind, an 8 s watchdog; plus the C06 byte streams for the model correspondence",
        "trusted_base": DATUM_TB + ["allocations made by C libraries (liblzma, zstd) bypass the counting allocator"],
        "assumptions": [],
    },
    "C13": {
        "lean_modules": ["AvroProofs.C13"],
        "theorems": ["Avro.C13.writeAll_exact", "Avro.C13.path_exact", "Avro.C13.short_write_loses",
                     "Avro.C13.all_sites_use_writeAll", "Avro.C13.sites_found"],
        "harness": c13_runs,
        "projection": "okerr",
        "nontrivial": lambda l: True,
        "rule": "write scenarios {datum write_value_ref / write_ser, container append/flush/extend/into_inner/drop x codecs x block sizes, "
                "container append_ser, generic single-object writer x2} x sinks {accept 1,2,3,7 bytes per call; pseudo-random accepts; an error and an "
                "Interrupted at every write-call index; 1 byte then error; an error at every flush index}; plus std's write_all on random scripted sinks "
                "diffed against the Lean model of the Write contract (request lines counted here)",
        "trusted_base": ["std::io::Write::{write, write_all} contract is modelled (Sink.lean) and diffed against std on scripted sinks",
                         "the translator's table of write sites (regular expressions over rustfmt-formatted sources)"],
        "assumptions": ["sinks obey the documented Write contract"],
    },
    "C03": {
        "lean_modules": ["AvroProofs.C03", "AvroProofs.C01"],
        "theorems": ["Avro.C03.failed_append_no_trace", "Avro.C03.history_layout", "Avro.C03.history_read", "Avro.C01.decode_encode"],
        "partial": [
            {"theorem": "Avro.C03.history_read",
             "excluded_by": "RunOk (append_to only on an output that already has its header and after the previous writer was finished); the "
                            "codec round trip is a hypothesis (C15); decodability of each appended encoding is the hypothesis hdec, discharged by "
                            "C01.decode_encode for conforming values; the header's own read-back (metadata/schema) is checked by the correspondence run, "
                            "not yet proved"},
        ],
        "harness": c03_runs,
        "projection": "okerr",
        "nontrivial": lambda l: l.count("(ap ") + l.count("(fl)") >= 2 or l.startswith("rdfile"),
        "rule": "writer histories over {append_value(_ref), unvalidated append, append rejected by validation, append whose encoder fails part-way, "
                "append_ser ok/failing, extend, extend_from_slice, flush, add_user_metadata (incl. avro.* keys and after the header), reset, "
                "into_inner + reopen with the original marker (append_to), finish by into_inner or drop} x codecs {null, deflate, snappy, bzip2, xz, "
                "zstandard} x block sizes {0, 1, around one value, 16000} x generated schemas/values; per op: result + sink length vs Writer.step; "
                "final file vs model after parsing; model reader vs real Reader; non-trivial = history with >= 2 appends/flushes",
        "trusted_base": DATUM_TB + ["compression codecs are a parameter of the model (files are compared after the harness decompressed each block with the crate's own codec)",
                                    "header metadata order (a HashMap) is compared as a set"],
        "assumptions": ["perfect sink (sink faults are C13)"],
    },
    "C14": {
        "lean_modules": ["AvroProofs.C14"],
        "theorems": ["Avro.C14.cut_on_boundary", "Avro.C14.cut_inside_block", "Avro.C14.marker_corrupt", "Avro.C14.magic_corrupt",
                     "Avro.C14.cut_inside_header", "Avro.C14.varint_cut_is_eof"],
        "partial": [
            {"theorem": "Avro.C14.cut_inside_header",
             "excluded_by": "nothing for the model reader: opening any strict prefix of the header fails, for every metadata layout and every offset (the header reader is "
                            "framed). The embedded schema's JSON and the codec name are read from the metadata after that (C10 / C04's subject); the tie to the real Reader is "
                            "the correspondence run on every cut of every generated file"},
        ],
        "harness": c14_runs,
        "projection": "okerr",
        "nontrivial": lambda l: True,
        "rule": "container files written by the real Writer (block partitions with counts needing 1 and 2 varint bytes; zero-width, fixed-width and "
                "variable-width items; fixed + generated schemas; all six codecs) cut at EVERY byte offset (null codec; around every boundary + sampled "
                "for the others in the quick tier), and every byte of the magic, of the header marker and of every block marker altered; each case through "
                "the real Reader (oracle) and, for the null codec, through the model reader (exact diff); distinct = distinct request lines",
        "trusted_base": DATUM_TB + ["std Read::read_exact semantics are modelled (takeExact)"],
        "assumptions": [],
    },
    "C18": {
        "lean_modules": ["AvroProofs.C18"],
        "theorems": ["Avro.C18.rabinEmpty_is_spec", "Avro.C18.marker_is_spec", "Avro.C18.header_spec", "Avro.C18.write_restores",
                     "Avro.C18.so_history", "Avro.C18.message_roundtrip", "Avro.C18.reader_rejects", "Avro.C18.reader_short",
                     "Avro.rabin_eq_crc64"],
        "partial": [
            {"theorem": "Avro.C18.header_spec",
             "excluded_by": "the canonical form itself (the fingerprint's input) is C12's subject; here it is a parameter"},
            {"theorem": "typed reader (read_deser) / SpecificSingleObjectWriter",
             "excluded_by": "not modelled; decided by the implementation oracle"},
        ],
        "harness": c18_runs,
        "projection": "okerr",
        "nontrivial": lambda l: not l.startswith("rabin x") or len(l) > 14,
        "rule": "Rabin on all byte strings of length <= 1 (thorough: <= 2) + pooled 2-byte + random longer strings; generated schemas x 5 values "
                "written through ONE GenericSingleObjectWriter with interleaved rejected values and failing sinks; every successful message checked "
                "byte-exact against the model and decoded by both readers; every single-bit alteration and every truncation of the 10-byte header "
                "through both readers; SpecificSingleObjectWriter with a value validation rejects",
        "trusted_base": DATUM_TB + ["the canonical form (input of the fingerprint) is taken from the crate here; its conformance is C12's subject",
                                    "single-object marker bytes and fingerprint byte order are extracted from headers.rs by the translator"],
        "assumptions": [],
    },
    "C19": {
        "lean_modules": ["AvroProofs.C19"],
        "theorems": ["Avro.C19.first_wins", "Avro.C19.never_changes", "Avro.C19.run_keeps", "Avro.C19.limit_enforced",
                     "Avro.C19.uniform_limit", "Avro.C19.one_cell_per_setting", "Avro.C19.no_other_cell", "Avro.C19.atomic_ops_only", "Avro.C19.peek_sees_winner"],
        "harness": c19_runs,
        "projection": "okerr",
        "nontrivial": lambda l: True,
        "rule": "fresh child processes (the settings are set once per process): N in {2,4,8,16} threads race from a barrier with randomised spins to set "
                "and/or first-use a setting {max allocation, serde human-readable, schema-name validator, enum-symbol validator}; each logs its proposal "
                "and what it observed; the log (winner first) is replayed through the OnceCell model and must produce the same reports; plus declared "
                "lengths at limit-1, limit, limit+1, limit/size_of +-1, 2^40, i64::MAX under limits {0,1,4096,65536,usize::MAX} through the real "
                "decoder vs the model decoder.  Schedule exploration on the real code is SAMPLING (labelled so); the theorems quantify over all schedules.",
        "trusted_base": ["atomicity of std::sync::OnceLock::{get_or_init,set} (each operation of the model is one atomic step)",
                         "translator: regular-expression extraction of limit reads and OnceLock statics"],
        "partial": [{"theorem": "Avro.C19.first_wins",
                     "excluded_by": "holds for the model cell; that the crate's settings ARE such cells is the translator-fed instances (one cell per setting, "
                                    "only get_or_init/set, one default) + the race sampling; namespace / field-name validators and the schemata comparator are "
                                    "covered by the translator instances only (not raced in the harness)"}],
        "assumptions": ["OnceLock atomicity"],
    },
    "C02": {
        "lean_modules": ["AvroProofs.C02"],
        "theorems": ["Avro.C02.long_eq_spec", "Avro.C02.encode_sound", "Avro.C02.decode_complete", "Avro.C02.varint_any_digits", "Avro.C02.padded_long_read"],
        "harness": c02_runs,
        "projection": "okerr",
        "nontrivial": complex_line,
        "rule": "generated (schema, value) pairs; forward: the crate's bytes through an independent reference decoder written from the specification; "
                "reverse: per value several random specification-legal layouts from the independent reference encoder (random block partitions of "
                "arrays/maps, negative counts with byte sizes) through the real decoder and the model decoder; plus the byte-exact encode rows of C01",
        "trusted_base": DATUM_TB + ["the harness's reference codec (refcodec.rs) is the 'independent implementation' of the property's statement"],
        "partial": [{"theorem": "Avro.C02.encode_sound / decode_complete",
                     "excluded_by": "non-canonical (zero-padded) varints are not part of SpecEnc (so not of decode_complete); that the decoder reads them to the same number is proved separately for every digit string of up to ten bytes (varint_any_digits, padded_long_read)"}],
        "assumptions": [],
    },
    "C04": {
        "lean_modules": ["AvroProofs.C04", "AvroProofs.C03"],
        "theorems": ["Avro.C04.header_accepted", "Avro.C04.reader_accepts", "Avro.C04.writer_header_spec", "Avro.C04.writer_layout",
                     "Avro.C03.history_layout"],
        "harness": c04_runs,
        "projection": "okerr",
        "nontrivial": lambda l: True,
        "rule": "generated schemas x 0..9 values; A: files written by the real Writer (null, deflate, snappy, bzip2, xz; block sizes 0/1/64/16000; user "
                "metadata) read by the independent implementation (own header/block parser + reference datum decoder + Python zlib(-15)/bz2/lzma + own snappy "
                "raw decoder and CRC-32); B: files written by the independent implementation (random block partitions incl. one value per block / one "
                "block / empty file / an empty block, metadata map in random multi-block layouts with negative counts, shuffled entries, unknown avro.* "
                "keys, user keys; payloads compressed by the reference codecs) read by the real Reader; plus C03's model correspondence rows (counted as lines)",
        "trusted_base": DATUM_TB + ["the harness's reference container reader/writer and snappy/CRC-32 code; Python's zlib, bz2, lzma modules",
                                    "zstandard has no reference implementation in this sandbox (round trip only, C15)"],
        "partial": [{"theorem": "Avro.C04.reader_accepts",
                     "excluded_by": "blocks are non-empty in the theorem (BlockOk); an empty block is covered by the oracle; the embedded schema's JSON<->Schema "
                                    "step is C10's subject (schema/env are parameters of the model reader)"}],
        "assumptions": [],
    },
    "C15": {
        "level": "other",
        "lean_modules": ["AvroProofs.C15"],
        "theorems": ["Avro.C15.snappy_frame", "Avro.C15.snappy_bad_crc", "Avro.C15.snappy_short", "Avro.C15.snappy_declared_size_bounded",
                     "Avro.C15.capped_read"],
        "harness": c15_runs,
        "projection": "okerr",
        "nontrivial": lambda l: True,
        "rule": "codecs {null, snappy, deflate x 6 levels, bzip2 1-9, xz 0-9, zstandard 9 levels incl. >22} x payloads {empty, 1, 2 bytes, compressible, "
                "text, incompressible 300 B / 40 KB (> deflate window), mixed 70 KB (> snappy block), thorough: 950 KB (> bzip2 block)}: crate round trip; "
                "crate stream -> reference decompressor; reference stream -> crate; snappy trailer vs independent CRC-32 and every checksum bit flipped; "
                "output cap at limit-1, limit, limit+1, 4*limit; out-of-range levels; plus C04's container-level interop files",
        "explanation": "Proof for the library's own wrapper logic (snappy frame incl. checksum and length guards, output cap of the streaming decoders) in Lean; "
                       "the compression algorithms are third-party and their round trip / interoperability is VALIDATED differentially against independent "
                       "reference codecs (Python zlib(-15), bz2, lzma; own snappy raw codec and bit-serial CRC-32), not proved; zstandard: round trip only.",
        "trusted_base": ["miniz_oxide, libbz2-rs, liblzma, snap, zstd, crc32fast (third-party, validated not proved)", "Python zlib/bz2/lzma as references"],
        "assumptions": ["raw codec round trip (hypothesis of snappy_frame), validated by the harness"],
    },
}
