#!/usr/bin/env python3
"""Reference codecs for C04/C15 (independent of the crate): one request per line on stdin,
`compress|decompress <codec> <hex>` -> `ok <hex>` | `err`.
deflate = raw RFC 1951 (zlib wbits -15), bzip2 = bz2, xz = lzma (xz container)."""
import sys, zlib, bz2, lzma

def comp(codec, data, level=None):
    if codec == "deflate":
        c = zlib.compressobj(level if level is not None else 6, zlib.DEFLATED, -15)
        return c.compress(data) + c.flush()
    if codec == "bzip2":
        return bz2.compress(data, level if level is not None else 9)
    if codec == "xz":
        return lzma.compress(data, format=lzma.FORMAT_XZ, preset=level if level is not None else 6)
    raise ValueError(codec)

def decomp(codec, data):
    if codec == "deflate":
        d = zlib.decompressobj(-15)
        out = d.decompress(data) + d.flush()
        if not d.eof:
            raise ValueError("truncated deflate stream")
        return out
    if codec == "bzip2":
        return bz2.decompress(data)
    if codec == "xz":
        return lzma.decompress(data, format=lzma.FORMAT_XZ)
    raise ValueError(codec)

for line in sys.stdin:
    f = line.split()
    try:
        op, codec, hx = f[0], f[1], f[2] if len(f) > 2 else ""
        level = int(f[3]) if len(f) > 3 else None
        data = bytes.fromhex(hx.lstrip("x"))
        out = comp(codec, data, level) if op == "compress" else decomp(codec, data)
        print("ok x" + out.hex(), flush=True)
    except Exception as e:
        print("err", flush=True)
