#!/usr/bin/env python3
"""Regenerate MANIFEST.json from checks_table.py + manifest_meta.json (developer tool)."""
import json, os, sys
ROOT = os.path.dirname(os.path.dirname(os.path.abspath(__file__)))
sys.path.insert(0, ROOT)
from checks_table import PROPS
meta = json.load(open(os.path.join(ROOT, 'manifest_meta.json')))
checks = []
for pid in sorted(PROPS):
    m = meta['checks'][pid]
    checks.append({
        "property_id": pid,
        "quick_cmd": f"./check {pid} --tier quick",
        "thorough_cmd": f"./check {pid} --tier thorough",
        "evidence_file": f"evidence/{pid}.json",
        "replay_cmd_template": f"./check {pid} --replay {{path}}",
        "engine": "lean-model+correspondence",
        "level_claimed": {"category": PROPS[pid].get("level", "proof"), "text": m["text"], "design_ref": m["design_ref"]},
        "level_note": m["note"],
        "technique": m["technique"],
    })
props = [json.loads(l)['id'] for l in open(os.path.join(ROOT, 'properties.jsonl'))]
na = [{"property_id": p, "reason": meta['not_applicable'].get(p, "not yet claimed: the model slice and correspondence row for this property are not built yet (work in progress, see DESIGN.md section 7)")} for p in props if p not in PROPS]
man = {
    "version": 1,
    "setup_cmd": "./setup.sh",
    "hooks": meta['hooks'],
    "engines": [{"name": "lean-model+correspondence", "path": "lean/ harness/ check",
                 "serves_properties": sorted(PROPS),
                 "kind_free_text": "hand-written Lean 4 model with kernel-checked theorems, tied to /repo by a differential correspondence run (Rust harness linking the working tree vs compiled Lean driver) and implementation-level oracles"}],
    "checks": checks,
    "not_applicable": na,
    "notes": meta.get('notes', ''),
}
json.dump(man, open(os.path.join(ROOT, 'MANIFEST.json'), 'w'), indent=1)
print("claimed:", sorted(PROPS), "not yet:", [x['property_id'] for x in na])
