#!/usr/bin/env python3
"""tools/hunks.py PATCH            -> list (file, hunk index, header)
   tools/hunks.py PATCH f:i f:j .. -> print a patch with only those hunks (file index f, hunk index i; f:* = all)"""
import sys, re
text = open(sys.argv[1]).read()
files = re.split(r'(?m)^(?=diff --git )', text)
files = [f for f in files if f.startswith('diff --git')]
parsed = []
for f in files:
    parts = re.split(r'(?m)^(?=@@ )', f)
    head, hunks = parts[0], parts[1:]
    # strip trailing patch signature from last hunk
    if hunks:
        hunks[-1] = re.split(r'(?m)^-- \n', hunks[-1])[0]
    parsed.append((head, hunks))
if len(sys.argv) == 2:
    for fi, (head, hunks) in enumerate(parsed):
        name = head.splitlines()[0]
        for hi, h in enumerate(hunks):
            print(f"{fi}:{hi}  {name}  {h.splitlines()[0]}")
    sys.exit(0)
want = {}
for a in sys.argv[2:]:
    f, h = a.split(':')
    want.setdefault(int(f), set()).add(h)
out = []
for fi, (head, hunks) in enumerate(parsed):
    if fi not in want: continue
    sel = [h for hi, h in enumerate(hunks) if '*' in want[fi] or str(hi) in want[fi]]
    if sel:
        out.append(head + ''.join(sel))
sys.stdout.write(''.join(out))
