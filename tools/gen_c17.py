#!/usr/bin/env python3
"""Generate the C17 corpus: Rust type definitions (compiled with the real derive) together with
their description in the model's type-definition language.

usage: tools/gen_c17.py [N] [SEED] > harness/src/c17_corpus.rs
The output is committed; the check compiles it against /repo's current derive on every run."""
import random, sys, json

N = int(sys.argv[1]) if len(sys.argv) > 1 else 70
SEED = int(sys.argv[2]) if len(sys.argv) > 2 else 17
rnd = random.Random(SEED)

SCALARS = ["bool", "i8", "i16", "i32", "i64", "u8", "u16", "u32", "f32", "f64", "String", "char", "u64", "i128", "u128", "i128", "u64"]
RULES = [("lowercase", "lower"), ("UPPERCASE", "upper"), ("PascalCase", "pascal"), ("camelCase", "camel"), ("snake_case", "snake"),
         ("SCREAMING_SNAKE_CASE", "ssnake"), ("kebab-case", "kebab"), ("SCREAMING-KEBAB-CASE", "skebab")]
FIELD_IDENTS = ["a", "b1", "my_field", "some_long_name", "x_y_z", "count", "id", "inner_value", "flag2", "the_name"]
VARIANT_IDENTS = ["Alpha", "BetaGamma", "Delta2", "VeryLongVariantName", "X", "HttpError", "Ok2", "IOError", "V2Beta", "HTTPRequest"]
NAMESPACES = [None, None, None, "ns", "com.example", "a.b_c"]


def hx(s):
    return "x" + s.encode().hex()


class T:
    pass


types = []      # dicts: ident, panics, is_union
mentions = {}   # ident -> idents of the types its definition mentions, transitively
last_fields_idents = []  # idents of the fields gen_fields produced last
used_here = []  # named types already mentioned by the definition being generated
cur = {"panics": False, "simple": True}


def ty_expr(depth, allow_named=True, avoid_union=False):
    """returns (rust, sexp, gen-expression taking (rng, depth), is_union)"""
    roll = rnd.random()
    if depth >= 3 or roll < 0.45:
        s = rnd.choice(SCALARS)
        name = {"String": "string"}.get(s, s)
        if s in ("i128", "u128", "u64"):
            # serde's buffered Content (flatten, tagged enums) has no 128-bit integers: such a struct is no flatten target
            cur["simple"] = False
        return s, name, scalar_gen(s), False
    if roll < 0.58:
        r, x, g, u = ty_expr(depth + 1, allow_named, avoid_union=True if rnd.random() < 0.93 else False)
        if u:
            cur["panics"] = True
        return f"Option<{r}>", f"(option {x})", f"if rng.chance(1, 2) {{ Some({g}) }} else {{ None }}", True
    if roll < 0.70:
        r, x, g, u = ty_expr(depth + 1, allow_named)
        return f"Vec<{r}>", f"(vec {x})", f"(0..if depth > 2 {{ 0 }} else {{ rng.below(3) }}).map(|_| {g}).collect()", False
    if roll < 0.78:
        r, x, g, u = ty_expr(depth + 1, allow_named)
        return f"HashMap<String, {r}>", f"(map {x})", f"(0..if depth > 2 {{ 0 }} else {{ rng.below(3) }}).map(|i| (format!(\"k{{i}}\"), {g})).collect()", False
    if roll < 0.82:
        r, x, g, u = ty_expr(depth + 1, allow_named, avoid_union)
        return f"Box<{r}>", f"(boxed {x})", f"Box::new({g})", u
    cands = [t for t in types if not t["panics"] and not (avoid_union and t["is_union"])]
    if not allow_named or not cands:
        s = rnd.choice(SCALARS)
        return s, {"String": "string"}.get(s, s), scalar_gen(s), False
    # bias towards mentioning the same definitions twice (directly or through another type)
    seen = set(used_here)
    for u in used_here:
        seen |= mentions.get(u, set())
    again = [t for t in cands if t["ident"] in seen or (mentions.get(t["ident"], set()) & seen)]
    t = rnd.choice(again) if again and rnd.random() < 0.4 else rnd.choice(cands)
    used_here.append(t["ident"])
    cur["simple"] = False
    return t["ident"], f"(named {hx(t['ident'])})", f"{t['ident']}::make(rng, depth + 1)", t["is_union"]


def scalar_gen(s):
    return {
        "bool": "rng.chance(1, 2)", "i8": "*rng.pick(&[0i8, -1, 127, -128])", "i16": "*rng.pick(&[0i16, -1, i16::MAX, i16::MIN, 8192])",
        "i32": "crate::genr::gen_int(rng)", "i64": "crate::genr::gen_long(rng)", "u8": "*rng.pick(&[0u8, 1, 255, 128])",
        "u16": "*rng.pick(&[0u16, 65535, 8192])", "u32": "*rng.pick(&[0u32, u32::MAX, 1 << 31, 7])",
        "f32": "*rng.pick(&[0.0f32, 1.5, -2.25, f32::MAX])", "f64": "*rng.pick(&[0.0f64, -1.5, 1e300, f64::MIN_POSITIVE])",
        "u64": "*rng.pick(&[0u64, 1, u64::MAX, 1 << 63, 300])", "i128": "*rng.pick(&[0i128, -1, i128::MAX, i128::MIN, 1 << 100])",
        "u128": "*rng.pick(&[0u128, u128::MAX, 1 << 127, 77])",
        "String": "crate::genr::gen_string(rng)", "char": "*rng.pick(&['a', 'é', '日', '\\u{1F600}'])",
    }[s]


def default_json(rust_ty):
    return {"bool": "true", "i8": "1", "i16": "-2", "i32": "42", "i64": "-7", "u8": "3", "u16": "4", "u32": "5", "String": "\"dflt\"", "char": "\"c\""}.get(rust_ty)


def q(s):
    return json.dumps(s)


rename_counter = [0]


def gen_fields(rule, idents, exclude=()):
    fields_rust, fields_sexp, fields_gen = [], [], []
    n = rnd.choice([0, 1, 2, 3, 4, 5])
    used = set()
    last_fields_idents.clear()
    for _ in range(n):
        ident = rnd.choice([i for i in idents if i not in used and i not in exclude] or ["zz"])
        if ident in used or ident in exclude:
            continue
        used.add(ident)
        last_fields_idents.append(ident)
        r, x, g, u = ty_expr(0)
        attrs, rename, skip, default, aliases, doc = [], None, False, None, [], None
        if rnd.random() < 0.12:
            rename_counter[0] += 1
            rename = rnd.choice(["renamed", "otherName", "r_2"]) + str(rename_counter[0])
            attrs.append(f"#[serde(rename = {q(rename)})]")
        if rnd.random() < 0.12:
            skip = True
            attrs.append("#[serde(skip)]")
        if not skip and rnd.random() < 0.2 and default_json(r):
            default = default_json(r)
            attrs.append(f"#[avro(default = {q(default)})]")
        if not skip and rnd.random() < 0.12:
            aliases = ["old_" + ident]
            attrs.append(f"#[serde(alias = {q(aliases[0])})]")
        if rnd.random() < 0.12:
            doc = "field doc \"q\""
            attrs.append(f"#[avro(doc = {q(doc)})]")
        fields_rust.append("".join(f"    {a}\n" for a in attrs) + f"    pub {ident}: {r},")
        dj = "-" if default is None else json_sexp(json.loads(default))
        fields_sexp.append(f"(field {hx(ident)} {x} {hx(rename) if rename else '-'} {int(skip)} {dj} ({' '.join(hx(a) for a in aliases)}) {hx(doc) if doc else '-'} 0)")
        fields_gen.append(f"{ident}: " + ("Default::default()" if skip else g))
    return fields_rust, fields_sexp, fields_gen


def json_sexp(j):
    if j is None:
        return "jnull"
    if j is True:
        return "jtrue"
    if j is False:
        return "jfalse"
    if isinstance(j, int):
        return f"(ji {j})"
    if isinstance(j, str):
        return f"(js {hx(j)})"
    if isinstance(j, list):
        return "(ja" + "".join(" " + json_sexp(x) for x in j) + ")"
    raise ValueError(j)


out = []
descs = []
out.append("""//! GENERATED by tools/gen_c17.py - do not edit.  A corpus of type definitions for C17, each with its
//! description in the model's type-definition language (`DESCS`).
#![allow(non_camel_case_types, non_snake_case, dead_code, clippy::all)]
use crate::rng::Rng;
use apache_avro::AvroSchema;
use serde::{Deserialize, Serialize};
use std::collections::HashMap;

pub trait Make: Sized {
    fn make(rng: &mut Rng, depth: usize) -> Self;
}
""")

for i in range(N):
    if i > 0:
        prev = f"T{i-1}"
        m = set(used_here)
        for u in used_here:
            m |= mentions.get(u, set())
        mentions[prev] = m
    ident = f"T{i}"
    used_here.clear()
    cur["panics"] = False
    cur["simple"] = True
    roll = rnd.random()
    if i % 7 == 3 and i > 20:
        # an enum in one of the other representations (bare union / tag + content / internally tagged)
        repr_kind = ["bare", "untagged", "tagcontent", "tagcontent", "internal"][(i // 7) % 5]
        cattrs = []
        ns = rnd.choice(NAMESPACES)
        if ns:
            cattrs.append(f"#[avro(namespace = {q(ns)})]")
        erule = ("", "none")
        if rnd.random() < 0.3 and repr_kind != "internal":
            erule = rnd.choice([r for r in RULES if "kebab" not in r[1]])
            cattrs.append(f"#[serde(rename_all = {q(erule[0])})]")
        edoc = None
        if rnd.random() < 0.2 and repr_kind != "bare" and repr_kind != "untagged":
            edoc = f"doc of {ident}"
            cattrs.append(f"#[avro(doc = {q(edoc)})]")
        name = ".".join(x for x in [ns, ident] if x)
        structs = [t for t in types if t.get("kind") == "struct" and not t["panics"] and t.get("simple")]
        vr, vs, vg = [], [], []
        aux_rust, aux_desc = "", None

        def scalar_payload(kind):
            r = {"int": "i32", "long": "i64", "bool": "bool", "float": "f32", "double": "f64", "string": "String"}[kind]
            return r, {"String": "string"}.get(r, r), scalar_gen(r)

        if repr_kind in ("bare", "untagged"):
            cattrs.append('#[avro(repr = "bare_union")]')
            if repr_kind == "untagged":
                cattrs.append("#[serde(untagged)]")
            sexp_repr = "bare"
            kinds = ["unit", "int", "bool", "double", "string"] if repr_kind == "untagged" else ["unit", "int", "long", "bool", "float", "double", "string", "array", "map", "struct", "tuple", "fields"]
            if repr_kind == "untagged":
                chosen = [k for k in kinds if rnd.random() < 0.7] or ["int"]
                if rnd.random() < 0.5:
                    chosen.append("tuple")
            else:
                chosen = [k for k in kinds if rnd.random() < 0.45] or ["long"]
                rnd.shuffle(chosen)
            # (derive(Default) needs a unit variant: it comes first)
            chosen = ["unit"] + [k for k in chosen if k != "unit"]
            for k, kind in enumerate(chosen):
                vid = VARIANT_IDENTS[k % len(VARIANT_IDENTS)] + (str(k) if k >= len(VARIANT_IDENTS) else "")
                attrs = ["#[default]"] if k == 0 else []
                if kind == "unit":
                    vr.append("".join(f"    {a}\n" for a in attrs) + f"    {vid},"); shape = "unit"; g = f"{ident}::{vid}"
                elif kind in ("int", "long", "bool", "float", "double", "string"):
                    r, x, gg = scalar_payload(kind)
                    vr.append("".join(f"    {a}\n" for a in attrs) + f"    {vid}({r}),"); shape = f"(tuple {x})"; g = f"{ident}::{vid}({gg})"
                elif kind == "array":
                    vr.append("".join(f"    {a}\n" for a in attrs) + f"    {vid}(Vec<i64>),"); shape = "(tuple (vec i64))"
                    g = f"{ident}::{vid}((0..rng.below(3)).map(|_| crate::genr::gen_long(rng)).collect())"
                elif kind == "map":
                    vr.append("".join(f"    {a}\n" for a in attrs) + f"    {vid}(HashMap<String, bool>),"); shape = "(tuple (map bool))"
                    g = f"{ident}::{vid}((0..rng.below(3)).map(|i| (format!(\"k{{i}}\"), rng.chance(1, 2))).collect())"
                elif kind == "struct" and structs:
                    t = rnd.choice(structs); used_here.append(t["ident"])
                    vr.append("".join(f"    {a}\n" for a in attrs) + f"    {vid}({t['ident']}),"); shape = f"(tuple (named {hx(t['ident'])}))"
                    g = f"{ident}::{vid}({t['ident']}::make(rng, depth + 1))"
                elif kind == "tuple":
                    vr.append("".join(f"    {a}\n" for a in attrs) + f"    {vid}(bool, f64),"); shape = "(tuple bool f64)"
                    g = f"{ident}::{vid}(rng.chance(1, 2), *rng.pick(&[0.0f64, 2.5, -1.0]))"
                else:
                    vr.append("".join(f"    {a}\n" for a in attrs) + f"    {vid} {{ first_part: i64, second: String, third: bool }},")
                    shape = f"(struct (field {hx('first_part')} i64 - 0 - () - 0) (field {hx('second')} string - 0 - () - 0) (field {hx('third')} bool - 0 - () - 0))"
                    g = f"{ident}::{vid} {{ first_part: crate::genr::gen_long(rng), second: crate::genr::gen_string(rng), third: rng.chance(1, 2) }}"
                vs.append(f"(var {hx(vid)} - 0 {int(k == 0)} none {shape})")
                vg.append(g)
        elif repr_kind == "tagcontent":
            tag, content = rnd.choice([("kind", "value"), ("t", "c"), ("type", "payload")])
            tag = tag + str(i)
            cattrs.append(f"#[serde(tag = {q(tag)}, content = {q(content)})]")
            sexp_repr = f"(tagcontent {hx(tag)} {hx(content)})"
            kinds = ["unit", "int", "int", "long", "bool", "double", "string", "string", "array", "map", "struct", "struct", "tuple", "fields", "unit"]
            chosen = [k for k in kinds if rnd.random() < 0.4] or ["int"]
            rnd.shuffle(chosen)
            chosen = ["unit"] + chosen
            seen_coll = set()
            for k, kind in enumerate(chosen):
                if kind in ("array", "map"):
                    if kind in seen_coll:
                        kind = "bool"
                    seen_coll.add(kind)
                vid = VARIANT_IDENTS[k % len(VARIANT_IDENTS)] + (str(k) if k >= len(VARIANT_IDENTS) else "")
                attrs = ["#[default]"] if k == 0 else []
                vskip = k > 0 and rnd.random() < 0.06
                if vskip:
                    attrs.append("#[serde(skip)]")
                if kind == "unit":
                    vr.append("".join(f"    {a}\n" for a in attrs) + f"    {vid},"); shape = "unit"; g = f"{ident}::{vid}"
                elif kind in ("int", "long", "bool", "float", "double", "string"):
                    r, x, gg = scalar_payload(kind)
                    vr.append("".join(f"    {a}\n" for a in attrs) + f"    {vid}({r}),"); shape = f"(tuple {x})"; g = f"{ident}::{vid}({gg})"
                elif kind == "array":
                    vr.append("".join(f"    {a}\n" for a in attrs) + f"    {vid}(Vec<i64>),"); shape = "(tuple (vec i64))"
                    g = f"{ident}::{vid}((0..rng.below(3)).map(|_| crate::genr::gen_long(rng)).collect())"
                elif kind == "map":
                    vr.append("".join(f"    {a}\n" for a in attrs) + f"    {vid}(HashMap<String, bool>),"); shape = "(tuple (map bool))"
                    g = f"{ident}::{vid}((0..rng.below(3)).map(|i| (format!(\"k{{i}}\"), rng.chance(1, 2))).collect())"
                elif kind == "struct" and structs:
                    t = rnd.choice(structs); used_here.append(t["ident"])
                    vr.append("".join(f"    {a}\n" for a in attrs) + f"    {vid}({t['ident']}),"); shape = f"(tuple (named {hx(t['ident'])}))"
                    g = f"{ident}::{vid}({t['ident']}::make(rng, depth + 1))"
                elif kind == "tuple":
                    vr.append("".join(f"    {a}\n" for a in attrs) + f"    {vid}(i32, String),"); shape = "(tuple i32 string)"
                    g = f"{ident}::{vid}(crate::genr::gen_int(rng), crate::genr::gen_string(rng))"
                else:
                    vr.append("".join(f"    {a}\n" for a in attrs) + f"    {vid} {{ first_part: i64, second: bool }},")
                    shape = f"(struct (field {hx('first_part')} i64 - 0 - () - 0) (field {hx('second')} bool - 0 - () - 0))"
                    g = f"{ident}::{vid} {{ first_part: crate::genr::gen_long(rng), second: rng.chance(1, 2) }}"
                vs.append(f"(var {hx(vid)} - {int(vskip)} {int(k == 0)} none {shape})")
                if not vskip:
                    vg.append(g)
        else:
            tag = rnd.choice(["type", "kind"]) + str(i)
            cattrs.append(f"#[serde(tag = {q(tag)})]")
            sexp_repr = f"(internal {hx(tag)})"
            # an auxiliary struct whose fields all have defaults, for a newtype variant
            aux = f"{ident}Aux"
            aux_rust = ("#[derive(Serialize, Deserialize, AvroSchema, Debug, Clone, PartialEq, Default)]\n" +
                        f"pub struct {aux} {{\n    pub aux_x: Option<i32>,\n    #[avro(default = \"7\")]\n    pub aux_y: i64,\n}}\n" +
                        f"impl Make for {aux} {{\n    fn make(rng: &mut Rng, depth: usize) -> Self {{\n        let _ = depth;\n        {aux} {{ aux_x: if rng.chance(1, 2) {{ Some(crate::genr::gen_int(rng)) }} else {{ None }}, aux_y: crate::genr::gen_long(rng) }}\n    }}\n}}\n")
            aux_desc = (aux, f"(struct {hx(aux)} {hx(aux)} - () none (fields (field {hx('aux_x')} (option i32) - 0 - () - 0) (field {hx('aux_y')} i64 - 0 (ji 7) () - 0)))")
            shapes = ["unit", "fields1", "newtype", "fields2", "unit"]
            chosen = [k for k in shapes if rnd.random() < 0.6] or ["fields1"]
            seen = set()
            chosen = ["unit"] + [k for k in chosen if k == "unit" or not (k in seen or seen.add(k))]
            for k, kind in enumerate(chosen):
                vid = VARIANT_IDENTS[k % len(VARIANT_IDENTS)]
                attrs = ["#[default]"] if k == 0 else []
                if kind == "unit":
                    vr.append("".join(f"    {a}\n" for a in attrs) + f"    {vid},"); shape = "unit"; g = f"{ident}::{vid}"
                elif kind == "newtype":
                    vr.append("".join(f"    {a}\n" for a in attrs) + f"    {vid}({aux}),"); shape = f"(tuple (named {hx(aux)}))"
                    g = f"{ident}::{vid}({aux}::make(rng, depth + 1))"
                elif kind == "fields1":
                    vr.append("".join(f"    {a}\n" for a in attrs) + f"    {vid} {{\n        #[avro(default = \"0\")]\n        dx: i32,\n        note: Option<String>,\n    }},")
                    shape = f"(struct (field {hx('dx')} i32 - 0 (ji 0) () - 0) (field {hx('note')} (option string) - 0 - () - 0))"
                    g = f"{ident}::{vid} {{ dx: crate::genr::gen_int(rng), note: if rng.chance(1, 2) {{ Some(crate::genr::gen_string(rng)) }} else {{ None }} }}"
                else:
                    vr.append("".join(f"    {a}\n" for a in attrs) + f"    {vid} {{\n        #[avro(default = \"true\")]\n        flag_two: bool,\n        amounts: Option<Vec<i64>>,\n    }},")
                    shape = f"(struct (field {hx('flag_two')} bool - 0 jtrue () - 0) (field {hx('amounts')} (option (vec i64)) - 0 - () - 0))"
                    g = f"{ident}::{vid} {{ flag_two: rng.chance(1, 2), amounts: if rng.chance(1, 2) {{ Some(vec![crate::genr::gen_long(rng)]) }} else {{ None }} }}"
                vs.append(f"(var {hx(vid)} - 0 {int(k == 0)} none {shape})")
                vg.append(g)
        if aux_desc:
            out.append(aux_rust)
            descs.append(aux_desc[1])
            types.append({"ident": aux_desc[0], "panics": False, "is_union": False, "kind": "struct", "simple": True, "idents": ["aux_x", "aux_y"]})
        out.append("#[derive(Serialize, Deserialize, AvroSchema, Debug, Clone, PartialEq, Default)]\n" + "".join(c + "\n" for c in cattrs) +
                   f"pub enum {ident} {{\n" + "\n".join(vr) + "\n}\n" +
                   f"impl Make for {ident} {{\n    fn make(rng: &mut Rng, depth: usize) -> Self {{\n        let _ = depth;\n        match rng.below({len(vg)}) {{\n" +
                   "".join(f"            {k} => {g},\n" for k, g in enumerate(vg[:-1])) + f"            _ => {vg[-1]},\n        }}\n    }}\n}}\n")
        descs.append(f"(enumrepr {sexp_repr} {hx(ident)} {hx(name)} {hx(edoc) if edoc else '-'} () {erule[1]} none (variants {' '.join(vs)}))")
        types.append({"ident": ident, "panics": False, "is_union": repr_kind in ("bare", "untagged"), "kind": "enumrepr"})
        continue
    if i % 9 == 4:
        # #[serde(transparent)]: no other container attribute is allowed
        r, x, g, u = ty_expr(0)
        with_cache = rnd.random() < 0.4
        dflt = default_json(r) if rnd.random() < 0.3 else None
        attr = f"    #[avro(default = {q(dflt)})]\n" if dflt else ""
        out.append("#[derive(Serialize, Deserialize, AvroSchema, Debug, Clone, PartialEq, Default)]\n#[serde(transparent)]\n" +
                   f"pub struct {ident} {{\n{attr}    pub inner: {r},\n" + ("    #[serde(skip)]\n    pub cache: i32,\n" if with_cache else "") + "}\n" +
                   f"impl Make for {ident} {{\n    fn make(rng: &mut Rng, depth: usize) -> Self {{\n        let _ = (&rng, depth);\n        {ident} {{ inner: {g}" +
                   (", cache: 0" if with_cache else "") + " }\n    }\n}\n")
        dj = "-" if dflt is None else json_sexp(json.loads(dflt))
        fsx = [f"(field {hx('inner')} {x} - 0 {dj} () - 0)"] + ([f"(field {hx('cache')} i32 - 1 - () - 0)"] if with_cache else [])
        descs.append(f"(transparent {hx(ident)} (fields {' '.join(fsx)}))")
        types.append({"ident": ident, "panics": cur["panics"], "is_union": u, "kind": "transparent"})
        continue
    container = []
    ns = rnd.choice(NAMESPACES)
    rename = None
    doc = None
    aliases = []
    rule = ("", "none")
    if ns:
        container.append(f"#[avro(namespace = {q(ns)})]")
    if rnd.random() < 0.1:
        rename = f"Renamed{i}"
        container.append(f"#[serde(rename = {q(rename)})]")
    if rnd.random() < 0.15:
        doc = f"doc of {ident}"
        container.append(f"#[avro(doc = {q(doc)})]")
    if rnd.random() < 0.15:
        aliases = [f"Old{i}", f"x.y.Older{i}"][: rnd.choice([1, 2])]
        container += [f"#[avro(alias = {q(a)})]" for a in aliases]
    if rnd.random() < 0.3:
        rule = rnd.choice(RULES)
        container.append(f"#[serde(rename_all = {q(rule[0])})]")
    name = ".".join(x for x in [ns, rename or ident] if x)
    hdr = "#[derive(Serialize, Deserialize, AvroSchema, Debug, Clone, PartialEq, Default)]\n" + "".join(c + "\n" for c in container)
    if i == 0:
        # a recursive type, by hand
        out.append("""#[derive(Serialize, Deserialize, AvroSchema, Debug, Clone, PartialEq, Default)]
pub struct T0 {
    pub v: i32,
    pub kids: Vec<T0>,
    pub next: Option<Box<T0>>,
}
impl Make for T0 {
    fn make(rng: &mut Rng, depth: usize) -> Self {
        T0 { v: crate::genr::gen_int(rng), kids: (0..if depth > 1 { 0 } else { rng.below(3) }).map(|_| T0::make(rng, depth + 1)).collect(),
             next: if depth < 2 && rng.chance(1, 2) { Some(Box::new(T0::make(rng, depth + 1))) } else { None } }
    }
}
""")
        descs.append(f"(struct {hx('T0')} {hx('T0')} - () none (fields (field {hx('v')} i32 - 0 - () - 0) (field {hx('kids')} (vec (named {hx('T0')})) - 0 - () - 0) (field {hx('next')} (option (boxed (named {hx('T0')}))) - 0 - () - 0)))")
        types.append({"ident": "T0", "panics": False, "is_union": False})
        continue
    if roll < 0.65:
        flat = None
        targets = [t for t in types if t.get("simple") and t.get("kind") == "struct"]
        if targets and rnd.random() < 0.3:
            flat = rnd.choice(targets)
        fr, fs, fg = gen_fields(rule, FIELD_IDENTS, exclude=flat["idents"] if flat else ())
        my_idents = list(last_fields_idents)
        if flat:
            pos = rnd.randrange(len(fr) + 1)
            fid = "flat_part"
            fr.insert(pos, f"    #[serde(flatten)]\n    pub {fid}: {flat['ident']},")
            fs.insert(pos, f"(field {hx(fid)} (named {hx(flat['ident'])}) - 0 - () - 1)")
            fg.insert(pos, f"{fid}: {flat['ident']}::make(rng, depth + 1)")
            used_here.append(flat["ident"])
            cur["simple"] = False
        out.append(hdr + f"pub struct {ident} {{\n" + "\n".join(fr) + "\n}\n" +
                   f"impl Make for {ident} {{\n    fn make(rng: &mut Rng, depth: usize) -> Self {{\n        let _ = (&rng, depth);\n        {ident} {{ " + ", ".join(fg) + " }\n    }\n}\n")
        descs.append(f"(struct {hx(ident)} {hx(name)} {hx(doc) if doc else '-'} ({' '.join(hx(a) for a in aliases)}) {rule[1]} (fields {' '.join(fs)}))")
        types.append({"ident": ident, "panics": cur["panics"], "is_union": False, "kind": "struct",
                      "simple": cur["simple"] and "kebab" not in rule[1] and not flat, "idents": my_idents})
    else:
        data = roll > 0.80
        nv = rnd.choice([1, 2, 3, 4])
        rulef = ("", "none")
        if data and rnd.random() < 0.4:
            rulef = rnd.choice(RULES)
            hdr += f"#[serde(rename_all_fields = {q(rulef[0])})]\n"
        vr, vs, vg, vmeta = [], [], [], []
        used = set()
        for k in range(nv):
            vid = rnd.choice([v for v in VARIANT_IDENTS if v not in used])
            used.add(vid)
            attrs = []
            vrename = None
            if k == 0:
                attrs.append("#[default]")
            if rnd.random() < 0.1:
                vrename = f"Ren{k}"
                attrs.append(f"#[serde(rename = {q(vrename)})]")
            shape = "unit"
            rust_shape = ""
            g = f"{ident}::{vid}"
            vrule = ("", "none")
            vskip = k > 0 and rnd.random() < 0.08
            if vskip:
                attrs.append("#[serde(skip)]")
            if data and k > 0:
                sr = rnd.random()
                if sr < 0.4:
                    r, x, gg, u = ty_expr(1, avoid_union=False)
                    shape = f"(tuple {x})"
                    rust_shape = f"({r})"
                    g = f"{ident}::{vid}({gg})"
                elif sr < 0.6:
                    r1, x1, g1, _ = ty_expr(1)
                    r2, x2, g2, _ = ty_expr(2)
                    shape = f"(tuple {x1} {x2})"
                    rust_shape = f"({r1}, {r2})"
                    g = f"{ident}::{vid}({g1}, {g2})"
                elif sr < 0.9:
                    if rnd.random() < (0.6 if rulef[1] != "none" else 0.25):
                        vrule = rnd.choice([r for r in RULES if r != rulef])
                        attrs.append(f"#[serde(rename_all = {q(vrule[0])})]")
                    fr, fs, fg = gen_fields(vrule if vrule[1] != "none" else rulef, ["p", "q_r", "s", "long_one", "two_words_here"])
                    # no skipped fields in variants (keeps the value generator simple)
                    if any(" 1 " in f.split(")")[-2] if False else False for f in fs):
                        pass
                    shape = "(struct " + " ".join(fs) + ")"
                    rust_shape = " {\n" + "\n".join("    " + l.replace("pub ", "") for l in "\n".join(fr).split("\n")) + "\n    }"
                    g = f"{ident}::{vid} {{ " + ", ".join(fg) + " }"
            vr.append("".join(f"    {a}\n" for a in attrs) + f"    {vid}{rust_shape},")
            vs.append(f"(var {hx(vid)} {hx(vrename) if vrename else '-'} {int(vskip)} {int(k == 0)} {vrule[1]} {shape})")
            vmeta.append((vskip, shape != "unit"))
            if not vskip:
                vg.append(g)
        is_union = any(d and not sk for sk, d in vmeta)
        out.append(hdr + f"pub enum {ident} {{\n" + "\n".join(vr) + "\n}\n" +
                   f"impl Make for {ident} {{\n    fn make(rng: &mut Rng, depth: usize) -> Self {{\n        let _ = depth;\n        match rng.below({len(vg)}) {{\n" +
                   "".join(f"            {k} => {g},\n" for k, g in enumerate(vg[:-1])) + f"            _ => {vg[-1]},\n        }}\n    }}\n}}\n")
        descs.append(f"(enum {hx(ident)} {hx(name)} {hx(doc) if doc else '-'} ({' '.join(hx(a) for a in aliases)}) {rule[1]} {rulef[1]} (variants {' '.join(vs)}))")
        types.append({"ident": ident, "panics": cur["panics"], "is_union": is_union})

    pass
# A fixed matrix, independent of the random stream: every ordered pair (enum level rename_all_fields, variant level
# rename_all) of distinct non-kebab rules on struct variants with multi-word fields, plus a variant without its own rule.
MROWS = [r for r in RULES if "kebab" not in r[1]]
MFIELDS = [("two_words_here", "i32"), ("q_r", "String"), ("long_one", "i64")]
for k, rulef in enumerate(MROWS):
    ident = f"M{k}"
    vr, vs, vg = ["    #[default]\n    Alpha,"], [f"(var {hx('Alpha')} - 0 1 none unit)"], [f"{ident}::Alpha"]
    for j, vrule in enumerate(MROWS + [("", "none")]):
        if vrule == rulef:
            continue
        vid = VARIANT_IDENTS[1 + j] if j + 1 < len(VARIANT_IDENTS) else f"W{j}"
        attr = f"    #[serde(rename_all = {q(vrule[0])})]\n" if vrule[1] != "none" else ""
        vr.append(attr + f"    {vid} {{ " + ", ".join(f"{f}: {t}" for f, t in MFIELDS) + " },")
        vs.append(f"(var {hx(vid)} - 0 0 {vrule[1]} (struct " +
                  " ".join(f"(field {hx(f)} {({'String': 'string'}).get(t, t)} - 0 - () - 0)" for f, t in MFIELDS) + "))")
        vg.append(f"{ident}::{vid} {{ " + ", ".join(f"{f}: {scalar_gen(t)}" for f, t in MFIELDS) + " }")
    out.append("#[derive(Serialize, Deserialize, AvroSchema, Debug, Clone, PartialEq, Default)]\n" +
               f"#[serde(rename_all_fields = {q(rulef[0])})]\npub enum {ident} {{\n" + "\n".join(vr) + "\n}\n" +
               f"impl Make for {ident} {{\n    fn make(rng: &mut Rng, depth: usize) -> Self {{\n        let _ = depth;\n        match rng.below({len(vg)}) {{\n" +
               "".join(f"            {n} => {g},\n" for n, g in enumerate(vg[:-1])) + f"            _ => {vg[-1]},\n        }}\n    }}\n}}\n")
    descs.append(f"(enum {hx(ident)} {hx(ident)} - () none {rulef[1]} (variants {' '.join(vs)}))")
    types.append({"ident": ident, "panics": False, "is_union": True})

out.append("pub const DESCS: &[(&str, &str)] = &[\n" + "".join(f"    ({q(t['ident'])}, {q(d)}),\n" for t, d in zip(types, descs)) + "];\n")
out.append("#[macro_export]\nmacro_rules! for_each_c17_type {\n    ($m:ident) => {\n" + "".join(f"        $m!({t['ident']});\n" for t in types) + "    };\n}\n")
print("\n".join(out))
