#!/bin/bash
# Second pass over the property-preserving changes: each patch is also run against the checks of the OTHER properties
# anchored in the files it touches.  usage: tools/check_benign_cross.sh <dir with *.diff>
set -u
cd /verif
dir=$1
if [ -n "$(git -C /repo status --porcelain)" ]; then echo "/repo is not clean"; exit 2; fi
alarms=0
for f in $dir/*.diff; do
  name=$(basename $f .diff); id=${name:0:3}
  files=$(grep '^+++ b/' $f | sed 's#^+++ b/##')
  ids=""
  for x in $files; do
    case $x in
      avro/src/util.rs|avro/src/decode.rs|avro/src/encode.rs|avro/src/bigdecimal.rs) ids="$ids C01 C02 C05 C06 C07";;
      avro/src/types.rs) ids="$ids C01 C06 C07 C08 C09";;
      avro/src/writer/mod.rs|avro/src/reader/*|avro/src/codec.rs) ids="$ids C03 C04 C14 C15";;
      avro/src/serde/derive.rs|avro_derive/*) ids="$ids C17";;
      avro/src/serde/*) ids="$ids C16 C02";;
      avro/src/schema_compatibility.rs) ids="$ids C09";;
      avro/src/schema/union.rs) ids="$ids C07 C08 C11";;
      avro/src/schema/*|avro/src/validator.rs) ids="$ids C10 C11 C12 C20";;
      avro/src/rabin.rs|avro/src/headers.rs|avro/src/writer/single_object.rs) ids="$ids C18 C12 C07";;
    esac
  done
  ids=$(echo $ids | tr ' ' '\n' | sort -u | grep -v -x -e "$id" -e C13 -e C18 -e C19 | tr '\n' ' ')
  [ -z "$ids" ] && continue
  git -C /repo apply $f || { echo "SKIP $name"; continue; }
  for c in $ids; do
    out=$(./check $c --tier quick 2>&1 | grep -v "^KNOWN" | tail -1 | cut -c1-150)
    case "$out" in
      OK*) echo "quiet  $name [$c]";;
      *) echo "ALARM  $name [$c]: $out"; alarms=$((alarms+1)); r=$(echo "$out" | sed -n 's/.*replay=\([^ ]*\).*/\1/p'); cp -f "$r" /tmp/benign_alarm_${name}_$c.json 2>/dev/null;;
    esac
  done
  git -C /repo checkout -- .
done
echo "alarms: $alarms"
