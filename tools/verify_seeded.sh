#!/bin/bash
# Independent confirmation of the seeded changes (DESIGN.md "seeded changes"): for each seeded/<id>:
# in a scratch worktree of /repo: apply the patch, run the 775-test suite (must pass), run the demo
# (must FAIL), revert the patch, run the demo (must PASS).  Writes seeded/<id>/verification.txt.
set -u
ROOT=/verif
WT=/tmp/wt/verify
export CARGO_NET_OFFLINE=true
git -C /repo worktree remove --force $WT 2>/dev/null
git -C /repo worktree add -q --detach $WT HEAD || exit 1
export CARGO_TARGET_DIR=$WT/target
for d in "$@"; do
  name=$(basename $d)
  out=$ROOT/seeded/$name/verification.txt
  {
    echo "seeded change $name verified on $(git -C /repo rev-parse --short HEAD) at $(date -u +%FT%TZ)"
    # seeded/<id>/demo_target (optional): "<crate dir> <package>" when the demo belongs to another crate than avro
    dir=avro; pkg=apache-avro
    if [ -f $ROOT/seeded/$name/demo_target ]; then read dir pkg < $ROOT/seeded/$name/demo_target; fi
    cd $WT && git checkout -q -- . && rm -f avro/tests/zz_mutation_demo.rs avro_derive/tests/zz_mutation_demo.rs
    if ! git apply $ROOT/seeded/$name/patch.diff; then echo "PATCH DOES NOT APPLY"; continue; fi
    echo "--- suite with the change:"
    cargo nextest run --workspace --no-fail-fast --offline 2>&1 | grep -E "Summary|FAIL " | head -5
    cp $ROOT/seeded/$name/demo.rs $dir/tests/zz_mutation_demo.rs
    echo "--- demo with the change (expected: FAILED):"
    cargo test -p $pkg --test zz_mutation_demo --offline 2>&1 | grep -E "^test result|error\[" | head -3
    git checkout -q -- avro avro_derive
    echo "--- demo without the change (expected: ok):"
    cargo test -p $pkg --test zz_mutation_demo --offline 2>&1 | grep -E "^test result|error\[" | head -3
    rm -f $dir/tests/zz_mutation_demo.rs
  } > $out 2>&1
done
cd / ; git -C /repo worktree remove --force $WT
