#!/usr/bin/env python3
"""Developer tool (never run by a check): re-pin the statement hashes of the property theorems
into proofs.json after a deliberate change.  usage: tools/pin.py [ID ...]"""
import sys, json, os
ROOT = os.path.dirname(os.path.dirname(os.path.abspath(__file__)))
sys.path.insert(0, ROOT)
import importlib.machinery, importlib.util
loader = importlib.machinery.SourceFileLoader('check_mod', os.path.join(ROOT, 'check'))
spec = importlib.util.spec_from_loader('check_mod', loader)
m = importlib.util.module_from_spec(spec); loader.exec_module(m)
path = os.path.join(ROOT, 'proofs.json')
pins = json.load(open(path)) if os.path.exists(path) else {}
ids = sys.argv[1:] or sorted(m.PROPS)
for pid in ids:
    cfg = m.PROPS[pid]
    ok, out = m.lake_build(cfg['lean_modules'])
    if not ok:
        print(out[-2000:]); sys.exit(1)
    res, _ = m.audit_theorems(pid, cfg['theorems'], cfg['lean_modules'])
    for r in res:
        if r['statement_sha'] is None:
            print('MISSING', r['name'], r.get('why')); continue
        flag = '' if pins.get(r['name']) == r['statement_sha'] else '  (re-pinned)'
        print(r['name'], r['statement_sha'], r['axioms'], flag)
        pins[r['name']] = r['statement_sha']
json.dump(pins, open(path, 'w'), indent=1, sort_keys=True)
