#!/bin/bash
# Property-preserving changes (DESIGN.md 9.7): apply each patch to /repo, run the quick check of the property it was
# written against plus the checks with translator-fed obligations (C13, C18, C19), undo.  Every line should say OK.
# usage: tools/check_benign.sh <dir with *.diff> [extra property ids...]
set -u
cd /verif
dir=$1; shift
extra="$*"
if [ -n "$(git -C /repo status --porcelain)" ]; then echo "/repo is not clean"; exit 2; fi
alarms=0
for f in $dir/*.diff; do
  name=$(basename $f .diff); id=${name:0:3}
  if ! git -C /repo apply --check $f 2>/dev/null; then echo "SKIP   $name (patch does not apply)"; continue; fi
  git -C /repo apply $f
  for c in $(echo $id C13 C18 C19 $extra | tr ' ' '\n' | sort -u); do
    out=$(./check $c --tier quick 2>&1 | grep -v "^KNOWN" | tail -1 | cut -c1-150)
    case "$out" in
      OK*) echo "quiet  $name [$c]";;
      *) echo "ALARM  $name [$c]: $out"; alarms=$((alarms+1)); cp -f replays/$c-1-1.json /tmp/benign_alarm_${name}_$c.json 2>/dev/null;;
    esac
  done
  git -C /repo checkout -- .
done
echo "alarms: $alarms"
