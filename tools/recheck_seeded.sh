#!/bin/bash
# Re-run every seeded change against the check of its property on /repo itself: apply the patch, run the quick
# check (must report a VIOLATION), undo the patch.  Prints one line per seeded change; leaves /repo clean.
# (The evidence files are overwritten by these runs: re-run the checks on the unchanged tree afterwards.)
set -u
cd /verif
if [ -n "$(git -C /repo status --porcelain)" ]; then echo "/repo is not clean"; exit 2; fi
missed=0
for d in ${@:-seeded/*/}; do
  d=${d%/}
  name=$(basename $d)
  id=${name:0:3}; [ -f $d/check_with ] && id=$(cat $d/check_with)
  if ! git -C /repo apply --check $PWD/$d/patch.diff 2>/dev/null; then echo "SKIP   $name (patch does not apply to the current tree)"; continue; fi
  git -C /repo apply $PWD/$d/patch.diff
  out=$(./check $id --tier quick 2>&1 | grep -v "^KNOWN" | tail -1 | cut -c1-160)
  git -C /repo checkout -- .
  case "$out" in
    VIOLATION*no-failing-input-found) echo "CAUGHT(no input) $name: $out";;
    VIOLATION*) echo "CAUGHT $name: $out";;
    *) echo "MISSED $name: $out"; missed=$((missed+1));;
  esac
done
echo "missed: $missed"
