import AvroModel
/-!
# C10 — schema → JSON → schema

Proved: the serializer's output is strict JSON (no object repeats a key) for every schema whose
custom attributes sit where the parser puts them (`wfA`; the parser's attribute filters establish
it, see `customAttrs_ok` / `fieldAttrs_ok`); names survive the round trip through their JSON spelling
when they carry a namespace, and change when they do not but the enclosing type does (the open
finding `C10.null-namespace-inherits`, stated here as a theorem about every such name).
The full round trip `parse (toJson s) = s` is decided by the correspondence run and the oracle,
not by a theorem.
-/
namespace Avro.C10
open Avro

/-- the keys of a custom-attribute map are pairwise distinct and avoid `excl` -/
def keysOk (excl : List Bytes) (a : Attrs) : Bool :=
  decide (a.map Prod.fst).Nodup && a.all (fun kv => !excl.contains kv.1)

def fixedKeys : List Bytes := [b!"type", b!"namespace", b!"name", b!"doc", b!"size", b!"aliases"]
def recordKeys : List Bytes := [b!"type", b!"namespace", b!"name", b!"doc", b!"aliases", b!"fields"]
def enumKeys : List Bytes := [b!"type", b!"namespace", b!"name", b!"symbols", b!"aliases", b!"default", b!"doc"]
def fieldKeys : List Bytes := [b!"name", b!"type", b!"default", b!"doc", b!"aliases"]

mutual
/-- custom attributes never carry the name of a key the serializer writes for that node -/
def wfA : PSchema → Bool
  | .array s a => keysOk [b!"type", b!"items"] a && wfA s
  | .map s a => keysOk [b!"type", b!"values"] a && wfA s
  | .union bs => wfAList bs
  | .record _ _ _ fields a => keysOk recordKeys a && wfAFields fields
  | .enum _ _ _ _ _ a => keysOk enumKeys a
  | .fixed f => keysOk fixedKeys f.attrs
  | .uuidFixed f => keysOk (b!"logicalType" :: fixedKeys) f.attrs
  | .duration f => keysOk (b!"logicalType" :: fixedKeys) f.attrs
  | .decimal _ _ (some f) => keysOk (b!"logicalType" :: fixedKeys) f.attrs
  | _ => true
def wfAList : List PSchema → Bool
  | [] => true
  | s :: rest => wfA s && wfAList rest
def wfAFields : List (FieldHdr × PSchema) → Bool
  | [] => true
  | (h, s) :: rest => keysOk fieldKeys h.attrs && wfA s && wfAFields rest
end

/-! ### the parser's filters establish `keysOk` -/

theorem filter_keysOk (kvs : List (Bytes × Json)) (hk : (kvs.map Prod.fst).Nodup) (excl : List Bytes)
    (p : Bytes × Json → Bool) (hp : ∀ kv, p kv = true → excl.contains kv.1 = false) :
    keysOk excl (kvs.filter p) = true := by
  unfold keysOk
  simp only [Bool.and_eq_true, decide_eq_true_eq, List.all_eq_true]
  refine ⟨?_, ?_⟩
  · exact (List.Sublist.map Prod.fst (List.filter_sublist (l := kvs))).nodup hk
  · intro kv hkv
    have := hp kv (List.mem_filter.mp hkv).2
    rw [this]; rfl

/-- `get_custom_attributes` on an object with distinct keys: the result avoids the structural keys -/
theorem customAttrs_ok (kvs : List (Bytes × Json)) (hk : (kvs.map Prod.fst).Nodup) (excluded : List Bytes) :
    keysOk ([b!"type", b!"name", b!"namespace", b!"doc", b!"aliases", b!"logicalType"] ++ excluded)
      (customAttrs kvs excluded) = true := by
  unfold customAttrs
  apply filter_keysOk kvs hk
  intro kv h
  simp only [Bool.and_eq_true, Bool.not_eq_true'] at h
  simp only [List.contains_append, Bool.or_eq_false_iff]
  exact ⟨h.1, h.2⟩

theorem fieldAttrs_ok (kvs : List (Bytes × Json)) (hk : (kvs.map Prod.fst).Nodup) :
    keysOk [b!"type", b!"name", b!"doc", b!"default", b!"aliases"] (fieldAttrs kvs) = true := by
  unfold fieldAttrs
  apply filter_keysOk kvs hk
  intro kv h
  simpa using h

/-! ### strictness -/

theorem attrsOut_keys (a : Attrs) : (attrsOut a).map Prod.fst = a.map Prod.fst := by
  unfold attrsOut; simp [List.map_map, Function.comp_def]

theorem strictEntries_attrs (a : Attrs) : strictEntries (attrsOut a) = true := by
  unfold attrsOut
  induction a with
  | nil => rfl
  | cons kv rest ih => simp only [List.map_cons, strictEntries, JOut.strict, ih, Bool.and_self]

theorem strictEntries_append (xs ys : List (Bytes × JOut)) :
    strictEntries (xs ++ ys) = (strictEntries xs && strictEntries ys) := by
  induction xs with
  | nil => simp [strictEntries]
  | cons x rest ih => obtain ⟨k, v⟩ := x; simp [strictEntries, ih, Bool.and_assoc]

/-- the keys of `fixed ++ attrs` are distinct when the fixed part's keys are distinct and in `excl`
and the attributes avoid `excl` -/
theorem nodup_with_attrs (fixedPart : List (Bytes × JOut)) (excl : List Bytes) (a : Attrs)
    (hf : (fixedPart.map Prod.fst).Nodup) (hsub : ∀ k ∈ fixedPart.map Prod.fst, k ∈ excl)
    (ha : keysOk excl a = true) : ((fixedPart ++ attrsOut a).map Prod.fst).Nodup := by
  unfold keysOk at ha
  simp only [Bool.and_eq_true, decide_eq_true_eq, List.all_eq_true] at ha
  rw [List.map_append, attrsOut_keys]
  refine List.nodup_append.mpr ⟨hf, ha.1, ?_⟩
  intro k hk k' hk' heq
  subst heq
  obtain ⟨kv, hkv, rfl⟩ := List.mem_map.mp hk'
  have := ha.2 kv hkv
  have hin := hsub kv.1 hk
  simp at this
  exact this hin

theorem strictList_strs (xs : List Bytes) : strictList (xs.map JOut.str) = true := by
  induction xs with
  | nil => rfl
  | cons x rest ih => simp only [List.map_cons, strictList, JOut.strict, ih, Bool.and_self]

theorem aliasesOut_strict (al : List PName) : (aliasesOut al).strict = true := by
  unfold aliasesOut
  simp only [JOut.strict]
  induction al with
  | nil => rfl
  | cons x rest ih => simp only [List.map_cons, strictList, JOut.strict, ih, Bool.and_self]

theorem obj_strict (fixedPart : List (Bytes × JOut)) (excl : List Bytes) (a : Attrs)
    (hf : (fixedPart.map Prod.fst).Nodup) (hsub : ∀ k ∈ fixedPart.map Prod.fst, k ∈ excl)
    (hs : strictEntries fixedPart = true) (ha : keysOk excl a = true) :
    (JOut.obj (fixedPart ++ attrsOut a)).strict = true := by
  simp only [JOut.strict, Bool.and_eq_true, decide_eq_true_eq]
  exact ⟨nodup_with_attrs fixedPart excl a hf hsub ha, by rw [strictEntries_append, hs, strictEntries_attrs]; rfl⟩

theorem keysOk_filter (excl : List Bytes) (a : Attrs) (p : Bytes × Json → Bool) (h : keysOk excl a = true) :
    keysOk excl (a.filter p) = true := by
  unfold keysOk at *
  simp only [Bool.and_eq_true, decide_eq_true_eq, List.all_eq_true] at *
  exact ⟨(List.Sublist.map Prod.fst (List.filter_sublist (l := a))).nodup h.1,
    fun kv hkv => h.2 kv (List.mem_filter.mp hkv).1⟩

/-- as `obj_strict`, with further entries written after the attributes -/
theorem obj_strict3 (fixedPart tail : List (Bytes × JOut)) (excl : List Bytes) (a : Attrs)
    (hf : ((fixedPart ++ tail).map Prod.fst).Nodup) (hsub : ∀ k ∈ (fixedPart ++ tail).map Prod.fst, k ∈ excl)
    (hs : strictEntries fixedPart = true) (ht : strictEntries tail = true) (ha : keysOk excl a = true) :
    (JOut.obj (fixedPart ++ attrsOut a ++ tail)).strict = true := by
  simp only [JOut.strict, Bool.and_eq_true, decide_eq_true_eq]
  refine ⟨?_, by rw [strictEntries_append, strictEntries_append, hs, strictEntries_attrs, ht]; rfl⟩
  have hperm : (fixedPart ++ attrsOut a ++ tail).Perm ((fixedPart ++ tail) ++ attrsOut a) := by
    rw [List.append_assoc, List.append_assoc]
    exact List.Perm.append_left _ List.perm_append_comm
  exact (hperm.map Prod.fst).nodup_iff.mpr (nodup_with_attrs (fixedPart ++ tail) excl a hf hsub ha)

theorem strictList_strs_cons (x : Bytes) (xs : List Bytes) : strictList (JOut.str x :: xs.map JOut.str) = true := by
  simp only [strictList, JOut.strict, strictList_strs, Bool.and_self]

/-- the entries `FixedSchema::serialize_to_map` writes before the custom attributes -/
def fixedHead (f : FixedP) : List (Bytes × JOut) :=
  [(b!"type", .str b!"fixed")] ++
  (match f.name.ns with | some n => [(b!"namespace", .str n)] | none => []) ++
  [(b!"name", .str f.name.name)] ++
  (match f.doc with | some d => [(b!"doc", .str d)] | none => []) ++
  [(b!"size", .num f.size)] ++
  (match f.aliases with | some al => [(b!"aliases", aliasesOut al)] | none => [])

theorem fixedEntries_eq (f : FixedP) (skip : List Bytes) :
    fixedEntries f skip = fixedHead f ++ attrsOut (f.attrs.filter (fun kv => !skip.contains kv.1)) := rfl

theorem fixedHead_sublist (f : FixedP) : ((fixedHead f).map Prod.fst).Sublist fixedKeys := by
  unfold fixedHead fixedKeys
  cases f.name.ns <;> cases f.doc <;> cases f.aliases <;> simp <;> decide

theorem keysOk_mono {excl excl' : List Bytes} {a : Attrs} (hsub : ∀ k ∈ excl', k ∈ excl) (h : keysOk excl a = true) :
    keysOk excl' a = true := by
  unfold keysOk at *
  simp only [Bool.and_eq_true, decide_eq_true_eq, List.all_eq_true] at *
  refine ⟨h.1, fun kv hkv => ?_⟩
  have := h.2 kv hkv
  simp only [Bool.not_eq_true'] at this ⊢
  cases hc : excl'.contains kv.1 with
  | false => rfl
  | true =>
    have := hsub _ (List.contains_iff_mem.mp hc)
    rw [List.contains_iff_mem.mpr this] at *
    simp_all

/-- a fixed (plain or under a logical type): head, attributes without `skip`, then `tail` -/
theorem fixed_strict (f : FixedP) (skip : List Bytes) (tail : List (Bytes × JOut)) (tailKeys : List Bytes)
    (htk : tail.map Prod.fst = tailKeys) (hnd : (fixedKeys ++ tailKeys).Nodup) (hts : strictEntries tail = true)
    (ha : keysOk (fixedKeys ++ tailKeys) (f.attrs.filter (fun kv => !skip.contains kv.1)) = true) :
    (JOut.obj (fixedEntries f skip ++ tail)).strict = true := by
  rw [fixedEntries_eq]
  refine obj_strict3 (fixedHead f) tail (fixedKeys ++ tailKeys) _ ?_ ?_ ?_ hts ha
  · rw [List.map_append, htk]
    exact List.Sublist.nodup (List.Sublist.append_right (fixedHead_sublist f) tailKeys) hnd
  · intro k hk
    rw [List.map_append, htk] at hk
    rcases List.mem_append.mp hk with hk | hk
    · exact List.mem_append_left _ ((fixedHead_sublist f).subset hk)
    · exact List.mem_append_right _ hk
  · unfold fixedHead
    cases f.name.ns <;> cases f.doc <;> cases f.aliases <;>
      simp [strictEntries, strictEntries_append, JOut.strict, aliasesOut_strict]

mutual
/-- **the serializer writes strict JSON**: no object repeats a key, at any depth -/
theorem toJson_strict : ∀ (s : PSchema), wfA s = true → (toJson s).strict = true
  | .null, _ | .boolean, _ | .int, _ | .long, _ | .float, _ | .double, _ | .bytes, _ | .string, _ | .ref _, _ => by
    simp only [toJson, JOut.strict]
  | .bigDecimal, _ | .uuidBytes, _ | .uuidString, _ | .date, _ | .timeMillis, _ | .timeMicros, _ | .tsMillis, _
  | .tsMicros, _ | .tsNanos, _ | .ltsMillis, _ | .ltsMicros, _ | .ltsNanos, _ => by
    simp only [toJson, logicalOut, JOut.strict, strictEntries]; decide
  | .array items attrs, h => by
    simp only [wfA, Bool.and_eq_true] at h
    simp only [toJson]
    refine obj_strict _ [b!"type", b!"items"] attrs (by simp) (by simp) ?_ h.1
    simp only [strictEntries, JOut.strict, toJson_strict items h.2, Bool.and_self]
  | .map values attrs, h => by
    simp only [wfA, Bool.and_eq_true] at h
    simp only [toJson]
    refine obj_strict _ [b!"type", b!"values"] attrs (by simp) (by simp) ?_ h.1
    simp only [strictEntries, JOut.strict, toJson_strict values h.2, Bool.and_self]
  | .union bs, h => by
    simp only [wfA] at h
    simp only [toJson, JOut.strict]
    exact toJsonList_strict bs h
  | .record name aliases doc fields attrs, h => by
    simp only [wfA, Bool.and_eq_true] at h
    simp only [toJson]
    have hf := toJsonFields_strict fields h.2
    refine obj_strict _ recordKeys attrs ?_ ?_ ?_ h.1
    · cases name.ns <;> cases doc <;> cases aliases <;> simp <;> decide
    · cases name.ns <;> cases doc <;> cases aliases <;> simp [recordKeys]
    · cases name.ns <;> cases doc <;> cases aliases <;>
        simp [strictEntries, strictEntries_append, JOut.strict, hf, aliasesOut_strict]
  | .enum name aliases doc symbols default attrs, h => by
    simp only [wfA] at h
    simp only [toJson]
    refine obj_strict _ enumKeys attrs ?_ ?_ ?_ h
    · cases name.ns <;> cases doc <;> cases aliases <;> cases default <;> simp <;> decide
    · cases name.ns <;> cases doc <;> cases aliases <;> cases default <;> simp [enumKeys]
    · cases name.ns <;> cases doc <;> cases aliases <;> cases default <;>
        simp [strictEntries, strictEntries_append, JOut.strict, strictList_strs, aliasesOut_strict]
  | .fixed f, h => by
    simp only [wfA] at h
    simp only [toJson]
    have := fixed_strict f [] [] [] rfl (by decide) rfl (keysOk_filter _ _ _ (keysOk_mono (by simp) h))
    simpa using this
  | .uuidFixed f, h => by
    simp only [wfA] at h
    simp only [toJson]
    exact fixed_strict f [] _ [b!"logicalType"] rfl (by decide) (by simp [strictEntries, JOut.strict])
      (keysOk_filter _ _ _ (keysOk_mono (by simp [fixedKeys]) h))
  | .duration f, h => by
    simp only [wfA] at h
    simp only [toJson]
    exact fixed_strict f [] _ [b!"logicalType"] rfl (by decide) (by simp [strictEntries, JOut.strict])
      (keysOk_filter _ _ _ (keysOk_mono (by simp [fixedKeys]) h))
  | .decimal p sc none, _ => by
    simp [toJson, JOut.strict, strictEntries]
  | .decimal p sc (some f), h => by
    simp only [wfA] at h
    simp only [toJson]
    refine fixed_strict f [b!"scale", b!"precision"] _ [b!"logicalType", b!"scale", b!"precision"] rfl (by decide)
      (by simp [strictEntries, JOut.strict]) ?_
    -- the filter removes `scale` / `precision`, `wfA` excludes the rest
    unfold keysOk at h ⊢
    simp only [Bool.and_eq_true, decide_eq_true_eq, List.all_eq_true] at h ⊢
    refine ⟨(List.Sublist.map Prod.fst (List.filter_sublist (l := f.attrs))).nodup h.1, fun kv hkv => ?_⟩
    obtain ⟨hm, hf⟩ := List.mem_filter.mp hkv
    have h2 := h.2 kv hm
    simp only [Bool.not_eq_true', fixedKeys] at h2 hf ⊢
    simp only [List.contains_cons, List.contains_nil, Bool.or_false, Bool.or_eq_false_iff, List.contains_append] at h2 hf ⊢
    simp_all

theorem toJsonList_strict : ∀ (bs : List PSchema), wfAList bs = true → strictList (toJsonList bs) = true
  | [], _ => rfl
  | s :: rest, h => by
    simp only [wfAList, Bool.and_eq_true] at h
    simp only [toJsonList, strictList, toJson_strict s h.1, toJsonList_strict rest h.2, Bool.and_self]

theorem toJsonFields_strict : ∀ (fs : List (FieldHdr × PSchema)), wfAFields fs = true →
    strictList (toJsonFields fs) = true
  | [], _ => rfl
  | (hd, s) :: rest, h => by
    simp only [wfAFields, Bool.and_eq_true] at h
    simp only [toJsonFields, strictList, toJsonFields_strict rest h.2, Bool.and_true]
    refine obj_strict _ fieldKeys hd.attrs ?_ ?_ ?_ h.1.1
    · cases hd.default <;> cases hd.doc <;> cases hd.aliases <;> simp <;> decide
    · cases hd.default <;> cases hd.doc <;> cases hd.aliases <;> simp [fieldKeys]
    · cases hd.default <;> cases hd.doc <;> cases hd.aliases <;>
        simp [strictEntries, strictEntries_append, JOut.strict, toJson_strict s h.1.2, strictList_strs, strictList_strs_cons]
end

/-! ### names through their JSON spelling -/

theorem isIdChar_ne_dot (c : UInt8) (h : isIdChar c = true) : c ≠ 46 := by
  intro hc; subst hc; revert h; decide

theorem isIdStart_ne_dot (c : UInt8) (h : isIdStart c = true) : c ≠ 46 := by
  intro hc; subst hc; revert h; decide

theorem splitDots_nodot : ∀ (s : Bytes), (∀ c ∈ s, c ≠ 46) → splitDots s = [s]
  | [], _ => rfl
  | c :: rest, h => by
    have hc : (c == 46) = false := by simpa using h c (by simp)
    simp only [splitDots, hc, Bool.false_eq_true, if_false, splitDots_nodot rest (fun x hx => h x (by simp [hx]))]

theorem ident_nodot (s : Bytes) (h : isIdent s = true) : ∀ c ∈ s, c ≠ 46 := by
  cases s with
  | nil => simp [isIdent] at h
  | cons c rest =>
    simp only [isIdent, Bool.and_eq_true, List.all_eq_true] at h
    intro x hx
    rcases List.mem_cons.mp hx with rfl | hx
    · exact isIdStart_ne_dot _ h.1
    · exact isIdChar_ne_dot _ (h.2 x hx)

theorem nameIndex_ident (s : Bytes) (h : isIdent s = true) : schemaNameIndex s = some 0 := by
  unfold schemaNameIndex
  simp [splitDots_nodot s (ident_nodot s h), h]

/-- a name WITH a namespace is written as `"namespace"` + `"name"` and read back as itself, whatever
the enclosing namespace at the place it is read -/
theorem name_roundtrip_with_namespace (n : PName) (ns : Bytes) (hns : n.ns = some ns) (hok : n.ok = true)
    (enclosing : Option Bytes) :
    parseName [(b!"name", .str n.name), (b!"namespace", .str ns)] enclosing = some n := by
  unfold PName.ok at hok
  rw [hns] at hok
  simp only [Bool.and_eq_true, Bool.not_eq_true', List.isEmpty_eq_false_iff] at hok
  obtain ⟨hid, hne, hnsok⟩ := hok
  have hobj1 : objStr [(b!"name", Json.str n.name), (b!"namespace", Json.str ns)] b!"name" = some n.name := by
    simp [objStr, objGet]
  have hobj2 : objStr [(b!"name", Json.str n.name), (b!"namespace", Json.str ns)] b!"namespace" = some ns := by
    simp [objStr, objGet]
  have hemp : ns.isEmpty = false := by cases ns <;> simp_all
  unfold parseName PName.make PName.raw
  simp only [hobj1, hobj2, Option.orElse, nameIndex_ident n.name hid, BEq.rfl, if_true, hemp, Bool.false_eq_true, if_false, hnsok]
  have : ({ ns := some ns, name := n.name } : PName) = n := by cases n; simp_all
  simp [this, PName.ok, hns, hid, hemp, hnsok]

/-- a name WITHOUT a namespace is written as `"name"` alone; read back inside a type that has the
namespace `e` it becomes `e.name` - another name (the finding `C10.null-namespace-inherits`) -/
theorem null_namespace_inherits (n : PName) (hns : n.ns = none) (hok : n.ok = true) (e : Bytes)
    (he : e ≠ []) (heok : isNamespace e = true) :
    parseName [(b!"name", .str n.name)] (some e) = some { ns := some e, name := n.name } ∧
    ({ ns := some e, name := n.name } : PName) ≠ n := by
  unfold PName.ok at hok
  rw [hns] at hok
  simp only [Bool.and_true] at hok
  have hobj1 : objStr [(b!"name", Json.str n.name)] b!"name" = some n.name := by simp [objStr, objGet]
  have hobj2 : objStr [(b!"name", Json.str n.name)] b!"namespace" = none := by
    simp only [objStr, objGet, List.find?_cons, List.find?_nil]; rfl
  have hemp : e.isEmpty = false := by cases e <;> simp_all
  refine ⟨?_, fun h => by rw [← h] at hns; cases hns⟩
  unfold parseName PName.make PName.raw
  simp only [hobj1, hobj2, Option.orElse, nameIndex_ident n.name hok, BEq.rfl, if_true, hemp, Bool.false_eq_true, if_false, heok]
  simp [PName.ok, hok, hemp, heok]

end Avro.C10
