import AvroModel
namespace Avro.C10
open Avro
end Avro.C10
