import AvroModel
import AvroModel.Alloc
import AvroProofs.Lemmas.DecodeConforms
import AvroProofs.Lemmas.LoopBound
/-!
# C05 — decoding untrusted bytes never panics, aborts, hangs or over-allocates

What a theorem can carry here: the *guards*.  Every allocation site of the decoders is preceded
by `safe_len` / `safe_collection_len`; the statements below say that, for **every** limit
(0 … usize::MAX) and every input, the size requested at each site is within the limit, that the
guards cannot be defeated by overflow, and that everything inside a successfully decoded value is
within the limit.  Panics, aborts, wall-clock time and what the allocator really does are
observed by the correspondence harness (counting allocator, catch_unwind, watchdog); the model
decoder is total by construction (structural recursion on a finite budget).
-/
namespace Avro.C05
open Avro

/-- `safe_len` accepts exactly the lengths up to the limit, whatever the limit is. -/
theorem safeLen_iff (lim n : Nat) : safeLen lim n = .ok n ↔ n ≤ lim := by
  unfold safeLen; split <;> simp_all

/-- `safe_collection_len` cannot be defeated by overflow: it accepts iff the byte size fits in a
`usize` **and** is within the limit — also when the limit is `usize::MAX`. -/
theorem safeCollectionLen_iff (lim sz total : Nat) :
    safeCollectionLen lim sz total = .ok () ↔ total * sz < 2^64 ∧ total * sz ≤ lim := by
  unfold safeCollectionLen
  by_cases h1 : total * sz ≥ 2^64
  · simp [h1]; omega
  · by_cases h2 : total * sz ≤ lim
    · simp [h1, h2]; omega
    · simp [h1, h2]

/-- bytes / string: the buffer that is allocated never exceeds the limit. -/
theorem allocBytes_le (lim : Nat) (bs : Bytes) (n : Nat) (h : allocBytes lim bs = some n) : n ≤ lim := by
  unfold allocBytes at h
  cases hd : decLen lim bs with
  | error e => rw [hd] at h; cases h
  | ok p => obtain ⟨len, r⟩ := p; rw [hd] at h; simp at h; subst h; exact decLen_ok hd

/-- fixed: the size comes from the (possibly embedded, untrusted) schema and is bounded too. -/
theorem allocFixed_le (lim size n : Nat) (h : allocFixed lim size = some n) : n ≤ lim := by
  unfold allocFixed at h
  cases hs : safeLen lim size with
  | error e => rw [hs] at h; cases h
  | ok k => rw [hs] at h; simp at h; subst h; have := safeLen_ok' hs; omega

/-- arrays: the vector is never asked to hold more bytes than the limit, cumulatively over blocks. -/
theorem allocArrayBlock_le (cfg : Cfg) (have_ : Nat) (bs : Bytes) (n : Nat)
    (h : allocArrayBlock cfg have_ bs = some n) : n ≤ cfg.lim := by
  unfold allocArrayBlock at h
  cases hd : decSeqLen cfg.lim bs with
  | error e => rw [hd] at h; cases h
  | ok p =>
    obtain ⟨len, r⟩ := p; rw [hd] at h; simp only [] at h
    split at h
    · cases h
    · split at h
      · cases h
      · cases hs : safeCollectionLen cfg.lim cfg.szValue (have_ + len) with
        | error e => rw [hs] at h; cases h
        | ok u => rw [hs] at h; simp at h; subst h; exact safeCollectionLen_ok' hs

theorem allocMapBlock_le (cfg : Cfg) (have_ : Nat) (bs : Bytes) (n : Nat)
    (h : allocMapBlock cfg have_ bs = some n) : n ≤ cfg.lim := by
  unfold allocMapBlock at h
  cases hd : decSeqLen cfg.lim bs with
  | error e => rw [hd] at h; cases h
  | ok p =>
    obtain ⟨len, r⟩ := p; rw [hd] at h; simp only [] at h
    split at h
    · cases h
    · split at h
      · cases h
      · cases hs : safeCollectionLen cfg.lim cfg.szEntry (have_ + len) with
        | error e => rw [hs] at h; cases h
        | ok u => rw [hs] at h; simp at h; subst h; exact safeCollectionLen_ok' hs

theorem allocBlockBuf_le (lim : Nat) (bs : Bytes) (n : Nat) (h : allocBlockBuf lim bs = some n) : n ≤ lim := by
  unfold allocBlockBuf at h
  cases hd : readUsize bs with
  | error e => rw [hd] at h; cases h
  | ok p =>
    obtain ⟨k, r⟩ := p; rw [hd] at h; simp only [] at h
    cases hs : safeLen lim k with
    | error e => rw [hs] at h; cases h
    | ok k' => rw [hs] at h; simp at h; subst h; have := safeLen_ok' hs; omega

/-- a block count is never trusted beyond the limit either (this is what bounds the *time* spent
on zero-width items such as `array<null>`). -/
theorem blockCount_le (lim : Nat) (bs : Bytes) (k : Nat) (r : Bytes)
    (h : decSeqLen lim bs = .ok (k, r)) : k ≤ lim := decSeqLen_ok h

/-- varints: at most ten bytes are ever read, and reading one never fails by running off a
too-long encoding silently — the eleventh continuation byte is an error. -/
theorem decodeVar_consumes_le_10 (bs : Bytes) (z : Nat) (r : Bytes) (h : decodeVar bs = .ok (z, r)) :
    bs.length ≤ r.length + 10 ∧ r.length < bs.length := by
  unfold decodeVar at h
  obtain ⟨k, hk1, hk2, hlen, _, _⟩ := decodeVarAux_bound 10 0 0 bs z r h (by simp)
  omega

/-- **the work a hostile count can cause is bounded by the limit, not by the input**: a successfully decoded array
holds at most `lim / size_of::<Value>()` items, cumulatively over all its blocks and whatever the items' width - a
block of `null`s costs no input bytes, so this (with `blockCount_le` for the failing runs) is what bounds the number of
item decodes -/
theorem array_items_bounded (cfg : Cfg) (env : Names) (fuel : Nat) (inner : Schema) (bs r : Bytes) (items : List Value)
    (h : decode cfg env (fuel + 1) (.array inner) bs = .ok (.array items, r)) :
    items.length * cfg.szValue ≤ cfg.lim := by
  simp only [decode] at h
  cases ha : arrayLoop cfg (decode cfg env fuel inner) (bs.length + 1) [] bs with
  | error e => rw [ha] at h; simp at h
  | ok p =>
    obtain ⟨its, r'⟩ := p
    rw [ha] at h
    simp only [Except.ok.injEq, Prod.mk.injEq, Value.array.injEq] at h
    rw [← h.1]
    exact arrayLoop_bound cfg _ _ [] bs its r' ha (by simp)

/-- the same for maps (`size_of` of a map entry) -/
theorem map_entries_bounded (cfg : Cfg) (env : Names) (fuel : Nat) (inner : Schema) (bs r : Bytes)
    (es : List (Bytes × Value))
    (h : decode cfg env (fuel + 1) (.map inner) bs = .ok (.map es, r)) :
    es.length * cfg.szEntry ≤ cfg.lim := by
  simp only [decode] at h
  cases ha : mapLoop cfg (decEntryWith cfg.lim (decode cfg env fuel inner)) (bs.length + 1) [] bs with
  | error e => rw [ha] at h; simp at h
  | ok p =>
    obtain ⟨its, r'⟩ := p
    rw [ha] at h
    simp only [Except.ok.injEq, Prod.mk.injEq, Value.map.injEq] at h
    rw [← h.1]
    exact mapLoop_bound cfg _ _ [] bs its r' ha (by simp)

/-- non-vacuity: with a limit of two `Value`s, a block of two zero-width items is read and a block of three is refused
before any item is decoded; two blocks of two are refused at the second block (the bound is cumulative) -/
example : decode { lim := 112 } [] 3 (.array .null) [4, 0] = .ok (.array [.null, .null], []) := by rfl
example : decode { lim := 112 } [] 3 (.array .null) [6, 0] = .error .allocLimit := by rfl
example : decode { lim := 112 } [] 3 (.array .null) [4, 4, 0] = .error .allocLimit := by rfl

/-- non-vacuity / boundary instances, also at the extremes of the limit -/
example : safeLen 0 0 = .ok 0 ∧ safeLen 0 1 = .error .allocLimit := ⟨rfl, rfl⟩
example : safeCollectionLen (2^64 - 1) 56 (2^62) = .error .overflow := by simp [safeCollectionLen]
example : allocArrayBlock { lim := 4096 } 0 [146, 1] = some (73 * 56) := by decide  -- 73 values fit
example : allocArrayBlock { lim := 4096 } 0 [148, 1] = none := by decide            -- 74 do not

end Avro.C05
