import AvroModel
import AvroProofs.Lemmas.Resolve
/-!
# C08 — schema resolution

The crate resolves a decoded VALUE against the reader schema (the writer schema is not consulted),
so the rules are stated on (value, reader schema).  Each theorem is the rule of the specification
for one reader type, for every payload.
-/
namespace Avro.C08
open Avro

variable (fo : FloatOps) (cfg : Cfg) (env : Names) (f : Nat)

/-! ### numeric and string/bytes promotions -/

theorem int_to_long (n : Int) : resolve fo cfg env (f+1) .long (.int n) = .ok (.long n) := by simp [resolve, unwrapFor]
theorem int_to_float (n : Int) : resolve fo cfg env (f+1) .float (.int n) = .ok (.float (fo.i2f32 n)) := by simp [resolve, unwrapFor]
theorem int_to_double (n : Int) : resolve fo cfg env (f+1) .double (.int n) = .ok (.double (fo.i2f64 n)) := by simp [resolve, unwrapFor]
theorem long_to_float (n : Int) : resolve fo cfg env (f+1) .float (.long n) = .ok (.float (fo.i2f32 n)) := by simp [resolve, unwrapFor]
theorem long_to_double (n : Int) : resolve fo cfg env (f+1) .double (.long n) = .ok (.double (fo.i2f64 n)) := by simp [resolve, unwrapFor]
theorem float_to_double (x : UInt32) : resolve fo cfg env (f+1) .double (.float x) = .ok (.double (fo.f32to64 x)) := by simp [resolve, unwrapFor]
theorem string_to_bytes (u : Bytes) : resolve fo cfg env (f+1) .bytes (.string u) = .ok (.bytes u) := by simp [resolve, unwrapFor]
theorem bytes_to_string (b : Bytes) :
    resolve fo cfg env (f+1) .string (.bytes b) = if validUtf8 b then .ok (.string b) else .error .badUtf8 := by simp [resolve, unwrapFor]

/-- a value of a logical type is read as its underlying type when the reader does not have it -/
theorem logical_to_underlying (n : Int) (k : LongKind) :
    resolve fo cfg env (f+1) .int (.date n) = .ok (.int n) ∧
    resolve fo cfg env (f+1) .int (.timeMillis n) = .ok (.int n) ∧
    resolve fo cfg env (f+1) .long (.date n) = .ok (.long n) ∧
    resolve fo cfg env (f+1) .long (.timeMillis n) = .ok (.long n) ∧
    resolve fo cfg env (f+1) .long (.longL k n) = .ok (.long n) := by simp [resolve, unwrapFor]

/-- …but NOT promoted further: the crate refuses to read a logical int/long as float or double
(its test-suite pins this; by the specification it is a legal promotion — recorded finding) -/
theorem logical_not_promoted_to_float (n : Int) (k : LongKind) :
    resolve fo cfg env (f+1) .float (.date n) = .error .mismatch ∧
    resolve fo cfg env (f+1) .double (.timeMillis n) = .error .mismatch ∧
    resolve fo cfg env (f+1) .float (.longL k n) = .error .mismatch ∧
    resolve fo cfg env (f+1) .double (.longL k n) = .error .mismatch := by simp [resolve, unwrapFor]

/-- and the other way round -/
theorem underlying_to_logical (n : Int) (k : LongKind) :
    resolve fo cfg env (f+1) .date (.int n) = .ok (.date n) ∧
    resolve fo cfg env (f+1) .timeMillis (.int n) = .ok (.timeMillis n) ∧
    resolve fo cfg env (f+1) (.longL k) (.long n) = .ok (.longL k n) ∧
    resolve fo cfg env (f+1) (.longL k) (.int n) = .ok (.longL k n) := by simp [resolve, unwrapFor]

/-! ### where the rules give no result, an error is returned -/

/-- `null` reader: only `null` (possibly inside a union value, which is unwrapped first) -/
theorem null_reader (v w : Value) :
    resolve fo cfg env (f+1) .null v = .ok w ↔ (w = .null ∧ unwrapFor .null v = .null) := by
  simp only [resolve]; generalize unwrapFor .null v = u
  cases u <;> simp <;> try exact eq_comm

theorem boolean_reader (v w : Value) :
    resolve fo cfg env (f+1) .boolean v = .ok w ↔ ∃ b, w = .boolean b ∧ unwrapFor .boolean v = .boolean b := by
  simp only [resolve]; generalize unwrapFor .boolean v = u
  cases u <;> simp <;> try exact eq_comm

/-- `int` reader: `int` and the logical types over `int`; a `long` only when it is in range (the
crate is more lenient than the specification here: recorded as a finding) -/
theorem int_reader (v w : Value) :
    resolve fo cfg env (f+1) .int v = .ok w ↔
      ∃ n, w = .int n ∧ (unwrapFor .int v = .int n ∨ unwrapFor .int v = .date n ∨ unwrapFor .int v = .timeMillis n ∨
                        (unwrapFor .int v = .long n ∧ i32ok' n = true)) := by
  simp only [resolve]; generalize unwrapFor .int v = u
  cases u <;> simp <;> try exact eq_comm
  case long n =>
    by_cases h : i32ok' n = true
    · simp [h]; constructor <;> (intro e; first | exact ⟨n, e.symm, rfl, h⟩ | (obtain ⟨m, rfl, rfl, _⟩ := e; rfl))
    · simp [h]; intro m _ hm; subst hm; simpa using h

/-- `long` reader: `int`, `long` and every logical type over them -/
theorem long_reader (v w : Value) :
    resolve fo cfg env (f+1) .long v = .ok w ↔
      ∃ n, w = .long n ∧ (unwrapFor .long v = .int n ∨ unwrapFor .long v = .date n ∨ unwrapFor .long v = .timeMillis n ∨
                         unwrapFor .long v = .long n ∨ ∃ k, unwrapFor .long v = .longL k n) := by
  simp only [resolve]; generalize unwrapFor .long v = u
  cases u <;> simp <;> try exact eq_comm

/-- `string` reader: `string`, and `bytes`/`fixed` that are valid UTF-8 -/
theorem string_reader (v w : Value) :
    resolve fo cfg env (f+1) .string v = .ok w ↔
      ∃ u, w = .string u ∧ (unwrapFor .string v = .string u ∨
        ((unwrapFor .string v = .bytes u ∨ ∃ n, unwrapFor .string v = .fixed n u) ∧ validUtf8 u = true)) := by
  simp only [resolve]; generalize unwrapFor .string v = x
  cases x <;> simp <;> try exact eq_comm
  all_goals
    rename_i b
    by_cases h : validUtf8 b = true
    · simp [h]; constructor <;> (intro e; first | exact ⟨b, e.symm, rfl, h⟩ | (obtain ⟨m, rfl, rfl, _⟩ := e; rfl))
    · simp [h]; intro m _ hm; subst hm; simpa using h

/-! ### enums: by symbol name, the reader's default for unknown symbols -/

theorem enum_by_name (syms : List Bytes) (d : Option Bytes) (i j : Nat) (s : Bytes)
    (h : indexOfSym syms s = some j) :
    resolveEnum syms d (.enum i s) = .ok (.enum j s) := by simp [resolveEnum, h]

theorem enum_unknown_default (syms : List Bytes) (dflt : Bytes) (i j : Nat) (s : Bytes)
    (h : indexOfSym syms s = none) (hd : indexOfSym syms dflt = some j) :
    resolveEnum syms (some dflt) (.enum i s) = .ok (.enum j dflt) := by simp [resolveEnum, h, hd]

theorem enum_unknown_no_default (syms : List Bytes) (i : Nat) (s : Bytes)
    (h : indexOfSym syms s = none) :
    resolveEnum syms none (.enum i s) = .error .mismatch := by simp [resolveEnum, h]

/-! ### records: reader order, fields by name or reader alias, writer-only fields dropped, defaults -/

/-- the result has exactly the reader's fields, in the reader's order, under the reader's names —
whatever the order of the written fields and whatever else was written -/
theorem record_reader_order (g : Schema → Value → Except Err Value) :
    ∀ (fields : List (FieldMeta × Schema)) (items out : List (Bytes × Value)),
      resolveFieldsWith g fields items = .ok out → out.map Prod.fst = fields.map (fun x => x.1.name)
  | [], _, out, h => by simp [resolveFieldsWith] at h; subst h; rfl
  | (m, s) :: rest, items, out, h => by
    simp only [resolveFieldsWith] at h
    split at h
    · cases h
    · split at h
      · cases h
      · split at h
        · rename_i ws hws
          cases h
          simp [record_reader_order g rest _ ws hws]
        · cases h

/-- a reader field whose name was written takes the written value (resolved against the field's type) -/
theorem field_by_name (g : Schema → Value → Except Err Value) (m : FieldMeta) (s : Schema)
    (rest : List (FieldMeta × Schema)) (items : List (Bytes × Value)) (v : Value)
    (h : mapGet items m.name = some v) :
    resolveFieldsWith g ((m, s) :: rest) items =
      (match g s v with
       | .error e => .error e
       | .ok w => match resolveFieldsWith g rest (mapRemove items m.name) with
         | .ok ws => .ok ((m.name, w) :: ws)
         | .error e => .error e) := by
  simp [resolveFieldsWith, h]
  cases g s v with
  | error e => rfl
  | ok w => cases resolveFieldsWith g rest (mapRemove items m.name) <;> rfl

/-- otherwise the first of the reader field's aliases that was written -/
theorem field_by_alias (g : Schema → Value → Except Err Value) (m : FieldMeta) (s : Schema)
    (rest : List (FieldMeta × Schema)) (items : List (Bytes × Value)) (a : Bytes) (v : Value)
    (h : mapGet items m.name = none)
    (ha : m.aliases.find? (fun a => (mapGet items a).isSome) = some a) (hv : mapGet items a = some v) :
    resolveFieldsWith g ((m, s) :: rest) items =
      (match g s v with
       | .error e => .error e
       | .ok w => match resolveFieldsWith g rest (mapRemove items a) with
         | .ok ws => .ok ((m.name, w) :: ws)
         | .error e => .error e) := by
  simp [resolveFieldsWith, h, ha, hv]
  cases g s v with
  | error e => rfl
  | ok w => cases resolveFieldsWith g rest (mapRemove items a) <;> rfl

/-- a reader-only field without a default is an error -/
theorem field_missing_no_default (g : Schema → Value → Except Err Value) (m : FieldMeta) (s : Schema)
    (rest : List (FieldMeta × Schema)) (items : List (Bytes × Value))
    (h : mapGet items m.name = none)
    (ha : m.aliases.find? (fun a => (mapGet items a).isSome) = none) (hd : m.default = none) :
    resolveFieldsWith g ((m, s) :: rest) items = .error .mismatch := by
  simp [resolveFieldsWith, h, ha, hd]

/-- a reader-only field of a plain (non-enum, non-union) type takes its declared default, converted
from JSON and resolved against the field's type -/
theorem field_default_plain (g : Schema → Value → Except Err Value) (m : FieldMeta) (s : Schema)
    (rest : List (FieldMeta × Schema)) (items : List (Bytes × Value)) (j : Json)
    (h : mapGet items m.name = none)
    (ha : m.aliases.find? (fun a => (mapGet items a).isSome) = none) (hd : m.default = some j)
    (hs : (∀ n sy d, s ≠ .enum n sy d) ∧ ∀ bs, s ≠ .union bs) :
    resolveFieldsWith g ((m, s) :: rest) items =
      (match jsonToValue j with
       | .error e => .error e
       | .ok v => match g s v with
         | .error e => .error e
         | .ok w => match resolveFieldsWith g rest items with
           | .ok ws => .ok ((m.name, w) :: ws)
           | .error e => .error e) := by
  cases s <;> simp [resolveFieldsWith, h, ha, hd] <;> first
    | (cases jsonToValue j <;> rfl)
    | (exfalso; first | exact hs.1 _ _ _ rfl | exact hs.2 _ rfl)

/-! ### unions -/

/-- a value resolved against a reader union is tagged with the index of a branch of that union, and
its content is the value resolved against exactly that branch -/
theorem union_branch_sound (bs : List Schema) (v w : Value)
    (h : resolve fo cfg env (f+1) (.union bs) v = .ok w) :
    ∃ i b w', w = .union i w' ∧ bs[i]? = some b ∧ resolve fo cfg env f b (unionPayload v) = .ok w' := by
  have hu : unwrapFor (.union bs) v = v := by cases v <;> rfl
  simp only [resolve, hu] at h
  generalize unionPayload v = inner at h ⊢
  cases hb : findBranchWith (fun b => (resolve fo cfg env f b inner).toBool) bs inner with
  | none => simp [hb] at h
  | some p =>
    obtain ⟨i, b⟩ := p
    simp only [hb] at h
    cases hr : resolve fo cfg env f b inner with
    | error e => simp [hr] at h
    | ok w' =>
      simp [hr] at h
      exact ⟨i, b, w', h.symm, findBranchWith_sound _ bs inner i b hb, hr⟩

/-- a value no branch accepts is an error, not a value -/
theorem union_no_branch (bs : List Schema) (v : Value)
    (h : findBranchWith (fun b => (resolve fo cfg env f b (unionPayload v)).toBool) bs (unionPayload v) = none) :
    resolve fo cfg env (f+1) (.union bs) v = .error .mismatch := by
  have hu : unwrapFor (.union bs) v = v := by cases v <;> rfl
  simp only [resolve, hu]
  simp [h]

end Avro.C08
