import AvroModel
import AvroProofs.Lemmas.RoundTrip
import AvroProofs.Lemmas.Validates
/-!
# C07 — accepted values are written readably, rejected values write nothing

`rejected_writes_nothing` is the second half of the property at full strength.  The first half is
**false of the code** for several non-canonical forms validation accepts (`not_written_*`,
`written_unreadably_*` below are kernel-checked witnesses, replayed on the implementation by
`./check C07` and recorded in `known-findings.json`); what is proved is the part for values in the
canonical representation (`accepted_written_readably_partial`).
-/
namespace Avro.C07
open Avro

/-- **Rejected values write nothing** — on all three validating paths, for every schema, value and
writer state: the datum writer returns an error (and has produced no bytes to hand on), the
container writer's state (pending block, counts, output, header flag) is unchanged and the call
returns an error, the single-object writer delivers no byte, returns an error and keeps its
header buffer. -/
theorem rejected_writes_nothing (fo : FloatOps) (cfg : Cfg) (env : Names) (fuel : Nat) (s : Schema) (v : Value)
    (hrej : validate fo cfg env fuel s v = false) :
    datumWrite fo cfg env fuel s v = .error .validation ∧
    (∀ (wcfg : WCfg) (st : WState),
      Writer.step wcfg st (appendOp fo cfg env fuel s v) = (st, none)) ∧
    (∀ (w : SoWriter) (sinkOk : Bool),
      (soWrite fo cfg env fuel s v w sinkOk).2.1 = [] ∧ (soWrite fo cfg env fuel s v w sinkOk).2.2 = none ∧
      (soWrite fo cfg env fuel s v w sinkOk).1.buffer = w.buffer) := by
  refine ⟨by simp [datumWrite, hrej], ?_, ?_⟩
  · intro wcfg st; simp [appendOp, hrej, Writer.step]
  · intro w sinkOk
    simp only [soWrite, hrej, Bool.false_eq_true, if_false, SoWriter.write]
    split <;> simp

/-- **Accepted and written readably (canonical fragment).**  Every value in the schema's canonical
representation is accepted by validation, and each validating path writes exactly the bytes that
decode to the value again (followed by any tail): the datum writer returns them, the container
writer appends them to its pending block, the single-object writer emits its header followed by
them. -/
theorem accepted_written_readably_partial (fo : FloatOps) (cfg : Cfg) (env : Names) (hl : cfg.lim < 2^63)
    (s : Schema) (v : Value) (hc : Conforms cfg env s v) :
    ∃ bs n, ∀ fuel, n ≤ fuel →
      validate fo cfg env fuel s v = true ∧
      datumWrite fo cfg env fuel s v = .ok bs ∧
      appendOp fo cfg env fuel s v = .append bs ∧
      (∀ (w : SoWriter), 10 ≤ w.buffer.length → w.buffer.length ≤ 20 →
        (soWrite fo cfg env fuel s v w true).2.1 = w.buffer ++ bs) ∧
      ∀ rest, decode cfg env fuel s (bs ++ rest) = .ok (v, rest) := by
  obtain ⟨bs, n1, H1⟩ := conforms_rt hl hc
  obtain ⟨n2, H2⟩ := conforms_vok (fo := fo) hc
  refine ⟨bs, max n1 n2, fun fuel hf => ?_⟩
  obtain ⟨he, hd⟩ := H1 fuel (by omega)
  have hv := H2 fuel (by omega)
  refine ⟨hv, by simp [datumWrite, hv, he], by simp [appendOp, hv, he], ?_, hd⟩
  intro w h10 h20
  have : ¬ (w.buffer.length < 10 ∨ 20 < w.buffer.length) := by omega
  simp [soWrite, hv, he, SoWriter.write, this]

/-! ### witnesses: the first half does not hold for every accepted value (on the model; the same
inputs fail on the implementation, see `known-findings.json`) -/

def cfg0 : Cfg := { lim := 1024 }

/-- a `float` under a `double` schema is accepted and written as 4 bytes, which do not decode -/
theorem written_unreadably_float_for_double (fo : FloatOps) :
    validate fo cfg0 [] 5 .double (.float 0x3fc00000) = true ∧
    datumWrite fo cfg0 [] 5 .double (.float 0x3fc00000) = .ok [0, 0, 0xc0, 0x3f] ∧
    decode cfg0 [] 5 .double [0, 0, 0xc0, 0x3f] = .error .eof := by
  refine ⟨by simp [validate, fixedInconsistent], by simp [datumWrite, validate, fixedInconsistent]; rfl, by rfl⟩

/-- a map under a record schema is accepted and not written -/
theorem not_written_map_for_record (fo : FloatOps) :
    let s : Schema := .record [82] [({ name := [97] }, .int)]
    validate fo cfg0 [] 5 s (.map [([97], .int 1)]) = true ∧
    ∃ e, datumWrite fo cfg0 [] 5 s (.map [([97], .int 1)]) = .error e := by
  refine ⟨by rfl, ⟨.mismatch, by rfl⟩⟩

/-- a bare `float` under `["null","float"]` is accepted and written without its branch index, so the
bytes decode as the null branch and leave a tail -/
theorem written_differently_bare_value_in_union (fo : FloatOps) :
    let s : Schema := .union [.null, .float]
    validate fo cfg0 [] 5 s (.float 0x4f000000) = true ∧
    datumWrite fo cfg0 [] 5 s (.float 0x4f000000) = .ok [0, 0, 0, 0x4f] ∧
    decode cfg0 [] 5 s [0, 0, 0, 0x4f] = .ok (.union 0 .null, [0, 0, 0x4f]) := by
  refine ⟨by rfl, by rfl, by rfl⟩

/-- a bare string under `["null","string"]` is accepted and not written -/
theorem not_written_bare_value_in_union (fo : FloatOps) :
    let s : Schema := .union [.null, .string]
    validate fo cfg0 [] 5 s (.string [97]) = true ∧
    ∃ e, datumWrite fo cfg0 [] 5 s (.string [97]) = .error e := by
  refine ⟨by rfl, ⟨.mismatch, by rfl⟩⟩

/-- a record value without its nullable field is accepted and not written -/
theorem not_written_nullable_field_left_out (fo : FloatOps) :
    let s : Schema := .record [82] [({ name := [97] }, .int), ({ name := [98] }, .union [.null, .int])]
    validate fo cfg0 [] 5 s (.record [([97], .int 1)]) = true ∧
    ∃ e, datumWrite fo cfg0 [] 5 s (.record [([97], .int 1)]) = .error e := by
  refine ⟨by rfl, ⟨.mismatch, by rfl⟩⟩

/-- bytes under a decimal schema are accepted and not written -/
theorem not_written_bytes_for_decimal (fo : FloatOps) :
    let s : Schema := .decimal 4 1 .bytes
    validate fo cfg0 [] 5 s (.bytes [1, 2]) = true ∧
    ∃ e, datumWrite fo cfg0 [] 5 s (.bytes [1, 2]) = .error e := by
  refine ⟨by rfl, ⟨.mismatch, by rfl⟩⟩

/-- a `fixed` value under a bytes-backed decimal is accepted and written without its length -/
theorem written_unreadably_fixed_for_decimal (fo : FloatOps) :
    let s : Schema := .decimal 4 1 .bytes
    validate fo cfg0 [] 5 s (.fixed 2 [9, 9]) = true ∧
    datumWrite fo cfg0 [] 5 s (.fixed 2 [9, 9]) = .ok [9, 9] ∧
    ∃ e, decode cfg0 [] 5 s [9, 9] = .error e := by
  refine ⟨by rfl, by rfl, ⟨.negLen, by rfl⟩⟩

/-- `Value::Fixed(n, bytes)` whose two parts disagree is rejected under every schema (it used to
be validated by `n` alone and written by `bytes` alone — repaired, see `known-findings.json`) -/
theorem inconsistent_fixed_rejected (fo : FloatOps) (cfg : Cfg) (env : Names) (n : Nat) (b : Bytes) (h : b.length ≠ n) :
    ∀ (fuel : Nat) (s : Schema), validate fo cfg env fuel s (.fixed n b) = false := by
  intro fuel
  induction fuel with
  | zero => intro s; simp [validate]
  | succ f ih =>
    intro s
    cases s <;> simp [validate, fixedInconsistent, h]
    case ref nm => split <;> simp [ih]

/-- an enum value whose index is out of range is accepted when the schema has a default, and the
index is written as it is -/
theorem written_unreadably_enum_index (fo : FloatOps) :
    let s : Schema := .enum [69] [[65], [66]] (some [65])
    validate fo cfg0 [] 5 s (.enum 5 [90]) = true ∧
    datumWrite fo cfg0 [] 5 s (.enum 5 [90]) = .ok [10] ∧
    ∃ e, decode cfg0 [] 5 s [10] = .error e := by
  refine ⟨by rfl, by rfl, ⟨.badIndex, by rfl⟩⟩

/-- a record value without a REQUIRED field is accepted as long as it has as many fields as the
schema has non-nullable ones, and is not written -/
theorem not_written_required_field_left_out (fo : FloatOps) :
    let s : Schema := .record [82] [({ name := [97] }, .union [.null, .int]), ({ name := [98] }, .int)]
    validate fo cfg0 [] 5 s (.record [([97], .union 0 .null)]) = true ∧
    ∃ e, datumWrite fo cfg0 [] 5 s (.record [([97], .union 0 .null)]) = .error e := by
  refine ⟨by rfl, ⟨.mismatch, by rfl⟩⟩

end Avro.C07
