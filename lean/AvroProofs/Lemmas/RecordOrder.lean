import AvroModel
/-!
The record serializer's out-of-order cache (`serde/ser_schema/record/mod.rs`): whatever order a `Serialize`
impl hands the fields over in, and whichever fields it skips or never mentions, the bytes written are the
fields' bytes in schema order, each field's bytes being those of the value given for it or of its default.

`specField … i` is that specification for schema position `i`; `RInv` is the invariant of the serializer's
state between two calls.
-/
namespace Avro

/-- the bytes the record serializer produces for one field: the value given, or (skipped / never given) its default -/
def fieldBytes (env : Names) (ser : Schema → SerdeVal → SerOut) (ms : FieldMeta × Schema) (val : Option SerdeVal) : SerOut :=
  match val with
  | some v => ser ms.2 v
  | none => match ms.1.default with
    | none => .error .mismatch
    | some d => match defaultToSerde env 50 d ms.2 with
      | some dv => ser ms.2 dv
      | none => .error .other

/-- what belongs at schema position `i`: the bytes of the first (on success: only) field handed over whose key
resolves to `i` - skipped means its default -, or of the default when the type never mentions the field -/
def specField (env : Names) (ser : Schema → SerdeVal → SerOut) (fields : List (FieldMeta × Schema))
    (given : List (Bytes × Option SerdeVal)) (i : Nat) : SerOut :=
  match fields[i]? with
  | none => .error .mismatch
  | some ms =>
    match given.find? (fun kv => lookupPos fields kv.1 == some i) with
    | some kv => fieldBytes env ser ms kv.2
    | none => fieldBytes env ser ms none

/-- position `p` has been dealt with: written, or waiting in the cache -/
def Handled (st : RecSt) (p : Nat) : Prop := p < st.pos ∨ ∃ e ∈ st.cache, e.1 = p

/-- the state between two calls (`strict`: nothing in the cache is next) -/
structure RInv (spec : Nat → SerOut) (n : Nat) (strict : Bool) (st : RecSt) : Prop where
  cacheRange : ∀ e ∈ st.cache, (if strict then st.pos < e.1 else st.pos ≤ e.1) ∧ e.1 < n
  cacheSpec : ∀ e ∈ st.cache, ∃ k, spec e.1 = .ok (e.2, k)
  outSpec : ∃ bs : List Bytes, bs.length = st.pos ∧ (∀ i b, bs[i]? = some b → ∃ k, spec i = .ok (b, k)) ∧
    st.out = bs.flatten

theorem outSpec_snoc {spec : Nat → SerOut} {pos : Nat} {out b : Bytes} {k : Nat}
    (h : ∃ bs : List Bytes, bs.length = pos ∧ (∀ i x, bs[i]? = some x → ∃ k, spec i = .ok (x, k)) ∧ out = bs.flatten)
    (hb : spec pos = .ok (b, k)) :
    ∃ bs : List Bytes, bs.length = pos + 1 ∧ (∀ i x, bs[i]? = some x → ∃ k, spec i = .ok (x, k)) ∧
      out ++ b = bs.flatten := by
  obtain ⟨bs, hl, hs, ho⟩ := h
  refine ⟨bs ++ [b], by simp [hl], ?_, by simp [ho]⟩
  intro i x hx
  by_cases hi : i < bs.length
  · rw [List.getElem?_append_left hi] at hx; exact hs i x hx
  · have hi' : bs.length ≤ i := by omega
    rw [List.getElem?_append_right hi'] at hx
    have : i - bs.length = 0 := by
      cases hd : i - bs.length with
      | zero => rfl
      | succ m => rw [hd] at hx; simp at hx
    rw [this] at hx; simp at hx
    have : i = pos := by omega
    subst this; subst hx; exact ⟨k, hb⟩

/-- the `while let Some(bytes) = cache.remove(&pos)` loop: with enough fuel nothing in the cache is next afterwards,
what was written or cached stays dealt with -/
theorem flushCache_inv (spec : Nat → SerOut) (n : Nat) : ∀ (fuel : Nat) (st : RecSt),
    RInv spec n false st → n < st.pos + fuel →
    RInv spec n true (flushCache fuel st) ∧ (∀ p, Handled st p → Handled (flushCache fuel st) p)
  | 0, st, h, hf => by
    simp only [flushCache]
    refine ⟨⟨?_, h.cacheSpec, h.outSpec⟩, fun _ hp => hp⟩
    intro e he
    have := h.cacheRange e he
    simp at this
    omega
  | fuel+1, st, h, hf => by
    simp only [flushCache]
    cases hfind : st.cache.find? (fun e => e.1 == st.pos) with
    | none =>
      simp only
      refine ⟨⟨?_, h.cacheSpec, h.outSpec⟩, fun _ hp => hp⟩
      intro e he
      have hr := h.cacheRange e he
      have hne := (List.find?_eq_none.mp hfind) e he
      simp at hr hne
      simp only [if_true]
      omega
    | some pb =>
      obtain ⟨p, b⟩ := pb
      simp only
      have hp : p = st.pos := by simpa using List.find?_some hfind
      have hmem := List.mem_of_find?_eq_some hfind
      obtain ⟨k, hk⟩ := h.cacheSpec _ hmem
      simp only at hk
      have hpre : RInv spec n false
          { pos := st.pos + 1, cache := st.cache.filter (fun e => e.1 != st.pos), out := st.out ++ b,
            cnt := st.cnt + b.length } := by
        refine ⟨?_, ?_, ?_⟩
        · intro e he
          obtain ⟨he1, he2⟩ := List.mem_filter.mp he
          have hr := h.cacheRange e he1
          simp at hr he2
          simp only [Bool.false_eq_true, if_false]
          omega
        · intro e he
          exact h.cacheSpec e (List.mem_filter.mp he).1
        · exact outSpec_snoc h.outSpec (hp ▸ hk)
      obtain ⟨ih1, ih2⟩ := flushCache_inv spec n fuel _ hpre (by simp only; omega)
      refine ⟨ih1, ?_⟩
      intro q hq
      apply ih2
      rcases hq with hq | ⟨e, he, heq⟩
      · left; simp only; omega
      · by_cases hqp : q = st.pos
        · left; simp only; omega
        · right
          refine ⟨e, List.mem_filter.mpr ⟨he, ?_⟩, heq⟩
          simp; omega

/-- a successful `serialize_next_field` was for a position not yet dealt with -/
theorem nextField_unhandled (spec : Nat → SerOut) (n nf : Nat) (st st' : RecSt) (position : Nat) (bytesOf : SerOut)
    (h : RInv spec n true st) (hok : nextField nf st position bytesOf = .ok st') : ¬ Handled st position := by
  unfold nextField at hok
  intro hh
  split at hok
  · rename_i heq
    have heq : st.pos = position := by simpa using heq
    rcases hh with hh | ⟨e, he, hep⟩
    · omega
    · have := (h.cacheRange e he).1
      simp at this; omega
  · split at hok
    · rename_i hlt
      cases bytesOf with
      | error e => simp at hok
      | ok bn =>
        obtain ⟨b, k⟩ := bn
        simp only at hok
        split at hok
        · simp at hok
        · rename_i hany
          rcases hh with hh | ⟨e, he, hep⟩
          · omega
          · apply hany
            exact List.any_eq_true.mpr ⟨e, he, by simp [hep]⟩
    · simp at hok

/-- …and leaves the invariant, with that position dealt with -/
theorem nextField_inv (spec : Nat → SerOut) (n : Nat) (st st' : RecSt) (position : Nat) (bytesOf : SerOut)
    (h : RInv spec n true st) (hpos : position < n) (hspec : spec position = bytesOf)
    (hok : nextField n st position bytesOf = .ok st') :
    RInv spec n true st' ∧ Handled st' position ∧ (∀ p, Handled st p → Handled st' p) := by
  unfold nextField at hok
  split at hok
  · rename_i heq
    have heq : st.pos = position := by simpa using heq
    cases hb : bytesOf with
    | error e => rw [hb] at hok; simp at hok
    | ok bn =>
      obtain ⟨b, k⟩ := bn
      rw [hb] at hok
      simp only [Except.ok.injEq] at hok
      have hpre : RInv spec n false { st with pos := st.pos + 1, out := st.out ++ b, cnt := st.cnt + k } := by
        refine ⟨?_, h.cacheSpec, ?_⟩
        · intro e he
          have := h.cacheRange e he
          simp at this
          simp only [Bool.false_eq_true, if_false]
          omega
        · exact outSpec_snoc h.outSpec (by rw [heq, hspec, hb])
      obtain ⟨f1, f2⟩ := flushCache_inv spec n (n + 1) _ hpre (by simp only; omega)
      rw [← hok]
      refine ⟨f1, ?_, ?_⟩
      · apply f2; left; simp only; omega
      · intro p hp
        apply f2
        rcases hp with hp | hp
        · left; simp only; omega
        · right; exact hp
  · split at hok
    · rename_i hne hlt
      cases hb : bytesOf with
      | error e => rw [hb] at hok; simp at hok
      | ok bn =>
        obtain ⟨b, k⟩ := bn
        rw [hb] at hok
        simp only at hok
        split at hok
        · simp at hok
        · simp only [Except.ok.injEq] at hok
          rw [← hok]
          refine ⟨⟨?_, ?_, h.outSpec⟩, ?_, ?_⟩
          · intro e he
            rcases List.mem_append.mp he with he | he
            · exact h.cacheRange e he
            · simp at he; subst he; simp only [if_true]; exact ⟨hlt, hpos⟩
          · intro e he
            rcases List.mem_append.mp he with he | he
            · exact h.cacheSpec e he
            · simp at he; subst he; exact ⟨k, by rw [hspec, hb]⟩
          · right; exact ⟨(position, b), by simp, rfl⟩
          · intro p hp
            rcases hp with hp | ⟨e, he, hep⟩
            · left; exact hp
            · right; exact ⟨e, List.mem_append.mpr (Or.inl he), hep⟩
    · simp at hok

/-- a position below the number of fields: what `lookupPos` returns -/
theorem lookupPos_go_lt (key : Bytes) : ∀ (fs : List (FieldMeta × Schema)) (i : Nat) (acc : Option Nat) (p : Nat),
    (∀ q, acc = some q → q < i) → lookupPos.go key fs i acc = some p → p < i + fs.length
  | [], i, acc, p, hacc, h => by
    simp only [lookupPos.go] at h
    have := hacc p h; simp; omega
  | (m, _) :: rest, i, acc, p, hacc, h => by
    simp only [lookupPos.go] at h
    have := lookupPos_go_lt key rest (i+1) _ p (by
      intro q hq
      split at hq
      · cases hq; omega
      · have := hacc q hq; omega) h
    simp only [List.length_cons]; omega

/-- the fields handed over, one after the other -/
theorem recordFields_inv (env : Names) (ser : Schema → SerdeVal → SerOut) (fields : List (FieldMeta × Schema))
    (given : List (Bytes × Option SerdeVal)) :
    ∀ (todo done : List (Bytes × Option SerdeVal)) (st st' : RecSt), given = done ++ todo →
      RInv (specField env ser fields given) fields.length true st →
      (∀ kv ∈ done, ∀ p, lookupPos fields kv.1 = some p → Handled st p) →
      recordFields env ser fields todo st = .ok st' →
      RInv (specField env ser fields given) fields.length true st' ∧
        (∀ kv ∈ given, ∀ p, lookupPos fields kv.1 = some p → Handled st' p)
  | [], done, st, st', hg, hinv, hdone, hok => by
    simp only [recordFields, Except.ok.injEq] at hok
    subst hok
    refine ⟨hinv, ?_⟩
    intro kv hkv
    rw [hg] at hkv
    simp at hkv
    exact hdone kv (by simpa using hkv)
  | (key, val) :: rest, done, st, st', hg, hinv, hdone, hok => by
    simp only [recordFields] at hok
    cases hl : lookupPos fields key with
    | none => rw [hl] at hok; simp at hok
    | some position =>
      rw [hl] at hok
      simp only at hok
      cases hf : fields[position]? with
      | none => rw [hf] at hok; simp at hok
      | some ms =>
        obtain ⟨m, s⟩ := ms
        rw [hf] at hok
        simp only at hok
        have hposlt : position < fields.length := by
          have := List.getElem?_eq_some_iff.mp hf
          exact this.1
        -- the bytes handed to `serialize_next_field` are the field's bytes
        replace hok : (match nextField fields.length st position (fieldBytes env ser (m, s) val) with
            | .error e => Except.error e
            | .ok st1 => recordFields env ser fields rest st1) = Except.ok st' := by
          cases val <;> exact hok
        cases hn : nextField fields.length st position (fieldBytes env ser (m, s) val) with
        | error e => rw [hn] at hok; simp at hok
        | ok st1 =>
          rw [hn] at hok
          simp only at hok
          have hun := nextField_unhandled _ _ _ _ _ _ _ hinv hn
          -- so this entry is the first one handed over for `position`
          have hspec : specField env ser fields given position = fieldBytes env ser (m, s) val := by
            unfold specField
            rw [hf]
            simp only
            have hnone : done.find? (fun kv => lookupPos fields kv.1 == some position) = none := by
              apply List.find?_eq_none.mpr
              intro kv hkv hp
              have hp' : lookupPos fields kv.1 = some position := by simpa using hp
              exact hun (hdone kv hkv position hp')
            rw [hg, List.find?_append, hnone]
            simp only [Option.none_or]
            rw [List.find?_cons_of_pos (by simp [hl])]
          obtain ⟨i1, i2, i3⟩ := nextField_inv _ _ _ _ _ _ hinv hposlt hspec hn
          apply recordFields_inv env ser fields given rest (done ++ [(key, val)]) st1 st' (by simp [hg]) i1 ?_ hok
          intro kv hkv p hp
          rcases List.mem_append.mp hkv with hkv | hkv
          · exact i3 p (hdone kv hkv p hp)
          · simp at hkv; subst hkv
            simp only at hp
            rw [hl] at hp; cases hp
            exact i2

/-- `end()`: the fields never handed over, from their defaults -/
theorem recordEnd_inv (env : Names) (ser : Schema → SerdeVal → SerOut) (fields : List (FieldMeta × Schema))
    (given : List (Bytes × Option SerdeVal)) :
    ∀ (fuel : Nat) (st st' : RecSt),
      RInv (specField env ser fields given) fields.length true st →
      (∀ kv ∈ given, ∀ p, lookupPos fields kv.1 = some p → Handled st p) →
      recordEnd env ser fields fuel st = .ok st' →
      RInv (specField env ser fields given) fields.length true st' ∧ st'.pos = fields.length
  | 0, st, st', hinv, hall, hok => by
    simp only [recordEnd] at hok
    split at hok
    · rename_i h
      simp only [Except.ok.injEq] at hok; subst hok
      exact ⟨hinv, by simpa using h⟩
    · simp at hok
  | fuel+1, st, st', hinv, hall, hok => by
    simp only [recordEnd] at hok
    split at hok
    · rename_i h
      simp only [Except.ok.injEq] at hok; subst hok
      exact ⟨hinv, by simpa using h⟩
    · cases hf : fields[st.pos]? with
      | none => rw [hf] at hok; simp at hok
      | some ms =>
        obtain ⟨m, s⟩ := ms
        rw [hf] at hok
        simp only at hok
        cases hd : m.default with
        | none => rw [hd] at hok; simp at hok
        | some d =>
          rw [hd] at hok
          simp only at hok
          have hposlt : st.pos < fields.length := (List.getElem?_eq_some_iff.mp hf).1
          replace hok : (match nextField fields.length st st.pos (fieldBytes env ser (m, s) none) with
              | .error e => Except.error e
              | .ok st1 => recordEnd env ser fields fuel st1) = Except.ok st' := by
            have hfb : fieldBytes env ser (m, s) none = (match defaultToSerde env 50 d s with
                | some dv => ser s dv
                | none => .error .other) := by
              simp only [fieldBytes, hd]
            cases hdt : defaultToSerde env 50 d s with
            | none => rw [hdt] at hok hfb; rw [hfb]; exact hok
            | some dv => rw [hdt] at hok hfb; rw [hfb]; exact hok
          cases hn : nextField fields.length st st.pos (fieldBytes env ser (m, s) none) with
          | error e => rw [hn] at hok; simp at hok
          | ok st1 =>
            rw [hn] at hok
            simp only at hok
            have hun := nextField_unhandled _ _ _ _ _ _ _ hinv hn
            have hspec : specField env ser fields given st.pos = fieldBytes env ser (m, s) none := by
              unfold specField
              rw [hf]
              simp only
              have hnone : given.find? (fun kv => lookupPos fields kv.1 == some st.pos) = none := by
                apply List.find?_eq_none.mpr
                intro kv hkv hp
                have hp' : lookupPos fields kv.1 = some st.pos := by simpa using hp
                exact hun (hall kv hkv st.pos hp')
              rw [hnone]
            obtain ⟨i1, _, i3⟩ := nextField_inv _ _ _ _ _ _ hinv hposlt hspec hn
            exact recordEnd_inv env ser fields given fuel st1 st' i1 (fun kv hkv p hp => i3 p (hall kv hkv p hp)) hok

end Avro
