import AvroModel
import AvroProofs.Lemmas.SpecVarint
import AvroProofs.Lemmas.RoundTrip
import AvroProofs.Lemmas.Container
/-! C02, reverse direction: every specification-legal layout is decoded to its value. -/
namespace Avro
open Avro.Spec

section
variable {cfg : Cfg} {env : Names}

/-- decoding `enc` followed by anything returns `v` and exactly the rest, for every large enough
recursion budget -/
def DC (cfg : Cfg) (env : Names) (s : Schema) (v : Value) (enc : Bytes) : Prop :=
  ∃ n, ∀ fuel, n ≤ fuel → ∀ rest, decode cfg env fuel s (enc ++ rest) = .ok (v, rest)

def DCItems (cfg : Cfg) (env : Names) (s : Schema) (vs : List Value) (enc : Bytes) : Prop :=
  ∃ n, ∀ fuel, n ≤ fuel → ∀ acc rest,
    decodeN (decode cfg env fuel s) vs.length acc (enc ++ rest) = .ok (acc.reverse ++ vs, rest)

def DCEntries (cfg : Cfg) (env : Names) (s : Schema) (es : List (Bytes × Value)) (enc : Bytes) : Prop :=
  ∃ n, ∀ fuel, n ≤ fuel → ∀ acc rest,
    decodeN (decEntryWith cfg.lim (decode cfg env fuel s)) es.length acc (enc ++ rest) = .ok (acc.reverse ++ es, rest)

def DCBlocks (cfg : Cfg) (env : Names) (s : Schema) (k : Nat) (vs : List Value) (enc : Bytes) : Prop :=
  ∃ n, ∀ fuel, n ≤ fuel → ∀ (acc : List Value) (rest : Bytes) (bfuel : Nat), acc.length = k → enc.length < bfuel →
    arrayLoop cfg (decode cfg env fuel s) bfuel acc (enc ++ rest) = .ok (acc ++ vs, rest)

def DCMapBlocks (cfg : Cfg) (env : Names) (s : Schema) (k : Nat) (es : List (Bytes × Value)) (enc : Bytes) : Prop :=
  ∃ n, ∀ fuel, n ≤ fuel → ∀ (acc : List (Bytes × Value)) (rest : Bytes) (bfuel : Nat), acc.length = k →
    ((acc ++ es).map Prod.fst).Nodup → enc.length < bfuel →
    mapLoop cfg (decEntryWith cfg.lim (decode cfg env fuel s)) bfuel acc (enc ++ rest) = .ok (acc ++ es, rest)

def DCFields (cfg : Cfg) (env : Names) (fs : List (FieldMeta × Schema)) (vs : List (Bytes × Value)) (enc : Bytes) : Prop :=
  ∃ n, ∀ fuel, n ≤ fuel → ∀ rest, decodeFieldsWith (decode cfg env fuel) fs (enc ++ rest) = .ok (vs, rest)

/-- a leaf whose specification bytes are exactly what the model encoder produces inherits the
decode half of the C01 round trip -/
theorem dc_of_rt {s : Schema} {v : Value} {enc : Bytes} (hrt : RT cfg env s v)
    (henc : ∀ f, encode env (f+1) s v = .ok enc) : DC cfg env s v enc := by
  obtain ⟨bs, n, H⟩ := hrt
  have hb : bs = enc := by
    have h1 := (H (n + 1) (by omega)).1
    rw [henc n] at h1
    cases h1; rfl
  subst hb
  exact ⟨n, fun fuel hf rest => (H fuel hf).2 rest⟩

theorem long_nat (n : Nat) (h : n < 2^63) : Spec.long (n : Int) = encLong (n : Int) :=
  (encLong_eq_spec _ ⟨by omega, by omega⟩).symm

theorem long_i64 {n : Int} (h : i64ok n) : Spec.long n = encLong n := (encLong_eq_spec n h).symm
theorem long_i32 {n : Int} (h : i32ok n) : Spec.long n = encLong n :=
  long_i64 ⟨by have := h.1; omega, by have := h.2; omega⟩

theorem dc_null : DC cfg env .null .null [] := dc_of_rt rt_null (by intro f; simp [encode, deref])
theorem dc_boolean (b : Bool) : DC cfg env .boolean (.boolean b) [if b then 1 else 0] :=
  dc_of_rt (rt_boolean b) (by intro f; simp [encode, deref])
theorem dc_int {n : Int} (h : i32ok n) : DC cfg env .int (.int n) (Spec.long n) :=
  dc_of_rt (rt_int h) (by intro f; simp [encode, deref, long_i32 h, encInt])
theorem dc_date {n : Int} (h : i32ok n) : DC cfg env .date (.date n) (Spec.long n) :=
  dc_of_rt (rt_date h) (by intro f; simp [encode, deref, long_i32 h, encInt])
theorem dc_timeMillis {n : Int} (h : i32ok n) : DC cfg env .timeMillis (.timeMillis n) (Spec.long n) :=
  dc_of_rt (rt_timeMillis h) (by intro f; simp [encode, deref, long_i32 h, encInt])
theorem dc_long {n : Int} (h : i64ok n) : DC cfg env .long (.long n) (Spec.long n) :=
  dc_of_rt (rt_long h) (by intro f; simp [encode, deref, long_i64 h])
theorem dc_longL {k : LongKind} {n : Int} (h : i64ok n) : DC cfg env (.longL k) (.longL k n) (Spec.long n) :=
  dc_of_rt (rt_longL h) (by intro f; simp [encode, deref, long_i64 h])
theorem dc_float (b : UInt32) : DC cfg env .float (.float b) (leBytes 4 b.toNat) :=
  dc_of_rt (rt_float b) (by intro f; simp [encode, deref])
theorem dc_double (b : UInt64) : DC cfg env .double (.double b) (leBytes 8 b.toNat) :=
  dc_of_rt (rt_double b) (by intro f; simp [encode, deref])
theorem dc_bytes {b : Bytes} (hl : cfg.lim < 2^63) (h : b.length ≤ cfg.lim) :
    DC cfg env .bytes (.bytes b) (Spec.long b.length ++ b) :=
  dc_of_rt (rt_bytes hl h) (by intro f; simp [encode, deref, encBytes, long_nat b.length (by omega)])
theorem dc_string {u : Bytes} (hl : cfg.lim < 2^63) (h : u.length ≤ cfg.lim) (hu : validUtf8 u = true) :
    DC cfg env .string (.string u) (Spec.long u.length ++ u) :=
  dc_of_rt (rt_string hl h hu) (by intro f; simp [encode, deref, encBytes, long_nat u.length (by omega)])
theorem dc_fixed {name b : Bytes} (h : b.length ≤ cfg.lim) : DC cfg env (.fixed name b.length) (.fixed b.length b) b :=
  dc_of_rt (rt_fixed h) (by intro f; simp [encode, deref])
theorem dc_enum {name : Bytes} {syms : List Bytes} {d : Option Bytes} {i : Nat} {sym : Bytes}
    (h : syms[i]? = some sym) (hi : i < 2^31) : DC cfg env (.enum name syms d) (.enum i sym) (Spec.long i) :=
  dc_of_rt (rt_enum h hi) (by intro f; simp [encode, deref, u32AsI32_small hi, encInt, long_nat i (by omega)])
theorem dc_duration {name : Bytes} {mo d ms : Nat} (h1 : mo < 2^32) (h2 : d < 2^32) (h3 : ms < 2^32) :
    DC cfg env (.duration name 12) (.duration mo d ms) (leBytes 4 mo ++ leBytes 4 d ++ leBytes 4 ms) :=
  dc_of_rt (rt_duration h1 h2 h3) (by intro f; simp [encode, deref, durationBytes])

/-- decimals: the decoder takes whatever two's-complement bytes are there -/
theorem dc_decimalBytes {p sc : Nat} {i : Int} {b : Bytes} (hl : cfg.lim < 2^63)
    (h1 : fromSignedBE b = i) (h2 : b.length ≤ cfg.lim) :
    DC cfg env (.decimal p sc .bytes) (.decimal i b.length) (Spec.long b.length ++ b) := by
  refine ⟨1, fun fuel hf rest => ?_⟩
  obtain ⟨f, rfl⟩ : ∃ f, fuel = f + 1 := ⟨fuel - 1, by omega⟩
  have := decBytes_encBytes cfg.lim b h2 hl rest
  unfold encBytes at this
  rw [List.append_assoc] at this
  rw [long_nat b.length (by omega)]
  simp [decode, this, h1]

theorem dc_decimalFixed {p sc : Nat} {name : Bytes} {i : Int} {b : Bytes}
    (h1 : fromSignedBE b = i) (h2 : b.length ≤ cfg.lim) :
    DC cfg env (.decimal p sc (.fixed name b.length)) (.decimal i b.length) b := by
  refine ⟨1, fun fuel hf rest => ?_⟩
  obtain ⟨f, rfl⟩ : ∃ f, fuel = f + 1 := ⟨fuel - 1, by omega⟩
  simp [decode, decFixed_ok cfg.lim b h2, h1]

theorem dc_union {bs : List Schema} {i : Nat} {b : Schema} {v : Value} {enc : Bytes}
    (h : bs[i]? = some b) (hi : i < 2^32) (ih : DC cfg env b v enc) :
    DC cfg env (.union bs) (.union i v) (Spec.long i ++ enc) := by
  obtain ⟨n0, H⟩ := ih
  refine ⟨n0 + 1, fun fuel hf rest => ?_⟩
  obtain ⟨f, rfl, hf'⟩ := succ_of_le hf
  have h0 : ¬ ((i : Int) < 0) := by omega
  rw [long_nat i (by omega)]
  simp only [decode]
  rw [List.append_assoc, decLong_encLong (i : Int) (by omega) (by omega)]
  simp [h0, h, H f hf' rest, Nat.mod_eq_of_lt hi]

theorem dc_ref {n : Bytes} {s : Schema} {v : Value} {enc : Bytes}
    (h : env.find? n = some s) (ih : DC cfg env s v enc) : DC cfg env (.ref n) v enc := by
  obtain ⟨n0, H⟩ := ih
  refine ⟨n0 + 1, fun fuel hf rest => ?_⟩
  obtain ⟨f, rfl, hf'⟩ := succ_of_le hf
  simp only [decode, h]
  exact H f hf' rest

theorem dcitems_nil {s : Schema} : DCItems cfg env s [] [] :=
  ⟨0, fun _ _ acc rest => by simp [decodeN]⟩

theorem dcitems_cons {s : Schema} {v : Value} {vs : List Value} {e es : Bytes}
    (h : DC cfg env s v e) (t : DCItems cfg env s vs es) : DCItems cfg env s (v :: vs) (e ++ es) := by
  obtain ⟨n1, H1⟩ := h
  obtain ⟨n2, H2⟩ := t
  refine ⟨max n1 n2, fun fuel hf acc rest => ?_⟩
  simp only [List.length_cons, decodeN]
  rw [List.append_assoc, H1 fuel (by omega)]
  simp only []
  rw [H2 fuel (by omega)]
  simp

theorem dcentries_nil {s : Schema} : DCEntries cfg env s [] [] :=
  ⟨0, fun _ _ acc rest => by simp [decodeN]⟩

theorem dcentries_cons {s : Schema} {k : Bytes} {v : Value} {es : List (Bytes × Value)} {e rest' : Bytes}
    (hl : cfg.lim < 2^63) (hk : k.length ≤ cfg.lim) (hu : validUtf8 k = true)
    (h : DC cfg env s v e) (t : DCEntries cfg env s es rest') :
    DCEntries cfg env s ((k, v) :: es) (Spec.long k.length ++ k ++ e ++ rest') := by
  obtain ⟨n1, H1⟩ := h
  obtain ⟨n2, H2⟩ := t
  refine ⟨max n1 n2, fun fuel hf acc rest => ?_⟩
  simp only [List.length_cons, decodeN]
  have hd : decEntryWith cfg.lim (decode cfg env fuel s) (Spec.long k.length ++ k ++ e ++ rest' ++ rest)
      = .ok ((k, v), rest' ++ rest) := by
    unfold decEntryWith
    have := decString_encBytes cfg.lim k hk hl hu (e ++ (rest' ++ rest))
    unfold encBytes at this
    rw [long_nat k.length (by omega)]
    rw [show encLong ↑k.length ++ k ++ e ++ rest' ++ rest = encLong ↑k.length ++ k ++ (e ++ (rest' ++ rest)) by simp]
    rw [this]
    simp only []
    rw [H1 fuel (by omega)]
  rw [hd]
  simp only []
  rw [H2 fuel (by omega)]
  simp

theorem dcfields_nil : DCFields cfg env [] [] [] := ⟨0, fun _ _ rest => by simp [decodeFieldsWith]⟩

theorem dcfields_cons {m : FieldMeta} {s : Schema} {v : Value} {fs : List (FieldMeta × Schema)}
    {vs : List (Bytes × Value)} {e rest' : Bytes}
    (h : DC cfg env s v e) (t : DCFields cfg env fs vs rest') :
    DCFields cfg env ((m, s) :: fs) ((m.name, v) :: vs) (e ++ rest') := by
  obtain ⟨n1, H1⟩ := h
  obtain ⟨n2, H2⟩ := t
  refine ⟨max n1 n2, fun fuel hf rest => ?_⟩
  simp only [decodeFieldsWith]
  rw [List.append_assoc, H1 fuel (by omega)]
  simp only []
  rw [H2 fuel (by omega)]

theorem dc_record {name : Bytes} {fields : List (FieldMeta × Schema)} {vfs : List (Bytes × Value)} {enc : Bytes}
    (ih : DCFields cfg env fields vfs enc) : DC cfg env (.record name fields) (.record vfs) enc := by
  obtain ⟨n0, H⟩ := ih
  refine ⟨n0 + 1, fun fuel hf rest => ?_⟩
  obtain ⟨f, rfl, hf'⟩ := succ_of_le hf
  simp [decode, H f hf' rest]

/-- negative block count followed by the block's byte size -/
theorem decSeqLen_neg (lim n sz : Nat) (hn : 0 < n) (h : n ≤ lim) (hl : lim < 2^63) (hsz : sz < 2^63) (rest : Bytes) :
    decSeqLen lim (encLong (-(n : Int)) ++ (encLong sz ++ rest)) = .ok (n, rest) := by
  unfold decSeqLen
  rw [decLong_encLong (-(n : Int)) (by omega) (by omega)]
  have h1 : ¬ (-(n : Int) = 0) := by omega
  have h2 : (-(n : Int) < 0) := by omega
  simp only [h1, if_false, h2, if_true]
  rw [decLong_encLong (sz : Int) (by omega) (by omega)]
  have h3 : ¬ (-(n : Int) = -9223372036854775808) := by omega
  simp [h3, safeLen, h]

theorem encLong_len_pos (n : Int) : 0 < (encLong n).length :=
  List.length_pos_iff.mpr (encLong_ne_nil n)

theorem dcblocks_done {s : Schema} {k : Nat} : DCBlocks cfg env s k [] [0] := by
  refine ⟨0, fun fuel _ acc rest bfuel _ hb => ?_⟩
  obtain ⟨b, rfl⟩ : ∃ b, bfuel = b + 1 := ⟨bfuel - 1, by simp at hb; omega⟩
  simp [arrayLoop, decSeqLen_zero]

theorem dcblocks_pos {s : Schema} {k : Nat} {blk more : List Value} {benc menc : Bytes}
    (hl : cfg.lim < 2^63) (hne : blk ≠ []) (hi : DCItems cfg env s blk benc) (h1 : blk.length ≤ cfg.lim)
    (h2 : (k + blk.length) * cfg.szValue ≤ cfg.lim) (hsz : 1 ≤ cfg.szValue)
    (hm : DCBlocks cfg env s (k + blk.length) more menc) :
    DCBlocks cfg env s k (blk ++ more) (Spec.long blk.length ++ benc ++ menc) := by
  obtain ⟨n1, H1⟩ := hi
  obtain ⟨n2, H2⟩ := hm
  refine ⟨max n1 n2, fun fuel hf acc rest bfuel hacc hb => ?_⟩
  have hpos : 0 < blk.length := List.length_pos_iff.mpr hne
  have hlp := encLong_len_pos (blk.length : Int)
  rw [long_nat blk.length (by omega)] at hb ⊢
  obtain ⟨b, rfl⟩ : ∃ b, bfuel = b + 1 := ⟨bfuel - 1, by omega⟩
  rw [show encLong ↑blk.length ++ benc ++ menc ++ rest = encLong ↑blk.length ++ (benc ++ (menc ++ rest)) by simp]
  rw [arrayLoop, decSeqLen_pos cfg.lim blk.length hpos h1 hl]
  have hz : ¬ (blk.length = 0) := by omega
  have hle : k + blk.length ≤ cfg.lim := Nat.le_trans (Nat.le_mul_of_pos_right _ hsz) h2
  have ho : ¬ (acc.length + blk.length ≥ 2^64) := by rw [hacc]; omega
  simp only [hz, if_false, ho]
  rw [hacc, safeCollectionLen_ok hl h2]
  simp only []
  rw [H1 fuel (by omega) [] (menc ++ rest)]
  simp only [List.reverse_nil, List.nil_append]
  have hb' : menc.length < b := by
    simp only [List.length_append] at hb; omega
  rw [H2 fuel (by omega) (acc ++ blk) rest b (by simp [hacc]) hb']
  simp

theorem dcblocks_neg {s : Schema} {k : Nat} {blk more : List Value} {benc menc : Bytes}
    (hl : cfg.lim < 2^63) (hne : blk ≠ []) (hi : DCItems cfg env s blk benc) (h1 : blk.length ≤ cfg.lim)
    (h2 : (k + blk.length) * cfg.szValue ≤ cfg.lim) (hsz : 1 ≤ cfg.szValue) (hbl : benc.length < 2^63)
    (hm : DCBlocks cfg env s (k + blk.length) more menc) :
    DCBlocks cfg env s k (blk ++ more) (Spec.long (-(blk.length : Int)) ++ Spec.long benc.length ++ benc ++ menc) := by
  obtain ⟨n1, H1⟩ := hi
  obtain ⟨n2, H2⟩ := hm
  refine ⟨max n1 n2, fun fuel hf acc rest bfuel hacc hb => ?_⟩
  have hpos : 0 < blk.length := List.length_pos_iff.mpr hne
  have hlp := encLong_len_pos (-(blk.length : Int))
  rw [long_i64 (n := -(blk.length : Int)) ⟨by omega, by omega⟩, long_nat benc.length hbl] at hb ⊢
  obtain ⟨b, rfl⟩ : ∃ b, bfuel = b + 1 := ⟨bfuel - 1, by omega⟩
  rw [show encLong (-↑blk.length) ++ encLong ↑benc.length ++ benc ++ menc ++ rest =
      encLong (-↑blk.length) ++ (encLong ↑benc.length ++ (benc ++ (menc ++ rest))) by simp]
  rw [arrayLoop, decSeqLen_neg cfg.lim blk.length benc.length hpos h1 hl hbl]
  have hz : ¬ (blk.length = 0) := by omega
  have hle : k + blk.length ≤ cfg.lim := Nat.le_trans (Nat.le_mul_of_pos_right _ hsz) h2
  have ho : ¬ (acc.length + blk.length ≥ 2^64) := by rw [hacc]; omega
  simp only [hz, if_false, ho]
  rw [hacc, safeCollectionLen_ok hl h2]
  simp only []
  rw [H1 fuel (by omega) [] (menc ++ rest)]
  simp only [List.reverse_nil, List.nil_append]
  have hb' : menc.length < b := by
    simp only [List.length_append] at hb; omega
  rw [H2 fuel (by omega) (acc ++ blk) rest b (by simp [hacc]) hb']
  simp

theorem dc_array {inner : Schema} {items : List Value} {enc : Bytes}
    (ih : DCBlocks cfg env inner 0 items enc) : DC cfg env (.array inner) (.array items) enc := by
  obtain ⟨n0, H⟩ := ih
  refine ⟨n0 + 1, fun fuel hf rest => ?_⟩
  obtain ⟨f, rfl, hf'⟩ := succ_of_le hf
  simp only [decode]
  rw [H f hf' [] rest ((enc ++ rest).length + 1) rfl (by simp; omega)]
  simp

theorem dcmapblocks_done {s : Schema} {k : Nat} : DCMapBlocks cfg env s k [] [0] := by
  refine ⟨0, fun fuel _ acc rest bfuel _ _ hb => ?_⟩
  obtain ⟨b, rfl⟩ : ∃ b, bfuel = b + 1 := ⟨bfuel - 1, by simp at hb; omega⟩
  simp [mapLoop, decSeqLen_zero]

theorem nodup_prefix {acc blk more : List (Bytes × Value)} (h : ((acc ++ (blk ++ more)).map Prod.fst).Nodup) :
    ((acc ++ blk).map Prod.fst).Nodup := by
  have : (acc ++ (blk ++ more)).map Prod.fst = (acc ++ blk).map Prod.fst ++ more.map Prod.fst := by simp
  rw [this] at h
  exact (List.nodup_append.mp h).1

theorem dcmapblocks_step {s : Schema} {k : Nat} {blk more : List (Bytes × Value)} {benc menc hdr : Bytes}
    (hl : cfg.lim < 2^63) (hne : blk ≠ []) (hi : DCEntries cfg env s blk benc) (h1 : blk.length ≤ cfg.lim)
    (h2 : (k + blk.length) * cfg.szEntry ≤ cfg.lim) (hsz : 1 ≤ cfg.szEntry)
    (hhdr : ∀ r, decSeqLen cfg.lim (hdr ++ r) = .ok (blk.length, r)) (hhl : 0 < hdr.length)
    (hm : DCMapBlocks cfg env s (k + blk.length) more menc) :
    DCMapBlocks cfg env s k (blk ++ more) (hdr ++ benc ++ menc) := by
  obtain ⟨n1, H1⟩ := hi
  obtain ⟨n2, H2⟩ := hm
  refine ⟨max n1 n2, fun fuel hf acc rest bfuel hacc hnd hb => ?_⟩
  have hpos : 0 < blk.length := List.length_pos_iff.mpr hne
  obtain ⟨b, rfl⟩ : ∃ b, bfuel = b + 1 := ⟨bfuel - 1, by omega⟩
  rw [show hdr ++ benc ++ menc ++ rest = hdr ++ (benc ++ (menc ++ rest)) by simp]
  rw [mapLoop, hhdr]
  have hz : ¬ (blk.length = 0) := by omega
  have hle : k + blk.length ≤ cfg.lim := Nat.le_trans (Nat.le_mul_of_pos_right _ hsz) h2
  have ho : ¬ (acc.length + blk.length ≥ 2^64) := by rw [hacc]; omega
  simp only [hz, if_false, ho]
  rw [hacc, safeCollectionLen_ok hl h2]
  simp only []
  rw [H1 fuel (by omega) [] (menc ++ rest)]
  simp only [List.reverse_nil, List.nil_append]
  rw [foldl_mapInsert blk acc (nodup_prefix hnd)]
  have hb' : menc.length < b := by
    simp only [List.length_append] at hb; omega
  rw [H2 fuel (by omega) (acc ++ blk) rest b (by simp [hacc]) (by simpa using hnd) hb']
  simp

theorem dc_map {inner : Schema} {es : List (Bytes × Value)} {enc : Bytes}
    (ih : DCMapBlocks cfg env inner 0 es enc) (hn : (es.map Prod.fst).Nodup) :
    DC cfg env (.map inner) (.map es) enc := by
  obtain ⟨n0, H⟩ := ih
  refine ⟨n0 + 1, fun fuel hf rest => ?_⟩
  obtain ⟨f, rfl, hf'⟩ := succ_of_le hf
  simp only [decode]
  rw [H f hf' [] rest ((enc ++ rest).length + 1) rfl (by simpa using hn) (by simp; omega)]
  simp

/-! ### the induction over the specification relation -/

mutual
theorem spec_dc (hl : cfg.lim < 2^63) (h1 : 1 ≤ cfg.szValue) (h2 : 1 ≤ cfg.szEntry) (hP : PrimFacts) :
    ∀ {s : Schema} {v : Value} {enc : Bytes}, SpecEnc cfg env s v enc → DC cfg env s v enc
  | _, _, _, .null => dc_null
  | _, _, _, .boolean b => dc_boolean b
  | _, _, _, .int h => dc_int h
  | _, _, _, .date h => dc_date h
  | _, _, _, .timeMillis h => dc_timeMillis h
  | _, _, _, .long h => dc_long h
  | _, _, _, .longL h => dc_longL h
  | _, _, _, .float b => dc_float b
  | _, _, _, .double b => dc_double b
  | _, _, _, .bytes h => dc_bytes hl h
  | _, _, _, .string h hu => dc_string hl h hu
  | _, _, _, .fixed h => dc_fixed h
  | _, _, _, .enum h hi => dc_enum h hi
  | _, _, _, .union h hi c => dc_union h hi (spec_dc hl h1 h2 hP c)
  | _, _, _, .array c => dc_array (spec_blocks hl h1 h2 hP c)
  | _, _, _, .map c hn => dc_map (spec_mapblocks hl h1 h2 hP c) hn
  | _, _, _, .record c => dc_record (spec_fields hl h1 h2 hP c)
  | _, _, _, .decimalBytes e h => dc_decimalBytes hl e h
  | _, _, _, .decimalFixed e h => dc_decimalFixed e h
  | _, _, _, .uuidString (b := b) h16 h36 => by
    obtain ⟨t1, t2, t3⟩ := hP.uuid_text b h16
    have := dc_of_rt (cfg := cfg) (env := env) (rt_uuidString hl t1 t2 (by omega)) (enc := Spec.long 36 ++ uuidToText b)
      (by intro f; simp [encode, deref, encBytes, t3]; exact (long_nat 36 (by decide)).symm)
    exact this
  | _, _, _, .duration a b c => dc_duration a b c
  | _, _, _, .uuidFixed (b := b) h16 hlim =>
    dc_of_rt (rt_uuidFixed h16 hlim) (by intro f; simp [encode, deref])
  | _, _, _, .uuidBytes (b := b) h16 hlim =>
    dc_of_rt (rt_uuidBytes hl h16 hlim) (by intro f; simp [encode, deref, encBytes, h16]; exact (long_nat 16 (by decide)).symm)
  | _, _, _, .bigDecimal (u := u) (sc := sc) hu hsc hlen => by
    have hm : (toSignedBE u).length < 2^63 := by
      simp only [List.length_append] at hlen; omega
    have e1 : Spec.long ((toSignedBE u).length : Nat) = encLong ((toSignedBE u).length : Nat) := long_nat _ hm
    have e2 : Spec.long sc = encLong sc := long_i64 hsc
    have hlen' : (encBytes (toSignedBE u) ++ encLong sc).length ≤ cfg.lim := by
      simpa [encBytes, e1, e2] using hlen
    have e3 := long_nat (encBytes (toSignedBE u) ++ encLong sc).length (by omega)
    refine dc_of_rt (rt_bigDecimal hl hu hsc hlen') ?_
    intro f
    simp only [encode, deref, encBytes, e1, e2]
    simp only [encBytes] at e3
    rw [e3]
  | _, _, _, .ref h _ c => dc_ref h (spec_dc hl h1 h2 hP c)

theorem spec_items (hl : cfg.lim < 2^63) (h1 : 1 ≤ cfg.szValue) (h2 : 1 ≤ cfg.szEntry) (hP : PrimFacts) :
    ∀ {s : Schema} {vs : List Value} {enc : Bytes}, SpecItems cfg env s vs enc → DCItems cfg env s vs enc
  | _, _, _, .nil => dcitems_nil
  | _, _, _, .cons h t => dcitems_cons (spec_dc hl h1 h2 hP h) (spec_items hl h1 h2 hP t)

theorem spec_blocks (hl : cfg.lim < 2^63) (h1 : 1 ≤ cfg.szValue) (h2 : 1 ≤ cfg.szEntry) (hP : PrimFacts) :
    ∀ {s : Schema} {k : Nat} {vs : List Value} {enc : Bytes}, SpecBlocks cfg env s k vs enc → DCBlocks cfg env s k vs enc
  | _, _, _, _, .done => dcblocks_done
  | _, _, _, _, .pos hne hi ha hb hm =>
    dcblocks_pos hl hne (spec_items hl h1 h2 hP hi) ha hb h1 (spec_blocks hl h1 h2 hP hm)
  | _, _, _, _, .neg hne hi ha hb hc hm =>
    dcblocks_neg hl hne (spec_items hl h1 h2 hP hi) ha hb h1 hc (spec_blocks hl h1 h2 hP hm)

theorem spec_entries (hl : cfg.lim < 2^63) (h1 : 1 ≤ cfg.szValue) (h2 : 1 ≤ cfg.szEntry) (hP : PrimFacts) :
    ∀ {s : Schema} {es : List (Bytes × Value)} {enc : Bytes}, SpecEntries cfg env s es enc → DCEntries cfg env s es enc
  | _, _, _, .nil => dcentries_nil
  | _, _, _, .cons hk hu h t => dcentries_cons hl hk hu (spec_dc hl h1 h2 hP h) (spec_entries hl h1 h2 hP t)

theorem spec_mapblocks (hl : cfg.lim < 2^63) (h1 : 1 ≤ cfg.szValue) (h2 : 1 ≤ cfg.szEntry) (hP : PrimFacts) :
    ∀ {s : Schema} {k : Nat} {es : List (Bytes × Value)} {enc : Bytes},
      SpecMapBlocks cfg env s k es enc → DCMapBlocks cfg env s k es enc
  | _, _, _, _, .done => dcmapblocks_done
  | _, _, _, _, .pos (blk := blk) hne hi ha hb hm => by
    have hpos : 0 < blk.length := List.length_pos_iff.mpr hne
    have := dcmapblocks_step (hdr := Spec.long blk.length) hl hne (spec_entries hl h1 h2 hP hi) ha hb h2
      (by intro r; rw [long_nat blk.length (by omega)]; exact decSeqLen_pos cfg.lim blk.length hpos ha hl r)
      (by rw [long_nat blk.length (by omega)]; exact encLong_len_pos _)
      (spec_mapblocks hl h1 h2 hP hm)
    exact this
  | _, _, _, _, .neg (blk := blk) (benc := benc) hne hi ha hb hc hm => by
    have hpos : 0 < blk.length := List.length_pos_iff.mpr hne
    have := dcmapblocks_step (hdr := Spec.long (-(blk.length : Int)) ++ Spec.long benc.length) hl hne
      (spec_entries hl h1 h2 hP hi) ha hb h2
      (by
        intro r
        rw [long_i64 (n := -(blk.length : Int)) ⟨by omega, by omega⟩, long_nat benc.length hc, List.append_assoc]
        exact decSeqLen_neg cfg.lim blk.length benc.length hpos ha hl hc r)
      (by
        rw [long_i64 (n := -(blk.length : Int)) ⟨by omega, by omega⟩]
        have := encLong_len_pos (-(blk.length : Int)); simp; omega)
      (spec_mapblocks hl h1 h2 hP hm)
    exact this

theorem spec_fields (hl : cfg.lim < 2^63) (h1 : 1 ≤ cfg.szValue) (h2 : 1 ≤ cfg.szEntry) (hP : PrimFacts) :
    ∀ {fs : List (FieldMeta × Schema)} {vs : List (Bytes × Value)} {enc : Bytes},
      SpecFields cfg env fs vs enc → DCFields cfg env fs vs enc
  | _, _, _, .nil => dcfields_nil
  | _, _, _, .cons h t => dcfields_cons (spec_dc hl h1 h2 hP h) (spec_fields hl h1 h2 hP t)
end

end
end Avro
