import AvroProofs.Lemmas.ParseWf
import AvroModel.Derive
/-!
Local well-formedness of derived schemas (`wfP`, the predicate the parser's output satisfies - C11):
if the names the attributes produce are identifiers and distinct per record (`DeriveEnvOk`, a decidable
condition on the definitions), every schema `deriveTy` returns satisfies `wfP`.  Tuple-variant field
names `field_0 …` are shown to be distinct identifiers outright.
-/
namespace Avro

/-! ### `field_<i>` -/

def digitByte (d : Nat) : UInt8 := UInt8.ofNat (48 + d)

theorem natDigits_eq : ∀ fuel n, natDigits fuel n =
    match fuel with
    | 0 => []
    | fuel+1 => if n < 10 then [digitByte n] else natDigits fuel (n / 10) ++ [digitByte (n % 10)] := by
  intro fuel n
  cases fuel <;> rfl

theorem digitByte_toNat {d : Nat} (h : d < 10) : (digitByte d).toNat = 48 + d := by
  unfold digitByte
  simp only [UInt8.toNat_ofNat']
  omega

theorem digitByte_idChar {d : Nat} (h : d < 10) : isIdChar (digitByte d) = true := by
  have := digitByte_toNat h
  unfold isIdChar isIdStart
  simp only [Bool.or_eq_true, Bool.and_eq_true, decide_eq_true_eq, UInt8.le_iff_toNat_le]
  right
  constructor <;> (simp only [UInt8.toNat_ofNat]; omega)

/-- the number a digit string denotes -/
def digitsVal (bs : Bytes) : Nat := bs.foldl (fun acc c => acc * 10 + (c.toNat - 48)) 0

theorem digitsVal_append (xs : Bytes) (c : UInt8) : digitsVal (xs ++ [c]) = digitsVal xs * 10 + (c.toNat - 48) := by
  simp [digitsVal, List.foldl_append]

theorem natDigits_val : ∀ (fuel n : Nat), n < fuel → digitsVal (natDigits fuel n) = n := by
  intro fuel
  induction fuel with
  | zero => intro n h; omega
  | succ fuel ih =>
    intro n h
    rw [natDigits_eq]
    by_cases hn : n < 10
    · simp only [hn, if_true]
      simp [digitsVal, digitByte_toNat hn]
    · simp only [hn, if_false]
      rw [digitsVal_append, ih (n / 10) (by omega), digitByte_toNat (Nat.mod_lt n (by omega))]
      omega

theorem natDigits_idChars : ∀ (fuel n : Nat), (natDigits fuel n).all isIdChar = true := by
  intro fuel
  induction fuel with
  | zero => intro n; rfl
  | succ fuel ih =>
    intro n
    rw [natDigits_eq]
    by_cases hn : n < 10
    · simp [hn, digitByte_idChar hn]
    · simp only [hn, if_false, List.all_append, ih, Bool.true_and]
      simp [digitByte_idChar (Nat.mod_lt n (by omega : 0 < 10))]

theorem natBytes_inj {a b : Nat} (h : natBytes a = natBytes b) : a = b := by
  have ha := natDigits_val (a+1) a (by omega)
  have hb := natDigits_val (b+1) b (by omega)
  unfold natBytes at h
  rw [h] at ha
  omega

def tupleFieldName (i : Nat) : Bytes := b!"field_" ++ natBytes i

theorem tupleFieldName_ident (i : Nat) : isIdent (tupleFieldName i) = true := by
  unfold tupleFieldName isIdent
  simp only [List.cons_append, List.nil_append, List.all_cons, Bool.and_eq_true]
  refine ⟨by decide, by decide, by decide, by decide, by decide, by decide, ?_⟩
  exact natDigits_idChars _ _

theorem tupleFieldName_inj {a b : Nat} (h : tupleFieldName a = tupleFieldName b) : a = b := by
  unfold tupleFieldName at h
  exact natBytes_inj (List.append_cancel_left h)

/-! ### the lookup table check, on names alone -/

def lookupOkNames : List (Bytes × List Bytes) → List Bytes → Bool
  | [], _ => true
  | (n, al) :: rest, keys => if keys.contains n then false else lookupOkNames rest (al ++ n :: keys)

theorem fieldLookupOk_names : ∀ (fs : List (FieldHdr × PSchema)) (keys : List Bytes),
    fieldLookupOk fs keys = lookupOkNames (fs.map (fun f => (f.1.name, f.1.aliases))) keys := by
  intro fs
  induction fs with
  | nil => intro keys; rfl
  | cons f rest ih =>
    intro keys
    obtain ⟨h, s⟩ := f
    simp only [fieldLookupOk, List.map_cons, lookupOkNames, ih]

/-- the names a definition's attributes give to its (unskipped) fields are identifiers, pairwise
distinct and distinct from each other's aliases -/
def fieldsOk (rule : RenameRule) (fs : List FieldDef) : Bool :=
  let live := fs.filter (fun f => !f.skip)
  fs.all (fun f => !f.flatten) && live.all (fun f => isIdent (fieldName f rule)) &&
    lookupOkNames (live.map (fun f => (fieldName f rule, f.aliases))) []

def variantOk (rulef : RenameRule) (v : VariantDef) : Bool :=
  match v.shape with
  | .struct fields => fieldsOk (v.renameAll.or rulef) fields
  | _ => true

def typeDefOk : TypeDef → Bool
  | .struct _ _ _ _ rule fields => fieldsOk rule fields
  | .enum _ _ _ _ rule rulef variants =>
    let live := variants.filter (fun v => !v.skip)
    if plainLike variants then
      (live.map (fun v => variantName v rule)).all isIdent && decide (live.map (fun v => variantName v rule)).Nodup
    else live.all (variantOk rulef)
  | .transparent _ _ => true
  | .enumRepr _ _ _ _ _ _ _ _ => false      -- the other representations are outside this theorem

def DeriveEnvOk (env : DEnv) : Prop := ∀ td ∈ env, typeDefOk td = true

theorem recordOf_some {pn : PName} {al : Option (List PName)} {doc : Option Bytes} {fs : List (FieldHdr × PSchema)} {attrs : Attrs}
    {n n' : List PName} {s : PSchema} (h : recordOf pn al doc fs attrs n = some (s, n')) :
    s = .record pn al doc fs attrs ∧ n' = n := by
  unfold recordOf at h
  split at h
  · simp at h; exact ⟨h.1.symm, h.2.symm⟩
  · simp at h

/-- every schema `go` returns is well formed -/
def GoodD (go : List PName → Option Bytes → TyExpr → DOut) : Prop :=
  ∀ named ns t s named', go named ns t = some (s, named') → wfP s = true

/-! ### fields -/

theorem deriveFields_wf (go : List PName → Option Bytes → TyExpr → DOut) (goF : List PName → Option Bytes → TyExpr → DFields) (dflt : TyExpr → Option Json) (hg : GoodD go) (rule : RenameRule) :
    ∀ (fs : List FieldDef) (named : List PName) (ns : Option Bytes) out named',
      deriveFieldsWith go goF dflt rule fs named ns = some (out, named') → fs.all (fun f => !f.flatten) = true →
      ((fs.filter (fun f => !f.skip)).all (fun f => isIdent (fieldName f rule)) = true) →
      wfPFields out = true ∧
      out.map (fun f => (f.1.name, f.1.aliases)) = (fs.filter (fun f => !f.skip)).map (fun f => (fieldName f rule, f.aliases)) := by
  intro fs
  induction fs with
  | nil =>
    intro named ns out named' h _ _
    simp [deriveFieldsWith] at h
    obtain ⟨h1, _⟩ := h
    subst h1
    exact ⟨rfl, rfl⟩
  | cons f rest ih =>
    intro named ns out named' h hnf hid
    have hnf2 : f.flatten = false ∧ rest.all (fun f => !f.flatten) = true := by simpa using hnf
    unfold deriveFieldsWith at h
    by_cases hs : f.skip = true
    · simp [hs] at h
      have hid' : (rest.filter (fun f => !f.skip)).all (fun f => isIdent (fieldName f rule)) = true := by
        simpa [List.filter, hs] using hid
      simpa [List.filter, hs] using ih _ _ _ _ h hnf2.2 hid'
    · simp [hs, hnf2.1] at h
      have hid2 : isIdent (fieldName f rule) = true ∧
          (rest.filter (fun f => !f.skip)).all (fun f => isIdent (fieldName f rule)) = true := by
        simpa [List.filter, hs] using hid
      cases hgo : go named ns f.ty with
      | none => simp [hgo] at h
      | some r =>
        obtain ⟨s, n1⟩ := r
        simp [hgo] at h
        cases hr : deriveFieldsWith go goF dflt rule rest n1 ns with
        | none => simp [hr] at h
        | some r2 =>
          obtain ⟨fs2, n2⟩ := r2
          simp [hr] at h
          obtain ⟨h1, _⟩ := h
          subst h1
          obtain ⟨ihw, ihn⟩ := ih _ _ _ _ hr hnf2.2 hid2.2
          refine ⟨?_, ?_⟩
          · simp [wfPFields, hid2.1, hg _ _ _ _ _ hgo, ihw]
          · simp [List.filter, hs, ihn]

theorem deriveFields_record_wf (go : List PName → Option Bytes → TyExpr → DOut) (goF : List PName → Option Bytes → TyExpr → DFields) (dflt : TyExpr → Option Json) (hg : GoodD go) (rule : RenameRule)
    (fs : List FieldDef) (named : List PName) (ns : Option Bytes) (out) (named')
    (h : deriveFieldsWith go goF dflt rule fs named ns = some (out, named')) (hok : fieldsOk rule fs = true) :
    fieldLookupOk out [] = true ∧ wfPFields out = true := by
  unfold fieldsOk at hok
  simp only [Bool.and_eq_true] at hok
  obtain ⟨hw, hn⟩ := deriveFields_wf go goF dflt hg rule fs named ns out named' h hok.1.1 hok.1.2
  exact ⟨by rw [fieldLookupOk_names, hn]; exact hok.2, hw⟩

/-! ### tuple fields -/

theorem deriveTupleFields_wf (go : List PName → Option Bytes → TyExpr → DOut) (dflt : TyExpr → Option Json) (hg : GoodD go) :
    ∀ (tys : List TyExpr) (i : Nat) (named : List PName) (ns : Option Bytes) out named',
      deriveTupleFieldsWith go dflt tys i named ns = some (out, named') →
      wfPFields out = true ∧
      out.map (fun f => (f.1.name, f.1.aliases)) = (List.range' i tys.length).map (fun k => (tupleFieldName k, [])) := by
  intro tys
  induction tys with
  | nil =>
    intro i named ns out named' h
    simp [deriveTupleFieldsWith] at h
    obtain ⟨h1, _⟩ := h
    subst h1
    exact ⟨rfl, rfl⟩
  | cons t rest ih =>
    intro i named ns out named' h
    unfold deriveTupleFieldsWith at h
    cases hgo : go named ns t with
    | none => simp [hgo] at h
    | some r =>
      obtain ⟨s, n1⟩ := r
      simp [hgo] at h
      cases hr : deriveTupleFieldsWith go dflt rest (i+1) n1 ns with
      | none => simp [hr] at h
      | some r2 =>
        obtain ⟨fs2, n2⟩ := r2
        simp [hr] at h
        obtain ⟨h1, _⟩ := h
        subst h1
        obtain ⟨ihw, ihn⟩ := ih _ _ _ _ _ hr
        refine ⟨?_, ?_⟩
        · have := tupleFieldName_ident i
          simp only [tupleFieldName, List.cons_append, List.nil_append] at this
          simp [wfPFields, this, hg _ _ _ _ _ hgo, ihw]
        · simp [List.range', ihn, tupleFieldName]

theorem lookupOk_tuple : ∀ (n i : Nat) (keys : List Bytes), (∀ k ∈ keys, ∃ j, j < i ∧ k = tupleFieldName j) →
    lookupOkNames ((List.range' i n).map (fun k => (tupleFieldName k, []))) keys = true := by
  intro n
  induction n with
  | zero => intro i keys _; rfl
  | succ n ih =>
    intro i keys hk
    simp only [List.range', List.map_cons, lookupOkNames]
    have hnot : keys.contains (tupleFieldName i) = false := by
      cases hc : keys.contains (tupleFieldName i) with
      | false => rfl
      | true =>
        have hm : tupleFieldName i ∈ keys := by simpa using hc
        obtain ⟨j, hj, he⟩ := hk _ hm
        have := tupleFieldName_inj he
        omega
    simp only [hnot, Bool.false_eq_true, if_false, List.nil_append]
    apply ih
    intro k hkm
    cases hkm with
    | head => exact ⟨i, by omega, rfl⟩
    | tail _ hkm' =>
      obtain ⟨j, hj, he⟩ := hk _ hkm'
      exact ⟨j, by omega, he⟩

theorem deriveTupleFields_record_wf (go : List PName → Option Bytes → TyExpr → DOut) (dflt : TyExpr → Option Json) (hg : GoodD go)
    (tys : List TyExpr) (named : List PName) (ns : Option Bytes) (out) (named')
    (h : deriveTupleFieldsWith go dflt tys 0 named ns = some (out, named')) :
    fieldLookupOk out [] = true ∧ wfPFields out = true := by
  obtain ⟨hw, hn⟩ := deriveTupleFields_wf go dflt hg tys 0 named ns out named' h
  refine ⟨?_, hw⟩
  rw [fieldLookupOk_names, hn]
  exact lookupOk_tuple _ 0 [] (by intro k hk; cases hk)

/-! ### variants -/

theorem deriveVariant_wf (go : List PName → Option Bytes → TyExpr → DOut) (goF : List PName → Option Bytes → TyExpr → DFields) (dflt : TyExpr → Option Json) (hg : GoodD go) (r rf : RenameRule)
    (v : VariantDef) (named : List PName) (ns : Option Bytes) (s : PSchema) (named' : List PName)
    (h : deriveVariantWith go goF dflt r rf v named ns = some (s, named')) (hok : variantOk rf v = true) : wfP s = true := by
  unfold deriveVariantWith at h
  cases hm : PName.make (variantName v r) ns with
  | none => simp [hm] at h
  | some pn =>
    have hpn := make_ok hm
    simp [hm] at h
    cases hsh : v.shape with
    | unit =>
      simp [hsh] at h
      rw [← h.1]
      simp [wfP, hpn, fieldLookupOk, wfPFields]
    | tuple tys =>
      simp [hsh] at h
      cases hr : deriveTupleFieldsWith go dflt tys 0 named ns with
      | none => simp [hr] at h
      | some r2 =>
        obtain ⟨fs, n2⟩ := r2
        simp only [hr] at h
        obtain ⟨hs, _⟩ := recordOf_some h
        subst hs
        obtain ⟨hl, hw⟩ := deriveTupleFields_record_wf go dflt hg tys named ns fs n2 hr
        simp [wfP, hpn, hl, hw]
    | struct fields =>
      simp [hsh] at h
      have hok' : fieldsOk (v.renameAll.or rf) fields = true := by simpa [variantOk, hsh] using hok
      cases hr : deriveFieldsWith go goF dflt (v.renameAll.or rf) fields named ns with
      | none => simp [hr] at h
      | some r2 =>
        obtain ⟨fs, n2⟩ := r2
        simp only [hr] at h
        obtain ⟨hs, _⟩ := recordOf_some h
        subst hs
        obtain ⟨hl, hw⟩ := deriveFields_record_wf go goF dflt hg _ fields named ns fs n2 hr hok'
        simp [wfP, hpn, hl, hw]

theorem deriveVariants_wf (go : List PName → Option Bytes → TyExpr → DOut) (goF : List PName → Option Bytes → TyExpr → DFields) (dflt : TyExpr → Option Json) (hg : GoodD go) (r rf : RenameRule) :
    ∀ (vs : List VariantDef) (named : List PName) (ns : Option Bytes) out named',
      deriveVariantsWith go goF dflt r rf vs named ns = some (out, named') →
      (vs.filter (fun v => !v.skip)).all (variantOk rf) = true → wfPList out = true := by
  intro vs
  induction vs with
  | nil =>
    intro named ns out named' h _
    simp [deriveVariantsWith] at h
    obtain ⟨h1, _⟩ := h
    subst h1
    rfl
  | cons v rest ih =>
    intro named ns out named' h hok
    unfold deriveVariantsWith at h
    by_cases hs : v.skip = true
    · simp [hs] at h
      exact ih _ _ _ _ h (by simpa [List.filter, hs] using hok)
    · simp [hs] at h
      have hok2 : variantOk rf v = true ∧ (rest.filter (fun v => !v.skip)).all (variantOk rf) = true := by
        simpa [List.filter, hs] using hok
      cases hv : deriveVariantWith go goF dflt r rf v named ns with
      | none => simp [hv] at h
      | some r1 =>
        obtain ⟨s, n1⟩ := r1
        simp [hv] at h
        cases hr : deriveVariantsWith go goF dflt r rf rest n1 ns with
        | none => simp [hr] at h
        | some r2 =>
          obtain ⟨ss, n2⟩ := r2
          simp [hr] at h
          rw [← h.1]
          simp [wfPList, deriveVariant_wf go goF dflt hg r rf v named ns s n1 hv hok2.1, ih _ _ _ _ hr hok2.2]

/-! ### the derive -/

theorem find_mem {env : DEnv} {ident : Bytes} {td : TypeDef} (h : env.find? ident = some td) : td ∈ env := by
  unfold DEnv.find? at h
  exact List.mem_of_find?_eq_some h

theorem deriveTy_good (env : DEnv) (henv : DeriveEnvOk env) : ∀ fuel, GoodD (deriveTy env fuel) := by
  intro fuel
  induction fuel with
  | zero => intro named ns t s named' h; simp [deriveTy] at h
  | succ fuel ih =>
    intro named ns t s named' h
    cases t with
    | bool | i8 | i16 | i32 | i64 | u8 | u16 | u32 | f32 | f64 | string | char =>
      simp [deriveTy] at h; rw [← h.1]; rfl
    | u64 | i128 | u128 =>
      simp only [deriveTy, rustFixed] at h
      split at h <;> (simp at h; rw [← h.1]; simp only [wfP]; decide)
    | boxed t' => simp only [deriveTy] at h; exact ih _ _ _ _ _ h
    | vec t' =>
      simp only [deriveTy] at h
      cases hr : deriveTy env fuel named ns t' with
      | none => simp [hr] at h
      | some r => simp [hr] at h; rw [← h.1]; simpa [wfP] using ih _ _ _ _ _ hr
    | map t' =>
      simp only [deriveTy] at h
      cases hr : deriveTy env fuel named ns t' with
      | none => simp [hr] at h
      | some r => simp [hr] at h; rw [← h.1]; simpa [wfP] using ih _ _ _ _ _ hr
    | option t' =>
      simp only [deriveTy] at h
      cases hr : deriveTy env fuel named ns t' with
      | none => simp [hr] at h
      | some r =>
        obtain ⟨s', n'⟩ := r
        simp only [hr] at h
        cases hu : unionNew [.null, s'] [] [] with
        | none => simp [hu] at h
        | some u =>
          simp [hu] at h
          rw [← h.1]
          simp [wfP, hu, wfPList, ih _ _ _ _ _ hr]
    | named ident =>
      simp only [deriveTy] at h
      cases hf : env.find? ident with
      | none => simp [hf] at h
      | some td =>
        have htd := henv td (find_mem hf)
        cases td with
        | enumRepr repr i name doc aliases rule rulef variants => simp [typeDefOk] at htd
        | transparent i fields =>
          simp only [hf] at h
          cases ht : transparentField fields with
          | none => simp [ht] at h
          | some f => simp only [ht] at h; exact ih _ _ _ _ _ h
        | struct i name doc aliases rule fields =>
          simp only [hf] at h
          cases hm : PName.make name ns with
          | none => simp [hm] at h
          | some pn =>
            have hpn := make_ok hm
            simp only [hm] at h
            by_cases hc : pn ∈ named
            · simp [hc] at h; rw [← h.1]; simpa [wfP] using hpn
            · simp only [List.contains_iff_mem, hc, if_false] at h
              cases ha : deriveAliases aliases with
              | none => simp [ha] at h
              | some al =>
                simp only [ha] at h
                cases hr : deriveFieldsWith (deriveTy env fuel) (deriveRec env fuel) (typeFieldDefault env fuel) rule fields (pn :: named) pn.ns with
                | none => simp [hr] at h
                | some r2 =>
                  obtain ⟨fs, n2⟩ := r2
                  simp only [hr] at h
                  obtain ⟨hs, _⟩ := recordOf_some h
                  subst hs
                  obtain ⟨hl, hw⟩ := deriveFields_record_wf _ _ _ ih rule fields _ _ fs n2 hr (by simpa [typeDefOk] using htd)
                  simp [wfP, hpn, hl, hw]
        | «enum» i name doc aliases rule rulef variants =>
          simp only [hf] at h
          unfold typeDefOk at htd
          by_cases hp : plainLike variants = true
          · simp only [hp, if_true] at h htd
            cases hm : PName.make name ns with
            | none => simp [hm] at h
            | some pn =>
              have hpn := make_ok hm
              simp only [hm] at h
              by_cases hc : pn ∈ named
              · simp [hc] at h; rw [← h.1]; simpa [wfP] using hpn
              · simp only [List.contains_iff_mem, hc, if_false] at h
                cases ha : deriveAliases aliases with
                | none => simp [ha] at h
                | some al =>
                  simp only [ha, Option.some.injEq, Prod.mk.injEq] at h
                  rw [← h.1]
                  simp only [Bool.and_eq_true, decide_eq_true_eq] at htd
                  have hd : optMem ((List.find? (fun v => v.isDefault) (List.filter (fun v => !v.skip) variants)).map
                      (fun v => variantName v rule)) ((List.filter (fun v => !v.skip) variants).map (fun v => variantName v rule)) = true := by
                    cases hfd : List.find? (fun v => v.isDefault) (List.filter (fun v => !v.skip) variants) with
                    | none => rfl
                    | some v =>
                      simp only [Option.map_some, optMem, List.contains_iff_mem]
                      exact List.mem_map.mpr ⟨v, List.mem_of_find?_eq_some hfd, rfl⟩
                  simp only [wfP, hpn, htd.1, htd.2, hd, decide_true, Bool.and_self]
          · simp only [hp, Bool.false_eq_true, if_false] at h htd
            cases hr : deriveVariantsWith (deriveTy env fuel) (deriveRec env fuel) (typeFieldDefault env fuel) rule rulef variants named ns with
            | none => simp [hr] at h
            | some r2 =>
              obtain ⟨ss, n2⟩ := r2
              simp only [hr] at h
              cases hu : unionNew ss [] [] with
              | none => simp [hu] at h
              | some u =>
                simp [hu] at h
                rw [← h.1]
                simp [wfP, hu, deriveVariants_wf _ _ _ ih rule rulef variants named ns ss n2 hr htd]

end Avro
