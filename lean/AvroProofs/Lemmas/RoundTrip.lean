import AvroModel
import AvroProofs.Lemmas.Datum
/-! The induction behind C01: per-constructor round-trip lemmas and the mutual theorem. -/
namespace Avro

/-- encode at `fuel` gives `bs`, and decoding `bs ++ rest` at `fuel` gives back `(v, rest)`. -/
def RTat (cfg : Cfg) (env : Names) (fuel : Nat) (s : Schema) (v : Value) (bs : Bytes) : Prop :=
  encode env fuel s v = .ok bs ∧ ∀ rest, decode cfg env fuel s (bs ++ rest) = .ok (v, rest)

def RT (cfg : Cfg) (env : Names) (s : Schema) (v : Value) : Prop :=
  ∃ bs n, ∀ fuel, n ≤ fuel → RTat cfg env fuel s v bs

def RTAll (cfg : Cfg) (env : Names) (s : Schema) (vs : List Value) : Prop :=
  ∃ bs n, ∀ fuel, n ≤ fuel →
    concatMapE (encode env fuel s) vs = .ok bs ∧
    ∀ acc rest, decodeN (decode cfg env fuel s) vs.length acc (bs ++ rest) = .ok (acc.reverse ++ vs, rest)

abbrev encEntry (env : Names) (fuel : Nat) (s : Schema) : Bytes × Value → Except Err Bytes :=
  encEntryWith (encode env fuel s)

abbrev decEntry (cfg : Cfg) (env : Names) (fuel : Nat) (s : Schema) : Reader (Bytes × Value) :=
  decEntryWith cfg.lim (decode cfg env fuel s)

def RTEntries (cfg : Cfg) (env : Names) (s : Schema) (es : List (Bytes × Value)) : Prop :=
  ∃ bs n, ∀ fuel, n ≤ fuel →
    concatMapE (encEntry env fuel s) es = .ok bs ∧
    ∀ acc rest, decodeN (decEntry cfg env fuel s) es.length acc (bs ++ rest) = .ok (acc.reverse ++ es, rest)

def RTFields (cfg : Cfg) (env : Names) (fields : List (FieldMeta × Schema)) (vfs : List (Bytes × Value)) : Prop :=
  ∃ bs n, ∀ fuel, n ≤ fuel →
    (∀ all : List (Bytes × Value), (∀ kv ∈ vfs, lookupLast all kv.1 = some kv.2) →
      encodeFieldsWith (encode env fuel) fields all = .ok bs) ∧
    ∀ rest, decodeFieldsWith (decode cfg env fuel) fields (bs ++ rest) = .ok (vfs, rest)

section
variable {cfg : Cfg} {env : Names}

theorem succ_of_le {n fuel : Nat} (h : n + 1 ≤ fuel) : ∃ f, fuel = f + 1 ∧ n ≤ f :=
  ⟨fuel - 1, by omega, by omega⟩

/-- a leaf: neither encoder nor decoder recurses. -/
theorem rt_leaf {s : Schema} {v : Value} (bs : Bytes) (hs : notRef s)
    (henc : ∀ f, encode env (f+1) s v = .ok bs)
    (hdec : ∀ f rest, decode cfg env (f+1) s (bs ++ rest) = .ok (v, rest)) : RT cfg env s v := by
  refine ⟨bs, 1, ?_⟩
  intro fuel hf
  obtain ⟨f, rfl, _⟩ := succ_of_le (n := 0) hf
  exact ⟨henc f, hdec f⟩

theorem rt_null : RT cfg env .null .null :=
  rt_leaf [] trivial (by intro f; simp [encode, deref]) (by intro f rest; simp [decode])

theorem rt_boolean (b : Bool) : RT cfg env .boolean (.boolean b) :=
  rt_leaf [if b then 1 else 0] trivial (by intro f; simp [encode, deref])
    (by intro f rest; cases b <;> simp [decode])

theorem rt_int {n : Int} (h : i32ok n) : RT cfg env .int (.int n) :=
  rt_leaf (encInt n) trivial (by intro f; simp [encode, deref])
    (by intro f rest; simp [decode, decInt_encInt n h.1 h.2])

theorem rt_date {n : Int} (h : i32ok n) : RT cfg env .date (.date n) :=
  rt_leaf (encInt n) trivial (by intro f; simp [encode, deref])
    (by intro f rest; simp [decode, decInt_encInt n h.1 h.2])

theorem rt_timeMillis {n : Int} (h : i32ok n) : RT cfg env .timeMillis (.timeMillis n) :=
  rt_leaf (encInt n) trivial (by intro f; simp [encode, deref])
    (by intro f rest; simp [decode, decInt_encInt n h.1 h.2])

theorem rt_long {n : Int} (h : i64ok n) : RT cfg env .long (.long n) :=
  rt_leaf (encLong n) trivial (by intro f; simp [encode, deref])
    (by intro f rest; simp [decode, decLong_encLong n h.1 h.2])

theorem rt_longL {k : LongKind} {n : Int} (h : i64ok n) : RT cfg env (.longL k) (.longL k n) :=
  rt_leaf (encLong n) trivial (by intro f; simp [encode, deref])
    (by intro f rest; simp [decode, decLong_encLong n h.1 h.2])

theorem rt_float (bits : UInt32) : RT cfg env .float (.float bits) :=
  rt_leaf (leBytes 4 bits.toNat) trivial (by intro f; simp [encode, deref])
    (by
      intro f rest
      simp only [decode]
      rw [takeExact_append' 4 _ rest (leBytes_length 4 _)]
      simp only [ofLeBytes_leBytes]
      have : bits.toNat % 256^4 = bits.toNat := Nat.mod_eq_of_lt (by have := bits.toNat_lt; omega)
      rw [this]; simp)

theorem rt_double (bits : UInt64) : RT cfg env .double (.double bits) :=
  rt_leaf (leBytes 8 bits.toNat) trivial (by intro f; simp [encode, deref])
    (by
      intro f rest
      simp only [decode]
      rw [takeExact_append' 8 _ rest (leBytes_length 8 _)]
      simp only [ofLeBytes_leBytes]
      have : bits.toNat % 256^8 = bits.toNat := Nat.mod_eq_of_lt (by have := bits.toNat_lt; omega)
      rw [this]; simp)

theorem rt_bytes {b : Bytes} (hl : cfg.lim < 2^63) (h : b.length ≤ cfg.lim) : RT cfg env .bytes (.bytes b) :=
  rt_leaf (encBytes b) trivial (by intro f; simp [encode, deref])
    (by intro f rest; simp [decode, decBytes_encBytes cfg.lim b h hl])

theorem rt_string {u : Bytes} (hl : cfg.lim < 2^63) (h : u.length ≤ cfg.lim) (hu : validUtf8 u = true) :
    RT cfg env .string (.string u) :=
  rt_leaf (encBytes u) trivial (by intro f; simp [encode, deref])
    (by intro f rest; simp [decode, decString_encBytes cfg.lim u h hl hu])

theorem rt_fixed {name b : Bytes} (h : b.length ≤ cfg.lim) :
    RT cfg env (.fixed name b.length) (.fixed b.length b) :=
  rt_leaf b trivial (by intro f; simp [encode, deref])
    (by intro f rest; simp [decode, decFixed_ok cfg.lim b h])

theorem u32AsI32_small {i : Nat} (h : i < 2^31) : u32AsI32 i = i := by
  unfold u32AsI32
  rw [BitVec.toInt_eq_toNat_bmod, BitVec.toNat_ofNat, Nat.mod_eq_of_lt (by omega)]
  apply Int.bmod_eq_of_le <;> omega

theorem rt_enum {name : Bytes} {syms : List Bytes} {d : Option Bytes} {i : Nat} {sym : Bytes}
    (h : syms[i]? = some sym) (hi : i < 2^31) : RT cfg env (.enum name syms d) (.enum i sym) :=
  rt_leaf (encInt i) trivial (by intro f; simp [encode, deref, u32AsI32_small hi])
    (by
      intro f rest
      have h0 : ¬ ((i : Int) < 0) := by omega
      simp [decode, decInt_encInt (i : Int) (by omega) (by omega), h0, h])

theorem rt_decimalFixed {p sc : Nat} {name : Bytes} {i : Int} {b : Bytes}
    (h1 : signExtend i b.length = .ok b) (h2 : fromSignedBE b = i) (h3 : b.length ≤ cfg.lim) :
    RT cfg env (.decimal p sc (.fixed name b.length)) (.decimal i b.length) :=
  rt_leaf b trivial (by intro f; simp [encode, deref, h1])
    (by intro f rest; simp [decode, decFixed_ok cfg.lim b h3, h2])

theorem rt_decimalBytes {p sc : Nat} {i : Int} {b : Bytes} (hl : cfg.lim < 2^63)
    (h1 : signExtend i b.length = .ok b) (h2 : fromSignedBE b = i) (h3 : b.length ≤ cfg.lim) :
    RT cfg env (.decimal p sc .bytes) (.decimal i b.length) :=
  rt_leaf (encBytes b) trivial (by intro f; simp [encode, deref, h1])
    (by intro f rest; simp [decode, decBytes_encBytes cfg.lim b h3 hl, h2])

theorem rt_bigDecimal {u sc : Int} (hl : cfg.lim < 2^63)
    (h1 : fromSignedBE (toSignedBE u) = u) (h2 : i64ok sc)
    (h3 : (encBytes (toSignedBE u) ++ encLong sc).length ≤ cfg.lim) :
    RT cfg env .bigDecimal (.bigDecimal u sc) :=
  rt_leaf (encBytes (encBytes (toSignedBE u) ++ encLong sc)) trivial (by intro f; simp [encode, deref])
    (by
      intro f rest
      have hm : (toSignedBE u).length ≤ cfg.lim := by
        simp [encBytes] at h3; omega
      have hd : deserBigDecimal cfg.lim (encBytes (toSignedBE u) ++ encLong sc) = .ok (u, sc) := by
        unfold deserBigDecimal
        rw [decBytes_encBytes cfg.lim _ hm hl]
        have := decLong_encLong sc h2.1 h2.2 []
        simp at this
        simp [this, h1]
      simp only [decode]
      rw [decBytes_encBytes cfg.lim _ h3 hl]
      simp [hd])

theorem rt_uuidString {b : Bytes} (hl : cfg.lim < 2^63) (h1 : validUtf8 (uuidToText b) = true)
    (h2 : uuidParse (uuidToText b) = some b) (h3 : (uuidToText b).length ≤ cfg.lim) :
    RT cfg env .uuidString (.uuid b) :=
  rt_leaf (encBytes (uuidToText b)) trivial (by intro f; simp [encode, deref])
    (by intro f rest; simp [decode, decString_encBytes cfg.lim _ h3 hl h1, h2])

theorem rt_uuidBytes {b : Bytes} (hl : cfg.lim < 2^63) (h1 : b.length = 16) (h2 : 16 ≤ cfg.lim) :
    RT cfg env .uuidBytes (.uuid b) :=
  rt_leaf (encBytes b) trivial (by intro f; simp [encode, deref])
    (by intro f rest; simp [decode, decBytes_encBytes cfg.lim b (by omega) hl, h1])

theorem rt_uuidFixed {name b : Bytes} (h1 : b.length = 16) (h2 : 16 ≤ cfg.lim) :
    RT cfg env (.uuidFixed name 16) (.uuid b) :=
  rt_leaf b trivial (by intro f; simp [encode, deref])
    (by
      intro f rest
      have := decFixed_ok cfg.lim b (by omega) rest
      rw [h1] at this
      simp [decode, this])

theorem leBytes4_roundtrip (n : Nat) (h : n < 2^32) : ofLeBytes (leBytes 4 n) = n := by
  rw [ofLeBytes_leBytes]; exact Nat.mod_eq_of_lt (by omega)

theorem rt_duration {name : Bytes} {mo d ms : Nat} (h1 : mo < 2^32) (h2 : d < 2^32) (h3 : ms < 2^32) :
    RT cfg env (.duration name 12) (.duration mo d ms) :=
  rt_leaf (durationBytes mo d ms) trivial (by intro f; simp [encode, deref])
    (by
      intro f rest
      have hlen : (durationBytes mo d ms).length = 12 := by simp [durationBytes, leBytes_length]
      simp only [decode]
      rw [if_pos trivial, takeExact_append' 12 _ rest hlen]
      simp only [durationBytes]
      have e1 : (leBytes 4 mo ++ leBytes 4 d ++ leBytes 4 ms).take 4 = leBytes 4 mo := by
        rw [List.append_assoc, List.take_append_of_le_length (by simp [leBytes_length])]
        rw [List.take_of_length_le (by simp [leBytes_length])]
      have e2 : ((leBytes 4 mo ++ leBytes 4 d ++ leBytes 4 ms).drop 4).take 4 = leBytes 4 d := by
        rw [List.append_assoc, List.drop_append_of_le_length (by simp [leBytes_length])]
        rw [List.drop_of_length_le (by simp [leBytes_length]), List.nil_append]
        rw [List.take_append_of_le_length (by simp [leBytes_length])]
        rw [List.take_of_length_le (by simp [leBytes_length])]
      have e3 : (leBytes 4 mo ++ leBytes 4 d ++ leBytes 4 ms).drop 8 = leBytes 4 ms := by
        have : (leBytes 4 mo ++ leBytes 4 d).length = 8 := by simp [leBytes_length]
        rw [List.drop_append_of_le_length (by omega), List.drop_of_length_le (by omega)]
        simp
      rw [e1, e2, e3, leBytes4_roundtrip mo h1, leBytes4_roundtrip d h2, leBytes4_roundtrip ms h3])

/-! ### composite constructors -/

theorem deref_notRef {s : Schema} (h : notRef s) : deref env s = .ok s := by
  cases s <;> simp_all [deref, notRef]

theorem encode_ref {n : Bytes} {s : Schema} (v : Value) (f : Nat)
    (h : env.find? n = some s) (hs : notRef s) :
    encode env (f+1) (.ref n) v = encode env (f+1) s v := by
  rw [encode, encode, deref_notRef hs]
  simp only [deref, h]

theorem rt_ref {n : Bytes} {s : Schema} {v : Value}
    (h : env.find? n = some s) (hs : notRef s) (ih : RT cfg env s v) : RT cfg env (.ref n) v := by
  obtain ⟨bs, n0, H⟩ := ih
  refine ⟨bs, n0 + 1, ?_⟩
  intro fuel hf
  obtain ⟨f, rfl, hf'⟩ := succ_of_le hf
  refine ⟨?_, ?_⟩
  · rw [encode_ref v f h hs]; exact (H (f+1) (by omega)).1
  · intro rest
    simp only [decode, h]
    exact (H f hf').2 rest

theorem rt_union {bs : List Schema} {i : Nat} {b : Schema} {v : Value}
    (h : bs[i]? = some b) (hi : i < 2^32) (ih : RT cfg env b v) :
    RT cfg env (.union bs) (.union i v) := by
  obtain ⟨bb, n0, H⟩ := ih
  refine ⟨encLong i ++ bb, n0 + 1, ?_⟩
  intro fuel hf
  obtain ⟨f, rfl, hf'⟩ := succ_of_le hf
  obtain ⟨he, hd⟩ := H f hf'
  refine ⟨?_, ?_⟩
  · simp [encode, deref, h, he]
  · intro rest
    have h0 : ¬ ((i : Int) < 0) := by omega
    simp only [decode]
    rw [List.append_assoc, decLong_encLong (i : Int) (by omega) (by omega)]
    simp [h0, h, hd rest, Nat.mod_eq_of_lt hi]

theorem rtall_nil {s : Schema} : RTAll cfg env s [] :=
  ⟨[], 0, fun _ _ => ⟨by simp [concatMapE], by intro acc rest; simp [decodeN]⟩⟩

theorem rtall_cons {s : Schema} {v : Value} {vs : List Value}
    (h : RT cfg env s v) (t : RTAll cfg env s vs) : RTAll cfg env s (v :: vs) := by
  obtain ⟨b1, n1, H1⟩ := h
  obtain ⟨b2, n2, H2⟩ := t
  refine ⟨b1 ++ b2, max n1 n2, ?_⟩
  intro fuel hf
  obtain ⟨he1, hd1⟩ := H1 fuel (by omega)
  obtain ⟨he2, hd2⟩ := H2 fuel (by omega)
  refine ⟨by simp [concatMapE, he1, he2], ?_⟩
  intro acc rest
  simp only [List.length_cons, decodeN]
  rw [List.append_assoc, hd1]
  simp only []
  rw [hd2]
  simp

theorem rtentries_nil {s : Schema} : RTEntries cfg env s [] :=
  ⟨[], 0, fun _ _ => ⟨by simp [concatMapE], by intro acc rest; simp [decodeN]⟩⟩

theorem rtentries_cons {s : Schema} {k : Bytes} {v : Value} {es : List (Bytes × Value)}
    (hl : cfg.lim < 2^63) (hk : k.length ≤ cfg.lim) (hu : validUtf8 k = true)
    (h : RT cfg env s v) (t : RTEntries cfg env s es) : RTEntries cfg env s ((k, v) :: es) := by
  obtain ⟨b1, n1, H1⟩ := h
  obtain ⟨b2, n2, H2⟩ := t
  refine ⟨(encBytes k ++ b1) ++ b2, max n1 n2, ?_⟩
  intro fuel hf
  obtain ⟨he1, hd1⟩ := H1 fuel (by omega)
  obtain ⟨he2, hd2⟩ := H2 fuel (by omega)
  refine ⟨by simp [concatMapE, encEntryWith, he1, he2], ?_⟩
  intro acc rest
  simp only [List.length_cons, decodeN]
  have : decEntry cfg env fuel s ((encBytes k ++ b1) ++ b2 ++ rest) = .ok ((k, v), b2 ++ rest) := by
    unfold decEntry decEntryWith
    rw [List.append_assoc, List.append_assoc, decString_encBytes cfg.lim k hk hl hu]
    simp only []
    rw [hd1]
  rw [this]
  simp only []
  rw [hd2]
  simp

theorem rtfields_nil : RTFields cfg env [] [] :=
  ⟨[], 0, fun _ _ => ⟨by intro all _; simp [encodeFieldsWith], by intro rest; simp [decodeFieldsWith]⟩⟩

theorem rtfields_cons {m : FieldMeta} {s : Schema} {v : Value} {fs : List (FieldMeta × Schema)}
    {vs : List (Bytes × Value)} (h : RT cfg env s v) (t : RTFields cfg env fs vs) :
    RTFields cfg env ((m, s) :: fs) ((m.name, v) :: vs) := by
  obtain ⟨b1, n1, H1⟩ := h
  obtain ⟨b2, n2, H2⟩ := t
  refine ⟨b1 ++ b2, max n1 n2, ?_⟩
  intro fuel hf
  obtain ⟨he1, hd1⟩ := H1 fuel (by omega)
  obtain ⟨he2, hd2⟩ := H2 fuel (by omega)
  refine ⟨?_, ?_⟩
  · intro all hall
    have hm : lookupField all m = some v := by
      unfold lookupField
      rw [hall (m.name, v) (by simp)]
    have := he2 all (fun kv hkv => hall kv (by simp [hkv]))
    simp [encodeFieldsWith, hm, he1, this]
  · intro rest
    simp only [decodeFieldsWith]
    rw [List.append_assoc, hd1]
    simp only []
    rw [hd2]

theorem lookupLast_of_mem {all : List (Bytes × Value)} (hn : (all.map Prod.fst).Nodup) :
    ∀ kv ∈ all, lookupLast all kv.1 = some kv.2 := by
  induction all with
  | nil => intro kv h; cases h
  | cons hd tl ih =>
    intro kv hkv
    obtain ⟨k0, v0⟩ := hd
    simp only [List.map_cons, List.nodup_cons] at hn
    obtain ⟨hnotin, hn'⟩ := hn
    rw [lookupLast]
    rcases List.mem_cons.mp hkv with rfl | hmem
    · have : lookupLast tl k0 = none := by
        cases hq : lookupLast tl k0 with
        | none => rfl
        | some w =>
          exfalso
          have : ∀ (l : List (Bytes × Value)) (k : Bytes) (w : Value), lookupLast l k = some w → k ∈ l.map Prod.fst := by
            intro l
            induction l with
            | nil => intro k w h; simp [lookupLast] at h
            | cons a l ihl =>
              intro k w h
              obtain ⟨ka, va⟩ := a
              rw [lookupLast] at h
              cases hq2 : lookupLast l k with
              | some w2 => simp [ihl k w2 hq2]
              | none =>
                rw [hq2] at h
                by_cases hk : ka = k
                · simp [hk]
                · simp [hk] at h
          exact hnotin (this tl k0 w hq)
      simp [this]
    · rw [ih hn' kv hmem]

theorem rt_record {name : Bytes} {fields : List (FieldMeta × Schema)} {vfs : List (Bytes × Value)}
    (ih : RTFields cfg env fields vfs) (hn : (vfs.map Prod.fst).Nodup) :
    RT cfg env (.record name fields) (.record vfs) := by
  obtain ⟨bs, n0, H⟩ := ih
  refine ⟨bs, n0 + 1, ?_⟩
  intro fuel hf
  obtain ⟨f, rfl, hf'⟩ := succ_of_le hf
  obtain ⟨he, hd⟩ := H f hf'
  refine ⟨?_, ?_⟩
  · simp only [encode, deref]
    exact he vfs (lookupLast_of_mem hn)
  · intro rest
    simp [decode, hd rest]

theorem safeCollectionLen_ok {lim sz total : Nat} (hl : lim < 2^63) (h : total * sz ≤ lim) :
    safeCollectionLen lim sz total = .ok () := by
  unfold safeCollectionLen
  have : ¬ (total * sz ≥ 2^64) := by omega
  simp [this, h]

theorem rt_array {inner : Schema} {items : List Value} (hl : cfg.lim < 2^63)
    (ih : RTAll cfg env inner items) (h1 : items.length ≤ cfg.lim)
    (h2 : items.length * cfg.szValue ≤ cfg.lim) : RT cfg env (.array inner) (.array items) := by
  obtain ⟨bs, n0, H⟩ := ih
  by_cases hemp : items = []
  · subst hemp
    refine ⟨[0], 1, ?_⟩
    intro fuel hf
    obtain ⟨f, rfl, _⟩ := succ_of_le (n := 0) hf
    refine ⟨by simp [encode, deref], ?_⟩
    intro rest
    simp [decode, arrayLoop, decSeqLen_zero]
  · refine ⟨encLong items.length ++ bs ++ [0], n0 + 1, ?_⟩
    intro fuel hf
    obtain ⟨f, rfl, hf'⟩ := succ_of_le hf
    obtain ⟨he, hd⟩ := H f hf'
    have hne : items.isEmpty = false := by cases items <;> simp_all
    have hpos : 0 < items.length := by cases items <;> simp_all
    refine ⟨by simp [encode, deref, hne, he], ?_⟩
    intro rest
    simp only [decode]
    have hlen : ∃ k, (encLong ↑items.length ++ bs ++ [0] ++ rest).length + 1 = k + 2 := by
      refine ⟨(encLong ↑items.length ++ bs ++ [0] ++ rest).length - 1, ?_⟩
      simp; omega
    obtain ⟨k, hk⟩ := hlen
    rw [hk]
    have e : encLong ↑items.length ++ bs ++ [0] ++ rest = encLong ↑items.length ++ (bs ++ (0 :: rest)) := by simp
    rw [e, arrayLoop, decSeqLen_pos cfg.lim items.length hpos h1 hl]
    have hz : ¬ (items.length = 0) := by omega
    have ho : ¬ (([] : List Value).length + items.length ≥ 2^64) := by simp; omega
    simp only [hz, if_false, ho]
    rw [show ([] : List Value).length + items.length = items.length by simp,
      safeCollectionLen_ok hl h2]
    simp only []
    rw [hd [] (0 :: rest)]
    simp [arrayLoop, decSeqLen_zero]

theorem mapInsert_fresh (acc : List (Bytes × Value)) (k : Bytes) (v : Value)
    (h : k ∉ acc.map Prod.fst) : mapInsert acc k v = acc ++ [(k, v)] := by
  induction acc with
  | nil => simp [mapInsert]
  | cons a tl ih =>
    obtain ⟨k', v'⟩ := a
    simp only [List.map_cons, List.mem_cons, not_or] at h
    have hne : ¬ (k' = k) := fun e => h.1 e.symm
    simp [mapInsert, hne, ih h.2]

theorem foldl_mapInsert (es acc : List (Bytes × Value)) (h : ((acc ++ es).map Prod.fst).Nodup) :
    es.foldl (fun m kv => mapInsert m kv.1 kv.2) acc = acc ++ es := by
  induction es generalizing acc with
  | nil => simp
  | cons e tl ih =>
    obtain ⟨k, v⟩ := e
    simp only [List.foldl_cons]
    have hk : k ∉ acc.map Prod.fst := by
      simp only [List.map_append, List.map_cons] at h
      have := (List.nodup_append.mp h).2.2
      intro hin
      exact this k hin k (by simp) rfl
    rw [mapInsert_fresh acc k v hk, ih (acc ++ [(k, v)]) (by simpa using h)]
    simp

theorem rt_map {inner : Schema} {es : List (Bytes × Value)} (hl : cfg.lim < 2^63)
    (ih : RTEntries cfg env inner es) (hn : (es.map Prod.fst).Nodup) (h1 : es.length ≤ cfg.lim)
    (h2 : es.length * cfg.szEntry ≤ cfg.lim) : RT cfg env (.map inner) (.map es) := by
  obtain ⟨bs, n0, H⟩ := ih
  by_cases hemp : es = []
  · subst hemp
    refine ⟨[0], 1, ?_⟩
    intro fuel hf
    obtain ⟨f, rfl, _⟩ := succ_of_le (n := 0) hf
    refine ⟨by simp [encode, deref], ?_⟩
    intro rest
    simp [decode, mapLoop, decSeqLen_zero]
  · refine ⟨encLong es.length ++ bs ++ [0], n0 + 1, ?_⟩
    intro fuel hf
    obtain ⟨f, rfl, hf'⟩ := succ_of_le hf
    obtain ⟨he, hd⟩ := H f hf'
    have hne : es.isEmpty = false := by cases es <;> simp_all
    have hpos : 0 < es.length := by cases es <;> simp_all
    refine ⟨?_, ?_⟩
    · simp only [encode, deref, hne]
      rw [he]; simp
    · intro rest
      simp only [decode]
      have hlen : ∃ k, (encLong ↑es.length ++ bs ++ [0] ++ rest).length + 1 = k + 2 := by
        refine ⟨(encLong ↑es.length ++ bs ++ [0] ++ rest).length - 1, ?_⟩
        simp; omega
      obtain ⟨k, hk⟩ := hlen
      rw [hk]
      have e : encLong ↑es.length ++ bs ++ [0] ++ rest = encLong ↑es.length ++ (bs ++ (0 :: rest)) := by simp
      rw [e, mapLoop, decSeqLen_pos cfg.lim es.length hpos h1 hl]
      have hz : ¬ (es.length = 0) := by omega
      have ho : ¬ (([] : List (Bytes × Value)).length + es.length ≥ 2^64) := by simp; omega
      simp only [hz, if_false, ho]
      rw [show ([] : List (Bytes × Value)).length + es.length = es.length by simp,
        safeCollectionLen_ok hl h2]
      simp only []
      rw [hd [] (0 :: rest)]
      simp only [List.reverse_nil, List.nil_append]
      rw [foldl_mapInsert es [] (by simpa using hn)]
      simp [mapLoop, decSeqLen_zero]

/-! ### the induction -/

mutual
theorem conforms_rt (hl : cfg.lim < 2^63) : ∀ {s : Schema} {v : Value}, Conforms cfg env s v → RT cfg env s v
  | _, _, .null => rt_null
  | _, _, .boolean b => rt_boolean b
  | _, _, .int h => rt_int h
  | _, _, .date h => rt_date h
  | _, _, .timeMillis h => rt_timeMillis h
  | _, _, .long h => rt_long h
  | _, _, .longL h => rt_longL h
  | _, _, .float b => rt_float b
  | _, _, .double b => rt_double b
  | _, _, .bytes h => rt_bytes hl h
  | _, _, .string h hu => rt_string hl h hu
  | _, _, .fixed h => rt_fixed h
  | _, _, .enum h hi => rt_enum h hi
  | _, _, .union h hi c => rt_union h hi (conforms_rt hl c)
  | _, _, .array c h1 h2 => rt_array hl (all_rt hl c) h1 h2
  | _, _, .map c hn h1 h2 => rt_map hl (entries_rt hl c) hn h1 h2
  | _, _, .record c hn => rt_record (fields_rt hl c) hn
  | _, _, .decimalFixed h1 h2 h3 => rt_decimalFixed h1 h2 h3
  | _, _, .decimalBytes h1 h2 h3 => rt_decimalBytes hl h1 h2 h3
  | _, _, .bigDecimal h1 h2 h3 => rt_bigDecimal hl h1 h2 h3
  | _, _, .uuidString h1 h2 h3 => rt_uuidString hl h1 h2 h3
  | _, _, .uuidBytes h1 h2 => rt_uuidBytes hl h1 h2
  | _, _, .uuidFixed h1 h2 => rt_uuidFixed h1 h2
  | _, _, .duration h1 h2 h3 => rt_duration h1 h2 h3
  | _, _, .ref h hs c => rt_ref h hs (conforms_rt hl c)

theorem all_rt (hl : cfg.lim < 2^63) : ∀ {s : Schema} {vs : List Value}, ConformsAll cfg env s vs → RTAll cfg env s vs
  | _, _, .nil => rtall_nil
  | _, _, .cons h t => rtall_cons (conforms_rt hl h) (all_rt hl t)

theorem entries_rt (hl : cfg.lim < 2^63) : ∀ {s : Schema} {es : List (Bytes × Value)},
    ConformsEntries cfg env s es → RTEntries cfg env s es
  | _, _, .nil => rtentries_nil
  | _, _, .cons hk hu h t => rtentries_cons hl hk hu (conforms_rt hl h) (entries_rt hl t)

theorem fields_rt (hl : cfg.lim < 2^63) : ∀ {fs : List (FieldMeta × Schema)} {vs : List (Bytes × Value)},
    ConformsFields cfg env fs vs → RTFields cfg env fs vs
  | _, _, .nil => rtfields_nil
  | _, _, .cons h t => rtfields_cons (conforms_rt hl h) (fields_rt hl t)
end

end
end Avro
