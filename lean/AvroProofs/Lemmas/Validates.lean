import AvroModel
import AvroProofs.Lemmas.RoundTrip
/-! C07 (strict fragment): every value in the canonical representation is accepted by validation. -/
namespace Avro

section
variable {fo : FloatOps} {cfg : Cfg} {env : Names}

def VOK (fo : FloatOps) (cfg : Cfg) (env : Names) (s : Schema) (v : Value) : Prop :=
  ∃ n, ∀ fuel, n ≤ fuel → validate fo cfg env fuel s v = true

theorem vok_leaf {s : Schema} {v : Value} (h : ∀ f, validate fo cfg env (f+1) s v = true) : VOK fo cfg env s v :=
  ⟨1, fun fuel hf => by obtain ⟨f, rfl⟩ : ∃ f, fuel = f + 1 := ⟨fuel - 1, by omega⟩; exact h f⟩

theorem find_field_self (m : FieldMeta) (s : Schema) (pre post : List (FieldMeta × Schema))
    (hn : ∀ x ∈ pre, x.1.name ≠ m.name) :
    (pre ++ (m, s) :: post).find? (fun ms => ms.1.name = m.name) = some (m, s) := by
  induction pre with
  | nil => simp
  | cons a tl ih =>
    have ha : ¬ (a.1.name = m.name) := hn a (by simp)
    simp only [List.cons_append, List.find?_cons, ha, decide_false]
    exact ih (fun x hx => hn x (List.mem_cons_of_mem _ hx))

mutual
theorem conforms_vok : ∀ {s : Schema} {v : Value}, Conforms cfg env s v → VOK fo cfg env s v
  | _, _, .null => vok_leaf (by intro f; simp [validate, fixedInconsistent])
  | _, _, .boolean _ => vok_leaf (by intro f; simp [validate, fixedInconsistent])
  | _, _, .int _ => vok_leaf (by intro f; simp [validate, fixedInconsistent])
  | _, _, .date _ => vok_leaf (by intro f; simp [validate, fixedInconsistent])
  | _, _, .timeMillis _ => vok_leaf (by intro f; simp [validate, fixedInconsistent])
  | _, _, .long _ => vok_leaf (by intro f; simp [validate, fixedInconsistent])
  | _, _, .longL _ => vok_leaf (by intro f; simp [validate, fixedInconsistent])
  | _, _, .float _ => vok_leaf (by intro f; simp [validate, fixedInconsistent])
  | _, _, .double _ => vok_leaf (by intro f; simp [validate, fixedInconsistent])
  | _, _, .bytes _ => vok_leaf (by intro f; simp [validate, fixedInconsistent])
  | _, _, .string _ _ => vok_leaf (by intro f; simp [validate, fixedInconsistent])
  | _, _, .fixed _ => vok_leaf (by intro f; simp [validate, fixedInconsistent])
  | _, _, .enum h _ => vok_leaf (by intro f; simp [validate, fixedInconsistent, h])
  | _, _, .union (bs := bs) (i := i) h _ c => by
    obtain ⟨n, H⟩ := conforms_vok c
    refine ⟨n + 1, fun fuel hf => ?_⟩
    obtain ⟨f, rfl, hf'⟩ := succ_of_le hf
    simp [validate, fixedInconsistent, h, H f hf']
  | _, _, .array c _ _ => by
    obtain ⟨n, H⟩ := all_vok c
    refine ⟨n + 1, fun fuel hf => ?_⟩
    obtain ⟨f, rfl, hf'⟩ := succ_of_le hf
    simp only [validate, fixedInconsistent, Bool.false_eq_true, if_false]
    exact H f hf'
  | _, _, .map c _ _ _ => by
    obtain ⟨n, H⟩ := entries_vok c
    refine ⟨n + 1, fun fuel hf => ?_⟩
    obtain ⟨f, rfl, hf'⟩ := succ_of_le hf
    simp only [validate, fixedInconsistent, Bool.false_eq_true, if_false]
    exact H f hf'
  | _, _, .record (fields := fields) (vfs := vfs) c hn => by
    obtain ⟨n, H⟩ := fields_vok c
    refine ⟨n + 1, fun fuel hf => ?_⟩
    obtain ⟨f, rfl, hf'⟩ := succ_of_le hf
    obtain ⟨hlen, hval⟩ := H f hf'
    simp only [validate, fixedInconsistent, Bool.false_eq_true, if_false]
    have h1 : ¬ (vfs.length < (fields.filter (fun ms => !isNullable ms.2)).length) := by
      have := List.length_filter_le (fun ms : FieldMeta × Schema => !isNullable ms.2) fields
      omega
    have h2 : ¬ (vfs.length > fields.length) := by omega
    simp only [h1, h2, if_false]
    exact hval [] fields (by simp) (by intro x hx; cases hx) (by rw [← hlen.2]; exact hn)
  | _, _, .decimalFixed _ _ _ => vok_leaf (by intro f; simp [validate, fixedInconsistent])
  | _, _, .decimalBytes _ _ _ => vok_leaf (by intro f; simp [validate, fixedInconsistent])
  | _, _, .bigDecimal _ _ _ => vok_leaf (by intro f; simp [validate, fixedInconsistent])
  | _, _, .uuidString _ _ _ => vok_leaf (by intro f; simp [validate, fixedInconsistent])
  | _, _, .uuidBytes _ _ => vok_leaf (by intro f; simp [validate, fixedInconsistent])
  | _, _, .uuidFixed _ _ => vok_leaf (by intro f; simp [validate, fixedInconsistent])
  | _, _, .duration _ _ _ => vok_leaf (by intro f; simp [validate, fixedInconsistent])
  | _, _, .ref (n := nm) (s := s) h hs c => by
    obtain ⟨n, H⟩ := conforms_vok c
    refine ⟨n + 1, fun fuel hf => ?_⟩
    obtain ⟨f, rfl, hf'⟩ := succ_of_le hf
    simp [validate, h, H f hf']

theorem all_vok : ∀ {s : Schema} {vs : List Value}, ConformsAll cfg env s vs →
    ∃ n, ∀ fuel, n ≤ fuel → vs.all (validate fo cfg env fuel s) = true
  | _, _, .nil => ⟨0, fun _ _ => rfl⟩
  | _, _, .cons h t => by
    obtain ⟨n1, H1⟩ := conforms_vok h
    obtain ⟨n2, H2⟩ := all_vok t
    exact ⟨max n1 n2, fun fuel hf => by simp [H1 fuel (by omega), H2 fuel (by omega)]⟩

theorem entries_vok : ∀ {s : Schema} {es : List (Bytes × Value)}, ConformsEntries cfg env s es →
    ∃ n, ∀ fuel, n ≤ fuel → es.all (fun kv => validate fo cfg env fuel s kv.2) = true
  | _, _, .nil => ⟨0, fun _ _ => rfl⟩
  | _, _, .cons _ _ h t => by
    obtain ⟨n1, H1⟩ := conforms_vok h
    obtain ⟨n2, H2⟩ := entries_vok t
    exact ⟨max n1 n2, fun fuel hf => by simp [H1 fuel (by omega), H2 fuel (by omega)]⟩

/-- the fields of a canonical record validate when looked up by name in the whole field list
(`pre ++ fs` is the whole list; names are distinct) -/
theorem fields_vok : ∀ {fs : List (FieldMeta × Schema)} {vs : List (Bytes × Value)}, ConformsFields cfg env fs vs →
    ∃ n, ∀ fuel, n ≤ fuel →
      (vs.length = fs.length ∧ vs.map Prod.fst = fs.map (fun x => x.1.name)) ∧
      ∀ (pre all : List (FieldMeta × Schema)), all = pre ++ fs → (∀ x ∈ pre, ∀ y ∈ fs, x.1.name ≠ y.1.name) →
        (fs.map (fun x => x.1.name)).Nodup →
        validateFieldsWith (validate fo cfg env fuel) all vs = true
  | _, _, .nil => ⟨0, fun _ _ => ⟨⟨rfl, rfl⟩, fun _ _ _ _ _ => rfl⟩⟩
  | _, _, .cons (m := m) (s := s) (v := v) (fs := fs) (vs := vs) h t => by
    obtain ⟨n1, H1⟩ := conforms_vok h
    obtain ⟨n2, H2⟩ := fields_vok t
    refine ⟨max n1 n2, fun fuel hf => ?_⟩
    obtain ⟨⟨hl, hm⟩, hv⟩ := H2 fuel (by omega)
    refine ⟨⟨by simp [hl], by simp [hm]⟩, ?_⟩
    intro pre all hall hdis hnd
    simp only [validateFieldsWith]
    have hself : all.find? (fun ms => ms.1.name = m.name) = some (m, s) := by
      rw [hall]
      exact find_field_self m s pre fs (fun x hx => hdis x hx (m, s) (by simp))
    rw [hself]
    simp only [H1 fuel (by omega), Bool.true_and]
    simp only [List.map_cons, List.nodup_cons] at hnd
    apply hv (pre ++ [(m, s)]) all (by simp [hall])
    · intro x hx y hy
      rcases List.mem_append.mp hx with hx | hx
      · exact hdis x hx y (List.mem_cons_of_mem _ hy)
      · simp at hx; subst hx
        intro heq
        exact hnd.1 (by rw [heq]; exact List.mem_map.mpr ⟨y, hy, rfl⟩)
    · exact hnd.2
end

end
end Avro
