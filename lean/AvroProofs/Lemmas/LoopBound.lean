import AvroModel
/-!
The collection loops of the datum decoder never build more items than the allocation limit allows, cumulatively over
all blocks and whatever the items' width (a block of a million `null`s costs no input bytes): every successful run of
`arrayLoop` / `mapLoop` returns at most `lim / size_of::<item>()` items, so the number of item decodes - the work a
hostile count can cause - is bounded by the limit and not by the input.
-/
namespace Avro

theorem decodeN_length {α : Type} (f : Reader α) : ∀ (n : Nat) (acc : List α) (bs : Bytes) (l : List α) (r : Bytes),
    decodeN f n acc bs = .ok (l, r) → l.length = acc.length + n
  | 0, acc, bs, l, r, h => by
    simp only [decodeN, Except.ok.injEq, Prod.mk.injEq] at h
    rw [← h.1]; simp
  | n+1, acc, bs, l, r, h => by
    simp only [decodeN] at h
    cases hf : f bs with
    | error e => rw [hf] at h; simp at h
    | ok p =>
      obtain ⟨v, r1⟩ := p
      rw [hf] at h
      simp only at h
      have := decodeN_length f n (v :: acc) r1 l r h
      simp at this; omega

theorem safeCollectionLen_ok_le {lim sz total : Nat} (h : safeCollectionLen lim sz total = .ok ()) : total * sz ≤ lim := by
  unfold safeCollectionLen at h
  split at h
  · cases h
  · split at h
    · assumption
    · cases h

theorem arrayLoop_bound (cfg : Cfg) (f : Reader Value) : ∀ (bfuel : Nat) (acc : List Value) (bs : Bytes)
    (items : List Value) (r : Bytes),
    arrayLoop cfg f bfuel acc bs = .ok (items, r) → acc.length * cfg.szValue ≤ cfg.lim →
    items.length * cfg.szValue ≤ cfg.lim
  | 0, _, _, _, _, h, _ => by simp [arrayLoop] at h
  | bfuel+1, acc, bs, items, r, h, hacc => by
    simp only [arrayLoop] at h
    cases hd : decSeqLen cfg.lim bs with
    | error e => rw [hd] at h; simp at h
    | ok p =>
      obtain ⟨len, r1⟩ := p
      rw [hd] at h
      simp only at h
      split at h
      · simp only [Except.ok.injEq, Prod.mk.injEq] at h
        rw [← h.1]; exact hacc
      · split at h
        · cases h
        · cases hs : safeCollectionLen cfg.lim cfg.szValue (acc.length + len) with
          | error e => rw [hs] at h; simp at h
          | ok u =>
            rw [hs] at h
            simp only at h
            cases hn : decodeN f len [] r1 with
            | error e => rw [hn] at h; simp at h
            | ok q =>
              obtain ⟨blk, r2⟩ := q
              rw [hn] at h
              simp only at h
              have hl := decodeN_length f len [] r1 blk r2 hn
              simp only [List.length_nil, Nat.zero_add] at hl
              apply arrayLoop_bound cfg f bfuel (acc ++ blk) r2 items r h
              rw [List.length_append, hl]
              exact safeCollectionLen_ok_le hs

theorem mapInsert_length_le (es : List (Bytes × Value)) (k : Bytes) (v : Value) :
    (mapInsert es k v).length ≤ es.length + 1 := by
  induction es with
  | nil => simp [mapInsert]
  | cons e rest ih =>
    obtain ⟨k', v'⟩ := e
    simp only [mapInsert]
    split
    · simp
    · simp only [List.length_cons]; omega

theorem foldl_mapInsert_length_le (blk : List (Bytes × Value)) : ∀ (acc : List (Bytes × Value)),
    (blk.foldl (fun m kv => mapInsert m kv.1 kv.2) acc).length ≤ acc.length + blk.length := by
  induction blk with
  | nil => intro acc; simp
  | cons kv rest ih =>
    intro acc
    simp only [List.foldl_cons, List.length_cons]
    have h1 := ih (mapInsert acc kv.1 kv.2)
    have h2 := mapInsert_length_le acc kv.1 kv.2
    omega

theorem mapLoop_bound (cfg : Cfg) (f : Reader (Bytes × Value)) : ∀ (bfuel : Nat) (acc : List (Bytes × Value)) (bs : Bytes)
    (es : List (Bytes × Value)) (r : Bytes),
    mapLoop cfg f bfuel acc bs = .ok (es, r) → acc.length * cfg.szEntry ≤ cfg.lim →
    es.length * cfg.szEntry ≤ cfg.lim
  | 0, _, _, _, _, h, _ => by simp [mapLoop] at h
  | bfuel+1, acc, bs, es, r, h, hacc => by
    simp only [mapLoop] at h
    cases hd : decSeqLen cfg.lim bs with
    | error e => rw [hd] at h; simp at h
    | ok p =>
      obtain ⟨len, r1⟩ := p
      rw [hd] at h
      simp only at h
      split at h
      · simp only [Except.ok.injEq, Prod.mk.injEq] at h
        rw [← h.1]; exact hacc
      · split at h
        · cases h
        · cases hs : safeCollectionLen cfg.lim cfg.szEntry (acc.length + len) with
          | error e => rw [hs] at h; simp at h
          | ok u =>
            rw [hs] at h
            simp only at h
            cases hn : decodeN f len [] r1 with
            | error e => rw [hn] at h; simp at h
            | ok q =>
              obtain ⟨blk, r2⟩ := q
              rw [hn] at h
              simp only at h
              have hl := decodeN_length f len [] r1 blk r2 hn
              simp only [List.length_nil, Nat.zero_add] at hl
              apply mapLoop_bound cfg f bfuel _ r2 es r h
              have h1 := foldl_mapInsert_length_le blk acc
              have h2 := safeCollectionLen_ok_le hs
              have : (blk.foldl (fun m kv => mapInsert m kv.1 kv.2) acc).length * cfg.szEntry
                  ≤ (acc.length + len) * cfg.szEntry := Nat.mul_le_mul_right _ (by omega)
              omega

end Avro
