import AvroModel
import AvroProofs.Lemmas.Datum
/-! Decoder-side lemmas behind C06: what a successful read guarantees. -/
namespace Avro

theorem takeExact_ok : ∀ (n : Nat) (bs b r : Bytes), takeExact n bs = .ok (b, r) → b.length = n ∧ bs = b ++ r := by
  intro n
  induction n with
  | zero => intro bs b r h; simp [takeExact] at h; obtain ⟨rfl, rfl⟩ := h; simp
  | succ n ih =>
    intro bs b r h
    cases bs with
    | nil => simp [takeExact] at h
    | cons x xs =>
      simp only [takeExact] at h
      cases hq : takeExact n xs with
      | error e => rw [hq] at h; cases h
      | ok p =>
        obtain ⟨b', r'⟩ := p
        rw [hq] at h
        simp at h
        obtain ⟨rfl, rfl⟩ := h
        obtain ⟨h1, h2⟩ := ih xs b' r' hq
        simp [h1, h2]

theorem zag_range (z : Nat) : i64ok (zag z) := by
  unfold zag i64ok
  have h1 := BitVec.le_toInt (zagBV (BitVec.ofNat 64 z))
  have h2 := BitVec.toInt_lt (x := zagBV (BitVec.ofNat 64 z))
  constructor
  · simpa using h1
  · simpa using h2

theorem decLong_ok {bs : Bytes} {n : Int} {r : Bytes} (h : decLong bs = .ok (n, r)) : i64ok n := by
  unfold decLong at h
  cases hd : decodeVar bs with
  | error e => rw [hd] at h; cases h
  | ok p =>
    obtain ⟨z, r'⟩ := p
    rw [hd] at h; simp at h
    rw [← h.1]; exact zag_range z

theorem decInt_ok {bs : Bytes} {n : Int} {r : Bytes} (h : decInt bs = .ok (n, r)) : i32ok n := by
  unfold decInt at h
  cases hd : decLong bs with
  | error e => rw [hd] at h; cases h
  | ok p =>
    obtain ⟨m, r'⟩ := p
    rw [hd] at h; simp only [] at h
    split at h
    · rename_i hr
      cases h
      exact ⟨by simpa using hr.1, by simpa using hr.2⟩
    · cases h

theorem safeLen_ok' {lim n k : Nat} (h : safeLen lim n = .ok k) : k = n ∧ n ≤ lim := by
  unfold safeLen at h
  split at h
  · rename_i hle; simp at h; exact ⟨h.symm, hle⟩
  · cases h

theorem decLen_ok {lim : Nat} {bs : Bytes} {k : Nat} {r : Bytes} (h : decLen lim bs = .ok (k, r)) : k ≤ lim := by
  unfold decLen at h
  cases hd : decLong bs with
  | error e => rw [hd] at h; cases h
  | ok p =>
    obtain ⟨m, r'⟩ := p
    rw [hd] at h; simp only [] at h
    split at h
    · cases h
    · cases hs : safeLen lim m.toNat with
      | error e => rw [hs] at h; cases h
      | ok k' =>
        rw [hs] at h; simp at h
        have := safeLen_ok' hs
        omega

theorem decBytes_ok {lim : Nat} {bs b r : Bytes} (h : decBytes lim bs = .ok (b, r)) : b.length ≤ lim := by
  unfold decBytes at h
  cases hd : decLen lim bs with
  | error e => rw [hd] at h; cases h
  | ok p =>
    obtain ⟨k, r'⟩ := p
    rw [hd] at h; simp only [] at h
    have := takeExact_ok k r' b r h
    have := decLen_ok hd
    omega

theorem decString_ok {lim : Nat} {bs b r : Bytes} (h : decString lim bs = .ok (b, r)) :
    b.length ≤ lim ∧ validUtf8 b = true := by
  unfold decString at h
  cases hd : decBytes lim bs with
  | error e => rw [hd] at h; cases h
  | ok p =>
    obtain ⟨b', r'⟩ := p
    rw [hd] at h; simp only [] at h
    split at h
    · rename_i hu
      simp at h
      obtain ⟨rfl, rfl⟩ := h
      exact ⟨decBytes_ok hd, hu⟩
    · cases h

theorem decFixed_ok' {lim size : Nat} {bs b r : Bytes} (h : decFixed lim size bs = .ok (b, r)) :
    b.length = size ∧ size ≤ lim := by
  unfold decFixed safeLen at h
  split at h
  · cases h
  · rename_i heq
    split at heq
    · rename_i hle
      exact ⟨(takeExact_ok size bs b r h).1, hle⟩
    · cases heq

theorem decSeqLen_ok {lim : Nat} {bs : Bytes} {k : Nat} {r : Bytes} (h : decSeqLen lim bs = .ok (k, r)) : k ≤ lim := by
  unfold decSeqLen at h
  cases hd : decLong bs with
  | error e => rw [hd] at h; cases h
  | ok p =>
    obtain ⟨raw, r'⟩ := p
    rw [hd] at h; simp only [] at h
    split at h
    · simp at h; omega
    · split at h
      · cases hd2 : decLong r' with
        | error e => rw [hd2] at h; cases h
        | ok p2 =>
          rw [hd2] at h; simp only [] at h
          split at h
          · cases h
          · cases hs : safeLen lim (-raw).toNat with
            | error e => rw [hs] at h; cases h
            | ok k' =>
              rw [hs] at h; simp at h
              have := safeLen_ok' hs
              omega
      · cases hs : safeLen lim raw.toNat with
        | error e => rw [hs] at h; cases h
        | ok k' =>
          rw [hs] at h; simp at h
          have := safeLen_ok' hs
          omega

/-- everything `decodeN` returns was produced by `f` (or was already accumulated). -/
theorem decodeN_all {α : Type} (f : Reader α) (P : α → Prop)
    (hf : ∀ bs v r, f bs = .ok (v, r) → P v) :
    ∀ (n : Nat) (acc : List α) (bs : Bytes) (vs : List α) (r : Bytes),
      decodeN f n acc bs = .ok (vs, r) → (∀ a ∈ acc, P a) →
      (∀ v ∈ vs, P v) ∧ vs.length = acc.length + n := by
  intro n
  induction n with
  | zero =>
    intro acc bs vs r h hacc
    simp [decodeN] at h
    obtain ⟨rfl, rfl⟩ := h
    exact ⟨by simpa using hacc, by simp⟩
  | succ n ih =>
    intro acc bs vs r h hacc
    simp only [decodeN] at h
    cases hq : f bs with
    | error e => rw [hq] at h; cases h
    | ok p =>
      obtain ⟨v, r'⟩ := p
      rw [hq] at h; simp only [] at h
      have := ih (v :: acc) r' vs r h (by
        intro a ha
        rcases List.mem_cons.mp ha with rfl | ha
        · exact hf bs a r' hq
        · exact hacc a ha)
      exact ⟨this.1, by simp at this; omega⟩

theorem safeCollectionLen_ok' {lim sz total : Nat} (h : safeCollectionLen lim sz total = .ok ()) :
    total * sz ≤ lim := by
  unfold safeCollectionLen at h
  split at h
  · cases h
  · split at h
    · assumption
    · cases h

theorem arrayLoop_all (cfg : Cfg) (f : Reader Value) (P : Value → Prop)
    (hf : ∀ bs v r, f bs = .ok (v, r) → P v) :
    ∀ (bfuel : Nat) (acc : List Value) (bs : Bytes) (items : List Value) (r : Bytes),
      arrayLoop cfg f bfuel acc bs = .ok (items, r) → (∀ a ∈ acc, P a) →
      acc.length * cfg.szValue ≤ cfg.lim →
      (∀ v ∈ items, P v) ∧ items.length * cfg.szValue ≤ cfg.lim := by
  intro bfuel
  induction bfuel with
  | zero => intro acc bs items r h; simp [arrayLoop] at h
  | succ bfuel ih =>
    intro acc bs items r h hacc hlen
    simp only [arrayLoop] at h
    cases hq : decSeqLen cfg.lim bs with
    | error e => rw [hq] at h; cases h
    | ok p =>
      obtain ⟨len, r'⟩ := p
      rw [hq] at h; simp only [] at h
      split at h
      · simp at h; obtain ⟨rfl, rfl⟩ := h; exact ⟨hacc, hlen⟩
      · split at h
        · cases h
        · cases hs : safeCollectionLen cfg.lim cfg.szValue (acc.length + len) with
          | error e => rw [hs] at h; cases h
          | ok u =>
            rw [hs] at h; simp only [] at h
            cases hn : decodeN f len [] r' with
            | error e => rw [hn] at h; cases h
            | ok p2 =>
              obtain ⟨its, r''⟩ := p2
              rw [hn] at h; simp only [] at h
              have hall := decodeN_all f P hf len [] r' its r'' hn (by simp)
              apply ih (acc ++ its) r'' items r h
              · intro a ha
                rcases List.mem_append.mp ha with ha | ha
                · exact hacc a ha
                · exact hall.1 a ha
              · have := safeCollectionLen_ok' hs
                simp at hall
                simp [hall.2]; exact this

theorem mapInsert_mem (m : List (Bytes × Value)) (k : Bytes) (v : Value) :
    ∀ e ∈ mapInsert m k v, e ∈ m ∨ e = (k, v) := by
  induction m with
  | nil => intro e he; simp [mapInsert] at he; exact Or.inr he
  | cons a tl ih =>
    obtain ⟨k', v'⟩ := a
    intro e he
    simp only [mapInsert] at he
    split at he
    · rcases List.mem_cons.mp he with rfl | he
      · exact Or.inr rfl
      · exact Or.inl (List.mem_cons_of_mem _ he)
    · rcases List.mem_cons.mp he with rfl | he
      · exact Or.inl (by simp)
      · rcases ih e he with h | h
        · exact Or.inl (List.mem_cons_of_mem _ h)
        · exact Or.inr h

theorem mapInsert_keys (m : List (Bytes × Value)) (k : Bytes) (v : Value) :
    ∀ x ∈ (mapInsert m k v).map Prod.fst, x ∈ m.map Prod.fst ∨ x = k := by
  intro x hx
  obtain ⟨e, he, rfl⟩ := List.mem_map.mp hx
  rcases mapInsert_mem m k v e he with h | h
  · exact Or.inl (List.mem_map.mpr ⟨e, h, rfl⟩)
  · exact Or.inr (by rw [h])

theorem mapInsert_nodup (m : List (Bytes × Value)) (k : Bytes) (v : Value)
    (h : (m.map Prod.fst).Nodup) : ((mapInsert m k v).map Prod.fst).Nodup := by
  induction m with
  | nil => simp [mapInsert]
  | cons a tl ih =>
    obtain ⟨k', v'⟩ := a
    simp only [List.map_cons, List.nodup_cons] at h
    simp only [mapInsert]
    split
    · rename_i heq
      subst heq
      simp only [List.map_cons, List.nodup_cons]
      exact h
    · rename_i hne
      simp only [List.map_cons, List.nodup_cons]
      refine ⟨?_, ih h.2⟩
      intro hin
      rcases mapInsert_keys tl k v k' hin with h' | h'
      · exact h.1 h'
      · exact hne h'

theorem mapInsert_length (m : List (Bytes × Value)) (k : Bytes) (v : Value) :
    (mapInsert m k v).length ≤ m.length + 1 := by
  induction m with
  | nil => simp [mapInsert]
  | cons a tl ih =>
    obtain ⟨k', v'⟩ := a
    simp only [mapInsert]
    split <;> simp <;> omega

theorem foldl_mapInsert_props (P : Bytes × Value → Prop) (es : List (Bytes × Value)) :
    ∀ acc : List (Bytes × Value), (acc.map Prod.fst).Nodup → (∀ e ∈ acc, P e) → (∀ e ∈ es, P e) →
      let m := es.foldl (fun m kv => mapInsert m kv.1 kv.2) acc
      (m.map Prod.fst).Nodup ∧ (∀ e ∈ m, P e) ∧ m.length ≤ acc.length + es.length := by
  induction es with
  | nil => intro acc h1 h2 _; exact ⟨h1, h2, by simp⟩
  | cons e tl ih =>
    intro acc h1 h2 h3
    simp only [List.foldl_cons]
    have := ih (mapInsert acc e.1 e.2) (mapInsert_nodup acc e.1 e.2 h1)
      (by
        intro x hx
        rcases mapInsert_mem acc e.1 e.2 x hx with h | h
        · exact h2 x h
        · rw [h]; exact h3 e (by simp))
      (fun x hx => h3 x (List.mem_cons_of_mem _ hx))
    refine ⟨this.1, this.2.1, ?_⟩
    have hl := mapInsert_length acc e.1 e.2
    have := this.2.2
    simp at this ⊢
    omega

theorem mapLoop_all (cfg : Cfg) (f : Reader (Bytes × Value)) (P : Bytes × Value → Prop)
    (hf : ∀ bs v r, f bs = .ok (v, r) → P v) :
    ∀ (bfuel : Nat) (acc : List (Bytes × Value)) (bs : Bytes) (es : List (Bytes × Value)) (r : Bytes),
      mapLoop cfg f bfuel acc bs = .ok (es, r) → (acc.map Prod.fst).Nodup → (∀ a ∈ acc, P a) →
      acc.length * cfg.szEntry ≤ cfg.lim →
      (es.map Prod.fst).Nodup ∧ (∀ e ∈ es, P e) ∧ es.length * cfg.szEntry ≤ cfg.lim := by
  intro bfuel
  induction bfuel with
  | zero => intro acc bs es r h; simp [mapLoop] at h
  | succ bfuel ih =>
    intro acc bs es r h hnd hacc hlen
    simp only [mapLoop] at h
    cases hq : decSeqLen cfg.lim bs with
    | error e => rw [hq] at h; cases h
    | ok p =>
      obtain ⟨len, r'⟩ := p
      rw [hq] at h; simp only [] at h
      split at h
      · simp at h; obtain ⟨rfl, rfl⟩ := h; exact ⟨hnd, hacc, hlen⟩
      · split at h
        · cases h
        · cases hs : safeCollectionLen cfg.lim cfg.szEntry (acc.length + len) with
          | error e => rw [hs] at h; cases h
          | ok u =>
            rw [hs] at h; simp only [] at h
            cases hn : decodeN f len [] r' with
            | error e => rw [hn] at h; cases h
            | ok p2 =>
              obtain ⟨its, r''⟩ := p2
              rw [hn] at h; simp only [] at h
              have hall := decodeN_all f P hf len [] r' its r'' hn (by simp)
              have hp := foldl_mapInsert_props P its acc hnd hacc hall.1
              simp only [] at hp
              apply ih _ r'' es r h hp.1 hp.2.1
              have h1 := safeCollectionLen_ok' hs
              have h2 := hp.2.2
              have h3 : its.length = len := by have := hall.2; simpa using this
              rw [h3] at h2
              exact Nat.le_trans (Nat.mul_le_mul_right _ h2) h1

end Avro
