import AvroModel
/-! Helper lemmas for the varint / zig-zag layer (kernel-only: no bv_decide). -/
namespace Avro
theorem and_one_eq_zero_iff (z : BitVec 64) : (z &&& 1#64 = 0#64) ↔ z[0] = false := by
  constructor
  · intro h
    have := congrArg (fun x => x[0]) h
    simpa using this
  · intro h
    ext i hi
    by_cases h0 : i = 0
    · subst h0; simp [h]
    · simp [BitVec.getElem_one, h0]

theorem zig_bit0 (n : BitVec 64) : (zigBV n)[0] = n.msb := by
  unfold zigBV
  simp [BitVec.getElem_sshiftRight, BitVec.msb_eq_getLsbD_last]

theorem zig_bit_succ (n : BitVec 64) (i : Nat) (h : i + 1 < 64) :
    (zigBV n)[i+1] = (n[i] ^^ n.msb) := by
  unfold zigBV
  have h1 : 1 + i < 64 := by omega
  simp
  rw [BitVec.getElem_sshiftRight]
  have : ¬ (63 + (i + 1) < 64) := by omega
  simp [this]

theorem zag_zig_bv (n : BitVec 64) : zagBV (zigBV n) = n := by
  unfold zagBV
  by_cases hm : n.msb = false
  · have hc : zigBV n &&& 1#64 = 0#64 := by rw [and_one_eq_zero_iff, zig_bit0, hm]
    rw [if_pos hc]
    ext i hi
    by_cases hi63 : i = 63
    · subst hi63; simp [BitVec.msb_eq_getLsbD_last] at hm; simp [hm]
    · have h1 : i + 1 < 64 := by omega
      have h2 : 1 + i < 64 := by omega
      have := zig_bit_succ n i h1
      simp [BitVec.getLsbD_eq_getElem h1, Nat.add_comm 1 i, this, hm, h1]
  · have hm' : n.msb = true := by simpa using hm
    have hc : ¬ (zigBV n &&& 1#64 = 0#64) := by rw [and_one_eq_zero_iff, zig_bit0, hm']; simp
    rw [if_neg hc]
    ext i hi
    by_cases hi63 : i = 63
    · subst hi63; simp [BitVec.msb_eq_getLsbD_last] at hm'; simp [hm']
    · have h1 : i + 1 < 64 := by omega
      have := zig_bit_succ n i h1
      simp [BitVec.getLsbD_eq_getElem h1, Nat.add_comm 1 i, this, hm', h1]
theorem u8_toNat_ofNat (n : Nat) (h : n < 256) : (UInt8.ofNat n).toNat = n := by
  simp [UInt8.toNat_ofNat', Nat.mod_eq_of_lt h]

theorem and_7f (z : Nat) : z &&& 0x7F = z % 128 := by
  have := Nat.and_two_pow_sub_one_eq_mod z 7
  simpa using this

theorem or_80 (d : Nat) (h : d < 128) : 0x80 ||| d = 128 + d := by
  have := Nat.shiftLeft_add_eq_or_of_lt (a := 1) (i := 7) (b := d) (by simpa using h)
  simp at this
  omega

theorem or_shift (acc d j : Nat) (h : acc < 2^(7*j)) : acc ||| (d <<< (j*7)) = acc + d * 2^(7*j) := by
  have := Nat.shiftLeft_add_eq_or_of_lt (a := d) (i := 7*j) (b := acc) h
  rw [Nat.or_comm, Nat.mul_comm j 7, ← this, Nat.shiftLeft_eq]
  omega

theorem arith (acc q r p : Nat) : acc + r * p + q * (128 * p) = acc + (128*q + r) * p := by
  rw [Nat.add_mul, Nat.mul_comm 128 q, Nat.mul_assoc]; omega

theorem decodeVarAux_encodeVarAux (fuel : Nat) :
    ∀ (z j acc : Nat) (rest : Bytes), j + fuel = 10 → z < 2^(64 - 7*j) → acc < 2^(7*j) → 0 < fuel →
      decodeVarAux fuel j acc (encodeVarAux fuel z ++ rest) = .ok (acc + z * 2^(7*j), rest) := by
  induction fuel with
  | zero => intro z j acc rest _ _ _ h; omega
  | succ fuel ih =>
    intro z j acc rest hj hz hacc _
    unfold encodeVarAux
    by_cases hle : z ≤ 0x7F
    · rw [if_pos hle]
      simp only [List.cons_append, List.nil_append, decodeVarAux]
      have hz128 : z % 128 = z := Nat.mod_eq_of_lt (by omega)
      have hb : (UInt8.ofNat (z &&& 0x7F)).toNat = z := by
        rw [and_7f, hz128]; exact u8_toNat_ofNat z (by omega)
      rw [hb, and_7f, hz128, or_shift acc z j hacc]
      have hlt : acc + z * 2^(7*j) < 2^64 := by
        have h7 : 7*j ≤ 64 := by omega
        have : z * 2^(7*j) + 2^(7*j) ≤ 2^(64-7*j) * 2^(7*j) := by
          have : (z+1) * 2^(7*j) ≤ 2^(64-7*j) * 2^(7*j) := Nat.mul_le_mul_right _ hz
          rw [Nat.add_mul] at this; omega
        rw [← Nat.pow_add] at this
        have e : 64 - 7*j + 7*j = 64 := by omega
        rw [e] at this
        omega
      have hsh : z >>> 7 = 0 := by rw [Nat.shiftRight_eq_div_pow]; omega
      rw [Nat.mod_eq_of_lt hlt, if_pos hsh]
    · rw [if_neg hle]
      have hd : z % 128 < 128 := Nat.mod_lt _ (by omega)
      have hb : (UInt8.ofNat (0x80 ||| (z &&& 0x7F))).toNat = 128 + z % 128 := by
        rw [and_7f, or_80 _ hd]; exact u8_toNat_ofNat _ (by omega)
      simp only [List.cons_append, decodeVarAux]
      rw [hb]
      have hand : (128 + z % 128) &&& 0x7F = z % 128 := by rw [and_7f]; omega
      have hsh : ¬ ((128 + z % 128) >>> 7 = 0) := by rw [Nat.shiftRight_eq_div_pow]; omega
      rw [hand, or_shift acc _ j hacc, if_neg hsh]
      have hj8 : 7*j + 7 < 64 := by
        by_cases h : 7*j + 7 < 64
        · exact h
        · exfalso
          have : 64 - 7*j ≤ 7 := by omega
          have : 2^(64-7*j) ≤ 2^7 := Nat.pow_le_pow_right (by omega) this
          omega
      have hacc' : acc + z % 128 * 2^(7*j) < 2^(7*(j+1)) := by
        have : (z % 128 + 1) * 2^(7*j) ≤ 128 * 2^(7*j) := Nat.mul_le_mul_right _ hd
        rw [Nat.add_mul] at this
        have e : 2^(7*(j+1)) = 128 * 2^(7*j) := by rw [Nat.mul_add, Nat.pow_add]; omega
        omega
      have hlt : acc + z % 128 * 2^(7*j) < 2^64 :=
        Nat.lt_of_lt_of_le hacc' (Nat.pow_le_pow_right (by omega) (by omega))
      rw [Nat.mod_eq_of_lt hlt]
      have hz' : z >>> 7 < 2^(64 - 7*(j+1)) := by
        rw [Nat.shiftRight_eq_div_pow]
        have e : 2^(64 - 7*j) = 2^7 * 2^(64-7*(j+1)) := by rw [← Nat.pow_add]; congr 1; omega
        rw [e] at hz
        exact Nat.div_lt_of_lt_mul hz
      have hfuel : 0 < fuel := by omega
      rw [ih (z >>> 7) (j+1) _ rest (by omega) hz' hacc' hfuel]
      congr 2
      rw [Nat.shiftRight_eq_div_pow]
      have e : 2^(7*(j+1)) = 128 * 2^(7*j) := by rw [Nat.mul_add, Nat.pow_add]; omega
      rw [e]
      have := Nat.div_add_mod z 128
      have e7 : (2:Nat)^7 = 128 := by decide
      rw [e7]
      conv => rhs; rw [← this]
      exact arith _ _ _ _

theorem decodeVar_encodeVar (z : Nat) (hz : z < 2^64) (rest : Bytes) :
    decodeVar (encodeVar z ++ rest) = .ok (z, rest) := by
  unfold decodeVar encodeVar
  have := decodeVarAux_encodeVarAux 10 z 0 0 rest (by omega) (by simpa using hz) (by simp) (by omega)
  simpa using this

theorem zig_lt (n : Int) : zig n < 2^64 := by
  unfold zig; exact BitVec.isLt _

/-- zig-zag round trip on `i64` payloads. -/
theorem zag_zig (n : Int) (h1 : -2^63 ≤ n) (h2 : n < 2^63) : zag (zig n) = n := by
  unfold zag zig
  rw [BitVec.ofNat_toNat, BitVec.setWidth_eq, zag_zig_bv, BitVec.toInt_ofInt]
  apply Int.bmod_eq_of_le <;> omega

theorem decLong_encLong (n : Int) (h1 : -2^63 ≤ n) (h2 : n < 2^63) (rest : Bytes) :
    decLong (encLong n ++ rest) = .ok (n, rest) := by
  unfold decLong encLong
  rw [decodeVar_encodeVar _ (zig_lt n)]
  simp [zag_zig n h1 h2]

theorem decInt_encInt (n : Int) (h1 : -2^31 ≤ n) (h2 : n < 2^31) (rest : Bytes) :
    decInt (encInt n ++ rest) = .ok (n, rest) := by
  unfold decInt encInt
  rw [decLong_encLong n (by omega) (by omega)]
  simp only []
  rw [if_pos]
  constructor <;> omega



theorem zag_bit (z : BitVec 64) (i : Nat) (h : i + 1 < 64) :
    (zagBV z)[i] = (z[i+1] ^^ z[0]) := by
  unfold zagBV
  by_cases h0 : z[0] = false
  · have hc : z &&& 1#64 = 0#64 := (and_one_eq_zero_iff z).mpr h0
    rw [if_pos hc]
    have h1 : 1 + i < 64 := by omega
    simp [h0, BitVec.getLsbD_eq_getElem h, Nat.add_comm 1 i, h]
  · have h0' : z[0] = true := by simpa using h0
    have hc : ¬ (z &&& 1#64 = 0#64) := by rw [and_one_eq_zero_iff, h0']; simp
    rw [if_neg hc]
    simp [h0', BitVec.getLsbD_eq_getElem h, Nat.add_comm 1 i, h]

theorem zag_msb (z : BitVec 64) : (zagBV z).msb = z[0] := by
  unfold zagBV
  by_cases h0 : z[0] = false
  · have hc : z &&& 1#64 = 0#64 := (and_one_eq_zero_iff z).mpr h0
    rw [if_pos hc]
    simp [BitVec.msb_eq_getLsbD_last, h0]
  · have h0' : z[0] = true := by simpa using h0
    have hc : ¬ (z &&& 1#64 = 0#64) := by rw [and_one_eq_zero_iff, h0']; simp
    rw [if_neg hc]
    simp [BitVec.msb_eq_getLsbD_last, h0']

theorem zig_zag_bv (z : BitVec 64) : zigBV (zagBV z) = z := by
  ext i hi
  cases i with
  | zero => rw [zig_bit0, zag_msb]
  | succ k =>
    rw [zig_bit_succ _ k hi, zag_bit z k hi, zag_msb]
    cases z[k+1] <;> cases z[0] <;> rfl

theorem zig_zag (z : Nat) (h : z < 2^64) : zig (zag z) = z := by
  unfold zig zag
  rw [BitVec.ofInt_toInt, zig_zag_bv, BitVec.toNat_ofNat]
  exact Nat.mod_eq_of_lt h


theorem decodeVarAux_bound (fuel : Nat) :
    ∀ (j acc : Nat) (bs : Bytes) (z : Nat) (r : Bytes),
      decodeVarAux fuel j acc bs = .ok (z, r) → acc < 2^(7*j) →
      ∃ k, 1 ≤ k ∧ k ≤ fuel ∧ bs.length = k + r.length ∧ z < 2^(7*(j+k)) ∧ z < 2^64 := by
  induction fuel with
  | zero => intro j acc bs z r h; simp [decodeVarAux] at h
  | succ fuel ih =>
    intro j acc bs z r h hacc
    cases bs with
    | nil => simp [decodeVarAux] at h
    | cons b rest =>
      simp only [decodeVarAux] at h
      have hd : b.toNat % 128 < 128 := Nat.mod_lt _ (by omega)
      have hacc' : acc + b.toNat % 128 * 2^(7*j) < 2^(7*(j+1)) := by
        have : (b.toNat % 128 + 1) * 2^(7*j) ≤ 128 * 2^(7*j) := Nat.mul_le_mul_right _ hd
        rw [Nat.add_mul] at this
        have e : 2^(7*(j+1)) = 128 * 2^(7*j) := by rw [Nat.mul_add, Nat.pow_add]; omega
        omega
      rw [and_7f, or_shift acc _ j hacc] at h
      have hmod : (acc + b.toNat % 128 * 2^(7*j)) % 2^64 < 2^(7*(j+1)) :=
        Nat.lt_of_le_of_lt (Nat.mod_le _ _) hacc'
      have hlt64 : (acc + b.toNat % 128 * 2^(7*j)) % 2^64 < 2^64 := Nat.mod_lt _ (by omega)
      split at h
      · cases h
        exact ⟨1, by omega, by omega, by simp; omega, hmod, hlt64⟩
      · obtain ⟨k, hk1, hk2, hlen, hz, hz64⟩ := ih (j+1) _ rest z r h hmod
        refine ⟨k+1, by omega, by omega, by simp; omega, ?_, hz64⟩
        have : j + 1 + k = j + (k + 1) := by omega
        rw [← this]; exact hz

theorem encodeVarAux_len (fuel : Nat) :
    ∀ (k z : Nat), 1 ≤ k → k ≤ fuel → z < 2^(7*k) → (encodeVarAux fuel z).length ≤ k := by
  induction fuel with
  | zero => intro k z h1 h2; omega
  | succ fuel ih =>
    intro k z h1 h2 hz
    unfold encodeVarAux
    by_cases hle : z ≤ 0x7F
    · rw [if_pos hle]; simp; omega
    · rw [if_neg hle]
      have hk2 : 2 ≤ k := by
        by_cases h : 2 ≤ k
        · exact h
        · have : k = 1 := by omega
          subst this; simp at hz; omega
      have hz' : z >>> 7 < 2^(7*(k-1)) := by
        rw [Nat.shiftRight_eq_div_pow]
        have e : 2^(7*k) = 2^7 * 2^(7*(k-1)) := by rw [← Nat.pow_add]; congr 1; omega
        rw [e] at hz
        exact Nat.div_lt_of_lt_mul hz
      have := ih (k-1) (z >>> 7) (by omega) (by omega) hz'
      simp; omega

theorem encLong_minimal (bs : Bytes) (n : Int) (r : Bytes) (h : decLong bs = .ok (n, r)) :
    (encLong n).length + r.length ≤ bs.length := by
  unfold decLong at h
  cases hd : decodeVar bs with
  | error e => rw [hd] at h; cases h
  | ok p =>
    obtain ⟨z, r'⟩ := p
    rw [hd] at h
    simp at h
    obtain ⟨hn, hr⟩ := h
    subst hn; subst hr
    unfold decodeVar at hd
    obtain ⟨k, hk1, hk2, hlen, hz, hz64⟩ := decodeVarAux_bound 10 0 0 bs z r' hd (by simp)
    unfold encLong encodeVar
    rw [zig_zag z hz64]
    have := encodeVarAux_len 10 k z hk1 hk2 (by simpa using hz)
    omega



theorem encodeVarAux_len_pos (fuel z : Nat) (h : 0 < fuel) : 1 ≤ (encodeVarAux fuel z).length := by
  cases fuel with
  | zero => omega
  | succ f => unfold encodeVarAux; split <;> simp

theorem encodeVarAux_lt (fuel : Nat) :
    ∀ (k z : Nat), 1 ≤ k → (encodeVarAux fuel z).length ≤ k → 0 < fuel → z < 2^(7*fuel) → z < 2^(7*k) := by
  induction fuel with
  | zero => intro k z _ _ h; omega
  | succ fuel ih =>
    intro k z hk hlen _ hz
    unfold encodeVarAux at hlen
    by_cases hle : z ≤ 0x7F
    · have : (2:Nat)^7 ≤ 2^(7*k) := Nat.pow_le_pow_right (by omega) (by omega)
      omega
    · rw [if_neg hle] at hlen
      simp at hlen
      have hz' : z >>> 7 < 2^(7*fuel) := by
        rw [Nat.shiftRight_eq_div_pow]
        have e : 2^(7*(fuel+1)) = 2^7 * 2^(7*fuel) := by rw [← Nat.pow_add]; congr 1; omega
        rw [e] at hz
        exact Nat.div_lt_of_lt_mul hz
      have hf : 0 < fuel := by
        cases fuel with
        | zero => simp at hz'; rw [Nat.shiftRight_eq_div_pow] at hz'; omega
        | succ f => omega
      have hpos := encodeVarAux_len_pos fuel (z >>> 7) hf
      have hk2 : 2 ≤ k := by omega
      have := ih (k-1) (z >>> 7) (by omega) (by omega) hf hz'
      rw [Nat.shiftRight_eq_div_pow] at this
      have e : 2^(7*k) = 2^7 * 2^(7*(k-1)) := by rw [← Nat.pow_add]; congr 1; omega
      rw [e]
      have := Nat.div_add_mod z (2^7)
      have hm : z % 2^7 < 2^7 := Nat.mod_lt _ (by decide)
      have : z < 2^7 * (z / 2^7 + 1) := by rw [Nat.mul_add]; omega
      exact Nat.lt_of_lt_of_le this (Nat.mul_le_mul_left _ (by omega))

theorem encodeVar_len_mono (a b : Nat) (hab : a ≤ b) (hb : b < 2^64) :
    (encodeVar a).length ≤ (encodeVar b).length := by
  unfold encodeVar
  have hpos := encodeVarAux_len_pos 10 b (by omega)
  have hb70 : b < 2^(7*10) := Nat.lt_of_lt_of_le hb (by decide)
  have hk10 : (encodeVarAux 10 b).length ≤ 10 := encodeVarAux_len 10 10 b (by omega) (by omega) hb70
  have := encodeVarAux_lt 10 _ b hpos (Nat.le_refl _) (by omega) hb70
  exact encodeVarAux_len 10 _ a hpos hk10 (by omega)

theorem zig_nonneg (n : Nat) (h : n < 2^63) : zig (n : Int) = 2 * n := by
  unfold zig zigBV
  rw [BitVec.ofInt_natCast]
  have hm : (BitVec.ofNat 64 n).msb = false := by
    rw [BitVec.msb_eq_decide]
    simp [BitVec.toNat_ofNat]
    omega
  rw [BitVec.sshiftRight_eq_of_msb_false hm]
  have hz : (BitVec.ofNat 64 n) >>> 63 = 0#64 := by
    apply BitVec.eq_of_toNat_eq
    simp [BitVec.toNat_ofNat, Nat.shiftRight_eq_div_pow]
    omega
  rw [hz]
  simp [BitVec.toNat_ofNat, Nat.shiftLeft_eq]
  omega

theorem encLong_len_mono (a b : Nat) (hab : a ≤ b) (hb : b < 2^63) :
    (encLong (a : Int)).length ≤ (encLong (b : Int)).length := by
  unfold encLong
  rw [zig_nonneg a (by omega), zig_nonneg b hb]
  exact encodeVar_len_mono _ _ (by omega) (by omega)

end Avro
