import AvroModel
/-! Helper lemmas for the varint / zig-zag layer (kernel-only: no bv_decide). -/
namespace Avro
theorem and_one_eq_zero_iff (z : BitVec 64) : (z &&& 1#64 = 0#64) ↔ z[0] = false := by
  constructor
  · intro h
    have := congrArg (fun x => x[0]) h
    simpa using this
  · intro h
    ext i hi
    by_cases h0 : i = 0
    · subst h0; simp [h]
    · simp [BitVec.getElem_one, h0]

theorem zig_bit0 (n : BitVec 64) : (zigBV n)[0] = n.msb := by
  unfold zigBV
  simp [BitVec.getElem_sshiftRight, BitVec.msb_eq_getLsbD_last]

theorem zig_bit_succ (n : BitVec 64) (i : Nat) (h : i + 1 < 64) :
    (zigBV n)[i+1] = (n[i] ^^ n.msb) := by
  unfold zigBV
  have h1 : 1 + i < 64 := by omega
  simp
  rw [BitVec.getElem_sshiftRight]
  have : ¬ (63 + (i + 1) < 64) := by omega
  simp [this]

theorem zag_zig_bv (n : BitVec 64) : zagBV (zigBV n) = n := by
  unfold zagBV
  by_cases hm : n.msb = false
  · have hc : zigBV n &&& 1#64 = 0#64 := by rw [and_one_eq_zero_iff, zig_bit0, hm]
    rw [if_pos hc]
    ext i hi
    by_cases hi63 : i = 63
    · subst hi63; simp [BitVec.msb_eq_getLsbD_last] at hm; simp [hm]
    · have h1 : i + 1 < 64 := by omega
      have h2 : 1 + i < 64 := by omega
      have := zig_bit_succ n i h1
      simp [BitVec.getLsbD_eq_getElem h1, Nat.add_comm 1 i, this, hm, h1]
  · have hm' : n.msb = true := by simpa using hm
    have hc : ¬ (zigBV n &&& 1#64 = 0#64) := by rw [and_one_eq_zero_iff, zig_bit0, hm']; simp
    rw [if_neg hc]
    ext i hi
    by_cases hi63 : i = 63
    · subst hi63; simp [BitVec.msb_eq_getLsbD_last] at hm'; simp [hm']
    · have h1 : i + 1 < 64 := by omega
      have := zig_bit_succ n i h1
      simp [BitVec.getLsbD_eq_getElem h1, Nat.add_comm 1 i, this, hm', h1]
theorem u8_toNat_ofNat (n : Nat) (h : n < 256) : (UInt8.ofNat n).toNat = n := by
  simp [UInt8.toNat_ofNat', Nat.mod_eq_of_lt h]

theorem and_7f (z : Nat) : z &&& 0x7F = z % 128 := by
  have := Nat.and_two_pow_sub_one_eq_mod z 7
  simpa using this

theorem or_80 (d : Nat) (h : d < 128) : 0x80 ||| d = 128 + d := by
  have := Nat.shiftLeft_add_eq_or_of_lt (a := 1) (i := 7) (b := d) (by simpa using h)
  simp at this
  omega

theorem or_shift (acc d j : Nat) (h : acc < 2^(7*j)) : acc ||| (d <<< (j*7)) = acc + d * 2^(7*j) := by
  have := Nat.shiftLeft_add_eq_or_of_lt (a := d) (i := 7*j) (b := acc) h
  rw [Nat.or_comm, Nat.mul_comm j 7, ← this, Nat.shiftLeft_eq]
  omega

theorem arith (acc q r p : Nat) : acc + r * p + q * (128 * p) = acc + (128*q + r) * p := by
  rw [Nat.add_mul, Nat.mul_comm 128 q, Nat.mul_assoc]; omega

theorem decodeVarAux_encodeVarAux (fuel : Nat) :
    ∀ (z j acc : Nat) (rest : Bytes), j + fuel = 10 → z < 2^(64 - 7*j) → acc < 2^(7*j) → 0 < fuel →
      decodeVarAux fuel j acc (encodeVarAux fuel z ++ rest) = .ok (acc + z * 2^(7*j), rest) := by
  induction fuel with
  | zero => intro z j acc rest _ _ _ h; omega
  | succ fuel ih =>
    intro z j acc rest hj hz hacc _
    unfold encodeVarAux
    by_cases hle : z ≤ 0x7F
    · rw [if_pos hle]
      simp only [List.cons_append, List.nil_append, decodeVarAux]
      have hz128 : z % 128 = z := Nat.mod_eq_of_lt (by omega)
      have hb : (UInt8.ofNat (z &&& 0x7F)).toNat = z := by
        rw [and_7f, hz128]; exact u8_toNat_ofNat z (by omega)
      rw [hb, and_7f, hz128, or_shift acc z j hacc]
      have hlt : acc + z * 2^(7*j) < 2^64 := by
        have h7 : 7*j ≤ 64 := by omega
        have : z * 2^(7*j) + 2^(7*j) ≤ 2^(64-7*j) * 2^(7*j) := by
          have : (z+1) * 2^(7*j) ≤ 2^(64-7*j) * 2^(7*j) := Nat.mul_le_mul_right _ hz
          rw [Nat.add_mul] at this; omega
        rw [← Nat.pow_add] at this
        have e : 64 - 7*j + 7*j = 64 := by omega
        rw [e] at this
        omega
      have hsh : z >>> 7 = 0 := by rw [Nat.shiftRight_eq_div_pow]; omega
      rw [Nat.mod_eq_of_lt hlt, if_pos hsh]
    · rw [if_neg hle]
      have hd : z % 128 < 128 := Nat.mod_lt _ (by omega)
      have hb : (UInt8.ofNat (0x80 ||| (z &&& 0x7F))).toNat = 128 + z % 128 := by
        rw [and_7f, or_80 _ hd]; exact u8_toNat_ofNat _ (by omega)
      simp only [List.cons_append, decodeVarAux]
      rw [hb]
      have hand : (128 + z % 128) &&& 0x7F = z % 128 := by rw [and_7f]; omega
      have hsh : ¬ ((128 + z % 128) >>> 7 = 0) := by rw [Nat.shiftRight_eq_div_pow]; omega
      rw [hand, or_shift acc _ j hacc, if_neg hsh]
      have hj8 : 7*j + 7 < 64 := by
        by_cases h : 7*j + 7 < 64
        · exact h
        · exfalso
          have : 64 - 7*j ≤ 7 := by omega
          have : 2^(64-7*j) ≤ 2^7 := Nat.pow_le_pow_right (by omega) this
          omega
      have hacc' : acc + z % 128 * 2^(7*j) < 2^(7*(j+1)) := by
        have : (z % 128 + 1) * 2^(7*j) ≤ 128 * 2^(7*j) := Nat.mul_le_mul_right _ hd
        rw [Nat.add_mul] at this
        have e : 2^(7*(j+1)) = 128 * 2^(7*j) := by rw [Nat.mul_add, Nat.pow_add]; omega
        omega
      have hlt : acc + z % 128 * 2^(7*j) < 2^64 :=
        Nat.lt_of_lt_of_le hacc' (Nat.pow_le_pow_right (by omega) (by omega))
      rw [Nat.mod_eq_of_lt hlt]
      have hz' : z >>> 7 < 2^(64 - 7*(j+1)) := by
        rw [Nat.shiftRight_eq_div_pow]
        have e : 2^(64 - 7*j) = 2^7 * 2^(64-7*(j+1)) := by rw [← Nat.pow_add]; congr 1; omega
        rw [e] at hz
        exact Nat.div_lt_of_lt_mul hz
      have hfuel : 0 < fuel := by omega
      rw [ih (z >>> 7) (j+1) _ rest (by omega) hz' hacc' hfuel]
      congr 2
      rw [Nat.shiftRight_eq_div_pow]
      have e : 2^(7*(j+1)) = 128 * 2^(7*j) := by rw [Nat.mul_add, Nat.pow_add]; omega
      rw [e]
      have := Nat.div_add_mod z 128
      have e7 : (2:Nat)^7 = 128 := by decide
      rw [e7]
      conv => rhs; rw [← this]
      exact arith _ _ _ _

theorem decodeVar_encodeVar (z : Nat) (hz : z < 2^64) (rest : Bytes) :
    decodeVar (encodeVar z ++ rest) = .ok (z, rest) := by
  unfold decodeVar encodeVar
  have := decodeVarAux_encodeVarAux 10 z 0 0 rest (by omega) (by simpa using hz) (by simp) (by omega)
  simpa using this

theorem zig_lt (n : Int) : zig n < 2^64 := by
  unfold zig; exact BitVec.isLt _

/-- zig-zag round trip on `i64` payloads. -/
theorem zag_zig (n : Int) (h1 : -2^63 ≤ n) (h2 : n < 2^63) : zag (zig n) = n := by
  unfold zag zig
  rw [BitVec.ofNat_toNat, BitVec.setWidth_eq, zag_zig_bv, BitVec.toInt_ofInt]
  apply Int.bmod_eq_of_le <;> omega

theorem decLong_encLong (n : Int) (h1 : -2^63 ≤ n) (h2 : n < 2^63) (rest : Bytes) :
    decLong (encLong n ++ rest) = .ok (n, rest) := by
  unfold decLong encLong
  rw [decodeVar_encodeVar _ (zig_lt n)]
  simp [zag_zig n h1 h2]

theorem decInt_encInt (n : Int) (h1 : -2^31 ≤ n) (h2 : n < 2^31) (rest : Bytes) :
    decInt (encInt n ++ rest) = .ok (n, rest) := by
  unfold decInt encInt
  rw [decLong_encLong n (by omega) (by omega)]
  simp only []
  rw [if_pos]
  constructor <;> omega

end Avro
