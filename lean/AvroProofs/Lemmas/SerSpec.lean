import AvroModel
import AvroProofs.C16
import AvroProofs.Lemmas.SpecDecode
import AvroProofs.Lemmas.RecordOrder
import AvroProofs.Lemmas.Prim
/-!
What the schema-aware serializer writes is a specification-legal datum (`Spec.SpecEnc`), for every target block
size: helper definitions and lemmas for `Avro.C16.ser_is_spec_datum`.

`SerOk cfg env s x` collects what the Rust side guarantees about a serde value `x` serialized against `s`
(integers within the range of their Rust type, `str`/`char` valid UTF-8, declared lengths equal to the number of
items, distinct map keys) together with the size side conditions under which a reader with allocation limit
`cfg.lim` must accept the datum.
-/
namespace Avro
open Spec
open Avro.C16 (negBlock entryBytes bytesOf)

/-- the text of a map key -/
def keyOf : SerdeVal → Bytes
  | .str u => u
  | .char u => u
  | _ => []

/-- the schemas an arbitrary byte string is written to as itself (`uuid` and `duration` targets have their own rules
with the length the logical type requires; big-decimal is left out) -/
def bytesTarget : Schema → Bool
  | .bytes | .fixed _ _ | .decimal _ _ _ => true
  | _ => false

inductive SerOk (cfg : Cfg) (env : Names) : Schema → SerdeVal → Prop
  | bool {s0 : Schema} {b : Bool} : SerOk cfg env s0 (.bool b)
  | i8 {s0 : Schema} {n : Int} : i32ok n → SerOk cfg env s0 (.i8 n)
  | i16 {s0 : Schema} {n : Int} : i32ok n → SerOk cfg env s0 (.i16 n)
  | i32 {s0 : Schema} {n : Int} : i32ok n → SerOk cfg env s0 (.i32 n)
  | u8 {s0 : Schema} {n : Int} : i32ok n → SerOk cfg env s0 (.u8 n)
  | u16 {s0 : Schema} {n : Int} : i32ok n → SerOk cfg env s0 (.u16 n)
  | i64 {s0 : Schema} {n : Int} : i64ok n → SerOk cfg env s0 (.i64 n)
  | u32 {s0 : Schema} {n : Int} : i64ok n → SerOk cfg env s0 (.u32 n)
  | f32 {s0 : Schema} {b : UInt32} : SerOk cfg env s0 (.f32 b)
  | f64 {s0 : Schema} {b : UInt64} : SerOk cfg env s0 (.f64 b)
  | char {s0 : Schema} {u : Bytes} : validUtf8 u = true → u.length ≤ cfg.lim → SerOk cfg env s0 (.char u)
  | str {s0 : Schema} {u : Bytes} : derefS env s0 = some .string → validUtf8 u = true → u.length ≤ cfg.lim →
      SerOk cfg env s0 (.str u)
  | bytes {s0 s : Schema} {b : Bytes} : derefS env s0 = some s → bytesTarget s = true → b.length ≤ cfg.lim →
      SerOk cfg env s0 (.bytes b)
  /-- a uuid handed over as its 16 raw bytes, to `uuid` on `bytes` or on `fixed(16)` -/
  | bytesUuid {s0 s : Schema} {b : Bytes} : derefS env s0 = some s → (s = .uuidBytes ∨ ∃ nm, s = .uuidFixed nm 16) →
      b.length = 16 → 16 ≤ cfg.lim → SerOk cfg env s0 (.bytes b)
  /-- a duration handed over as its 12 bytes -/
  | bytesDuration {s0 : Schema} {nm b : Bytes} : derefS env s0 = some (.duration nm 12) → b.length = 12 →
      SerOk cfg env s0 (.bytes b)
  /-- a big-decimal handed over in its serialized form: length-prefixed two's-complement unscaled value, then the scale -/
  | bytesBigDecimal {s0 : Schema} {u sc : Int} : derefS env s0 = some .bigDecimal → i64ok sc →
      (Spec.long (toSignedBE u).length ++ toSignedBE u ++ Spec.long sc).length ≤ cfg.lim →
      SerOk cfg env s0 (.bytes (Spec.long (toSignedBE u).length ++ toSignedBE u ++ Spec.long sc))
  /-- a uuid handed over in its canonical text form, to `uuid` on `string` -/
  | strUuid {s0 : Schema} {u b : Bytes} : derefS env s0 = some .uuidString → b.length = 16 → u = uuidToText b →
      36 ≤ cfg.lim → SerOk cfg env s0 (.str u)
  | none {s0 : Schema} : SerOk cfg env s0 .none
  | unit {s0 : Schema} : SerOk cfg env s0 .unit
  | unitStruct {s0 : Schema} {name : Bytes} : SerOk cfg env s0 (.unitStruct name)
  | unitVariant {s0 : Schema} {name variant : Bytes} {idx : Nat} :
      (∀ en syms d, derefS env s0 = some (.enum en syms d) → syms.length ≤ 2^31) →
      SerOk cfg env s0 (.unitVariant name idx variant)
  | some {s0 : Schema} {v : SerdeVal} :
      (∀ branches ni b, derefS env s0 = some (.union branches) → optionNullIndex branches = some ni →
        branches[(ni + 1) % 2]? = some b → SerOk cfg env b v) →
      SerOk cfg env s0 (.some v)
  | newtypeStruct {s0 : Schema} {name : Bytes} {v : SerdeVal} :
      (∀ rn m fs, derefS env s0 = some (.record rn [(m, fs)]) → SerOk cfg env fs v) →
      SerOk cfg env s0 (.newtypeStruct name v)
  | seq {s0 : Schema} {len : Option Nat} {items : List SerdeVal} :
      (len = none ∨ len = some items.length) → items.length ≤ cfg.lim → items.length * cfg.szValue ≤ cfg.lim →
      (∀ inner, derefS env s0 = some (.array inner) → ∀ i ∈ items, SerOk cfg env inner i) →
      SerOk cfg env s0 (.seq len items)
  | map {s0 : Schema} {len : Option Nat} {entries : List (SerdeVal × SerdeVal)} :
      (len = none ∨ len = some entries.length) → entries.length ≤ cfg.lim → entries.length * cfg.szEntry ≤ cfg.lim →
      (entries.map (fun kv => keyOf kv.1)).Nodup →
      (∀ kv ∈ entries, (kv.1 = .str (keyOf kv.1) ∨ kv.1 = .char (keyOf kv.1)) ∧ validUtf8 (keyOf kv.1) = true ∧
        (keyOf kv.1).length ≤ cfg.lim) →
      (∀ inner, derefS env s0 = some (.map inner) → ∀ kv ∈ entries, SerOk cfg env inner kv.2) →
      SerOk cfg env s0 (.map len entries)
  | tuple {s0 : Schema} {items : List SerdeVal} :
      (∀ s i, derefS env s0 = some s → items = [i] → SerOk cfg env s i) →
      (∀ rn fields, derefS env s0 = some (.record rn fields) →
        ∀ (j : Nat) i (ms : FieldMeta × Schema), items[j]? = some i → fields[j]? = some ms → SerOk cfg env ms.2 i) →
      SerOk cfg env s0 (.tuple items)
  | tupleStruct {s0 : Schema} {name : Bytes} {items : List SerdeVal} :
      (∀ rn fields, derefS env s0 = some (.record rn fields) →
        ∀ (j : Nat) i (ms : FieldMeta × Schema), items[j]? = some i → fields[j]? = some ms → SerOk cfg env ms.2 i) →
      SerOk cfg env s0 (.tupleStruct name items)
  | struct {s0 : Schema} {name : Bytes} {given : List (Bytes × Option SerdeVal)} :
      (∀ rn rfields, derefS env s0 = some (.record rn rfields) →
        ∀ kv ∈ given, ∀ v (p : Nat) (ms : FieldMeta × Schema), kv.2 = some v → lookupPos rfields kv.1 = some p →
          rfields[p]? = some ms → SerOk cfg env ms.2 v) →
      (∀ rn rfields, derefS env s0 = some (.record rn rfields) →
        ∀ ms ∈ rfields, ∀ d dv, ms.1.default = some d → defaultToSerde env 50 d ms.2 = some dv →
          SerOk cfg env ms.2 dv) →
      SerOk cfg env s0 (.struct name given)

variable {cfg : Cfg} {env : Names}

theorem derefS_self {s : Schema} (h : notRef s) : derefS env s = some s := by
  cases s <;> simp_all [derefS, notRef]

theorem spec_of_deref (henv : EnvOk env) {s0 s : Schema} {v : Value} {enc : Bytes}
    (hd : derefS env s0 = some s) (h : SpecEnc cfg env s v enc) : SpecEnc cfg env s0 v enc := by
  cases s0 <;>
    first
    | (simp only [derefS, Option.some.injEq] at hd; subst hd; exact h)
    | (simp only [derefS] at hd; exact .ref hd (henv _ _ hd).1 h)

theorem derefS_notRef (henv : EnvOk env) {s0 s : Schema} (hd : derefS env s0 = some s) : notRef s := by
  cases s0 <;>
    first
    | (simp only [derefS, Option.some.injEq] at hd; subst hd; trivial)
    | (simp only [derefS] at hd; exact (henv _ _ hd).1)

theorem mem_length_le_flatten {x : Bytes} : ∀ {l : List Bytes}, x ∈ l → x.length ≤ l.flatten.length
  | [], h => by simp at h
  | y :: ys, h => by
    rcases List.mem_cons.mp h with rfl | h
    · simp only [List.flatten_cons, List.length_append]; omega
    · have := mem_length_le_flatten h; simp only [List.flatten_cons, List.length_append]; omega

/-! ### record fields, positionally -/

/-- fields' encodings, one by one, give the record's encoding -/
theorem fields_spec : ∀ (fields : List (FieldMeta × Schema)) (bs : List Bytes), bs.length = fields.length →
    (∀ (i : Nat) (ms : FieldMeta × Schema) x, fields[i]? = some ms → bs[i]? = some x → ∃ v, SpecEnc cfg env ms.2 v x) →
    ∃ vfs, SpecFields cfg env fields vfs bs.flatten
  | [], bs, hl, _ => by
    have : bs = [] := by cases bs <;> simp_all
    subst this; exact ⟨[], .nil⟩
  | (m, s) :: fs, bs, hl, h => by
    cases bs with
    | nil => simp at hl
    | cons b bs' =>
      obtain ⟨v, hv⟩ := h 0 (m, s) b (by simp) (by simp)
      obtain ⟨vfs, hvfs⟩ := fields_spec fs bs' (by simpa using hl) (by
        intro i ms x h1 h2
        exact h (i + 1) ms x (by simpa using h1) (by simpa using h2))
      exact ⟨(m.name, v) :: vfs, by simpa using SpecFields.cons hv hvfs⟩

/-- `ManyTupleSerializer` -/
theorem tupleFields_spec (ser : Schema → SerdeVal → SerOut)
    (P : Schema → SerdeVal → Prop)
    (hP : ∀ s i b n, P s i → ser s i = .ok (b, n) → b.length < 2^63 → ∃ v, SpecEnc cfg env s v b) :
    ∀ (fields : List (FieldMeta × Schema)) (items : List SerdeVal) (out : Bytes) (cnt : Nat) (b : Bytes) (n : Nat),
      (∀ (j : Nat) i (ms : FieldMeta × Schema), items[j]? = some i → fields[j]? = some ms → P ms.2 i) →
      tupleFields ser fields items out cnt = .ok (b, n) → b.length < 2^63 →
      ∃ enc vfs, b = out ++ enc ∧ SpecFields cfg env fields vfs enc
  | [], [], out, cnt, b, n, _, h, _ => by
    simp only [tupleFields, Except.ok.injEq, Prod.mk.injEq] at h
    exact ⟨[], [], by simp [h.1], .nil⟩
  | [], _ :: _, out, cnt, b, n, _, h, _ => by simp [tupleFields] at h
  | _ :: _, [], out, cnt, b, n, _, h, _ => by simp [tupleFields] at h
  | (m, s) :: fs, x :: xs, out, cnt, b, n, hp, h, hb => by
    simp only [tupleFields] at h
    cases hx : ser s x with
    | error e => rw [hx] at h; simp at h
    | ok r =>
      obtain ⟨xb, xn⟩ := r
      rw [hx] at h
      simp only at h
      obtain ⟨enc, vfs, he, hs⟩ := tupleFields_spec ser P hP fs xs (out ++ xb) (cnt + xn) b n (by
        intro j i ms h1 h2
        exact hp (j + 1) i ms (by simpa using h1) (by simpa using h2)) h hb
      have hxb : xb.length < 2^63 := by
        have : b.length = out.length + xb.length + enc.length := by rw [he]; simp only [List.length_append]
        omega
      obtain ⟨v, hv⟩ := hP s x xb xn (hp 0 x (m, s) (by simp) (by simp)) hx hxb
      exact ⟨xb ++ enc, (m.name, v) :: vfs, by rw [he]; simp, .cons hv hs⟩

/-! ### items and blocks -/

/-- item by item: `es[j]` is an encoding of `vs[j]` -/
inductive ItemsEnc (cfg : Cfg) (env : Names) (s : Schema) : List Value → List Bytes → Prop
  | nil : ItemsEnc cfg env s [] []
  | cons {v : Value} {vs : List Value} {e : Bytes} {es : List Bytes} :
      SpecEnc cfg env s v e → ItemsEnc cfg env s vs es → ItemsEnc cfg env s (v :: vs) (e :: es)

theorem ItemsEnc.length {s : Schema} : ∀ {vs : List Value} {es : List Bytes}, ItemsEnc cfg env s vs es → vs.length = es.length
  | _, _, .nil => rfl
  | _, _, .cons _ h => by simp [h.length]

theorem ItemsEnc.items {s : Schema} : ∀ {vs : List Value} {es : List Bytes}, ItemsEnc cfg env s vs es →
    SpecItems cfg env s vs es.flatten
  | _, _, .nil => .nil
  | _, _, .cons h t => by simpa using SpecItems.cons h t.items

theorem ItemsEnc.split {s : Schema} : ∀ (a : List Bytes) {b : List Bytes} {vs : List Value},
    ItemsEnc cfg env s vs (a ++ b) →
    ∃ v1 v2, vs = v1 ++ v2 ∧ ItemsEnc cfg env s v1 a ∧ ItemsEnc cfg env s v2 b
  | [], b, vs, h => ⟨[], vs, rfl, .nil, h⟩
  | e :: a, b, vs, h => by
    cases h with
    | cons hv ht =>
      obtain ⟨v1, v2, he, h1, h2⟩ := ItemsEnc.split a ht
      exact ⟨_ :: v1, v2, by simp [he], .cons hv h1, h2⟩

/-- the sized blocks the buffered serializer writes are legal blocks -/
theorem negBlocks_spec (hl : cfg.lim < 2^63) {s : Schema} : ∀ (parts : List (List Bytes)) (k : Nat) (vs : List Value),
    (∀ p ∈ parts, p ≠ []) → ItemsEnc cfg env s vs parts.flatten →
    vs.length ≤ cfg.lim → (k + vs.length) * cfg.szValue ≤ cfg.lim →
    (∀ p ∈ parts, p.flatten.length < 2^63) →
    SpecBlocks cfg env s k vs ((parts.map negBlock).flatten ++ [0])
  | [], k, vs, _, h, _, _, _ => by
    cases h; simpa using SpecBlocks.done
  | p :: ps, k, vs, hne, h, hlen, hsz, hby => by
    simp only [List.flatten_cons] at h
    obtain ⟨v1, v2, he, h1, h2⟩ := ItemsEnc.split p h
    subst he
    have hl1 := h1.length
    have hp : p ≠ [] := hne p (by simp)
    have hv1 : v1 ≠ [] := by
      intro hv; subst hv; simp at hl1; exact hp (List.eq_nil_of_length_eq_zero hl1.symm)
    simp only [List.length_append] at hlen hsz
    have hmul : (k + v1.length) * cfg.szValue ≤ cfg.lim := by
      have : (k + v1.length) * cfg.szValue ≤ (k + (v1.length + v2.length)) * cfg.szValue :=
        Nat.mul_le_mul_right _ (by omega)
      omega
    have ih := negBlocks_spec hl ps (k + v1.length) v2 (fun q hq => hne q (by simp [hq])) h2 (by omega)
      (by rw [Nat.add_assoc]; exact hsz) (fun q hq => hby q (by simp [hq]))
    have hb := SpecBlocks.neg (cfg := cfg) (env := env) (s := s) (k := k) hv1 h1.items (by omega) hmul
      (hby p (by simp)) ih
    have e1 : encLong (0 - (p.length : Int)) = Spec.long (-(v1.length : Int)) := by
      rw [hl1]
      have : (0 - (p.length : Int)) = -(p.length : Int) := by omega
      rw [this]
      exact (long_i64 ⟨by omega, by omega⟩).symm
    have e2 : encLong (p.flatten.length : Int) = Spec.long (p.flatten.length : Int) :=
      (long_nat _ (hby p (by simp))).symm
    simp only [List.map_cons, List.flatten_cons, negBlock, e1, e2, List.append_assoc]
    simpa [List.append_assoc] using hb

/-- the same for maps -/
inductive EntriesEnc (cfg : Cfg) (env : Names) (s : Schema) : List (Bytes × Value) → List Bytes → Prop
  | nil : EntriesEnc cfg env s [] []
  | cons {k : Bytes} {v : Value} {es : List (Bytes × Value)} {e : Bytes} {rest : List Bytes} :
      k.length ≤ cfg.lim → validUtf8 k = true → SpecEnc cfg env s v e → EntriesEnc cfg env s es rest →
      EntriesEnc cfg env s ((k, v) :: es) ((Spec.long k.length ++ k ++ e) :: rest)

theorem EntriesEnc.length {s : Schema} : ∀ {vs : List (Bytes × Value)} {es : List Bytes},
    EntriesEnc cfg env s vs es → vs.length = es.length
  | _, _, .nil => rfl
  | _, _, .cons _ _ _ h => by simp [h.length]

theorem EntriesEnc.entries {s : Schema} : ∀ {vs : List (Bytes × Value)} {es : List Bytes},
    EntriesEnc cfg env s vs es → SpecEntries cfg env s vs es.flatten
  | _, _, .nil => .nil
  | _, _, .cons h1 h2 h t => by simpa [List.append_assoc] using SpecEntries.cons h1 h2 h t.entries

theorem EntriesEnc.split {s : Schema} : ∀ (a : List Bytes) {b : List Bytes} {vs : List (Bytes × Value)},
    EntriesEnc cfg env s vs (a ++ b) →
    ∃ v1 v2, vs = v1 ++ v2 ∧ EntriesEnc cfg env s v1 a ∧ EntriesEnc cfg env s v2 b
  | [], b, vs, h => ⟨[], vs, rfl, .nil, h⟩
  | e :: a, b, vs, h => by
    cases h with
    | cons h1 h2 hv ht =>
      obtain ⟨v1, v2, he, g1, g2⟩ := EntriesEnc.split a ht
      exact ⟨_ :: v1, v2, by simp [he], .cons h1 h2 hv g1, g2⟩

theorem negMapBlocks_spec (hl : cfg.lim < 2^63) {s : Schema} :
    ∀ (parts : List (List Bytes)) (k : Nat) (vs : List (Bytes × Value)),
    (∀ p ∈ parts, p ≠ []) → EntriesEnc cfg env s vs parts.flatten →
    vs.length ≤ cfg.lim → (k + vs.length) * cfg.szEntry ≤ cfg.lim →
    (∀ p ∈ parts, p.flatten.length < 2^63) →
    SpecMapBlocks cfg env s k vs ((parts.map negBlock).flatten ++ [0])
  | [], k, vs, _, h, _, _, _ => by
    cases h; simpa using SpecMapBlocks.done
  | p :: ps, k, vs, hne, h, hlen, hsz, hby => by
    simp only [List.flatten_cons] at h
    obtain ⟨v1, v2, he, h1, h2⟩ := EntriesEnc.split p h
    subst he
    have hl1 := h1.length
    have hp : p ≠ [] := hne p (by simp)
    have hv1 : v1 ≠ [] := by
      intro hv; subst hv; simp at hl1; exact hp (List.eq_nil_of_length_eq_zero hl1.symm)
    simp only [List.length_append] at hlen hsz
    have hmul : (k + v1.length) * cfg.szEntry ≤ cfg.lim := by
      have : (k + v1.length) * cfg.szEntry ≤ (k + (v1.length + v2.length)) * cfg.szEntry :=
        Nat.mul_le_mul_right _ (by omega)
      omega
    have ih := negMapBlocks_spec hl ps (k + v1.length) v2 (fun q hq => hne q (by simp [hq])) h2 (by omega)
      (by rw [Nat.add_assoc]; exact hsz) (fun q hq => hby q (by simp [hq]))
    have hb := SpecMapBlocks.neg (cfg := cfg) (env := env) (s := s) (k := k) hv1 h1.entries (by omega) hmul
      (hby p (by simp)) ih
    have e1 : encLong (0 - (p.length : Int)) = Spec.long (-(v1.length : Int)) := by
      rw [hl1]
      have : (0 - (p.length : Int)) = -(p.length : Int) := by omega
      rw [this]
      exact (long_i64 ⟨by omega, by omega⟩).symm
    have e2 : encLong (p.flatten.length : Int) = Spec.long (p.flatten.length : Int) :=
      (long_nat _ (hby p (by simp))).symm
    simp only [List.map_cons, List.flatten_cons, negBlock, e1, e2, List.append_assoc]
    simpa [List.append_assoc] using hb

/-! ### what `BlockSerializer` writes, in both modes -/

theorem direct_ok_mapM (ser : SerdeVal → SerOut) (keyed : Bool) (serKey : SerdeVal → SerOut) (len : Nat) :
    ∀ (es : List (SerdeVal × SerdeVal)) (out : Bytes) (cnt : Nat) (r : Bytes × Nat),
      directBlocks ser keyed serKey len es out cnt = .ok r → ∃ ebs, es.mapM (entryBytes ser keyed serKey) = some ebs
  | [], _, _, _, _ => ⟨[], by simp⟩
  | (k, v) :: rest, out, cnt, r, h => by
    simp only [directBlocks] at h
    cases hk : (if keyed = true then serKey k else Except.ok ([], 0)) with
    | error e => simp [hk] at h
    | ok rk =>
      obtain ⟨kb, kn⟩ := rk
      cases hv : ser v with
      | error e => simp [hk, hv] at h
      | ok rv =>
        obtain ⟨vb, vn⟩ := rv
        simp only [hk, hv] at h
        obtain ⟨ebs, he⟩ := direct_ok_mapM ser keyed serKey len rest _ _ r h
        exact ⟨(kb ++ vb) :: ebs, by simp [List.mapM_cons, entryBytes, hk, hv, he]⟩

theorem buffered_ok_mapM (ser : SerdeVal → SerOut) (keyed : Bool) (serKey : SerdeVal → SerOut) (target : Nat) :
    ∀ (es : List (SerdeVal × SerdeVal)) (buffer : Bytes) (items : Nat) (out : Bytes) (cnt : Nat) (r : Bytes × Nat),
      bufferedBlocks ser keyed serKey target es buffer items out cnt = .ok r →
      ∃ ebs, es.mapM (entryBytes ser keyed serKey) = some ebs
  | [], _, _, _, _, _, _ => ⟨[], by simp⟩
  | (k, v) :: rest, buffer, items, out, cnt, r, h => by
    simp only [bufferedBlocks] at h
    cases hk : (if keyed = true then serKey k else Except.ok ([], 0)) with
    | error e => simp [hk] at h
    | ok rk =>
      obtain ⟨kb, kn⟩ := rk
      cases hv : ser v with
      | error e => simp [hk, hv] at h
      | ok rv =>
        obtain ⟨vb, vn⟩ := rv
        simp only [hk, hv] at h
        split at h
        · obtain ⟨ebs, he⟩ := buffered_ok_mapM ser keyed serKey target rest _ _ _ _ r h
          exact ⟨(kb ++ vb) :: ebs, by simp [List.mapM_cons, entryBytes, hk, hv, he]⟩
        · obtain ⟨ebs, he⟩ := buffered_ok_mapM ser keyed serKey target rest _ _ _ _ r h
          exact ⟨(kb ++ vb) :: ebs, by simp [List.mapM_cons, entryBytes, hk, hv, he]⟩

/-- every mode of the block serializer: the entries' bytes as one counted block, or as sized blocks -/
theorem blockSer_layout (tbs : Option Nat) (ser : SerdeVal → SerOut) (keyed : Bool) (serKey : SerdeVal → SerOut)
    (len : Option Nat) (entries : List (SerdeVal × SerdeVal)) (b : Bytes) (n : Nat)
    (hlen : len = none ∨ len = some entries.length)
    (h : blockSer tbs ser keyed serKey len entries = .ok (b, n)) :
    ∃ ebs, entries.mapM (entryBytes ser keyed serKey) = some ebs ∧
      (b = (if entries.length ≠ 0 then encLong entries.length else []) ++ ebs.flatten ++ [0] ∨
       ∃ parts : List (List Bytes), (∀ p ∈ parts, p ≠ []) ∧ parts.flatten = ebs ∧
         b = (parts.map negBlock).flatten ++ [0]) := by
  have buf : ∀ target, bufferedBlocks ser keyed serKey target entries [] 0 [] 0 = .ok (b, n) →
      ∃ ebs, entries.mapM (entryBytes ser keyed serKey) = some ebs ∧
        (b = (if entries.length ≠ 0 then encLong entries.length else []) ++ ebs.flatten ++ [0] ∨
         ∃ parts : List (List Bytes), (∀ p ∈ parts, p ≠ []) ∧ parts.flatten = ebs ∧
           b = (parts.map negBlock).flatten ++ [0]) := by
    intro target h
    obtain ⟨ebs, he⟩ := buffered_ok_mapM ser keyed serKey _ entries _ _ _ _ _ h
    refine ⟨ebs, he, Or.inr ?_⟩
    obtain ⟨parts, hne, hfl, hrun⟩ := C16.buffered_layout ser keyed serKey target entries ebs [] [] 0 he
    simp only [List.flatten_nil, List.length_nil, List.nil_append] at hrun hfl
    rw [h] at hrun
    simp only [bytesOf, Except.ok.injEq] at hrun
    exact ⟨parts, hne, hfl, hrun⟩
  rcases hlen with h0 | h0
  · subst h0
    simp only [blockSer] at h
    exact buf _ h
  · subst h0
    cases tbs with
    | some t =>
      simp only [blockSer] at h
      exact buf _ h
    | none =>
      simp only [blockSer] at h
      obtain ⟨ebs, he⟩ := direct_ok_mapM ser keyed serKey _ entries _ _ _ h
      refine ⟨ebs, he, Or.inl ?_⟩
      have hd := C16.direct_layout ser keyed serKey entries.length entries ebs
        (if entries.length != 0 then varint entries.length else ([], 0)).1
        (if entries.length != 0 then varint entries.length else ([], 0)).2 he
      rw [h] at hd
      simp only [bytesOf, Except.ok.injEq] at hd
      rw [hd]
      by_cases hz : entries.length = 0 <;> simp [hz, varint]

theorem part_flatten_le : ∀ {parts : List (List Bytes)} {p : List Bytes}, p ∈ parts →
    p.flatten.length ≤ parts.flatten.flatten.length
  | [], _, h => by simp at h
  | q :: qs, p, h => by
    rcases List.mem_cons.mp h with rfl | h
    · simp only [List.flatten_cons, List.flatten_append, List.length_append]; omega
    · have := part_flatten_le h
      simp only [List.flatten_cons, List.flatten_append, List.length_append]; omega

theorem negBlocks_length : ∀ (parts : List (List Bytes)),
    parts.flatten.flatten.length ≤ (parts.map negBlock).flatten.length
  | [] => by simp
  | p :: ps => by
    have := negBlocks_length ps
    simp only [List.flatten_cons, List.flatten_append, List.length_append, List.map_cons, negBlock]
    omega

/-- an array's items, encoded one by one, in either layout -/
theorem array_layout_spec (hl : cfg.lim < 2^63) {inner : Schema} {vs : List Value} {ebs : List Bytes} {b : Bytes}
    (hi : ItemsEnc cfg env inner vs ebs) (hlen : vs.length ≤ cfg.lim) (hsz : vs.length * cfg.szValue ≤ cfg.lim)
    (hb : b.length < 2^63)
    (hlay : b = (if ebs.length ≠ 0 then encLong ebs.length else []) ++ ebs.flatten ++ [0] ∨
       ∃ parts : List (List Bytes), (∀ p ∈ parts, p ≠ []) ∧ parts.flatten = ebs ∧
         b = (parts.map negBlock).flatten ++ [0]) :
    SpecBlocks cfg env inner 0 vs b := by
  have hle := hi.length
  rcases hlay with hd | ⟨parts, hne, hfl, hbb⟩
  · by_cases hz : ebs.length = 0
    · have : ebs = [] := List.eq_nil_of_length_eq_zero hz
      subst this
      cases hi
      simp at hd; subst hd; exact .done
    · simp only [hz, ne_eq, not_false_eq_true, if_true] at hd
      have hv : vs ≠ [] := by intro h; subst h; simp at hle; omega
      have := SpecBlocks.pos (cfg := cfg) (env := env) (s := inner) (k := 0) (more := []) hv hi.items hlen
        (by simpa using hsz) (SpecBlocks.done)
      rw [hd, ← hle, ← long_nat _ (by omega)]
      simpa using this
  · subst hfl
    rw [hbb]
    apply negBlocks_spec hl parts 0 vs hne hi hlen (by simpa using hsz)
    intro p hp
    have h1 := part_flatten_le hp
    have h2 := negBlocks_length parts
    have : b.length = (parts.map negBlock).flatten.length + 1 := by rw [hbb]; simp
    omega

theorem map_layout_spec (hl : cfg.lim < 2^63) {inner : Schema} {vs : List (Bytes × Value)} {ebs : List Bytes} {b : Bytes}
    (hi : EntriesEnc cfg env inner vs ebs) (hlen : vs.length ≤ cfg.lim) (hsz : vs.length * cfg.szEntry ≤ cfg.lim)
    (hb : b.length < 2^63)
    (hlay : b = (if ebs.length ≠ 0 then encLong ebs.length else []) ++ ebs.flatten ++ [0] ∨
       ∃ parts : List (List Bytes), (∀ p ∈ parts, p ≠ []) ∧ parts.flatten = ebs ∧
         b = (parts.map negBlock).flatten ++ [0]) :
    SpecMapBlocks cfg env inner 0 vs b := by
  have hle := hi.length
  rcases hlay with hd | ⟨parts, hne, hfl, hbb⟩
  · by_cases hz : ebs.length = 0
    · have : ebs = [] := List.eq_nil_of_length_eq_zero hz
      subst this
      cases hi
      simp at hd; subst hd; exact .done
    · simp only [hz, ne_eq, not_false_eq_true, if_true] at hd
      have hv : vs ≠ [] := by intro h; subst h; simp at hle; omega
      have := SpecMapBlocks.pos (cfg := cfg) (env := env) (s := inner) (k := 0) (more := []) hv hi.entries hlen
        (by simpa using hsz) (SpecMapBlocks.done)
      rw [hd, ← hle, ← long_nat _ (by omega)]
      simpa using this
  · subst hfl
    rw [hbb]
    apply negMapBlocks_spec hl parts 0 vs hne hi hlen (by simpa using hsz)
    intro p hp
    have h1 := part_flatten_le hp
    have h2 := negBlocks_length parts
    have : b.length = (parts.map negBlock).flatten.length + 1 := by rw [hbb]; simp
    omega

/-! ### small facts about the helpers -/

theorem nullIndex_spec : ∀ (bs : List Schema) (i ni : Nat), nullIndex bs i = some ni →
    i ≤ ni ∧ bs[ni - i]? = some .null
  | [], _, _, h => by simp [nullIndex] at h
  | b :: rest, i, ni, h => by
    cases b <;>
      first
      | (simp only [nullIndex, Option.some.injEq] at h; subst h; simp)
      | (simp only [nullIndex] at h
         obtain ⟨h1, h2⟩ := nullIndex_spec rest (i + 1) ni h
         refine ⟨by omega, ?_⟩
         have : ni - i = (ni - (i + 1)) + 1 := by omega
         rw [this]; simpa using h2)

theorem optionNullIndex_spec {bs : List Schema} {ni : Nat} (h : optionNullIndex bs = some ni) :
    bs.length = 2 ∧ ni < 2 ∧ bs[ni]? = some .null := by
  unfold optionNullIndex at h
  split at h
  · rename_i hl
    have hl : bs.length = 2 := by simpa using hl
    obtain ⟨_, h2⟩ := nullIndex_spec bs 0 ni h
    simp only [Nat.sub_zero] at h2
    have : ni < bs.length := (List.getElem?_eq_some_iff.mp h2).1
    exact ⟨hl, by omega, h2⟩
  · simp at h

theorem indexOfSym_spec {syms : List Bytes} {v : Bytes} {i : Nat} (h : indexOfSym syms v = some i) :
    syms[i]? = some v := by
  unfold indexOfSym at h
  simp only at h
  split at h
  · rename_i hlt
    simp only [Option.some.injEq] at h
    subst h
    have := List.findIdx_getElem (w := hlt)
    simp only [decide_eq_true_eq] at this
    rw [List.getElem?_eq_getElem hlt, this]
  · simp at h

theorem intLike_spec {s : Schema} (h : s.isIntLikeS = true) {n : Int} (hn : i32ok n) :
    ∃ v, SpecEnc cfg env s v (encLong n) := by
  cases s <;> simp [Schema.isIntLikeS] at h
  · exact ⟨.int n, by rw [← long_i32 hn]; exact .int hn⟩
  · exact ⟨.date n, by rw [← long_i32 hn]; exact .date hn⟩
  · exact ⟨.timeMillis n, by rw [← long_i32 hn]; exact .timeMillis hn⟩

theorem longLike_spec {s : Schema} (h : s.isLongLikeS = true) {n : Int} (hn : i64ok n) :
    ∃ v, SpecEnc cfg env s v (encLong n) := by
  cases s <;> simp [Schema.isLongLikeS] at h
  · exact ⟨.long n, by rw [← long_i64 hn]; exact .long hn⟩
  · exact ⟨.longL _ n, by rw [← long_i64 hn]; exact .longL hn⟩

/-- an array's items one by one -/
theorem items_enc (ser : SerdeVal → SerOut) (serKey : SerdeVal → SerOut) (inner : Schema) (P : SerdeVal → Prop)
    (hP : ∀ i b n, P i → ser i = .ok (b, n) → b.length < 2^63 → ∃ v, SpecEnc cfg env inner v b) :
    ∀ (items : List SerdeVal) (ebs : List Bytes),
      (items.map (fun i => (SerdeVal.unit, i))).mapM (entryBytes ser false serKey) = some ebs →
      (∀ i ∈ items, P i) → ebs.flatten.length < 2^63 → ∃ vs, ItemsEnc cfg env inner vs ebs
  | [], ebs, h, _, _ => by simp at h; subst h; exact ⟨[], .nil⟩
  | i :: rest, ebs, h, hp, hb => by
    simp only [List.map_cons, List.mapM_cons, entryBytes] at h
    cases hv : ser i with
    | error e => simp [hv] at h
    | ok rv =>
      obtain ⟨vb, vn⟩ := rv
      simp only [hv] at h
      cases hr : (rest.map (fun i => (SerdeVal.unit, i))).mapM (entryBytes ser false serKey) with
      | none => simp [hr] at h
      | some ebs' =>
        simp [hr] at h
        subst h
        simp only [List.flatten_cons, List.length_append] at hb
        obtain ⟨v, hv'⟩ := hP i vb vn (hp i (by simp)) hv (by omega)
        obtain ⟨vs, hvs⟩ := items_enc ser serKey inner P hP rest ebs' hr (fun j hj => hp j (by simp [hj])) (by omega)
        exact ⟨v :: vs, .cons hv' hvs⟩

/-- a map's entries one by one -/
theorem entries_enc (ser : SerdeVal → SerOut) (serKey : SerdeVal → SerOut) (inner : Schema) (P : SerdeVal → Prop)
    (hP : ∀ i b n, P i → ser i = .ok (b, n) → b.length < 2^63 → ∃ v, SpecEnc cfg env inner v b)
    (K : SerdeVal → Prop)
    (hK : ∀ k kb kn, K k → serKey k = .ok (kb, kn) →
      kb = Spec.long (keyOf k).length ++ keyOf k ∧ validUtf8 (keyOf k) = true ∧ (keyOf k).length ≤ cfg.lim) :
    ∀ (entries : List (SerdeVal × SerdeVal)) (ebs : List Bytes),
      entries.mapM (entryBytes ser true serKey) = some ebs →
      (∀ kv ∈ entries, K kv.1 ∧ P kv.2) → ebs.flatten.length < 2^63 →
      ∃ es, EntriesEnc cfg env inner es ebs ∧ es.map Prod.fst = entries.map (fun kv => keyOf kv.1)
  | [], ebs, h, _, _ => by simp at h; subst h; exact ⟨[], .nil, rfl⟩
  | (k, x) :: rest, ebs, h, hp, hb => by
    simp only [List.mapM_cons, entryBytes, if_true] at h
    cases hk : serKey k with
    | error e => simp [hk] at h
    | ok rk =>
      obtain ⟨kb, kn⟩ := rk
      cases hv : ser x with
      | error e => simp [hk, hv] at h
      | ok rv =>
        obtain ⟨vb, vn⟩ := rv
        simp only [hk, hv] at h
        cases hr : rest.mapM (entryBytes ser true serKey) with
        | none => simp [hr] at h
        | some ebs' =>
          simp [hr] at h
          subst h
          simp only [List.flatten_cons, List.length_append] at hb
          obtain ⟨hk1, hk2⟩ := hp (k, x) (by simp)
          obtain ⟨e1, e2, e3⟩ := hK k kb kn hk1 hk
          obtain ⟨v, hv'⟩ := hP x vb vn hk2 hv (by omega)
          obtain ⟨es, hes, hks⟩ := entries_enc ser serKey inner P hP K hK rest ebs' hr
            (fun j hj => hp j (by simp [hj])) (by omega)
          refine ⟨(keyOf k, v) :: es, ?_, by simp [hks]⟩
          rw [e1]
          exact .cons e3 e2 hv' hes

theorem mapM_some_length {α β : Type} (f : α → Option β) : ∀ (l : List α) (r : List β),
    l.mapM f = some r → r.length = l.length
  | [], r, h => by simp at h; subst h; rfl
  | a :: l, r, h => by
    simp only [List.mapM_cons] at h
    cases hf : f a with
    | none => simp [hf] at h
    | some x =>
      cases hr : l.mapM f with
      | none => simp [hf, hr] at h
      | some xs =>
        simp [hf, hr] at h
        subst h
        simp [mapM_some_length f l xs hr]

/-- a map key (a `str` or a `char`) is written as a string -/
theorem key_bytes (hl : cfg.lim < 2^63) (tbs : Option Nat) (fuel : Nat) (k : SerdeVal) (kb : Bytes) (kn : Nat)
    (hk : (k = .str (keyOf k) ∨ k = .char (keyOf k)) ∧ validUtf8 (keyOf k) = true ∧ (keyOf k).length ≤ cfg.lim)
    (h : serS tbs env fuel .string k = .ok (kb, kn)) :
    kb = Spec.long (keyOf k).length ++ keyOf k ∧ validUtf8 (keyOf k) = true ∧ (keyOf k).length ≤ cfg.lim := by
  obtain ⟨hk1, hk2, hk3⟩ := hk
  refine ⟨?_, hk2, hk3⟩
  rw [long_nat _ (by omega)]
  cases fuel with
  | zero => simp [serS] at h
  | succ f =>
    rcases hk1 with e | e <;> (rw [e] at h; simp [serS, derefS, withLen] at h; exact h.1.symm)

/-- **what the serializer writes is a specification-legal encoding of some value** -/
theorem ser_spec (henv : EnvOk env) (hl : cfg.lim < 2^63) (tbs : Option Nat) :
    ∀ (fuel : Nat) (s0 : Schema) (x : SerdeVal) (b : Bytes) (n : Nat),
      SerOk cfg env s0 x → serS tbs env fuel s0 x = .ok (b, n) → b.length < 2^63 →
      ∃ v, SpecEnc cfg env s0 v b
  | 0, _, _, _, _, _, h, _ => by simp [serS] at h
  | fuel+1, s0, x, b, n, hok, h, hb => by
    have ih := ser_spec henv hl tbs fuel
    cases hd : derefS env s0 with
    | none => simp [serS, hd] at h
    | some s =>
      have hnr : notRef s := derefS_notRef henv hd
      suffices hs : ∃ v, SpecEnc cfg env s v b by
        obtain ⟨v, hv⟩ := hs
        exact ⟨v, spec_of_deref henv hd hv⟩
      cases hok with
      | bool =>
        simp only [serS, hd] at h
        rename_i bb
        cases s <;> simp at h
        obtain ⟨h1, _⟩ := h
        subst h1
        exact ⟨.boolean bb, .boolean bb⟩
      | i8 hn | i16 hn | i32 hn | u8 hn | u16 hn =>
        simp only [serS, hd] at h
        split at h
        · rename_i hi
          simp only [Except.ok.injEq, Prod.mk.injEq, varint] at h
          rw [← h.1]; exact intLike_spec hi hn
        · cases s <;> simp at h
      | i64 hn | u32 hn =>
        simp only [serS, hd] at h
        split at h
        · rename_i hi
          simp only [Except.ok.injEq, Prod.mk.injEq, varint] at h
          rw [← h.1]; exact longLike_spec hi hn
        · cases s <;> simp at h
      | f32 =>
        simp only [serS, hd] at h
        rename_i bits
        cases s <;> simp at h
        rw [← h.1]; exact ⟨.float bits, .float bits⟩
      | f64 =>
        simp only [serS, hd] at h
        rename_i bits
        cases s <;> simp at h
        rw [← h.1]; exact ⟨.double bits, .double bits⟩
      | char hv hlen =>
        simp only [serS, hd] at h
        rename_i u
        cases s <;> simp [withLen] at h
        rw [← h.1, ← long_nat _ (by omega)]; exact ⟨.string u, .string hlen hv⟩
      | str hs hv hlen =>
        simp only [serS, hd] at h
        rename_i u
        rw [hd] at hs
        simp only [Option.some.injEq] at hs
        subst hs
        simp [withLen] at h
        rw [← h.1, ← long_nat _ (by omega)]; exact ⟨.string u, .string hlen hv⟩
      | bytes hs ht hlen =>
        simp only [serS, hd] at h
        rename_i s' bb
        rw [hd] at hs
        simp only [Option.some.injEq] at hs
        subst hs
        cases s <;> simp [bytesTarget] at ht
        · simp [withLen] at h
          rw [← h.1, ← long_nat _ (by omega)]; exact ⟨.bytes bb, .bytes hlen⟩
        · rename_i nm sz
          simp only at h
          split at h
          · simp at h
          · rename_i hsz
            simp only [Except.ok.injEq, Prod.mk.injEq] at h
            have hsz : sz = bb.length := by simpa using hsz
            subst hsz
            rw [← h.1]; exact ⟨.fixed bb.length bb, .fixed hlen⟩
        · rename_i pr sc inner
          cases inner with
          | bytes =>
            simp [withLen] at h
            rw [← h.1, ← long_nat _ (by omega)]
            exact ⟨.decimal (fromSignedBE bb) bb.length, .decimalBytes rfl hlen⟩
          | fixed nm sz =>
            simp only at h
            split at h
            · simp at h
            · rename_i hsz
              simp only [Except.ok.injEq, Prod.mk.injEq] at h
              have hsz : sz = bb.length := by simpa using hsz
              subst hsz
              rw [← h.1]; exact ⟨.decimal (fromSignedBE bb) bb.length, .decimalFixed rfl hlen⟩
      | bytesUuid hs hor h16 hlim =>
        rename_i s' bb
        rw [hd] at hs
        simp only [Option.some.injEq] at hs
        subst hs
        rcases hor with rfl | ⟨nm, rfl⟩
        · simp [serS, hd, withLen] at h
          rw [← h.1, h16]
          have := SpecEnc.uuidBytes (cfg := cfg) (env := env) h16 hlim
          rw [← long_nat 16 (by decide)]
          exact ⟨.uuid bb, by simpa using this⟩
        · simp [serS, hd, h16] at h
          rw [← h.1]; exact ⟨.uuid bb, .uuidFixed h16 hlim⟩
      | bytesDuration hs h12 =>
        rename_i nm bb
        rw [hd] at hs
        simp only [Option.some.injEq] at hs
        subst hs
        simp [serS, hd, h12] at h
        rw [← h.1]
        refine ⟨.duration (ofLeBytes (bb.take 4)) (ofLeBytes ((bb.drop 4).take 4)) (ofLeBytes (bb.drop 8)), ?_⟩
        have l1 : (bb.take 4).length = 4 := by simp [h12]
        have l2 : ((bb.drop 4).take 4).length = 4 := by simp [h12]
        have l3 : (bb.drop 8).length = 4 := by simp [h12]
        have b1 := ofLeBytes_lt (bb.take 4)
        have b2 := ofLeBytes_lt ((bb.drop 4).take 4)
        have b3 := ofLeBytes_lt (bb.drop 8)
        rw [l1] at b1; rw [l2] at b2; rw [l3] at b3
        have := SpecEnc.duration (cfg := cfg) (env := env) (name := nm) (mo := ofLeBytes (bb.take 4))
          (d := ofLeBytes ((bb.drop 4).take 4)) (ms := ofLeBytes (bb.drop 8)) (by omega) (by omega) (by omega)
        have e1 := leBytes_ofLeBytes (bb.take 4)
        have e2 := leBytes_ofLeBytes ((bb.drop 4).take 4)
        have e3 := leBytes_ofLeBytes (bb.drop 8)
        rw [l1] at e1; rw [l2] at e2; rw [l3] at e3
        rw [e1, e2, e3] at this
        have hsplit : bb.take 4 ++ (bb.drop 4).take 4 ++ bb.drop 8 = bb := by
          have h48 : bb.drop 8 = (bb.drop 4).drop 4 := by simp
          rw [h48, List.append_assoc, List.take_append_drop, List.take_append_drop]
        rw [hsplit] at this
        exact this
      | bytesBigDecimal hs hsc hlen =>
        rename_i u sc
        rw [hd] at hs
        simp only [Option.some.injEq] at hs
        subst hs
        simp only [serS, hd, withLen, Except.ok.injEq, Prod.mk.injEq] at h
        rw [← h.1]
        have := SpecEnc.bigDecimal (cfg := cfg) (env := env) (u := u) (sc := sc) (primFacts.fromSignedBE_toSignedBE u) hsc hlen
        rw [← long_nat _ (by omega)]
        exact ⟨.bigDecimal u sc, this⟩
      | strUuid hs h16 hu hlim =>
        rename_i u bb
        rw [hd] at hs
        simp only [Option.some.injEq] at hs
        subst hs
        subst hu
        simp [serS, hd, withLen] at h
        obtain ⟨_, _, h36⟩ := uuid_text bb h16
        rw [← h.1, h36]
        have := SpecEnc.uuidString (cfg := cfg) (env := env) h16 hlim
        rw [← long_nat 36 (by decide)]
        exact ⟨.uuid bb, by simpa using this⟩
      | none =>
        simp only [serS, hd] at h
        cases s <;> simp at h
        rename_i branches
        cases hni : optionNullIndex branches with
        | none => simp [hni] at h
        | some ni =>
          simp [hni, varint] at h
          obtain ⟨h2, hlt, hnull⟩ := optionNullIndex_spec hni
          rw [← h.1]
          refine ⟨.union ni .null, ?_⟩
          have := SpecEnc.union (cfg := cfg) (env := env) hnull (by omega) SpecEnc.null
          rw [← long_nat _ (by omega)]
          simpa using this
      | unit =>
        simp only [serS, hd] at h
        cases s <;> simp at h
        rw [h.1]; exact ⟨.null, .null⟩
      | unitStruct =>
        rename_i nm
        simp only [serS, hd] at h
        cases s <;> simp at h
        rename_i rn fields
        cases fields with
        | nil =>
          by_cases hu : unqual rn = nm
          · simp [hu] at h
            rw [h.1]; exact ⟨.record [], .record .nil⟩
          · simp [hu] at h
        | cons f fs => simp at h
      | unitVariant hsy =>
        simp only [serS, hd] at h
        rename_i nm variant idx
        cases s <;> simp at h
        rename_i en syms d
        have hsl := hsy en syms d hd
        split at h
        · rename_i hix
          simp only [Except.ok.injEq, Prod.mk.injEq, varint] at h
          have hix : syms[idx]? = some variant := by simpa using hix
          have hlt : idx < syms.length := (List.getElem?_eq_some_iff.mp hix).1
          rw [← h.1, ← long_nat _ (by omega)]
          exact ⟨.enum idx variant, .enum hix (by omega)⟩
        · cases hio : indexOfSym syms variant with
          | none => simp [hio] at h
          | some i =>
            simp [hio, varint] at h
            have hix := indexOfSym_spec hio
            have hlt : i < syms.length := (List.getElem?_eq_some_iff.mp hix).1
            rw [← h.1, ← long_nat _ (by omega)]
            exact ⟨.enum i variant, .enum hix (by omega)⟩
      | some hv =>
        simp only [serS, hd] at h
        rename_i v
        cases s <;> simp at h
        rename_i branches
        cases hni : optionNullIndex branches with
        | none => simp [hni] at h
        | some ni =>
          simp only [hni] at h
          cases hbr : branches[(ni + 1) % 2]? with
          | none => simp [hbr] at h
          | some br =>
            simp only [hbr] at h
            cases hsv : serS tbs env fuel br v with
            | error e => simp [hsv] at h
            | ok r =>
              obtain ⟨vb, vn⟩ := r
              simp only [hsv, varint, Except.ok.injEq, Prod.mk.injEq] at h
              have hvb : vb.length < 2^63 := by rw [← h.1] at hb; simp only [List.length_append] at hb; omega
              obtain ⟨w, hw⟩ := ih br v vb vn (hv branches ni br hd hni hbr) hsv hvb
              have hc : ((ni : Int) + 1) % 2 = (((ni + 1) % 2 : Nat) : Int) := by omega
              rw [← h.1, hc, ← long_nat _ (by omega)]
              exact ⟨.union ((ni + 1) % 2) w, .union hbr (by omega) hw⟩
      | newtypeStruct hv =>
        simp only [serS, hd] at h
        rename_i nm v
        cases s <;> simp at h
        rename_i rn fields
        cases fields with
        | nil => simp at h
        | cons f fs =>
          cases fs with
          | cons f2 fs2 => simp at h
          | nil =>
            obtain ⟨m, fsch⟩ := f
            simp only at h
            split at h
            · obtain ⟨w, hw⟩ := ih fsch v b n (hv rn m fsch hd) h hb
              exact ⟨.record [(m.name, w)], .record (by simpa using SpecFields.cons hw .nil)⟩
            · simp at h
      | seq hlen hl1 hl2 hit =>
        simp only [serS, hd] at h
        rename_i len items
        cases s <;> simp at h
        rename_i inner
        obtain ⟨ebs, hm, hlay⟩ := blockSer_layout tbs _ false _ len _ b n (by simpa using hlen) h
        have hfl : ebs.flatten.length < 2^63 := by
          rcases hlay with hd' | ⟨parts, _, hfl, hbb⟩
          · rw [hd'] at hb; simp only [List.length_append] at hb; omega
          · have := negBlocks_length parts
            rw [hbb] at hb; simp only [List.length_append] at hb; rw [← hfl]; omega
        obtain ⟨vs, hvs⟩ := items_enc (cfg := cfg) (env := env) (serS tbs env fuel inner) (fun _ => .ok ([], 0)) inner
          (SerOk cfg env inner) (fun i b n hp hs hb => ih inner i b n hp hs hb) items ebs hm (hit inner hd) hfl
        have hle := hvs.length
        have hml : ebs.length = items.length := by
          simpa using mapM_some_length _ _ _ hm
        have hlay' : b = (if ebs.length ≠ 0 then encLong ebs.length else []) ++ ebs.flatten ++ [0] ∨
            ∃ parts : List (List Bytes), (∀ p ∈ parts, p ≠ []) ∧ parts.flatten = ebs ∧
              b = (parts.map negBlock).flatten ++ [0] := by
          simpa [hml] using hlay
        exact ⟨.array vs, .array (array_layout_spec hl hvs (by omega) (by rw [hle, hml]; exact hl2) hb hlay')⟩
      | map hlen hl1 hl2 hnd hkeys hvals =>
        rename_i len entries
        simp only [serS, hd] at h
        cases s <;> simp at h
        rename_i inner
        obtain ⟨ebs, hm, hlay⟩ := blockSer_layout tbs _ true _ len _ b n hlen h
        have hfl : ebs.flatten.length < 2^63 := by
          rcases hlay with hd' | ⟨parts, _, hfl, hbb⟩
          · rw [hd'] at hb; simp only [List.length_append] at hb; omega
          · have := negBlocks_length parts
            rw [hbb] at hb; simp only [List.length_append] at hb; rw [← hfl]; omega
        obtain ⟨es, hes, hks⟩ := entries_enc (cfg := cfg) (env := env) (serS tbs env fuel inner)
          (serS tbs env fuel .string) inner
          (SerOk cfg env inner) (fun i b n hp hs hb => ih inner i b n hp hs hb)
          (fun k => (k = .str (keyOf k) ∨ k = .char (keyOf k)) ∧ validUtf8 (keyOf k) = true ∧ (keyOf k).length ≤ cfg.lim)
          (fun k kb kn hk hs => key_bytes hl tbs fuel k kb kn hk hs)
          entries ebs hm (fun kv hkv => ⟨hkeys kv hkv, hvals inner hd kv hkv⟩) hfl
        have hle := hes.length
        have hml : ebs.length = entries.length := mapM_some_length _ _ _ hm
        have hlay' : b = (if ebs.length ≠ 0 then encLong ebs.length else []) ++ ebs.flatten ++ [0] ∨
            ∃ parts : List (List Bytes), (∀ p ∈ parts, p ≠ []) ∧ parts.flatten = ebs ∧
              b = (parts.map negBlock).flatten ++ [0] := by
          simpa [hml] using hlay
        exact ⟨.map es, .map (map_layout_spec hl hes (by omega) (by rw [hle, hml]; exact hl2) hb hlay')
          (by rw [hks]; exact hnd)⟩
      | tuple h1 hrec =>
        rename_i items
        simp only [serS, hd] at h
        have hrecP : ∀ rn fields, s = .record rn fields → fields.length = items.length →
            tupleFields (serS tbs env fuel) fields items [] 0 = .ok (b, n) → ∃ v, SpecEnc cfg env s v b := by
          intro rn fields hs _ ht
          subst hs
          obtain ⟨enc, vfs, he, hsf⟩ := tupleFields_spec (cfg := cfg) (env := env) (serS tbs env fuel)
            (SerOk cfg env) (fun s i b n hp hs hb => ih s i b n hp hs hb) fields items [] 0 b n
            (hrec rn fields hd) ht hb
          simp only [List.nil_append] at he
          subst he
          exact ⟨.record vfs, .record hsf⟩
        cases items with
        | nil =>
          cases s <;> simp at h
          rw [h.1]; exact ⟨.null, .null⟩
        | cons i rest =>
          cases rest with
          | nil =>
            have hi := h1 s i hd rfl
            have hs : serS tbs env fuel s i = .ok (b, n) := by
              cases s <;> simp at h <;> exact h
            obtain ⟨w, hw⟩ := ih s i b n hi hs hb
            exact ⟨w, hw⟩
          | cons i2 rest2 =>
            cases s <;> simp at h
            rename_i rn fields
            by_cases hfl : fields.length = rest2.length + 1 + 1
            · simp only [hfl, if_true] at h
              exact hrecP rn fields rfl (by simp [hfl]) h
            · simp [hfl] at h
      | tupleStruct hrec =>
        rename_i nm items
        simp only [serS, hd] at h
        cases s <;> simp at h
        rename_i rn fields
        by_cases hc : fields.length = items.length ∧ unqual rn = nm
        case neg => simp [hc] at h
        simp only [hc, and_self, if_true] at h
        obtain ⟨enc, vfs, he, hsf⟩ := tupleFields_spec (cfg := cfg) (env := env) (serS tbs env fuel)
          (SerOk cfg env) (fun s i b n hp hs hb => ih s i b n hp hs hb) fields items [] 0 b n
          (hrec rn fields hd) h hb
        simp only [List.nil_append] at he
        subst he
        exact ⟨.record vfs, .record hsf⟩
      | struct hgiven hdef =>
        rename_i nm given
        have hser : serS tbs env (fuel + 1) s0 (.struct nm given) = .ok (b, n) := h
        simp only [serS, hd] at h
        cases s <;> simp at h
        rename_i rn rfields
        obtain ⟨bs, hbl, hbf, hsp⟩ := C16.record_in_schema_order tbs env fuel s0 rn rfields nm given b n hd hser
        subst hbf
        obtain ⟨vfs, hv⟩ := fields_spec (cfg := cfg) (env := env) rfields bs hbl (by
          intro i ms x hf hx
          obtain ⟨k, hk⟩ := hsp i x hx
          have hxl : x.length < 2^63 := by
            have := mem_length_le_flatten (List.mem_of_getElem? hx)
            omega
          have hmem : ms ∈ rfields := List.mem_of_getElem? hf
          unfold specField at hk
          rw [hf] at hk
          simp only at hk
          -- the serde value whose bytes stand at position `i`: given, or the default
          have hfb : ∀ val, (∀ v, val = some v → SerOk cfg env ms.2 v) →
              fieldBytes env (serS tbs env fuel) ms val = .ok (x, k) → ∃ w, SpecEnc cfg env ms.2 w x := by
            intro val hval hfb
            unfold fieldBytes at hfb
            cases val with
            | some v => exact ih ms.2 v x k (hval v rfl) hfb hxl
            | none =>
              simp only at hfb
              cases hdf : ms.1.default with
              | none => simp [hdf] at hfb
              | some d =>
                simp only [hdf] at hfb
                cases hdv : defaultToSerde env 50 d ms.2 with
                | none => simp [hdv] at hfb
                | some dv =>
                  simp only [hdv] at hfb
                  exact ih ms.2 dv x k (hdef rn rfields hd ms hmem d dv hdf hdv) hfb hxl
          cases hfind : given.find? (fun kv => lookupPos rfields kv.1 == some i) with
          | none =>
            rw [hfind] at hk
            exact hfb none (by intro v hv; cases hv) hk
          | some kv =>
            rw [hfind] at hk
            have hkm := List.mem_of_find?_eq_some hfind
            have hkp : lookupPos rfields kv.1 = some i := by simpa using List.find?_some hfind
            exact hfb kv.2 (fun v hv => hgiven rn rfields hd kv hkm v i ms hv hkp hf) hk)
        exact ⟨.record vfs, .record hv⟩

end Avro
