import AvroModel
import AvroProofs.Lemmas.DecodeSide
import AvroProofs.Lemmas.Varint
/-! The induction behind C06: a successful decode yields a conforming value. -/
namespace Avro

section
variable {cfg : Cfg} {env : Names}

theorem all_of_forall {s : Schema} : ∀ {vs : List Value}, (∀ v ∈ vs, Conforms cfg env s v) → ConformsAll cfg env s vs
  | [], _ => .nil
  | v :: vs, h => .cons (h v (by simp)) (all_of_forall (fun x hx => h x (List.mem_cons_of_mem _ hx)))

theorem entries_of_forall {s : Schema} : ∀ {es : List (Bytes × Value)},
    (∀ e ∈ es, e.1.length ≤ cfg.lim ∧ validUtf8 e.1 = true ∧ Conforms cfg env s e.2) →
    ConformsEntries cfg env s es
  | [], _ => .nil
  | (k, v) :: es, h =>
    have hh := h (k, v) (by simp)
    .cons hh.1 hh.2.1 hh.2.2 (entries_of_forall (fun x hx => h x (List.mem_cons_of_mem _ hx)))

theorem decodeFields_conforms (f : Schema → Reader Value) :
    ∀ (fields : List (FieldMeta × Schema)) (bs : Bytes) (vfs : List (Bytes × Value)) (r : Bytes),
      decodeFieldsWith f fields bs = .ok (vfs, r) →
      (∀ ms ∈ fields, ∀ bs v r, f ms.2 bs = .ok (v, r) → Conforms cfg env ms.2 v) →
      ConformsFields cfg env fields vfs ∧ vfs.map Prod.fst = fields.map (fun x => x.1.name) := by
  intro fields
  induction fields with
  | nil => intro bs vfs r h _; simp [decodeFieldsWith] at h; rw [h.1]; exact ⟨.nil, rfl⟩
  | cons a tl ih =>
    obtain ⟨m, s⟩ := a
    intro bs vfs r h hf
    simp only [decodeFieldsWith] at h
    cases hq : f s bs with
    | error e => rw [hq] at h; cases h
    | ok p =>
      obtain ⟨v, r'⟩ := p
      rw [hq] at h; simp only [] at h
      cases hq2 : decodeFieldsWith f tl r' with
      | error e => rw [hq2] at h; cases h
      | ok p2 =>
        obtain ⟨vs, r''⟩ := p2
        rw [hq2] at h; simp at h
        obtain ⟨rfl, rfl⟩ := h
        have hv := hf (m, s) (by simp) bs v r' hq
        have := ih r' vs r'' hq2 (fun ms hms => hf ms (List.mem_cons_of_mem _ hms))
        exact ⟨.cons hv this.1, by simp [this.2]⟩

theorem wfList_mem : ∀ {bs : List Schema} {i : Nat} {b : Schema}, wfList bs = true → bs[i]? = some b → wfS b = true
  | [], _, _, _, h => by simp at h
  | s :: ss, 0, b, hw, h => by
    simp [wfList] at hw; simp at h; rw [← h]; exact hw.1
  | s :: ss, i+1, b, hw, h => by
    simp [wfList] at hw; simp at h; exact wfList_mem hw.2 h

theorem wfFields_mem : ∀ {fs : List (FieldMeta × Schema)} {ms : FieldMeta × Schema},
    wfFields fs = true → ms ∈ fs → wfS ms.2 = true
  | [], _, _, h => by cases h
  | (m, s) :: fs, ms, hw, h => by
    simp [wfFields] at hw
    rcases List.mem_cons.mp h with rfl | h
    · exact hw.1
    · exact wfFields_mem hw.2 h

theorem decode_conforms_aux (hP : PrimFacts) (h1 : 1 ≤ cfg.szValue) (h2 : 1 ≤ cfg.szEntry)
    (hl36 : 36 ≤ cfg.lim) (henv : EnvOk env) :
    ∀ (fuel : Nat) (s : Schema) (bs : Bytes) (v : Value) (rest : Bytes),
      wfS s = true → decode cfg env fuel s bs = .ok (v, rest) → Conforms cfg env s v := by
  intro fuel
  induction fuel with
  | zero => intro s bs v rest _ h; simp [decode] at h
  | succ fuel ih =>
    intro s bs v rest hwf h
    cases s with
    | null => simp [decode] at h; rw [← h.1]; exact .null
    | boolean =>
      simp only [decode] at h
      cases bs with
      | nil => cases h
      | cons b r =>
        simp only [] at h
        split at h
        · simp at h; rw [← h.1]; exact .boolean _
        · split at h
          · simp at h; rw [← h.1]; exact .boolean _
          · cases h
    | int =>
      simp only [decode] at h
      cases hq : decInt bs with
      | error e => rw [hq] at h; cases h
      | ok p => obtain ⟨n, r⟩ := p; rw [hq] at h; simp at h; rw [← h.1]; exact .int (decInt_ok hq)
    | date =>
      simp only [decode] at h
      cases hq : decInt bs with
      | error e => rw [hq] at h; cases h
      | ok p => obtain ⟨n, r⟩ := p; rw [hq] at h; simp at h; rw [← h.1]; exact .date (decInt_ok hq)
    | timeMillis =>
      simp only [decode] at h
      cases hq : decInt bs with
      | error e => rw [hq] at h; cases h
      | ok p => obtain ⟨n, r⟩ := p; rw [hq] at h; simp at h; rw [← h.1]; exact .timeMillis (decInt_ok hq)
    | long =>
      simp only [decode] at h
      cases hq : decLong bs with
      | error e => rw [hq] at h; cases h
      | ok p => obtain ⟨n, r⟩ := p; rw [hq] at h; simp at h; rw [← h.1]; exact .long (decLong_ok hq)
    | longL k =>
      simp only [decode] at h
      cases hq : decLong bs with
      | error e => rw [hq] at h; cases h
      | ok p => obtain ⟨n, r⟩ := p; rw [hq] at h; simp at h; rw [← h.1]; exact .longL (decLong_ok hq)
    | float =>
      simp only [decode] at h
      cases hq : takeExact 4 bs with
      | error e => rw [hq] at h; cases h
      | ok p => obtain ⟨b, r⟩ := p; rw [hq] at h; simp at h; rw [← h.1]; exact .float _
    | double =>
      simp only [decode] at h
      cases hq : takeExact 8 bs with
      | error e => rw [hq] at h; cases h
      | ok p => obtain ⟨b, r⟩ := p; rw [hq] at h; simp at h; rw [← h.1]; exact .double _
    | bytes =>
      simp only [decode] at h
      cases hq : decBytes cfg.lim bs with
      | error e => rw [hq] at h; cases h
      | ok p => obtain ⟨b, r⟩ := p; rw [hq] at h; simp at h; rw [← h.1]; exact .bytes (decBytes_ok hq)
    | string =>
      simp only [decode] at h
      cases hq : decString cfg.lim bs with
      | error e => rw [hq] at h; cases h
      | ok p =>
        obtain ⟨b, r⟩ := p; rw [hq] at h; simp at h; rw [← h.1]
        exact .string (decString_ok hq).1 (decString_ok hq).2
    | fixed name size =>
      simp only [decode] at h
      cases hq : decFixed cfg.lim size bs with
      | error e => rw [hq] at h; cases h
      | ok p =>
        obtain ⟨b, r⟩ := p; rw [hq] at h; simp at h; rw [← h.1]
        obtain ⟨hlen, hle⟩ := decFixed_ok' hq
        subst hlen
        exact .fixed hle
    | decimal pr sc inner =>
      cases inner with
      | bytes =>
        simp only [decode] at h
        cases hq : decBytes cfg.lim bs with
        | error e => rw [hq] at h; cases h
        | ok p =>
          obtain ⟨b, r⟩ := p; rw [hq] at h; simp at h; rw [← h.1]
          exact .decimalBytes (hP.signExtend_fromSignedBE b) rfl (decBytes_ok hq)
      | fixed name size =>
        simp only [decode] at h
        cases hq : decFixed cfg.lim size bs with
        | error e => rw [hq] at h; cases h
        | ok p =>
          obtain ⟨b, r⟩ := p; rw [hq] at h; simp at h; rw [← h.1]
          obtain ⟨hlen, hle⟩ := decFixed_ok' hq
          subst hlen
          exact .decimalFixed (hP.signExtend_fromSignedBE b) rfl hle
    | bigDecimal =>
      simp only [decode] at h
      cases hq : decBytes cfg.lim bs with
      | error e => rw [hq] at h; cases h
      | ok p =>
        obtain ⟨b, r⟩ := p; rw [hq] at h; simp only [] at h
        cases hq2 : deserBigDecimal cfg.lim b with
        | error e => rw [hq2] at h; cases h
        | ok p2 =>
          obtain ⟨u, scale⟩ := p2
          rw [hq2] at h; simp at h; rw [← h.1]
          -- unpack the inner structure
          unfold deserBigDecimal at hq2
          cases hq3 : decBytes cfg.lim b with
          | error e => rw [hq3] at hq2; cases hq2
          | ok p3 =>
            obtain ⟨mag, r3⟩ := p3
            rw [hq3] at hq2; simp only [] at hq2
            cases hq4 : decLong r3 with
            | error e => rw [hq4] at hq2; cases hq2
            | ok p4 =>
              obtain ⟨sc', r4⟩ := p4
              rw [hq4] at hq2; simp at hq2
              obtain ⟨rfl, rfl⟩ := hq2
              refine .bigDecimal (hP.fromSignedBE_toSignedBE _) (decLong_ok hq4) ?_
              -- length of the canonical re-encoding is bounded by what was read
              have hb := decBytes_ok hq
              have hmin := encLong_minimal r3 sc' r4 hq4
              -- b = varint(len mag) ++ mag ++ r3
              unfold decBytes at hq3
              cases hq5 : decLen cfg.lim b with
              | error e => rw [hq5] at hq3; cases hq3
              | ok p5 =>
                obtain ⟨k, r5⟩ := p5
                rw [hq5] at hq3; simp only [] at hq3
                obtain ⟨hk, hr5⟩ := takeExact_ok k r5 mag r3 hq3
                -- the length prefix consumed at least the minimal varint of `k`
                unfold decLen at hq5
                cases hq6 : decLong b with
                | error e => rw [hq6] at hq5; cases hq5
                | ok p6 =>
                  obtain ⟨n6, r6⟩ := p6
                  rw [hq6] at hq5; simp only [] at hq5
                  split at hq5
                  · cases hq5
                  · rename_i hneg
                    cases hs : safeLen cfg.lim n6.toNat with
                    | error e => rw [hs] at hq5; cases hq5
                    | ok k' =>
                      rw [hs] at hq5; simp at hq5
                      obtain ⟨rfl, rfl⟩ := hq5
                      have hsl := safeLen_ok' hs
                      have hmin6 := encLong_minimal b n6 r6 hq6
                      have hn6 : (n6.toNat : Int) = n6 := by omega
                      have hlenmag := hP.toSignedBE_fromSignedBE_len mag
                      -- canonical magnitude: at most max 1 |mag| bytes, its length prefix is minimal
                      have hr5len : r6.length = mag.length + r3.length := by rw [hr5]; simp
                      have hpre : (encLong ((toSignedBE (fromSignedBE mag)).length : Nat)).length ≤ 10 := by
                        unfold encLong encodeVar
                        exact encodeVarAux_len 10 10 _ (by omega) (by omega) (Nat.lt_of_lt_of_le (zig_lt _) (by decide))
                      simp only [encBytes, List.length_append]
                      by_cases hm0 : mag.length = 0
                      · -- empty magnitude: canonical form is the single byte 0, total ≤ 1 + 1 + 10
                        have hone : (toSignedBE (fromSignedBE mag)).length ≤ 1 := by rw [hm0] at hlenmag; simpa using hlenmag
                        have hpre1 : (encLong ((toSignedBE (fromSignedBE mag)).length : Nat)).length ≤ 1 := by
                          have : (toSignedBE (fromSignedBE mag)).length = 0 ∨ (toSignedBE (fromSignedBE mag)).length = 1 := by omega
                          rcases this with h0 | h0 <;> rw [h0] <;> decide
                        have hsc10 : (encLong sc').length ≤ 10 := by
                          unfold encLong encodeVar
                          exact encodeVarAux_len 10 10 _ (by omega) (by omega) (Nat.lt_of_lt_of_le (zig_lt _) (by decide))
                        omega
                      · -- non-empty magnitude: the canonical form is no longer than what was read
                        have hle : (toSignedBE (fromSignedBE mag)).length ≤ mag.length := by
                          have : max 1 mag.length = mag.length := by omega
                          rw [this] at hlenmag; exact hlenmag
                        -- its length prefix is no longer than the prefix that was read
                        have hpre' : (encLong ((toSignedBE (fromSignedBE mag)).length : Nat)).length ≤ (encLong n6).length := by
                          have h63 := (decLong_ok hq6).2
                          rw [← hn6]
                          exact encLong_len_mono _ _ (by omega) (by omega)
                        omega
    | uuidString =>
      simp only [decode] at h
      cases hq : decString cfg.lim bs with
      | error e => rw [hq] at h; cases h
      | ok p =>
        obtain ⟨b, r⟩ := p; rw [hq] at h; simp only [] at h
        cases hu : uuidParse b with
        | none => rw [hu] at h; cases h
        | some u =>
          rw [hu] at h; simp at h; rw [← h.1]
          have hlen := hP.uuidParse_len b u hu
          obtain ⟨t1, t2, t3⟩ := hP.uuid_text u hlen
          exact .uuidString t1 t2 (by omega)
    | uuidBytes =>
      simp only [decode] at h
      cases hq : decBytes cfg.lim bs with
      | error e => rw [hq] at h; cases h
      | ok p =>
        obtain ⟨b, r⟩ := p; rw [hq] at h; simp only [] at h
        split at h
        · rename_i h16
          simp at h; rw [← h.1]
          have := decBytes_ok hq
          exact .uuidBytes h16 (by omega)
        · cases h
    | uuidFixed name size =>
      simp only [decode] at h
      cases hq : decFixed cfg.lim size bs with
      | error e => rw [hq] at h; cases h
      | ok p =>
        obtain ⟨b, r⟩ := p; rw [hq] at h; simp only [] at h
        split at h
        · cases h
        · rename_i h16
          have h16' : size = 16 := by simpa using h16
          subst h16'
          simp at h; rw [← h.1]
          exact .uuidFixed (decFixed_ok' hq).1 (decFixed_ok' hq).2
    | duration name size =>
      simp only [decode] at h
      split at h
      · rename_i h12
        subst h12
        cases hq : takeExact 12 bs with
        | error e => rw [hq] at h; cases h
        | ok p =>
          obtain ⟨b, r⟩ := p; rw [hq] at h; simp at h; rw [← h.1]
          have hb := (takeExact_ok 12 bs b r hq).1
          have hle4 : ∀ l : Bytes, l.length ≤ 4 → ofLeBytes l < 2^32 := by
            intro l hl
            match l, hl with
            | [], _ => simp [ofLeBytes]
            | [a], _ => simp [ofLeBytes]; have := a.toNat_lt; omega
            | [a, b], _ => simp [ofLeBytes]; have := a.toNat_lt; have := b.toNat_lt; omega
            | [a, b, c], _ => simp [ofLeBytes]; have := a.toNat_lt; have := b.toNat_lt; have := c.toNat_lt; omega
            | [a, b, c, d], _ =>
              simp [ofLeBytes]; have := a.toNat_lt; have := b.toNat_lt; have := c.toNat_lt; have := d.toNat_lt; omega
          exact .duration (hle4 _ (by simp; omega)) (hle4 _ (by simp; omega)) (hle4 _ (by simp; omega))
      · cases h
    | array inner =>
      simp only [decode] at h
      have hwi : wfS inner = true := by simpa [wfS] using hwf
      cases hq : arrayLoop cfg (decode cfg env fuel inner) (bs.length + 1) [] bs with
      | error e => rw [hq] at h; cases h
      | ok p =>
        obtain ⟨items, r⟩ := p; rw [hq] at h; simp at h; rw [← h.1]
        have := arrayLoop_all cfg (decode cfg env fuel inner) (Conforms cfg env inner)
          (fun bs v r hd => ih inner bs v r hwi hd) (bs.length + 1) [] bs items r hq (by simp) (by simp)
        have hlen : items.length ≤ cfg.lim :=
          Nat.le_trans (Nat.le_mul_of_pos_right _ h1) this.2
        exact .array (all_of_forall this.1) hlen this.2
    | map inner =>
      simp only [decode] at h
      have hwi : wfS inner = true := by simpa [wfS] using hwf
      cases hq : mapLoop cfg (decEntryWith cfg.lim (decode cfg env fuel inner)) (bs.length + 1) [] bs with
      | error e => rw [hq] at h; cases h
      | ok p =>
        obtain ⟨es, r⟩ := p; rw [hq] at h; simp at h; rw [← h.1]
        have hf : ∀ bs (e : Bytes × Value) r, decEntryWith cfg.lim (decode cfg env fuel inner) bs = .ok (e, r) →
            e.1.length ≤ cfg.lim ∧ validUtf8 e.1 = true ∧ Conforms cfg env inner e.2 := by
          intro bs e r hd
          unfold decEntryWith at hd
          cases hk : decString cfg.lim bs with
          | error e => rw [hk] at hd; cases hd
          | ok pk =>
            obtain ⟨k, rk⟩ := pk
            rw [hk] at hd; simp only [] at hd
            cases hv : decode cfg env fuel inner rk with
            | error e => rw [hv] at hd; cases hd
            | ok pv =>
              obtain ⟨v, rv⟩ := pv
              rw [hv] at hd; simp at hd
              rw [← hd.1]
              exact ⟨(decString_ok hk).1, (decString_ok hk).2, ih inner rk v rv hwi hv⟩
        have := mapLoop_all cfg _ _ hf (bs.length + 1) [] bs es r hq (by simp) (by simp) (by simp)
        have hlen : es.length ≤ cfg.lim :=
          Nat.le_trans (Nat.le_mul_of_pos_right _ h2) this.2.2
        exact .map (entries_of_forall this.2.1) this.1 hlen this.2.2
    | union branches =>
      simp only [decode] at h
      have hwu : branches.length < 2^32 ∧ wfList branches = true := by simpa [wfS] using hwf
      cases hq : decLong bs with
      | error e => rw [hq] at h; cases h
      | ok p =>
        obtain ⟨idx, r⟩ := p; rw [hq] at h; simp only [] at h
        split at h
        · cases h
        · rename_i hneg
          cases hb : branches[idx.toNat]? with
          | none => rw [hb] at h; cases h
          | some b =>
            rw [hb] at h; simp only [] at h
            cases hv : decode cfg env fuel b r with
            | error e => rw [hv] at h; cases h
            | ok pv =>
              obtain ⟨v', r'⟩ := pv
              rw [hv] at h; simp at h; rw [← h.1]
              have hlt : idx.toNat < branches.length := by
                have := List.getElem?_eq_some_iff.mp hb
                exact this.1
              have hmod : idx.toNat % 2^32 = idx.toNat := Nat.mod_eq_of_lt (by omega)
              rw [hmod]
              exact .union hb (by omega) (ih b r v' r' (wfList_mem hwu.2 hb) hv)
    | record name fields =>
      simp only [decode] at h
      have hwr : (fields.map (fun f => f.1.name)).Nodup ∧ wfFields fields = true := by simpa [wfS] using hwf
      cases hq : decodeFieldsWith (decode cfg env fuel) fields bs with
      | error e => rw [hq] at h; cases h
      | ok p =>
        obtain ⟨vfs, r⟩ := p; rw [hq] at h; simp at h; rw [← h.1]
        have := decodeFields_conforms (cfg := cfg) (env := env) (decode cfg env fuel) fields bs vfs r hq
          (fun ms hms bs v r hd => ih ms.2 bs v r (wfFields_mem hwr.2 hms) hd)
        exact .record this.1 (by rw [this.2]; exact hwr.1)
    | enum name syms d =>
      simp only [decode] at h
      cases hq : decInt bs with
      | error e => rw [hq] at h; cases h
      | ok p =>
        obtain ⟨i, r⟩ := p; rw [hq] at h; simp only [] at h
        split at h
        · cases h
        · rename_i hneg
          cases hs : syms[i.toNat]? with
          | none => rw [hs] at h; cases h
          | some sym =>
            rw [hs] at h; simp at h; rw [← h.1]
            have := (decInt_ok hq).2
            exact .enum hs (by omega)
    | ref n =>
      simp only [decode] at h
      cases hf : env.find? n with
      | none => rw [hf] at h; cases h
      | some s' =>
        rw [hf] at h; simp only [] at h
        obtain ⟨hnr, hws⟩ := henv n s' hf
        exact .ref hf hnr (ih s' bs v rest hws h)

end
end Avro
