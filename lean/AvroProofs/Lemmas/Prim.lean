import AvroModel
import AvroProofs.Lemmas.Datum
/-!
`PrimFacts` discharged: the five statements about the model's versions of num-bigint's signed
big-endian bytes and the uuid crate's text forms are theorems (`primFacts`).
-/
namespace Avro

/-! ### little- and big-endian byte strings as numbers -/

theorem ofLeBytes_append (xs ys : Bytes) : ofLeBytes (xs ++ ys) = ofLeBytes xs + 256^xs.length * ofLeBytes ys := by
  induction xs with
  | nil => simp [ofLeBytes]
  | cons x xs ih =>
    simp only [List.cons_append, ofLeBytes, ih, List.length_cons, Nat.pow_succ]
    rw [Nat.mul_add, ← Nat.mul_assoc, Nat.mul_comm 256 (256^xs.length)]
    omega

theorem ofLeBytes_lt (bs : Bytes) : ofLeBytes bs < 256^bs.length := by
  induction bs with
  | nil => simp [ofLeBytes]
  | cons b bs ih =>
    simp only [ofLeBytes, List.length_cons, Nat.pow_succ]
    have := b.toNat_lt
    omega

theorem leBytes_ofLeBytes (bs : Bytes) : leBytes bs.length (ofLeBytes bs) = bs := by
  induction bs with
  | nil => rfl
  | cons b bs ih =>
    simp only [List.length_cons, leBytes, ofLeBytes]
    have hb := b.toNat_lt
    have h1 : (b.toNat + 256 * ofLeBytes bs) % 256 = b.toNat := by omega
    have h2 : (b.toNat + 256 * ofLeBytes bs) / 256 = ofLeBytes bs := by omega
    rw [h1, h2, ih]
    simp

theorem ofBeBytes_cons (b : UInt8) (bs : Bytes) : ofBeBytes (b :: bs) = b.toNat * 256^bs.length + ofBeBytes bs := by
  unfold ofBeBytes
  rw [List.reverse_cons, ofLeBytes_append]
  simp [ofLeBytes, Nat.mul_comm, Nat.add_comm]

theorem ofBeBytes_lt (bs : Bytes) : ofBeBytes bs < 256^bs.length := by
  unfold ofBeBytes
  have := ofLeBytes_lt bs.reverse
  simpa using this

theorem beBytes_ofBeBytes (bs : Bytes) : beBytes bs.length (ofBeBytes bs) = bs := by
  unfold beBytes ofBeBytes
  have := leBytes_ofLeBytes bs.reverse
  rw [List.length_reverse] at this
  rw [this, List.reverse_reverse]

theorem ofBeBytes_inj {a b : Bytes} (hl : a.length = b.length) (h : ofBeBytes a = ofBeBytes b) : a = b := by
  rw [← beBytes_ofBeBytes a, ← beBytes_ofBeBytes b, hl, h]

theorem leBytes_succ_last (k n : Nat) : leBytes (k+1) n = leBytes k n ++ [UInt8.ofNat ((n / 256^k) % 256)] := by
  induction k generalizing n with
  | zero => simp [leBytes]
  | succ k ih =>
    rw [leBytes, ih (n / 256)]
    simp only [leBytes, List.cons_append, Nat.pow_succ]
    rw [Nat.div_div_eq_div_mul, Nat.mul_comm 256 (256^k)]

theorem beBytes_succ (k n : Nat) : beBytes (k+1) n = UInt8.ofNat ((n / 256^k) % 256) :: beBytes k n := by
  unfold beBytes
  rw [leBytes_succ_last]
  simp

/-! ### the sign of a two's-complement byte string -/

/-- the sign bit of the first byte -/
def negBE : Bytes → Bool
  | [] => false
  | b :: _ => decide (b ≥ 0x80)

theorem fromSignedBE_eq (bs : Bytes) :
    fromSignedBE bs = (ofBeBytes bs : Int) - (if negBE bs then ((256^bs.length : Nat) : Int) else 0) := by
  cases bs with
  | nil => simp [fromSignedBE, ofBeBytes, ofLeBytes, negBE]
  | cons b rest =>
    simp only [fromSignedBE, negBE, decide_eq_true_eq]
    have : (2 ^ (8 * (rest.length + 1)) : Nat) = 256 ^ (rest.length + 1) := by
      rw [Nat.pow_mul]
    by_cases h : b ≥ 0x80
    · simp [h, this]
    · simp [h]

/-- the sign bit is set exactly when the number is in the upper half -/
theorem negBE_iff (b : UInt8) (rest : Bytes) : negBE (b :: rest) = true ↔ 128 * 256^rest.length ≤ ofBeBytes (b :: rest) := by
  simp only [negBE, decide_eq_true_eq, ofBeBytes_cons]
  have hr := ofBeBytes_lt rest
  have hb : b ≥ 0x80 ↔ 128 ≤ b.toNat := by
    simp [UInt8.le_iff_toNat_le]
  rw [hb]
  constructor
  · intro h
    have : 128 * 256^rest.length ≤ b.toNat * 256^rest.length := Nat.mul_le_mul_right _ h
    omega
  · intro h
    by_cases hc : 128 ≤ b.toNat
    · exact hc
    · have : b.toNat * 256^rest.length ≤ 127 * 256^rest.length := Nat.mul_le_mul_right _ (by omega)
      omega

/-- the value lies in the signed range of its width -/
theorem fromSignedBE_range (b : UInt8) (rest : Bytes) :
    -(128 * 256^rest.length : Nat) ≤ fromSignedBE (b :: rest) ∧ fromSignedBE (b :: rest) < (128 * 256^rest.length : Nat) := by
  rw [fromSignedBE_eq]
  have hlt := ofBeBytes_lt (b :: rest)
  have hiff := negBE_iff b rest
  simp only [List.length_cons, Nat.pow_succ] at hlt ⊢
  by_cases hn : negBE (b :: rest) = true
  · have := hiff.mp hn
    simp only [hn, if_true]
    omega
  · have : ¬ (128 * 256^rest.length ≤ ofBeBytes (b :: rest)) := fun h => hn (hiff.mpr h)
    simp only [hn, Bool.false_eq_true, if_false]
    omega

theorem fromSignedBE_neg_iff (bs : Bytes) : fromSignedBE bs < 0 ↔ negBE bs = true := by
  cases bs with
  | nil => simp [fromSignedBE, negBE]
  | cons b rest =>
    rw [fromSignedBE_eq]
    have hlt := ofBeBytes_lt (b :: rest)
    by_cases hn : negBE (b :: rest) = true
    · simp only [hn, if_true, iff_true]; omega
    · simp only [hn, Bool.false_eq_true, if_false, iff_false]; omega

/-- at a fixed width the value determines the bytes -/
theorem fromSignedBE_inj {a b : Bytes} (hl : a.length = b.length) (h : fromSignedBE a = fromSignedBE b) : a = b := by
  cases a with
  | nil => cases b with
    | nil => rfl
    | cons _ _ => simp at hl
  | cons x xs =>
    cases b with
    | nil => simp at hl
    | cons y ys =>
      have hlen : xs.length = ys.length := by simpa using hl
      apply ofBeBytes_inj hl
      have ha := fromSignedBE_eq (x :: xs)
      have hb := fromSignedBE_eq (y :: ys)
      have hla := ofBeBytes_lt (x :: xs)
      have hlb := ofBeBytes_lt (y :: ys)
      have hia := negBE_iff x xs
      have hib := negBE_iff y ys
      simp only [List.length_cons, Nat.pow_succ, hlen] at ha hb hla hlb hia
      by_cases hna : negBE (x :: xs) = true <;> by_cases hnb : negBE (y :: ys) = true
      · simp only [hna, hnb, if_true] at ha hb; omega
      · have h1 := hia.mp hna
        have h2 : ¬ (128 * 256^ys.length ≤ ofBeBytes (y :: ys)) := fun h => hnb (hib.mpr h)
        simp only [hna, hnb, if_true, Bool.false_eq_true, if_false] at ha hb; omega
      · have h1 := hib.mp hnb
        have h2 : ¬ (128 * 256^ys.length ≤ ofBeBytes (x :: xs)) := fun h => hna (hia.mpr h)
        simp only [hna, hnb, if_true, Bool.false_eq_true, if_false] at ha hb; omega
      · simp only [hna, hnb, Bool.false_eq_true, if_false] at ha hb; omega

/-- sign extension by one byte keeps the value -/
theorem fromSignedBE_extend (b : UInt8) (rest : Bytes) :
    fromSignedBE ((if negBE (b :: rest) then 0xFF else 0) :: b :: rest) = fromSignedBE (b :: rest) ∧
    negBE ((if negBE (b :: rest) then (0xFF : UInt8) else 0) :: b :: rest) = negBE (b :: rest) := by
  by_cases hn : negBE (b :: rest) = true
  · have hff : negBE ((0xFF : UInt8) :: b :: rest) = true := rfl
    rw [hn]
    simp only [if_true]
    refine ⟨?_, hff⟩
    rw [fromSignedBE_eq, fromSignedBE_eq (b :: rest), ofBeBytes_cons, hff, hn]
    simp only [if_true, List.length_cons, Nat.pow_succ]
    have : (0xFF : UInt8).toNat = 255 := rfl
    rw [this]
    generalize (256 : Nat)^rest.length = P
    generalize ofBeBytes (b :: rest) = N
    omega
  · have hn' : negBE (b :: rest) = false := by simpa using hn
    have h0 : negBE ((0 : UInt8) :: b :: rest) = false := rfl
    rw [hn']
    simp only [Bool.false_eq_true, if_false]
    refine ⟨?_, h0⟩
    rw [fromSignedBE_eq, fromSignedBE_eq (b :: rest), ofBeBytes_cons, h0, hn']
    have : (0 : UInt8).toNat = 0 := rfl
    simp [this]

theorem fromSignedBE_replicate (j : Nat) (b : UInt8) (rest : Bytes) :
    fromSignedBE (List.replicate j (if negBE (b :: rest) then (0xFF : UInt8) else 0) ++ b :: rest) = fromSignedBE (b :: rest) ∧
    negBE (List.replicate j (if negBE (b :: rest) then (0xFF : UInt8) else 0) ++ b :: rest) = negBE (b :: rest) := by
  induction j with
  | zero => simp
  | succ j ih =>
    simp only [List.replicate_succ, List.cons_append]
    cases hrep : List.replicate j (if negBE (b :: rest) then (0xFF : UInt8) else 0) ++ b :: rest with
    | nil => simp at hrep
    | cons c cs =>
      rw [hrep] at ih
      have := fromSignedBE_extend c cs
      rw [ih.2] at this
      exact ⟨this.1.trans ih.1, this.2⟩

theorem fromSignedBE_zeros (j : Nat) : fromSignedBE (List.replicate j (0 : UInt8)) = 0 := by
  cases j with
  | zero => rfl
  | succ j =>
    have := (fromSignedBE_replicate j 0 []).1
    have hn : negBE [(0 : UInt8)] = false := by simp [negBE]
    simp only [hn, Bool.false_eq_true, if_false] at this
    have h2 : List.replicate j (0 : UInt8) ++ [0] = List.replicate (j+1) 0 := by
      rw [List.replicate_succ']
    rw [h2] at this
    rw [this]
    simp [fromSignedBE, ofBeBytes, ofLeBytes]

/-! ### `to_signed_bytes_be` -/

theorem lt_two_pow_bitLen (n : Nat) : n < 2^(bitLen n) := by
  unfold bitLen
  by_cases h : n = 0
  · simp [h]
  · simp only [h, if_false]; exact Nat.lt_log2_self

theorem bitLen_le {n j : Nat} (h : n < 2^j) : bitLen n ≤ j := by
  unfold bitLen
  by_cases h0 : n = 0
  · simp [h0]
  · simp only [h0, if_false]
    have := (Nat.log2_lt h0).mpr h
    omega

theorem pow_half (j : Nat) : 2^(8*j+7) = 128 * 256^j := by
  rw [Nat.pow_add, Nat.pow_mul]
  show (2^8)^j * 2^7 = 128 * 256^j
  rw [Nat.mul_comm]

/-- the magnitude that decides the width: `i` for `i ≥ 0`, `-i-1` otherwise -/
def widthMag (i : Int) : Nat := if 0 ≤ i then i.toNat else (-i - 1).toNat

theorem minWidth_eq (i : Int) : minWidth i = bitLen (widthMag i) / 8 + 1 := rfl

theorem widthMag_lt (i : Int) : widthMag i < 128 * 256^(minWidth i - 1) := by
  rw [minWidth_eq, Nat.add_sub_cancel, ← pow_half]
  have h1 := lt_two_pow_bitLen (widthMag i)
  have h2 : bitLen (widthMag i) ≤ 8 * (bitLen (widthMag i) / 8) + 7 := by omega
  exact Nat.lt_of_lt_of_le h1 (Nat.pow_le_pow_right (by omega) h2)

theorem minWidth_le {i : Int} {j : Nat} (h : widthMag i < 128 * 256^j) : minWidth i ≤ j + 1 := by
  rw [← pow_half] at h
  have := bitLen_le h
  rw [minWidth_eq]
  omega

theorem ofBeBytes_beBytes' (k n : Nat) (h : n < 256^k) : ofBeBytes (beBytes k n) = n := by
  unfold ofBeBytes beBytes
  rw [List.reverse_reverse, ofLeBytes_leBytes]
  exact Nat.mod_eq_of_lt h

theorem beBytes_length' (k n : Nat) : (beBytes k n).length = k := by simp [beBytes, leBytes_length]

theorem toSignedBE_length (i : Int) : (toSignedBE i).length = minWidth i := by
  unfold toSignedBE
  exact beBytes_length' _ _

theorem fromSignedBE_toSignedBE (u : Int) : fromSignedBE (toSignedBE u) = u := by
  have hk : minWidth u = (minWidth u - 1) + 1 := by rw [minWidth_eq]; omega
  have hmag := widthMag_lt u
  generalize hj : minWidth u - 1 = j at hk hmag
  unfold toSignedBE
  simp only []
  rw [hk]
  have hM : (2 ^ (8 * (j + 1)) : Nat) = 256^j * 256 := by
    rw [Nat.pow_mul]; show (256:Nat)^(j+1) = _; rw [Nat.pow_succ]
  rw [hM]
  generalize hP : (256 : Nat)^j = P at hmag
  have hPpos : 0 < P := by rw [← hP]; exact Nat.pow_pos (by omega)
  -- the residue
  have hN : ((u % ((P * 256 : Nat) : Int)).toNat : Int) = if 0 ≤ u then u else u + (P * 256 : Nat) := by
    unfold widthMag at hmag
    by_cases hu : 0 ≤ u
    · simp only [hu, if_true] at hmag ⊢
      rw [Int.emod_eq_of_lt hu (by omega)]
      omega
    · simp only [hu, if_false] at hmag ⊢
      have : u % ((P * 256 : Nat) : Int) = (u + ((P * 256 : Nat) : Int)) % ((P * 256 : Nat) : Int) := by
        exact Int.emod_eq_add_self_emod
      rw [this, Int.emod_eq_of_lt (by omega) (by omega)]
      omega
  generalize hNn : (u % ((P * 256 : Nat) : Int)).toNat = N at hN
  have hNlt : N < 256^(j+1) := by
    rw [Nat.pow_succ, hP]
    by_cases hu : 0 ≤ u
    · simp only [hu, if_true] at hN; unfold widthMag at hmag; simp only [hu, if_true] at hmag; omega
    · simp only [hu, if_false] at hN; omega
  rw [fromSignedBE_eq, ofBeBytes_beBytes' _ _ hNlt, beBytes_length']
  have hcons := beBytes_succ j N
  have hiff := negBE_iff (UInt8.ofNat ((N / 256^j) % 256)) (beBytes j N)
  rw [← hcons, beBytes_length', ofBeBytes_beBytes' _ _ hNlt, hP] at hiff
  rw [Nat.pow_succ, hP]
  unfold widthMag at hmag
  by_cases hn : negBE (beBytes (j+1) N) = true
  · have := hiff.mp hn
    simp only [hn, if_true]
    by_cases hu : 0 ≤ u
    · simp only [hu, if_true] at hN hmag; omega
    · simp only [hu, if_false] at hN hmag; omega
  · have : ¬ (128 * P ≤ N) := fun h => hn (hiff.mpr h)
    simp only [hn, Bool.false_eq_true, if_false]
    by_cases hu : 0 ≤ u
    · simp only [hu, if_true] at hN hmag; omega
    · simp only [hu, if_false] at hN hmag; omega

theorem toSignedBE_fromSignedBE_len (b : Bytes) : (toSignedBE (fromSignedBE b)).length ≤ max 1 b.length := by
  rw [toSignedBE_length]
  cases b with
  | nil => simp [fromSignedBE]; decide
  | cons x xs =>
    have hr := fromSignedBE_range x xs
    have : minWidth (fromSignedBE (x :: xs)) ≤ xs.length + 1 := by
      apply minWidth_le
      unfold widthMag
      by_cases hu : 0 ≤ fromSignedBE (x :: xs)
      · simp only [hu, if_true]; omega
      · simp only [hu, if_false]; omega
    simp only [List.length_cons]
    omega

theorem signExtend_fromSignedBE (b : Bytes) : signExtend (fromSignedBE b) b.length = .ok b := by
  unfold signExtend
  simp only []
  by_cases hv : fromSignedBE b = 0
  · simp only [hv, if_true, List.length_nil, Nat.not_lt_zero, if_false, Nat.sub_zero, Int.lt_irrefl, List.append_nil]
    congr 1
    apply fromSignedBE_inj (by simp)
    rw [fromSignedBE_zeros, hv]
  · simp only [hv, if_false]
    have hlen := toSignedBE_fromSignedBE_len b
    have hne : b ≠ [] := by intro h; subst h; exact hv rfl
    have hb1 : 1 ≤ b.length := by
      cases b with
      | nil => exact absurd rfl hne
      | cons _ _ => simp
    have hle : (toSignedBE (fromSignedBE b)).length ≤ b.length := by omega
    have hnot : ¬ (b.length < (toSignedBE (fromSignedBE b)).length) := by omega
    simp only [hnot, if_false]
    congr 1
    apply fromSignedBE_inj
    · simp; omega
    · cases hraw : toSignedBE (fromSignedBE b) with
      | nil =>
        have := toSignedBE_length (fromSignedBE b)
        rw [hraw, minWidth_eq] at this
        simp at this
      | cons c cs =>
        have hval : fromSignedBE (c :: cs) = fromSignedBE b := by rw [← hraw]; exact fromSignedBE_toSignedBE _
        have hneg := fromSignedBE_neg_iff (c :: cs)
        rw [hval] at hneg
        have hpad : (if fromSignedBE b < 0 then (0xFF : UInt8) else 0) = (if negBE (c :: cs) then (0xFF : UInt8) else 0) := by
          by_cases hlt : fromSignedBE b < 0
          · simp [hlt, hneg.mp hlt]
          · have : ¬ (negBE (c :: cs) = true) := fun h => hlt (hneg.mpr h)
            simp [hlt, this]
        rw [hpad, (fromSignedBE_replicate _ c cs).1, hval]

/-! ### uuid text -/

theorem bytesOfHex_length : ∀ (s b : Bytes), bytesOfHex s = some b → s.length = 2 * b.length
  | [], b, h => by simp [bytesOfHex] at h; subst h; rfl
  | [_], b, h => by simp [bytesOfHex] at h
  | x :: y :: rest, b, h => by
    simp only [bytesOfHex] at h
    cases h1 : hexVal x <;> cases h2 : hexVal y <;> cases h3 : bytesOfHex rest <;> simp [h1, h2, h3] at h
    subst h
    have := bytesOfHex_length rest _ h3
    simp only [List.length_cons]
    omega

theorem parseHyphenated_len (s b : Bytes) (h : parseHyphenated s = some b) : b.length = 16 := by
  unfold parseHyphenated at h
  by_cases hl : s.length ≠ 36
  · simp [hl] at h
  · simp only [hl, if_false] at h
    split at h
    · simp at h
    · have := bytesOfHex_length _ _ h
      simp only [List.length_append, List.length_take, List.length_drop] at this
      have h36 : s.length = 36 := by omega
      omega

theorem uuidParse_len (s b : Bytes) (h : uuidParse s = some b) : b.length = 16 := by
  unfold uuidParse at h
  split at h
  · have := bytesOfHex_length _ _ h; omega
  · split at h
    · exact parseHyphenated_len _ _ h
    · split at h
      · split at h
        · exact parseHyphenated_len _ _ h
        · simp at h
      · split at h
        · split at h
          · exact parseHyphenated_len _ _ h
          · simp at h
        · simp at h

theorem hexDigit_toNat {n : Nat} (h : n < 16) : (hexDigit n).toNat = if n < 10 then 48 + n else 87 + n := by
  unfold hexDigit
  split <;> (simp only [UInt8.toNat_ofNat']; omega)

theorem hexVal_hexDigit {n : Nat} (h : n < 16) : hexVal (hexDigit n) = some n := by
  have ht := hexDigit_toNat h
  unfold hexVal
  simp only [UInt8.le_iff_toNat_le, Bool.and_eq_true, decide_eq_true_eq]
  have e48 : (48 : UInt8).toNat = 48 := rfl
  have e57 : (57 : UInt8).toNat = 57 := rfl
  have e97 : (97 : UInt8).toNat = 97 := rfl
  have e102 : (102 : UInt8).toNat = 102 := rfl
  have e65 : (65 : UInt8).toNat = 65 := rfl
  have e70 : (70 : UInt8).toNat = 70 := rfl
  rw [e48, e57, e97, e102, e65, e70, ht]
  by_cases h10 : n < 10
  · simp only [h10, if_true]
    have : 48 ≤ 48 + n ∧ 48 + n ≤ 57 := by omega
    simp only [this, and_self, if_true]
    congr 1; omega
  · simp only [h10, if_false]
    have h1 : ¬ (48 ≤ 87 + n ∧ 87 + n ≤ 57) := by omega
    have h2 : 97 ≤ 87 + n ∧ 87 + n ≤ 102 := by omega
    simp only [h1, if_false, h2, and_self, if_true]
    congr 1; omega

theorem hexDigit_ascii {n : Nat} (h : n < 16) : hexDigit n < 0x80 := by
  have ht := hexDigit_toNat h
  rw [UInt8.lt_iff_toNat_lt, ht]
  have : (0x80 : UInt8).toNat = 128 := rfl
  rw [this]
  split <;> omega

theorem u8_nibbles (x : UInt8) : UInt8.ofNat (x.toNat / 16 * 16 + x.toNat % 16) = x := by
  have : x.toNat / 16 * 16 + x.toNat % 16 = x.toNat := by omega
  rw [this]
  simp

theorem bytesOfHex_hexOfBytes (b : Bytes) : bytesOfHex (hexOfBytes b) = some b := by
  induction b with
  | nil => rfl
  | cons x xs ih =>
    have hx := x.toNat_lt
    simp only [hexOfBytes, bytesOfHex, hexVal_hexDigit (show x.toNat / 16 < 16 by omega),
      hexVal_hexDigit (show x.toNat % 16 < 16 by omega), ih, u8_nibbles]

theorem validUtf8_ascii : ∀ (l : Bytes), (∀ c ∈ l, c < 0x80) → validUtf8 l = true
  | [], _ => rfl
  | [b0], h => by simp [validUtf8, h b0 (by simp)]
  | [b0, b1], h => by
    have h0 := h b0 (by simp); have h1 := h b1 (by simp)
    simp [validUtf8, h0, h1]
  | [b0, b1, b2], h => by
    have h0 := h b0 (by simp); have h1 := h b1 (by simp); have h2 := h b2 (by simp)
    simp [validUtf8, h0, h1, h2]
  | b0 :: b1 :: b2 :: b3 :: rest, h => by
    have h0 := h b0 (by simp)
    have ih := validUtf8_ascii (b1 :: b2 :: b3 :: rest) (fun c hc => h c (List.mem_cons_of_mem _ hc))
    rw [validUtf8]
    simp only [h0, if_true]
    exact ih

theorem hexOfBytes_ascii (b : Bytes) : ∀ c ∈ hexOfBytes b, c < 0x80 := by
  induction b with
  | nil => intro c hc; simp [hexOfBytes] at hc
  | cons x xs ih =>
    intro c hc
    have hx := x.toNat_lt
    simp only [hexOfBytes, List.mem_cons] at hc
    rcases hc with rfl | rfl | hc
    · exact hexDigit_ascii (by omega)
    · exact hexDigit_ascii (by omega)
    · exact ih c hc

theorem hexOfBytes_length (b : Bytes) : (hexOfBytes b).length = 2 * b.length := by
  induction b with
  | nil => rfl
  | cons x xs ih => simp only [hexOfBytes, List.length_cons, ih]; omega

theorem uuid_text (b : Bytes) (hb : b.length = 16) :
    validUtf8 (uuidToText b) = true ∧ uuidParse (uuidToText b) = some b ∧ (uuidToText b).length = 36 := by
  -- sixteen explicit bytes
  rcases b with _ | ⟨b0, _ | ⟨b1, _ | ⟨b2, _ | ⟨b3, _ | ⟨b4, _ | ⟨b5, _ | ⟨b6, _ | ⟨b7, _ | ⟨b8, _ | ⟨b9, _ | ⟨b10, _ | ⟨b11,
    _ | ⟨b12, _ | ⟨b13, _ | ⟨b14, _ | ⟨b15, _ | ⟨b16, rest⟩⟩⟩⟩⟩⟩⟩⟩⟩⟩⟩⟩⟩⟩⟩⟩⟩ <;> simp at hb
  have hround := bytesOfHex_hexOfBytes [b0, b1, b2, b3, b4, b5, b6, b7, b8, b9, b10, b11, b12, b13, b14, b15]
  have hascii := hexOfBytes_ascii [b0, b1, b2, b3, b4, b5, b6, b7, b8, b9, b10, b11, b12, b13, b14, b15]
  simp only [hexOfBytes] at hround hascii
  refine ⟨?_, ?_, ?_⟩
  · apply validUtf8_ascii
    intro c hc
    simp only [uuidToText, hexOfBytes, List.take, List.drop, List.cons_append, List.nil_append, List.mem_cons] at hc
    have h45 : (45 : UInt8) < 0x80 := by decide
    rcases hc with rfl | rfl | rfl | rfl | rfl | rfl | rfl | rfl | rfl | rfl | rfl | rfl | rfl | rfl | rfl | rfl | rfl | rfl |
      rfl | rfl | rfl | rfl | rfl | rfl | rfl | rfl | rfl | rfl | rfl | rfl | rfl | rfl | rfl | rfl | rfl | rfl | hc <;>
      first
        | exact h45
        | exact absurd hc List.not_mem_nil
        | (apply hascii; simp)
  · simp only [uuidToText, hexOfBytes, List.take, List.drop, List.cons_append, List.nil_append]
    unfold uuidParse
    simp only [List.length_cons, List.length_nil]
    simp only [show ¬ (36 = 32) by omega, if_false, if_true]
    unfold parseHyphenated
    simp only [List.length_cons, List.length_nil, ne_eq, not_true_eq_false, if_false]
    simp only [List.getElem?_cons_succ, List.getElem?_cons_zero, List.take, List.drop, List.cons_append, List.nil_append]
    simpa using hround
  · simp [uuidToText, hexOfBytes]

theorem primFacts : PrimFacts where
  signExtend_fromSignedBE := signExtend_fromSignedBE
  fromSignedBE_toSignedBE := fromSignedBE_toSignedBE
  toSignedBE_fromSignedBE_len := toSignedBE_fromSignedBE_len
  uuid_text := uuid_text
  uuidParse_len := uuidParse_len

end Avro

namespace Avro

/-- sign extension to any width that holds the number succeeds, has that width and denotes the number -/
theorem signExtend_ok (i : Int) (len : Nat) (h : (if i = 0 then 0 else minWidth i) ≤ len) :
    ∃ b, signExtend i len = .ok b ∧ b.length = len ∧ fromSignedBE b = i := by
  unfold signExtend
  simp only []
  by_cases hi : i = 0
  · subst hi
    refine ⟨List.replicate len 0, by simp, by simp, fromSignedBE_zeros len⟩
  · simp only [hi, if_false] at h ⊢
    have hlen := toSignedBE_length i
    have hnot : ¬ (len < (toSignedBE i).length) := by omega
    simp only [hnot, if_false]
    refine ⟨_, rfl, by simp; omega, ?_⟩
    cases hraw : toSignedBE i with
    | nil => rw [hraw, minWidth_eq] at hlen; simp at hlen
    | cons c cs =>
      have hval : fromSignedBE (c :: cs) = i := by rw [← hraw]; exact fromSignedBE_toSignedBE i
      have hneg := fromSignedBE_neg_iff (c :: cs)
      rw [hval] at hneg
      have hpad : (if i < 0 then (0xFF : UInt8) else 0) = (if negBE (c :: cs) then (0xFF : UInt8) else 0) := by
        by_cases hlt : i < 0
        · simp [hlt, hneg.mp hlt]
        · have : ¬ (negBE (c :: cs) = true) := fun h => hlt (hneg.mpr h)
          simp [hlt, this]
      rw [hpad, (fromSignedBE_replicate _ c cs).1, hval]

end Avro
