import AvroModel
import AvroProofs.Lemmas.Container
/-! Lemmas behind C14: what the reader does on a file cut inside a block / with a corrupted marker. -/
namespace Avro

/-- every byte of `encodeVarAux` except the last carries the continuation bit, so a strict
non-empty prefix runs the decoder into the end of the input -/
theorem decodeVarAux_prefix_eof (fuel : Nat) :
    ∀ (z j acc : Nat) (p q : Bytes), p ++ q = encodeVarAux fuel z → q ≠ [] → fuel ≤ 10 →
      ∀ dfuel, fuel ≤ dfuel → decodeVarAux dfuel j acc p = .error .eof := by
  induction fuel with
  | zero =>
    intro z j acc p q h hq _ dfuel _
    simp [encodeVarAux] at h
    exact absurd h.2 hq
  | succ fuel ih =>
    intro z j acc p q h hq hf dfuel hdf
    obtain ⟨d, rfl⟩ : ∃ d, dfuel = d + 1 := ⟨dfuel - 1, by omega⟩
    unfold encodeVarAux at h
    by_cases hle : z ≤ 0x7F
    · rw [if_pos hle] at h
      -- a one-byte encoding: its only strict prefix is empty
      cases p with
      | nil => simp [decodeVarAux]
      | cons x xs =>
        simp at h
        exact absurd h.2.2 hq
    · rw [if_neg hle] at h
      cases p with
      | nil => simp [decodeVarAux]
      | cons x xs =>
        simp only [List.cons_append, List.cons.injEq] at h
        obtain ⟨hx, hrest⟩ := h
        simp only [decodeVarAux]
        have hd : z % 128 < 128 := Nat.mod_lt _ (by omega)
        have hb : x.toNat = 128 + z % 128 := by
          rw [hx, and_7f, or_80 _ hd]; exact u8_toNat_ofNat _ (by omega)
        have hsh : ¬ (x.toNat >>> 7 = 0) := by rw [hb, Nat.shiftRight_eq_div_pow]; omega
        rw [if_neg hsh]
        exact ih (z >>> 7) (j+1) _ xs q hrest hq (by omega) d (by omega)

theorem decLong_prefix_eof (n : Int) (p q : Bytes) (h : p ++ q = encLong n) (hq : q ≠ []) :
    decLong p = .error .eof := by
  unfold decLong decodeVar
  unfold encLong encodeVar at h
  rw [decodeVarAux_prefix_eof 10 _ 0 0 p q h hq (by omega) 10 (by omega)]

theorem readUsize_prefix_eof (n : Int) (p q : Bytes) (h : p ++ q = encLong n) (hq : q ≠ []) :
    readUsize p = .error .eof := by
  unfold readUsize; rw [decLong_prefix_eof n p q h hq]

theorem takeExact_short : ∀ (n : Nat) (bs : Bytes), bs.length < n → takeExact n bs = .error .eof := by
  intro n
  induction n with
  | zero => intro bs h; omega
  | succ n ih =>
    intro bs h
    cases bs with
    | nil => simp [takeExact]
    | cons x xs =>
      simp only [takeExact]
      rw [ih xs (by simp at h; omega)]

/-- reading well-formed blocks and then whatever follows: the good blocks' values come first and
the end status is that of the remainder -/
theorem readBlocks_append (cfg : Cfg) (codec : Codec) (f : Reader Value) (marker : Bytes)
    (hm : marker.length = 16) (hc : ∀ x, codec.decompress (codec.compress x) = .ok x) :
    ∀ (blocks : List Items), (∀ b ∈ blocks, BlockOk cfg codec f b) →
    ∀ (rest : Bytes) (fuel : Nat),
      readBlocks cfg codec f marker (blocks.length + fuel) (blocks.flatMap (blockOf codec marker) ++ rest) =
        (blocks.flatMap Items.values ++ (readBlocks cfg codec f marker fuel rest).1,
         (readBlocks cfg codec f marker fuel rest).2) := by
  intro blocks
  induction blocks with
  | nil => intro _ rest fuel; simp
  | cons b tl ih =>
    intro hall rest fuel
    obtain ⟨hne, hlen, hsz, hl63, hdec, hun⟩ := hall b (by simp)
    have hshape : (b :: tl).flatMap (blockOf codec marker) ++ rest =
        encLong b.length ++ (encLong (codec.compress b.payload).length ++
          (codec.compress b.payload ++ (marker ++ (tl.flatMap (blockOf codec marker) ++ rest)))) := by
      simp [blockOf, blockBytes]
    rw [hshape]
    obtain ⟨x, xs, hx⟩ : ∃ x xs, encLong (b.length : Int) = x :: xs := by
      cases h : encLong (b.length : Int) with
      | nil => exact absurd h (encLong_ne_nil _)
      | cons x xs => exact ⟨x, xs, rfl⟩
    have hfuel : (b :: tl).length + fuel = (tl.length + fuel) + 1 := by simp; omega
    rw [hfuel]
    have hunf : ∀ r, readBlocks cfg codec f marker (tl.length + fuel + 1) (encLong (b.length : Int) ++ r) =
        (match readUsize (encLong (b.length : Int) ++ r) with
        | .error e => ([], .error e)
        | .ok (count, r1) =>
          match readUsize r1 with
          | .error e => ([], .error e)
          | .ok (size, r2) =>
            match safeLen cfg.lim size with
            | .error e => ([], .error e)
            | .ok _ =>
              match takeExact size r2 with
              | .error e => ([], .error e)
              | .ok (payload, r3) =>
                match takeExact 16 r3 with
                | .error e => ([], .error e)
                | .ok (m, r4) =>
                  if m ≠ marker then ([], .error .other)
                  else match codec.decompress payload with
                    | .error e => ([], .error e)
                    | .ok data =>
                      match readItems f count data with
                      | (vs, some e) => (vs, .error e)
                      | (vs, none) =>
                        let (more, fin) := readBlocks cfg codec f marker (tl.length + fuel) r4
                        (vs ++ more, fin)) := by
      intro r
      rw [hx]
      simp only [List.cons_append, readBlocks]
      rfl
    rw [hunf, readUsize_encLong _ hlen]
    simp only []
    rw [readUsize_encLong _ (by omega)]
    simp only [safeLen, hsz, if_true]
    rw [takeExact_append]
    simp only []
    rw [takeExact_append' 16 marker _ hm]
    simp only [ne_eq, not_true_eq_false, if_false, hc]
    rw [readItems_exact f b hdec hun]
    simp only []
    rw [ih (fun b' hb' => hall b' (List.mem_cons_of_mem _ hb')) rest fuel]
    simp

/-- unfolding of one iteration of the block loop on non-empty input -/
theorem readBlocks_cons (cfg : Cfg) (codec : Codec) (f : Reader Value) (marker : Bytes) (fuel : Nat)
    (x : UInt8) (xs : Bytes) :
    readBlocks cfg codec f marker (fuel+1) (x :: xs) =
      (match readUsize (x :: xs) with
        | .error e => ([], .error e)
        | .ok (count, r1) =>
          match readUsize r1 with
          | .error e => ([], .error e)
          | .ok (size, r2) =>
            match safeLen cfg.lim size with
            | .error e => ([], .error e)
            | .ok _ =>
              match takeExact size r2 with
              | .error e => ([], .error e)
              | .ok (payload, r3) =>
                match takeExact 16 r3 with
                | .error e => ([], .error e)
                | .ok (m, r4) =>
                  if m ≠ marker then ([], .error .other)
                  else match codec.decompress payload with
                    | .error e => ([], .error e)
                    | .ok data =>
                      match readItems f count data with
                      | (vs, some e) => (vs, .error e)
                      | (vs, none) =>
                        let (more, fin) := readBlocks cfg codec f marker fuel r4
                        (vs ++ more, fin)) := by
  simp only [readBlocks]
  rfl

/-- **a file cut inside a block**: whatever non-empty strict prefix of a block remains, the
reader reports an error and yields nothing from it -/
theorem readBlocks_partial (cfg : Cfg) (codec : Codec) (f : Reader Value) (marker : Bytes)
    (hm : marker.length = 16) (count : Nat) (payload : Bytes)
    (hc : count < 2^63) (hs : payload.length ≤ cfg.lim) (hl : cfg.lim < 2^63)
    (p q : Bytes) (hp : p ≠ []) (hq : q ≠ []) (h : p ++ q = blockBytes marker count payload) (fuel : Nat) :
    ∃ e, readBlocks cfg codec f marker (fuel+1) p = ([], .error e) := by
  obtain ⟨x, xs, rfl⟩ : ∃ x xs, p = x :: xs := by
    cases p with
    | nil => exact absurd rfl hp
    | cons x xs => exact ⟨x, xs, rfl⟩
  rw [readBlocks_cons]
  have hb : blockBytes marker count payload =
      encLong count ++ (encLong payload.length ++ (payload ++ marker)) := by simp [blockBytes]
  rw [hb] at h
  rcases List.append_eq_append_iff.mp h with ⟨a', hc1, hq1⟩ | ⟨c', hp1, hr1⟩
  · -- the cut is inside (or right after) the count
    by_cases ha : a' = []
    · -- exactly the count: the size is missing
      subst ha
      simp at hc1
      rw [← hc1, show encLong (count : Int) = encLong (count : Int) ++ [] by simp, readUsize_encLong _ hc]
      simp only []
      have : readUsize [] = .error .eof := by simp [readUsize, decLong, decodeVar, decodeVarAux]
      rw [this]
      exact ⟨_, rfl⟩
    · rw [readUsize_prefix_eof (count : Int) (x :: xs) a' hc1.symm ha]
      exact ⟨_, rfl⟩
  · -- the count is complete
    rw [hp1, readUsize_encLong _ hc]
    simp only []
    rcases List.append_eq_append_iff.mp hr1.symm with ⟨a'', hs1, hq2⟩ | ⟨c'', hp2, hr2⟩
    · by_cases ha : a'' = []
      · subst ha
        simp at hs1
        -- exactly count ++ size: payload and marker are missing; q = payload ++ marker
        rw [← hs1, show encLong (payload.length : Int) = encLong (payload.length : Int) ++ [] by simp,
          readUsize_encLong _ (by omega)]
        simp only [safeLen, hs, if_true]
        by_cases hz : payload.length = 0
        · have hp0 : payload = [] := List.length_eq_zero_iff.mp hz
          subst hp0
          simp only [List.length_nil, takeExact]
          exact ⟨_, rfl⟩
        · rw [takeExact_short payload.length [] (by simp; omega)]
          exact ⟨_, rfl⟩
      · rw [readUsize_prefix_eof (payload.length : Int) c' a'' hs1.symm ha]
        exact ⟨_, rfl⟩
    · -- count and size complete; c'' ++ q = payload ++ marker with q non-empty
      rw [hp2, readUsize_encLong _ (by omega)]
      simp only [safeLen, hs, if_true]
      have hlen : c''.length + q.length = payload.length + 16 := by
        have := congrArg List.length hr2; simp at this; omega
      have hqpos : 0 < q.length := List.length_pos_iff.mpr hq
      by_cases hshort : c''.length < payload.length
      · rw [takeExact_short _ _ hshort]
        exact ⟨_, rfl⟩
      · -- the payload is complete, the marker is not
        rcases List.append_eq_append_iff.mp hr2 with ⟨t, ht1, ht2⟩ | ⟨t, ht1, ht2⟩
        · -- c'' = payload ++ t with t a strict prefix of the marker
          rw [ht1, takeExact_append]
          simp only []
          have : t.length < 16 := by
            have h1 := congrArg List.length ht2; simp at h1; omega
          rw [takeExact_short 16 t this]
          exact ⟨_, rfl⟩
        · -- c'' is a prefix of the payload: then it is the whole payload
          have ht0 : t = [] := by
            have := congrArg List.length ht1; simp at this
            exact List.length_eq_zero_iff.mp (by omega)
          subst ht0
          simp at ht1
          rw [ht1]
          have := takeExact_append c'' []
          simp at this
          rw [this]
          simp only []
          rw [takeExact_short 16 [] (by simp)]
          exact ⟨_, rfl⟩

/-- **a corrupted marker**: nothing of the block (or of anything after it) is yielded -/
theorem readBlocks_bad_marker (cfg : Cfg) (codec : Codec) (f : Reader Value) (marker bad : Bytes)
    (hb16 : bad.length = 16) (hne : bad ≠ marker) (count : Nat) (payload : Bytes)
    (hc : count < 2^63) (hs : payload.length ≤ cfg.lim) (hl : cfg.lim < 2^63) (rest : Bytes) (fuel : Nat) :
    readBlocks cfg codec f marker (fuel+1) (blockBytes bad count payload ++ rest) = ([], .error .other) := by
  have hb : blockBytes bad count payload ++ rest =
      encLong count ++ (encLong payload.length ++ (payload ++ (bad ++ rest))) := by simp [blockBytes]
  rw [hb]
  obtain ⟨x, xs, hx⟩ : ∃ x xs, encLong (count : Int) = x :: xs := by
    cases h : encLong (count : Int) with
    | nil => exact absurd h (encLong_ne_nil _)
    | cons x xs => exact ⟨x, xs, rfl⟩
  have : encLong (count : Int) ++ (encLong (payload.length : Int) ++ (payload ++ (bad ++ rest))) =
      x :: (xs ++ (encLong (payload.length : Int) ++ (payload ++ (bad ++ rest)))) := by rw [hx]; rfl
  rw [this, readBlocks_cons, ← this, readUsize_encLong _ hc]
  simp only []
  rw [readUsize_encLong _ (by omega)]
  simp only [safeLen, hs, if_true]
  rw [takeExact_append]
  simp only []
  rw [takeExact_append' 16 bad _ hb16]
  simp [hne]

end Avro
