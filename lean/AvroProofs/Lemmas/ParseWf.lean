import AvroModel
/-!
Every schema the parser model accepts is well formed (`wfP`): names, symbols and field names match
the grammars, unions obey the union rules, enum defaults are symbols, field names are unique,
decimals have `1 ≤ precision` and `scale ≤ precision`.  The invariant carried through the parser's
state is that every schema stored in its tables is well formed.
-/
namespace Avro

/-- no default, or a default that is one of the symbols -/
def optMem (d : Option Bytes) (syms : List Bytes) : Bool :=
  match d with
  | some x => syms.contains x
  | none => true

mutual
def wfP : PSchema → Bool
  | .array s _ => wfP s
  | .map s _ => wfP s
  | .union bs => (unionNew bs [] []).isSome && wfPList bs
  | .record n _ _ fields _ => n.ok && fieldLookupOk fields [] && wfPFields fields
  | .enum n _ _ syms d _ =>
    n.ok && syms.all isIdent && decide syms.Nodup && optMem d syms
  | .fixed f => f.name.ok
  | .uuidFixed f => f.name.ok
  | .duration f => f.name.ok
  | .decimal p sc inner => decide (1 ≤ p) && decide (sc ≤ p) && (match inner with | some f => f.name.ok | none => true)
  | .ref n => n.ok
  | _ => true
def wfPList : List PSchema → Bool
  | [] => true
  | s :: rest => wfP s && wfPList rest
def wfPFields : List (FieldHdr × PSchema) → Bool
  | [] => true
  | (h, s) :: rest => isIdent h.name && wfP s && wfPFields rest
end

def tblAll (t : List (PName × PSchema)) : Prop := ∀ kv ∈ t, wfP kv.2 = true

def stOk (st : PSt) : Prop := tblAll st.parsed ∧ tblAll st.resolving

def Good (parse : ParseFn) : Prop :=
  ∀ st j ns s st', stOk st → parse st j ns = some (s, st') → wfP s = true ∧ stOk st'

/-! ### tables -/

theorem tblGet_all {t : List (PName × PSchema)} (h : tblAll t) {k : PName} {s : PSchema}
    (hg : tblGet t k = some s) : wfP s = true := by
  unfold tblGet at hg
  cases hf : t.find? (fun kv => kv.1 == k) with
  | none => simp [hf] at hg
  | some kv =>
    simp [hf] at hg
    subst hg
    exact h kv (List.mem_of_find?_eq_some hf)

theorem tblRemove_all {t : List (PName × PSchema)} (h : tblAll t) (k : PName) : tblAll (tblRemove t k) := by
  intro kv hkv
  exact h kv (List.mem_filter.mp hkv).1

theorem tblInsert_all {t : List (PName × PSchema)} (h : tblAll t) (k : PName) (s : PSchema) (hs : wfP s = true) :
    tblAll (tblInsert t k s) := by
  unfold tblInsert
  split
  · intro kv hkv
    obtain ⟨kv', hm, rfl⟩ := List.mem_map.mp hkv
    split
    · exact hs
    · exact h kv' hm
  · intro kv hkv
    rcases List.mem_append.mp hkv with hm | hm
    · exact h kv hm
    · simp at hm; subst hm; exact hs

theorem make_ok {s : Bytes} {e : Option Bytes} {n : PName} (h : PName.make s e = some n) : n.ok = true := by
  unfold PName.make at h
  cases hr : PName.raw s e with
  | none => simp [hr] at h
  | some m =>
    simp only [hr] at h
    by_cases hm : m.ok = true
    · simp [hm] at h; subst h; exact hm
    · simp [hm] at h

theorem parseName_ok {kvs : List (Bytes × Json)} {e : Option Bytes} {n : PName} (h : parseName kvs e = some n) :
    n.ok = true := by
  unfold parseName at h
  split at h
  · cases h
  · exact make_ok h

theorem registerParsed_ok {st : PSt} (h : stOk st) (name : PName) (schema : PSchema) (hs : wfP schema = true)
    (aliases : Option (List PName)) : stOk (registerParsed st name schema aliases) := by
  unfold registerParsed
  have key : ∀ (al : List PName) (p r : List (PName × PSchema)), tblAll p → tblAll r →
      tblAll (al.foldl (fun (pr : List (PName × PSchema) × List (PName × PSchema)) a =>
        (tblInsert pr.1 (a.qualify name.ns) schema, tblRemove pr.2 (a.qualify name.ns))) (p, r)).1 ∧
      tblAll (al.foldl (fun (pr : List (PName × PSchema) × List (PName × PSchema)) a =>
        (tblInsert pr.1 (a.qualify name.ns) schema, tblRemove pr.2 (a.qualify name.ns))) (p, r)).2 := by
    intro al
    induction al with
    | nil => intro p r hp hr; exact ⟨hp, hr⟩
    | cons a rest ih =>
      intro p r hp hr
      simp only [List.foldl_cons]
      exact ih _ _ (tblInsert_all hp _ _ hs) (tblRemove_all hr _)
  have := key (aliases.getD []) (tblInsert st.parsed name schema) (tblRemove st.resolving name)
    (tblInsert_all h.1 _ _ hs) (tblRemove_all h.2 _)
  exact ⟨this.1, this.2⟩

theorem registerResolving_ok {st : PSt} (h : stOk st) (name : PName) (hn : name.ok = true)
    (aliases : Option (List PName)) : stOk (registerResolving st name aliases) := by
  unfold registerResolving
  have hr : wfP (.ref name) = true := by simp [wfP, hn]
  have key : ∀ (al : List PName) (r : List (PName × PSchema)), tblAll r →
      tblAll (al.foldl (fun r a => tblInsert r (a.qualify name.ns) (.ref name)) r) := by
    intro al
    induction al with
    | nil => intro r hr'; exact hr'
    | cons a rest ih => intro r hr'; simp only [List.foldl_cons]; exact ih _ (tblInsert_all hr' _ _ hr)
  exact ⟨h.1, key _ _ (tblInsert_all h.2 _ _ hr)⟩

theorem alreadySeen_ok {st : PSt} (h : stOk st) {kvs : List (Bytes × Json)} {e : Option Bytes} {s : PSchema}
    (hs : alreadySeen st kvs e = some s) : wfP s = true := by
  unfold alreadySeen at hs
  split at hs
  · split at hs
    · rename_i n _
      cases hr : tblGet st.resolving n with
      | some r => simp [hr] at hs; subst hs; exact tblGet_all h.2 hr
      | none => simp [hr] at hs; exact tblGet_all h.1 hs
    · cases hs
  · cases hs

/-! ### the helpers -/

theorem schemaRefOf_ok {s : PSchema} (h : wfP s = true) : wfP (schemaRefOf s) = true := by
  cases s <;> simp [schemaRefOf] <;> (try exact h) <;> simp [wfP] at h ⊢
  · exact h.1.1
  · exact h.1.1.1

macro "inj" h:ident : tactic =>
  `(tactic| (simp only [Option.some.injEq, Prod.mk.injEq] at $h:ident; rcases $h:ident with ⟨h1, h2⟩; subst h1; subst h2))

macro "inj" h:ident : tactic =>
  `(tactic| (simp only [Option.some.injEq, Prod.mk.injEq] at $h:ident; rcases $h:ident with ⟨h1, h2⟩; subst h1; subst h2))

theorem primOf_wf {t : Bytes} {p : PSchema} (h : primOf t = some p) : wfP p = true := by
  unfold primOf at h
  cases hf : primTable.find? (fun e => e.1 == t) with
  | none => simp [hf] at h
  | some e =>
    simp [hf] at h
    subst h
    have hm := List.mem_of_find?_eq_some hf
    simp only [primTable, List.mem_cons, List.mem_nil_iff, or_false] at hm
    rcases hm with rfl | rfl | rfl | rfl | rfl | rfl | rfl | rfl <;> rfl

theorem parseKnown_good {parse : ParseFn} (hp : Good parse) {st : PSt} (hst : stOk st) {t : Bytes} {ns : Option Bytes}
    {s : PSchema} {st' : PSt} (h : parseKnown parse st t ns = some (s, st')) : wfP s = true ∧ stOk st' := by
  unfold parseKnown at h
  split at h
  · rename_i p hp'
    inj h
    exact ⟨primOf_wf hp', hst⟩
  · split at h
    · cases h
    · rename_i fq hfq
      split at h
      · inj h
        exact ⟨by simp only [wfP, make_ok hfq], hst⟩
      · split at h
        · rename_i r hr
          inj h
          exact ⟨tblGet_all hst.2 hr, hst⟩
        · split at h
          · cases h
          · split at h
            · cases h
            · rename_i value _
              split at h
              · cases h
              · rename_i parsed st2 hparse
                split at h
                · cases h
                · rename_i key _
                  inj h
                  have hst1 : stOk { st with inputs := tblRemove st.inputs fq } := hst
                  obtain ⟨hw, hst2⟩ := hp _ _ _ _ _ hst1 hparse
                  exact ⟨schemaRefOf_ok hw, ⟨tblInsert_all hst2.1 _ _ hw, hst2.2⟩⟩

theorem seen_good {st : PSt} (hst : stOk st) {c : Bool} {kvs : List (Bytes × Json)} {ns : Option Bytes} {seen : PSchema}
    (h : (if c = true then alreadySeen st kvs ns else none) = some seen) : wfP seen = true := by
  split at h
  · exact alreadySeen_ok hst h
  · cases h

theorem parseFixed_good {st : PSt} (hst : stOk st) {kvs : List (Bytes × Json)} {ns : Option Bytes}
    {s : PSchema} {st' : PSt} (h : parseFixed st kvs ns = some (s, st')) : wfP s = true ∧ stOk st' := by
  unfold parseFixed at h
  simp only at h
  split at h
  · rename_i seen hseen
    inj h
    exact ⟨seen_good hst hseen, hst⟩
  · split at h
    · split at h
      · cases h
      · split at h
        · cases h
        · rename_i name hname
          split at h
          · cases h
          · inj h
            refine ⟨?_, registerParsed_ok hst _ _ ?_ _⟩ <;> simp only [wfP, parseName_ok hname]
    · cases h

theorem parseSeq_good {f : PSt → Json → Option (PSchema × PSt)}
    (hf : ∀ st j s st', stOk st → f st j = some (s, st') → wfP s = true ∧ stOk st') :
    ∀ (js : List Json) (st : PSt) (ss : List PSchema) (st' : PSt), stOk st → parseSeq f st js = some (ss, st') →
      wfPList ss = true ∧ stOk st'
  | [], st, ss, st', hst, h => by
    simp only [parseSeq] at h; inj h; exact ⟨by simp only [wfPList], hst⟩
  | j :: rest, st, ss, st', hst, h => by
    simp only [parseSeq] at h
    split at h
    · cases h
    · rename_i s st1 h1
      split at h
      · cases h
      · rename_i ss' st2 h2
        inj h
        obtain ⟨hw, hst1⟩ := hf _ _ _ _ hst h1
        obtain ⟨hws, hst2⟩ := parseSeq_good hf rest st1 ss' st2 hst1 h2
        exact ⟨by simp only [wfPList, hw, hws, Bool.and_self], hst2⟩

theorem parseFields_good {parseTy : PSt → Json → Option (PSchema × PSt)} {dflt : DfltFn}
    (hf : ∀ st j s st', stOk st → parseTy st j = some (s, st') → wfP s = true ∧ stOk st') :
    ∀ (js : List Json) (st : PSt) (fs : List (FieldHdr × PSchema)) (st' : PSt), stOk st →
      parseFieldsWith parseTy dflt st js = some (fs, st') → wfPFields fs = true ∧ stOk st'
  | [], st, fs, st', hst, h => by
    simp only [parseFieldsWith] at h; inj h; exact ⟨by simp only [wfPFields], hst⟩
  | j :: rest, st, fs, st', hst, h => by
    cases j with
    | obj kvs =>
      simp only [parseFieldsWith] at h
      split at h
      · cases h
      · rename_i nm _
        by_cases hid : isIdent nm = true
        · simp only [hid, Bool.not_true, Bool.false_eq_true, if_false] at h
          split at h
          · cases h
          · split at h
            · cases h
            · rename_i schema st1 hty
              by_cases hda : defaultAccepted dflt st1.parsed schema (objGet kvs b!"default") = true
              · simp only [hda, Bool.not_true, Bool.false_eq_true, if_false] at h
                split at h
                · cases h
                · rename_i fs' st2 hrest
                  inj h
                  obtain ⟨hw, hst1⟩ := hf _ _ _ _ hst hty
                  obtain ⟨hws, hst2⟩ := parseFields_good hf rest st1 fs' st2 hst1 hrest
                  exact ⟨by simp only [wfPFields, hw, hws, hid, Bool.and_self], hst2⟩
              · simp only [hda, Bool.not_false, if_true] at h
                cases h
        · simp only [hid, Bool.not_false, if_true] at h
          cases h
    | null => simp only [parseFieldsWith] at h; exact parseFields_good hf rest st fs st' hst h
    | bool _ => simp only [parseFieldsWith] at h; exact parseFields_good hf rest st fs st' hst h
    | int _ => simp only [parseFieldsWith] at h; exact parseFields_good hf rest st fs st' hst h
    | float _ => simp only [parseFieldsWith] at h; exact parseFields_good hf rest st fs st' hst h
    | str _ => simp only [parseFieldsWith] at h; exact parseFields_good hf rest st fs st' hst h
    | arr _ => simp only [parseFieldsWith] at h; exact parseFields_good hf rest st fs st' hst h

theorem parseRecord_good {parse : ParseFn} (hp : Good parse) {dflt : DfltFn} {st : PSt} (hst : stOk st)
    {kvs : List (Bytes × Json)} {ns : Option Bytes} {s : PSchema} {st' : PSt}
    (h : parseRecord parse dflt st kvs ns = some (s, st')) : wfP s = true ∧ stOk st' := by
  unfold parseRecord at h
  simp only at h
  split at h
  · rename_i seen hseen
    inj h
    exact ⟨seen_good hst hseen, hst⟩
  · split at h
    · cases h
    · rename_i name hname
      split at h
      · cases h
      · rename_i aliases _
        split at h
        · rename_i fjs _
          split at h
          · cases h
          · rename_i fields st2 hfields
            have hn := parseName_ok hname
            obtain ⟨hwf, hst2⟩ := parseFields_good (fun st j s st' hs hh => hp st j name.ns s st' hs hh) fjs _ fields st2
              (registerResolving_ok hst name hn aliases) hfields
            by_cases hl : fieldLookupOk fields [] = true
            · simp only [hl, Bool.not_true, Bool.false_eq_true, if_false] at h
              inj h
              refine ⟨?_, registerParsed_ok hst2 _ _ ?_ _⟩ <;> simp only [wfP, hn, hl, hwf, Bool.and_self]
            · simp only [hl, Bool.not_false, if_true] at h
              cases h
        · cases h

theorem parseEnum_good {st : PSt} (hst : stOk st) {kvs : List (Bytes × Json)} {ns : Option Bytes}
    {s : PSchema} {st' : PSt} (h : parseEnum st kvs ns = some (s, st')) : wfP s = true ∧ stOk st' := by
  unfold parseEnum at h
  simp only at h
  split at h
  · rename_i seen hseen
    inj h
    exact ⟨seen_good hst hseen, hst⟩
  · split at h
    · cases h
    · rename_i name hname
      split at h
      · cases h
      · split at h
        · split at h
          · cases h
          · rename_i symbols _
            by_cases hsy : symbols.all isIdent = true ∧ symbols.Nodup
            · have hcond : (!(symbols.all isIdent) || !decide symbols.Nodup) = false := by simp [hsy.1, hsy.2]
              simp only [hcond, Bool.false_eq_true, if_false] at h
              split at h
              · cases h
              · rename_i default hdef
                inj h
                have hd : optMem default symbols = true := by
                  unfold enumDefault at hdef
                  split at hdef
                  · simp at hdef; subst hdef; rfl
                  · split at hdef
                    · rename_i hc; simp at hdef; subst hdef; exact hc
                    · cases hdef
                  · cases hdef
                refine ⟨?_, registerParsed_ok hst _ _ ?_ _⟩ <;>
                  simp only [wfP, parseName_ok hname, hsy.1, hsy.2, decide_true, hd, Bool.and_self]
            · have hcond : (!(symbols.all isIdent) || !decide symbols.Nodup) = true := by
                by_cases h1 : symbols.all isIdent = true
                · have : ¬ symbols.Nodup := fun h2 => hsy ⟨h1, h2⟩
                  simp [h1, this]
                · simp [h1]
              simp only [hcond, if_true] at h
              cases h
        · cases h

theorem applyLogical_wf (tag : LogicalTag) (kvs : List (Bytes × Json)) {inner : PSchema} (h : wfP inner = true) :
    wfP (applyLogical tag kvs inner) = true := by
  have hps : ∀ p sc, precisionScale kvs = some (p, sc) → 1 ≤ p ∧ sc ≤ p := by
    intro p sc hh
    unfold precisionScale at hh
    split at hh
    · split at hh
      · cases hh
      · split at hh
        · cases hh
        · simp at hh; obtain ⟨rfl, rfl⟩ := hh; omega
    · cases hh
  cases tag <;> cases inner <;> simp only [applyLogical] <;> (try exact h) <;> (try rfl)
  all_goals first
    | (split
       · rename_i p sc hh
         have := hps p sc hh
         simp only [wfP] at h ⊢
         simp [this.1, this.2, h]
       · exact h)
    | (split
       · simpa only [wfP] using h
       · exact h)

theorem parseArray_good {parse : ParseFn} (hp : Good parse) {st : PSt} (hst : stOk st)
    {kvs : List (Bytes × Json)} {ns : Option Bytes} {s : PSchema} {st' : PSt}
    (h : parseArray parse st kvs ns = some (s, st')) : wfP s = true ∧ stOk st' := by
  unfold parseArray at h
  split at h
  · cases h
  · split at h
    · cases h
    · rename_i it st1 hit
      inj h
      obtain ⟨hw, hs⟩ := hp _ _ _ _ _ hst hit
      exact ⟨by simp only [wfP, hw], hs⟩

theorem parseMap_good {parse : ParseFn} (hp : Good parse) {st : PSt} (hst : stOk st)
    {kvs : List (Bytes × Json)} {ns : Option Bytes} {s : PSchema} {st' : PSt}
    (h : parseMap parse st kvs ns = some (s, st')) : wfP s = true ∧ stOk st' := by
  unfold parseMap at h
  split at h
  · cases h
  · split at h
    · cases h
    · rename_i it st1 hit
      inj h
      obtain ⟨hw, hs⟩ := hp _ _ _ _ _ hst hit
      exact ⟨by simp only [wfP, hw], hs⟩

theorem parseUnion_good {parse : ParseFn} (hp : Good parse) {st : PSt} (hst : stOk st)
    {items : List Json} {ns : Option Bytes} {s : PSchema} {st' : PSt}
    (h : parseUnion parse st items ns = some (s, st')) : wfP s = true ∧ stOk st' := by
  unfold parseUnion at h
  split at h
  · cases h
  · rename_i schemas st1 hseq
    split at h
    · cases h
    · rename_i hu
      inj h
      obtain ⟨hw, hs⟩ := parseSeq_good (fun st j s st' hs hh => hp st j ns s st' hs hh) items st schemas st1 hst hseq
      exact ⟨by simp only [wfP, hu, hw, Option.isSome_some, Bool.and_self], hs⟩

theorem parseComplexKind_good {parse : ParseFn} (hp : Good parse) {dflt : DfltFn} (tag : ComplexTag) {st : PSt}
    (hst : stOk st) {kvs : List (Bytes × Json)} {ns : Option Bytes} {s : PSchema} {st' : PSt}
    (h : parseComplexKind parse dflt tag st kvs ns = some (s, st')) : wfP s = true ∧ stOk st' := by
  cases tag <;> simp only [parseComplexKind] at h
  · exact parseRecord_good hp hst h
  · exact parseEnum_good hst h
  · exact parseArray_good hp hst h
  · exact parseMap_good hp hst h
  · exact parseFixed_good hst h

theorem parseNative_good {parse : ParseFn} (hp : Good parse) {dflt : DfltFn} {st : PSt}
    (hst : stOk st) {kvs : List (Bytes × Json)} {ns : Option Bytes} {s : PSchema} {st' : PSt}
    (h : parseNative parse dflt st kvs ns = some (s, st')) : wfP s = true ∧ stOk st' := by
  unfold parseNative at h
  split at h
  · split at h
    · exact parseComplexKind_good hp _ hst h
    · exact hp _ _ _ _ _ hst h
  · exact hp _ _ _ _ _ hst h
  · cases h

theorem parseByType_good {parse : ParseFn} (hp : Good parse) {dflt : DfltFn} {st : PSt}
    (hst : stOk st) {kvs : List (Bytes × Json)} {ns : Option Bytes} {s : PSchema} {st' : PSt}
    (h : parseByType parse dflt st kvs ns = some (s, st')) : wfP s = true ∧ stOk st' := by
  unfold parseByType at h
  split at h
  · split at h
    · exact parseComplexKind_good hp _ hst h
    · exact parseKnown_good hp hst h
  · exact hp _ _ _ _ _ hst h
  · exact hp _ _ _ _ _ hst h
  · cases h

theorem parseComplex_good {parse : ParseFn} (hp : Good parse) {dflt : DfltFn} {st : PSt}
    (hst : stOk st) {kvs : List (Bytes × Json)} {ns : Option Bytes} {s : PSchema} {st' : PSt}
    (h : parseComplex parse dflt st kvs ns = some (s, st')) : wfP s = true ∧ stOk st' := by
  unfold parseComplex at h
  split at h
  · split at h
    · split at h
      · cases h
      · rename_i inner st1 hn
        inj h
        obtain ⟨hw, hs⟩ := parseNative_good hp hst hn
        exact ⟨applyLogical_wf _ kvs hw, hs⟩
    · exact parseByType_good hp hst h
  · cases h
  · exact parseByType_good hp hst h

/-- **every schema the parser accepts is well formed**, for every JSON value, every recursion budget
and every parser state whose tables hold well-formed schemas (in particular the empty state) -/
theorem parseJ_good (dflt : DfltFn) : ∀ fuel, Good (parseJ dflt fuel)
  | 0 => by intro st j ns s st' _ h; simp [parseJ] at h
  | fuel+1 => by
    intro st j ns s st' hst h
    have ih := parseJ_good dflt fuel
    cases j <;> simp only [parseJ] at h
    · cases h
    · cases h
    · cases h
    · cases h
    · exact parseKnown_good ih hst h
    · exact parseUnion_good ih hst h
    · exact parseComplex_good ih hst h

end Avro
