import AvroModel
/-! helper lemmas about union branch selection (`findBranchWith`) -/
namespace Avro

theorem unnamedIndex_sound (k : Kind) : ∀ (bs : List Schema) (start i : Nat) (s : Schema),
    unnamedIndex k bs start = some (i, s) → start ≤ i ∧ bs[i - start]? = some s
  | [], _, _, _, h => by simp [unnamedIndex] at h
  | b :: rest, start, i, s, h => by
    simp only [unnamedIndex] at h
    split at h
    · simp at h; obtain ⟨rfl, rfl⟩ := h; simp
    · obtain ⟨h1, h2⟩ := unnamedIndex_sound k rest (start+1) i s h
      refine ⟨by omega, ?_⟩
      have : i - start = (i - (start+1)) + 1 := by omega
      rw [this]; simpa using h2

theorem namedFind_sound (k : Kind) (ok : Schema → Bool) : ∀ (bs : List Schema) (start i : Nat) (s : Schema),
    namedFind k ok bs start = some (i, s) → start ≤ i ∧ bs[i - start]? = some s ∧ ok s = true
  | [], _, _, _, h => by simp [namedFind] at h
  | b :: rest, start, i, s, h => by
    simp only [namedFind] at h
    split at h
    · rename_i hc
      simp at h; obtain ⟨rfl, rfl⟩ := h
      simp at hc
      simp [hc.2]
    · obtain ⟨h1, h2, h3⟩ := namedFind_sound k ok rest (start+1) i s h
      refine ⟨by omega, ?_, h3⟩
      have : i - start = (i - (start+1)) + 1 := by omega
      rw [this]; simpa using h2

theorem anyFind_sound (ok : Schema → Bool) : ∀ (bs : List Schema) (start i : Nat) (s : Schema),
    anyFind ok bs start = some (i, s) → start ≤ i ∧ bs[i - start]? = some s ∧ ok s = true
  | [], _, _, _, h => by simp [anyFind] at h
  | b :: rest, start, i, s, h => by
    simp only [anyFind] at h
    split at h
    · rename_i hc
      simp at h; obtain ⟨rfl, rfl⟩ := h
      simp [hc]
    · obtain ⟨h1, h2, h3⟩ := anyFind_sound ok rest (start+1) i s h
      refine ⟨by omega, ?_, h3⟩
      have : i - start = (i - (start+1)) + 1 := by omega
      rw [this]; simpa using h2

theorem unnamedCand_sound (ok : Schema → Bool) (bs : List Schema) (uk : Option Kind) (i : Nat) (s : Schema)
    (e : unnamedCand ok bs uk = some (i, s)) : bs[i]? = some s := by
  cases uk with
  | none => simp [unnamedCand] at e
  | some k =>
    simp only [unnamedCand] at e
    cases hx : unnamedIndex k bs 0 with
    | none => simp [hx] at e
    | some p =>
      obtain ⟨i', s'⟩ := p
      have := unnamedIndex_sound k bs 0 i' s' hx
      simp only [hx] at e
      split at e
      · split at e
        · simp at e; obtain ⟨rfl, rfl⟩ := e; simpa using this.2
        · cases e
      · simp at e; obtain ⟨rfl, rfl⟩ := e; simpa using this.2

theorem namedCand_sound (ok : Schema → Bool) (bs : List Schema) (nk : Option Kind) (i : Nat) (s : Schema)
    (e : namedCand ok bs nk = some (i, s)) : bs[i]? = some s ∧ ok s = true := by
  cases nk with
  | none => simp [namedCand] at e
  | some k =>
    have := namedFind_sound k ok bs 0 i s e
    exact ⟨by simpa using this.2.1, this.2.2⟩

/-- whatever branch selection returns is a branch of the union, at the index it reports -/
theorem findBranchWith_sound (ok : Schema → Bool) (bs : List Schema) (v : Value) (i : Nat) (s : Schema)
    (h : findBranchWith ok bs v = some (i, s)) : bs[i]? = some s := by
  unfold findBranchWith at h
  have hU := unnamedCand_sound ok bs v.kinds.1
  have hN := namedCand_sound ok bs v.kinds.2
  generalize unnamedCand ok bs v.kinds.1 = U at h hU
  generalize namedCand ok bs v.kinds.2 = N at h hN
  cases U with
  | none =>
    cases N with
    | none =>
      have := anyFind_sound ok bs 0 i s h
      simpa using this.2.1
    | some n => simp [pickBranch] at h; subst h; exact (hN _ _ rfl).1
  | some u =>
    obtain ⟨ui, us⟩ := u
    cases N with
    | none => simp [pickBranch] at h; obtain ⟨rfl, rfl⟩ := h; exact hU _ _ rfl
    | some n =>
      obtain ⟨ni, ns⟩ := n
      by_cases hlt : ui < ni
      · simp [pickBranch, hlt] at h; obtain ⟨rfl, rfl⟩ := h; exact hU _ _ rfl
      · simp [pickBranch, hlt] at h; obtain ⟨rfl, rfl⟩ := h; exact (hN _ _ rfl).1

end Avro
