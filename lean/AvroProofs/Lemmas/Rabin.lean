import AvroModel
import AvroModel.Rabin
/-! CRC-64-AVRO: the table-driven implementation equals the bit-serial LFSR (kernel-only proofs). -/
namespace Avro

theorem neg_and_one (x : BitVec 64) : -(x &&& 1#64) = if x[0] then BitVec.allOnes 64 else 0#64 := by
  by_cases h : x[0] = true
  · have : x &&& 1#64 = 1#64 := by
      ext i hi
      by_cases h0 : i = 0
      · subst h0; simp [h]
      · simp [BitVec.getElem_one, h0]
    rw [this, if_pos h]; decide
  · have h' : x[0] = false := by simpa using h
    have : x &&& 1#64 = 0#64 := by
      ext i hi
      by_cases h0 : i = 0
      · subst h0; simp [h']
      · simp [BitVec.getElem_one, h0]
    rw [this]; simp [h']

theorem fpStep_eq (x : BitVec 64) : fpStep x = (x >>> 1) ^^^ (if x[0] then rabinEmpty else 0#64) := by
  unfold fpStep
  rw [neg_and_one]
  split
  · congr 1
  · simp

theorem fpStep_xor (a b : BitVec 64) : fpStep (a ^^^ b) = fpStep a ^^^ fpStep b := by
  rw [fpStep_eq, fpStep_eq, fpStep_eq]
  have hx : (a ^^^ b)[0] = (a[0] ^^ b[0]) := by simp
  rw [hx]
  rw [BitVec.ushiftRight_xor_distrib]
  cases a[0] <;> cases b[0] <;> simp only [Bool.xor_false, Bool.xor_true, Bool.not_false, Bool.not_true, if_true, if_false,
      Bool.false_eq_true] <;>
    (apply BitVec.eq_of_getElem_eq; intro i hi; simp only [BitVec.getElem_xor, BitVec.getElem_zero]
     generalize rabinEmpty[i] = e; generalize (a >>> 1)[i] = p; generalize (b >>> 1)[i] = q
     cases e <;> cases p <;> cases q <;> rfl)

theorem fpStepN_xor (n : Nat) : ∀ a b : BitVec 64, fpStepN n (a ^^^ b) = fpStepN n a ^^^ fpStepN n b := by
  induction n with
  | zero => intro a b; rfl
  | succ n ih => intro a b; simp only [fpStepN]; rw [fpStep_xor, ih]


theorem fpStepN_low_zero (k : Nat) : ∀ h : BitVec 64, (∀ i, i < k → h.getLsbD i = false) → fpStepN k h = h >>> k := by
  induction k with
  | zero => intro h _; simp [fpStepN]
  | succ k ih =>
    intro h hz
    have h0 : h[0] = false := by
      have := hz 0 (by omega)
      simpa [BitVec.getLsbD_eq_getElem] using this
    simp only [fpStepN]
    rw [fpStep_eq, h0]
    simp only [Bool.false_eq_true, if_false, BitVec.xor_zero]
    rw [ih (h >>> 1) (by
      intro i hi
      rw [BitVec.getLsbD_ushiftRight]
      exact hz (1 + i) (by omega))]
    rw [← BitVec.shiftRight_add, Nat.add_comm]

theorem split_low8 (x : BitVec 64) : x = (x &&& ~~~(0xff#64)) ^^^ (x &&& 0xff#64) := by
  apply BitVec.eq_of_getElem_eq
  intro i hi
  simp only [BitVec.getElem_xor, BitVec.getElem_and, BitVec.getElem_not]
  cases x[i] <;> cases (0xff#64)[i] <;> rfl

theorem step8_eq_table (x : BitVec 64) : fpStepN 8 x = (x >>> 8) ^^^ fpTable (x &&& 0xff#64).toNat := by
  conv => lhs; rw [split_low8 x]
  rw [fpStepN_xor]
  have hhi : fpStepN 8 (x &&& ~~~(0xff#64)) = x >>> 8 := by
    rw [fpStepN_low_zero 8 _ (by
      intro i hi
      rw [BitVec.getLsbD_and, BitVec.getLsbD_not]
      have : (0xff#64).getLsbD i = true := by
        have : i = 0 ∨ i = 1 ∨ i = 2 ∨ i = 3 ∨ i = 4 ∨ i = 5 ∨ i = 6 ∨ i = 7 := by omega
        rcases this with rfl | rfl | rfl | rfl | rfl | rfl | rfl | rfl <;> decide
      simp [this])]
    apply BitVec.eq_of_getLsbD_eq
    intro i hi
    rw [BitVec.getLsbD_ushiftRight, BitVec.getLsbD_ushiftRight, BitVec.getLsbD_and, BitVec.getLsbD_not]
    have : (0xff#64).getLsbD (8 + i) = false := by
      rw [BitVec.getLsbD_ofNat]
      have : Nat.testBit 255 (8 + i) = false := by
        apply Nat.testBit_lt_two_pow
        calc 255 < 2^8 := by decide
          _ ≤ 2^(8+i) := Nat.pow_le_pow_right (by omega) (by omega)
      simp [this]
    simp only [this, Bool.not_false, Bool.and_true]
    by_cases h64 : 8 + i < 64
    · simp [h64]
    · have : x.getLsbD (8 + i) = false := BitVec.getLsbD_of_ge x (8+i) (by omega)
      simp [this]
  rw [hhi]
  congr 1
  unfold fpTable
  rw [BitVec.ofNat_toNat, BitVec.setWidth_eq]

/-- the table-driven update is the bit-serial CRC step (8 shifts of the LFSR) -/
theorem rabinUpdate_eq_crcByte (r : BitVec 64) (b : UInt8) : rabinUpdate r b = crcByte r b := by
  unfold rabinUpdate crcByte
  rw [step8_eq_table]
  congr 1
  have hb : (BitVec.ofNat 64 b.toNat) >>> 8 = 0#64 := by
    apply BitVec.eq_of_toNat_eq
    have := b.toNat_lt
    simp [BitVec.toNat_ofNat, Nat.shiftRight_eq_div_pow]
    omega
  rw [BitVec.ushiftRight_xor_distrib, hb, BitVec.xor_zero]

theorem rabin_eq_crc64 (bs : Bytes) : rabinState bs = crc64Avro bs := by
  unfold rabinState crc64Avro
  have : rabinUpdate = crcByte := by funext r b; exact rabinUpdate_eq_crcByte r b
  rw [this]

end Avro

