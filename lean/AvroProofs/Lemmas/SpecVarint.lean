import AvroModel
import AvroProofs.Lemmas.Varint
/-! The crate's zig-zag/varint code computes the specification's arithmetic encoding. -/
namespace Avro

theorem zag_odd (k : Nat) (hk : k < 2^63) : zag (2 * k + 1) = -(k : Int) - 1 := by
  unfold zag zagBV
  have hc : ¬ (BitVec.ofNat 64 (2 * k + 1) &&& 1#64 = 0#64) := by
    intro h
    have := congrArg BitVec.toNat h
    simp [BitVec.toNat_and, BitVec.toNat_ofNat] at this
  rw [if_neg hc, BitVec.toInt_not]
  have hs : (BitVec.ofNat 64 (2 * k + 1) >>> 1).toNat = k := by
    simp [BitVec.toNat_ushiftRight, BitVec.toNat_ofNat, Nat.shiftRight_eq_div_pow]
    omega
  rw [hs]
  have : ((2:Int) ^ 64 - 1 - (k : Int)).bmod (2 ^ 64) = -(k:Int) - 1 := by
    have e : (2:Int) ^ 64 - 1 - (k : Int) = (-(k:Int) - 1) + 2^64 := by omega
    rw [e]
    have : ((-(k:Int) - 1) + 2^64).bmod (2^64) = (-(k:Int) - 1).bmod (2^64) := by
      have := Int.add_mul_bmod_self_left (-(k:Int) - 1) (2^64) 1
      simpa using this
    rw [this]
    apply Int.bmod_eq_of_le <;> omega
  exact this

theorem zig_neg (n : Int) (h1 : -2^63 ≤ n) (h2 : n < 0) : (zig n : Int) = -2 * n - 1 := by
  have hk : (-n - 1).toNat < 2^63 := by omega
  have hz := zag_odd (-n - 1).toNat hk
  have hn : zag (2 * (-n - 1).toNat + 1) = n := by rw [hz]; omega
  have := zig_zag (2 * (-n - 1).toNat + 1) (by omega)
  rw [hn] at this
  rw [this]; omega


theorem encodeVarAux_eq_spec (fuel : Nat) : ∀ z, z < 2^(7*fuel) → 0 < fuel → encodeVarAux fuel z = Spec.varint z := by
  induction fuel with
  | zero => intro z _ h; omega
  | succ fuel ih =>
    intro z hz _
    unfold encodeVarAux
    rw [Spec.varint]
    by_cases hle : z ≤ 0x7F
    · have h128 : z < 128 := by omega
      rw [if_pos hle, dif_pos h128, and_7f, Nat.mod_eq_of_lt h128]
    · have h128 : ¬ z < 128 := by omega
      rw [if_neg hle, dif_neg h128, and_7f, or_80 _ (Nat.mod_lt _ (by omega)), Nat.shiftRight_eq_div_pow]
      congr 1
      have e : 2^(7*(fuel+1)) = 2^7 * 2^(7*fuel) := by rw [← Nat.pow_add]; congr 1; omega
      rw [e] at hz
      have hdiv : z / 2^7 < 2^(7*fuel) := Nat.div_lt_of_lt_mul hz
      apply ih _ hdiv
      cases fuel with
      | zero => simp at hz; omega
      | succ f => omega

theorem encLong_eq_spec (n : Int) (h : i64ok n) : encLong n = Spec.long n := by
  unfold encLong encodeVar Spec.long
  have hz : zig n = Spec.zigzag n := by
    unfold Spec.zigzag
    by_cases hn : 0 ≤ n
    · rw [if_pos hn]
      have := zig_nonneg n.toNat (by have := h.2; omega)
      have e : (n.toNat : Int) = n := by omega
      rw [e] at this
      omega
    · rw [if_neg hn]
      have := zig_neg n h.1 (by omega)
      omega
  rw [hz]
  apply encodeVarAux_eq_spec 10 _ _ (by omega)
  rw [← hz]
  exact Nat.lt_of_lt_of_le (zig_lt n) (by decide)

end Avro

