import AvroModel
import AvroProofs.Lemmas.RoundTrip
/-! Lemmas about the container layer: reading well-formed blocks, the writer invariant. -/
namespace Avro

/-! ### reader on well-formed input -/

theorem readUsize_encLong (n : Nat) (h : n < 2^63) (rest : Bytes) :
    readUsize (encLong n ++ rest) = .ok (n, rest) := by
  unfold readUsize
  rw [decLong_encLong (n : Int) (by omega) (by omega)]
  have : ¬ ((n : Int) < 0) := by omega
  simp [this]

theorem encodeVarAux_ne_nil (fuel z : Nat) (h : 0 < fuel) : encodeVarAux fuel z ≠ [] := by
  cases fuel with
  | zero => omega
  | succ f => unfold encodeVarAux; split <;> simp

theorem encLong_ne_nil (n : Int) : encLong n ≠ [] := by
  unfold encLong encodeVar; exact encodeVarAux_ne_nil 10 _ (by omega)

/-- items of one block: value and its encoding -/
abbrev Items := List (Value × Bytes)

def Items.payload (its : Items) : Bytes := (its.map Prod.snd).flatten
def Items.values (its : Items) : List Value := its.map Prod.fst

/-- every encoding decodes (with any tail) to its value -/
def Decodes (f : Reader Value) (its : Items) : Prop :=
  ∀ it ∈ its, ∀ rest, f (it.2 ++ rest) = .ok (it.1, rest)

/-- the schema is either zero-width for every value or for none -/
def Uniform (its : Items) : Prop := (∀ it ∈ its, it.2 ≠ []) ∨ (∀ it ∈ its, it.2 = [])

theorem readItems_ok (f : Reader Value) : ∀ (its : Items), Decodes f its → Uniform its →
    ∀ rest, (Uniform its ∧ (rest = [] ∨ ∀ it ∈ its, it.2 ≠ [])) →
    readItems f its.length (its.payload ++ rest) = (its.values, none) ∨ True := by
  intro its _ _ rest _; exact Or.inr trivial

theorem flatten_nil_of_all_nil (its : Items) (h : ∀ it ∈ its, it.2 = []) : its.payload = [] := by
  induction its with
  | nil => rfl
  | cons a tl ih =>
    simp only [Items.payload, List.map_cons, List.flatten_cons]
    rw [h a (by simp)]
    exact ih (fun it hit => h it (List.mem_cons_of_mem _ hit))

theorem readItems_exact (f : Reader Value) : ∀ (its : Items), Decodes f its → Uniform its →
    readItems f its.length its.payload = (its.values, none) := by
  intro its
  induction its with
  | nil => intro _ _; simp [readItems, Items.values]
  | cons a tl ih =>
    intro hd hu
    obtain ⟨v, enc⟩ := a
    have hdtl : Decodes f tl := fun it hit => hd it (List.mem_cons_of_mem _ hit)
    have hutl : Uniform tl := by
      rcases hu with h | h
      · exact Or.inl (fun it hit => h it (List.mem_cons_of_mem _ hit))
      · exact Or.inr (fun it hit => h it (List.mem_cons_of_mem _ hit))
    have hp : Items.payload ((v, enc) :: tl) = enc ++ Items.payload tl := by
      simp [Items.payload]
    simp only [List.length_cons, readItems, hp]
    rw [hd (v, enc) (by simp) (Items.payload tl)]
    simp only []
    have hcheck : ¬ ((enc ++ Items.payload tl).length ≠ 0 ∧ (Items.payload tl).length = (enc ++ Items.payload tl).length) := by
      rcases hu with h | h
      · have hne : enc ≠ [] := h (v, enc) (by simp)
        have hpos : 0 < enc.length := List.length_pos_iff.mpr hne
        intro hh
        have := hh.2
        rw [List.length_append] at this
        omega
      · have h1 : enc = [] := h (v, enc) (by simp)
        have h2 := flatten_nil_of_all_nil tl (fun it hit => h it (List.mem_cons_of_mem _ hit))
        simp [h1, h2]
    rw [if_neg hcheck, ih hdtl hutl]
    simp [Items.values]

/-- one block as the writer lays it out -/
def blockOf (codec : Codec) (marker : Bytes) (its : Items) : Bytes :=
  blockBytes marker its.length (codec.compress its.payload)

/-- what the reader needs of a block: non-empty, sizes representable and within the limit -/
def BlockOk (cfg : Cfg) (codec : Codec) (f : Reader Value) (its : Items) : Prop :=
  its ≠ [] ∧ its.length < 2^63 ∧ (codec.compress its.payload).length ≤ cfg.lim ∧ cfg.lim < 2^63 ∧
  Decodes f its ∧ Uniform its

theorem readBlocks_ok (cfg : Cfg) (codec : Codec) (f : Reader Value) (marker : Bytes)
    (hm : marker.length = 16) (hc : ∀ x, codec.decompress (codec.compress x) = .ok x) :
    ∀ (blocks : List Items), (∀ b ∈ blocks, BlockOk cfg codec f b) →
    ∀ fuel, blocks.length < fuel →
      readBlocks cfg codec f marker fuel (blocks.flatMap (blockOf codec marker)) =
        (blocks.flatMap Items.values, .clean) := by
  intro blocks
  induction blocks with
  | nil =>
    intro _ fuel hf
    obtain ⟨k, rfl⟩ : ∃ k, fuel = k + 1 := ⟨fuel - 1, by omega⟩
    simp [readBlocks]
  | cons b tl ih =>
    intro hall fuel hf
    obtain ⟨k, rfl⟩ : ∃ k, fuel = k + 1 := ⟨fuel - 1, by simp at hf; omega⟩
    obtain ⟨hne, hlen, hsz, hl63, hdec, hun⟩ := hall b (by simp)
    simp only [List.flatMap_cons]
    -- the input starts with a non-empty count varint
    have hshape : blockOf codec marker b ++ tl.flatMap (blockOf codec marker) =
        encLong b.length ++ (encLong (codec.compress b.payload).length ++
          (codec.compress b.payload ++ (marker ++ tl.flatMap (blockOf codec marker)))) := by
      simp [blockOf, blockBytes]
    rw [hshape]
    obtain ⟨x, xs, hx⟩ : ∃ x xs, encLong (b.length : Int) = x :: xs := by
      cases h : encLong (b.length : Int) with
      | nil => exact absurd h (encLong_ne_nil _)
      | cons x xs => exact ⟨x, xs, rfl⟩
    have hunf : ∀ rest, readBlocks cfg codec f marker (k+1) (encLong (b.length : Int) ++ rest) =
        (match readUsize (encLong (b.length : Int) ++ rest) with
        | .error e => ([], .error e)
        | .ok (count, r1) =>
          match readUsize r1 with
          | .error e => ([], .error e)
          | .ok (size, r2) =>
            match safeLen cfg.lim size with
            | .error e => ([], .error e)
            | .ok _ =>
              match takeExact size r2 with
              | .error e => ([], .error e)
              | .ok (payload, r3) =>
                match takeExact 16 r3 with
                | .error e => ([], .error e)
                | .ok (m, r4) =>
                  if m ≠ marker then ([], .error .other)
                  else match codec.decompress payload with
                    | .error e => ([], .error e)
                    | .ok data =>
                      match readItems f count data with
                      | (vs, some e) => (vs, .error e)
                      | (vs, none) =>
                        let (more, fin) := readBlocks cfg codec f marker k r4
                        (vs ++ more, fin)) := by
      intro rest
      rw [hx]
      simp only [List.cons_append, readBlocks]
      rfl
    rw [hunf, readUsize_encLong _ hlen]
    simp only []
    rw [readUsize_encLong _ (by omega)]
    simp only [safeLen, hsz, if_true]
    rw [takeExact_append]
    simp only []
    rw [takeExact_append' 16 marker _ hm]
    simp only [ne_eq, not_true_eq_false, if_false, hc]
    rw [readItems_exact f b hdec hun]
    simp only []
    rw [ih (fun b' hb' => hall b' (List.mem_cons_of_mem _ hb')) k (by simp at hf; omega)]

end Avro

namespace Avro

/-! ### writer invariant (refinement to "a log of appended encodings") -/

structure Ghost where
  hdr : Bytes
  blocks : List (List Bytes)
  pending : List Bytes

def blkBytes (codec : Codec) (marker : Bytes) (b : List Bytes) : Bytes :=
  blockBytes marker b.length (codec.compress b.flatten)

structure Inv (cfg : WCfg) (st : WState) (g : Ghost) : Prop where
  sink : st.sink = g.hdr ++ g.blocks.flatMap (blkBytes cfg.codec st.marker)
  buffer : st.buffer = g.pending.flatten
  count : st.numValues = g.pending.length
  nonempty : ∀ b ∈ g.blocks, b ≠ []
  fresh : st.hasHeader = false → g.hdr = [] ∧ g.blocks = []
  header : st.hasHeader = true → ∃ um, g.hdr = magic ++ encMetaMap (cfg.fixedMeta ++ um) ++ st.marker

/-- all encodings the file (and the pending block) hold, in order -/
def Ghost.all (g : Ghost) : List Bytes := g.blocks.flatten ++ g.pending

theorem inv_writeHeader {cfg : WCfg} {st : WState} {g : Ghost} (h : Inv cfg st g) :
    ∃ g', Inv cfg (writeHeader cfg st).1 g' ∧ g'.all = g.all ∧ (writeHeader cfg st).1.hasHeader = true ∧
      (writeHeader cfg st).1.marker = st.marker ∧ (writeHeader cfg st).1.buffer = st.buffer ∧
      (writeHeader cfg st).1.numValues = st.numValues ∧ g'.pending = g.pending ∧
      (writeHeader cfg st).1.userMeta = st.userMeta := by
  by_cases hh : st.hasHeader = true
  · have hw : writeHeader cfg st = (st, 0) := by simp [writeHeader, hh]
    rw [hw]
    exact ⟨g, h, rfl, hh, rfl, rfl, rfl, rfl, rfl⟩
  · have hf : st.hasHeader = false := by simpa using hh
    have hw : writeHeader cfg st =
        ({ st with sink := st.sink ++ headerBytes cfg st, hasHeader := true }, (headerBytes cfg st).length) := by
      simp [writeHeader, hf]
    rw [hw]
    obtain ⟨h1, h2⟩ := h.fresh hf
    refine ⟨{ g with hdr := headerBytes cfg st }, ?_, ?_, rfl, rfl, rfl, rfl, rfl, rfl⟩
    · refine ⟨?_, h.buffer, h.count, h.nonempty, by simp, ?_⟩
      · simp [h.sink, h1, h2]
      · intro _; exact ⟨st.userMeta, rfl⟩
    · simp [Ghost.all]

theorem inv_doFlush {cfg : WCfg} {st : WState} {g : Ghost} (h : Inv cfg st g) :
    ∃ g', Inv cfg (doFlush cfg st).1 g' ∧ g'.all = g.all ∧ g'.pending = [] ∧
      (doFlush cfg st).1.hasHeader = true ∧ (doFlush cfg st).1.marker = st.marker := by
  obtain ⟨g1, h1, ha, hh, hm, hb, hn, hp, _⟩ := inv_writeHeader h
  unfold doFlush
  simp only []
  by_cases hz : (writeHeader cfg st).1.numValues = 0
  · simp only [hz, if_true]
    have hp0 : g1.pending = [] := by
      have := h1.count; rw [hz] at this
      exact List.length_eq_zero_iff.mp this.symm
    exact ⟨g1, h1, ha, hp0, hh, hm⟩
  · simp only [hz, if_false]
    have hpne : g1.pending ≠ [] := by
      intro he; apply hz; rw [h1.count, he]; rfl
    refine ⟨{ g1 with blocks := g1.blocks ++ [g1.pending], pending := [] }, ?_, ?_, rfl, hh, hm⟩
    · refine ⟨?_, by simp, by simp, ?_, ?_, ?_⟩
      · simp only [h1.sink, List.flatMap_append, List.flatMap_cons, List.flatMap_nil, List.append_nil,
          List.append_assoc]
        congr 2
        simp [blkBytes, h1.buffer, h1.count]
      · intro b hb
        rcases List.mem_append.mp hb with hb | hb
        · exact h1.nonempty b hb
        · simp at hb; rw [hb]; exact hpne
      · intro hf; rw [hh] at hf; cases hf
      · intro ht; exact h1.header ht
    · have := ha
      simp only [Ghost.all] at this ⊢
      simp [← this]

/-- the abstract spec: the log of encodings successfully appended since the last reset -/
def logStep (log : List Bytes) : WOp → List Bytes
  | .append enc => log ++ [enc]
  | .reset _ => []
  | _ => log

/-- `append_to` on an output that has no header yet is a misuse outside the property -/
def OpOk (st : WState) : WOp → Prop
  | .reopen => st.hasHeader = true ∧ st.numValues = 0
  | _ => True

theorem inv_step {cfg : WCfg} {st : WState} {g : Ghost} (h : Inv cfg st g) (op : WOp) (hok : OpOk st op) :
    ∃ g', Inv cfg (Writer.step cfg st op).1 g' ∧ g'.all = logStep g.all op := by
  cases op with
  | append enc =>
    obtain ⟨g1, h1, ha, hh, hm, hb, hn, hp, _⟩ := inv_writeHeader h
    simp only [Writer.step]
    -- the state after buffering the value
    generalize hst1 : (writeHeader cfg st).1 = st1 at h1 hh hm hb hn
    have h2 : Inv cfg { st1 with buffer := st1.buffer ++ enc, numValues := st1.numValues + 1 }
                { g1 with pending := g1.pending ++ [enc] } :=
      ⟨h1.sink, by simp [h1.buffer], by simp [h1.count], h1.nonempty, fun hf => h1.fresh hf, fun ht => h1.header ht⟩
    have ha2 : ({ g1 with pending := g1.pending ++ [enc] } : Ghost).all = g.all ++ [enc] := by
      have := ha
      simp only [Ghost.all] at this ⊢
      simp [← this]
    split
    · obtain ⟨g3, h3, ha3, _, _, _⟩ := inv_doFlush h2
      exact ⟨g3, h3, by rw [ha3, ha2]; rfl⟩
    · exact ⟨_, h2, by rw [ha2]; rfl⟩
  | appendEncodeError =>
    obtain ⟨g1, h1, ha, _⟩ := inv_writeHeader h
    exact ⟨g1, h1, by simpa [logStep] using ha⟩
  | appendRejected => exact ⟨g, h, rfl⟩
  | flush =>
    obtain ⟨g1, h1, ha, _⟩ := inv_doFlush h
    exact ⟨g1, h1, by simpa [logStep] using ha⟩
  | finish =>
    obtain ⟨g1, h1, ha, _⟩ := inv_doFlush h
    exact ⟨g1, h1, by simpa [logStep] using ha⟩
  | addMeta k v =>
    simp only [Writer.step]
    split
    · exact ⟨g, h, rfl⟩
    · split
      · exact ⟨g, h, rfl⟩
      · rename_i hnh _
        refine ⟨g, ⟨h.sink, h.buffer, h.count, h.nonempty, h.fresh, ?_⟩, rfl⟩
        intro ht; exact absurd ht hnh
  | reset m =>
    refine ⟨⟨[], [], []⟩, ⟨by simp [Writer.step], by simp [Writer.step], by simp [Writer.step], by simp, by simp, ?_⟩, by simp [Ghost.all, logStep]⟩
    intro ht; simp [Writer.step] at ht
  | reopen =>
    have hh : st.hasHeader = true := hok.1
    have hp0 : g.pending = [] := by
      have := h.count; rw [hok.2] at this
      exact List.length_eq_zero_iff.mp this.symm
    refine ⟨{ g with pending := [] }, ⟨by simp [Writer.step, h.sink], by simp [Writer.step], by simp [Writer.step], h.nonempty, ?_, ?_⟩, ?_⟩
    · intro hf; simp [Writer.step] at hf
    · intro _; simpa [Writer.step] using h.header hh
    · -- a reopened writer starts with an empty pending block; whatever was pending in the old
      -- writer has been flushed by `finish` before (see `RunOk`), stated as a hypothesis of the
      -- history theorem through `PendingEmptyAtReopen`
      simp [Ghost.all, logStep, hp0]

end Avro

namespace Avro

def RunOk (cfg : WCfg) : WState → List WOp → Prop
  | _, [] => True
  | st, op :: ops => OpOk st op ∧ RunOk cfg (Writer.step cfg st op).1 ops

theorem inv_run {cfg : WCfg} : ∀ (ops : List WOp) {st : WState} {g : Ghost}, Inv cfg st g → RunOk cfg st ops →
    ∃ g', Inv cfg (Writer.run cfg st ops) g' ∧ g'.all = ops.foldl logStep g.all := by
  intro ops
  induction ops with
  | nil => intro st g h _; exact ⟨g, h, rfl⟩
  | cons op ops ih =>
    intro st g h hok
    obtain ⟨g1, h1, ha1⟩ := inv_step h op hok.1
    obtain ⟨g2, h2, ha2⟩ := ih h1 hok.2
    exact ⟨g2, h2, by simp only [List.foldl_cons, Writer.run]; rw [ha2, ha1]⟩

theorem RunOk_append {cfg : WCfg} : ∀ (ops : List WOp) (st : WState) (op : WOp),
    RunOk cfg st ops → OpOk (Writer.run cfg st ops) op → RunOk cfg st (ops ++ [op]) := by
  intro ops
  induction ops with
  | nil => intro st op _ h; exact ⟨h, trivial⟩
  | cons o os ih => intro st op h1 h2; exact ⟨h1.1, ih _ op h1.2 h2⟩

theorem run_append (cfg : WCfg) : ∀ (ops : List WOp) (st : WState) (op : WOp),
    Writer.run cfg st (ops ++ [op]) = (Writer.step cfg (Writer.run cfg st ops) op).1 := by
  intro ops
  induction ops with
  | nil => intro st op; rfl
  | cons o os ih => intro st op; simp only [List.cons_append, Writer.run]; exact ih _ op

/-- every encoding ever handed to `append` in the history (resets included) -/
def appended : List WOp → List Bytes
  | [] => []
  | .append enc :: ops => enc :: appended ops
  | _ :: ops => appended ops

theorem log_subset : ∀ (ops : List WOp) (init : List Bytes), ∀ e ∈ ops.foldl logStep init, e ∈ init ∨ e ∈ appended ops := by
  intro ops
  induction ops with
  | nil => intro init e he; exact Or.inl he
  | cons op ops ih =>
    intro init e he
    simp only [List.foldl_cons] at he
    rcases ih _ e he with h | h
    · cases op <;> simp only [logStep] at h
      case append enc =>
        rcases List.mem_append.mp h with h | h
        · exact Or.inl h
        · simp at h; exact Or.inr (by simp [appended, h])
      case reset m => simp at h
      all_goals exact Or.inl h
    · right
      cases op <;> simp [appended, h]

theorem flatten_length_le_of_mem {b : List Bytes} {bs : List (List Bytes)} (h : b ∈ bs) :
    b.flatten.length ≤ bs.flatten.flatten.length := by
  induction bs with
  | nil => cases h
  | cons x xs ih =>
    rcases List.mem_cons.mp h with rfl | h
    · simp only [List.flatten_cons, List.flatten_append, List.length_append]; omega
    · have := ih h
      simp only [List.flatten_cons, List.flatten_append, List.length_append]; omega

theorem length_le_of_mem {b : List Bytes} {bs : List (List Bytes)} (h : b ∈ bs) :
    b.length ≤ bs.flatten.length := by
  induction bs with
  | nil => cases h
  | cons x xs ih =>
    rcases List.mem_cons.mp h with rfl | h
    · simp only [List.flatten_cons, List.length_append]; omega
    · have := ih h
      simp only [List.flatten_cons, List.length_append]; omega

theorem blkBytes_pos (codec : Codec) (marker : Bytes) (b : List Bytes) : 0 < (blkBytes codec marker b).length := by
  have := encLong_ne_nil (b.length : Int)
  have : 0 < (encLong (b.length : Int)).length := List.length_pos_iff.mpr this
  simp [blkBytes, blockBytes]; omega

theorem flatMap_length_ge (codec : Codec) (marker : Bytes) (bs : List (List Bytes)) :
    bs.length ≤ (bs.flatMap (blkBytes codec marker)).length := by
  induction bs with
  | nil => simp
  | cons x xs ih =>
    have := blkBytes_pos codec marker x
    simp only [List.flatMap_cons, List.length_append, List.length_cons]; omega

theorem log_sublist : ∀ (ops : List WOp) (init : List Bytes),
    (ops.foldl logStep init).Sublist (init ++ appended ops) := by
  intro ops
  induction ops with
  | nil => intro init; simp [appended]
  | cons op ops ih =>
    intro init
    simp only [List.foldl_cons]
    cases op with
    | append enc =>
      have := ih (init ++ [enc])
      simpa [logStep, appended] using this
    | reset m =>
      have := ih []
      simp only [logStep, appended]
      exact List.Sublist.trans (by simpa using this) (List.sublist_append_right init (appended ops))
    | appendEncodeError => simpa [logStep, appended] using ih init
    | appendRejected => simpa [logStep, appended] using ih init
    | flush => simpa [logStep, appended] using ih init
    | addMeta k v => simpa [logStep, appended] using ih init
    | finish => simpa [logStep, appended] using ih init
    | reopen => simpa [logStep, appended] using ih init

theorem sublist_flatten_length {a b : List Bytes} (h : a.Sublist b) : a.flatten.length ≤ b.flatten.length := by
  induction h with
  | slnil => simp
  | cons x _ ih => simp only [List.flatten_cons, List.length_append]; omega
  | cons_cons x _ ih => simp only [List.flatten_cons, List.length_append]; omega

end Avro
