import AvroModel
import AvroProofs.Lemmas.Varint
/-! Helper lemmas for the datum layer (encode/decode building blocks). -/
namespace Avro

theorem takeExact_append (b rest : Bytes) : takeExact b.length (b ++ rest) = .ok (b, rest) := by
  induction b with
  | nil => cases rest <;> simp [takeExact]
  | cons x xs ih => simp [takeExact, ih]

theorem takeExact_append' (n : Nat) (b rest : Bytes) (h : b.length = n) :
    takeExact n (b ++ rest) = .ok (b, rest) := by
  subst h; exact takeExact_append b rest

theorem leBytes_length (k n : Nat) : (leBytes k n).length = k := by
  induction k generalizing n with
  | zero => simp [leBytes]
  | succ k ih => simp [leBytes, ih]

theorem ofLeBytes_leBytes (k n : Nat) : ofLeBytes (leBytes k n) = n % 256^k := by
  induction k generalizing n with
  | zero => simp [leBytes, ofLeBytes, Nat.mod_one]
  | succ k ih =>
    simp only [leBytes, ofLeBytes, ih]
    rw [u8_toNat_ofNat _ (Nat.mod_lt _ (by omega))]
    rw [Nat.pow_succ, Nat.mul_comm (256^k) 256, Nat.mod_mul]

theorem safeLen_ok {lim n : Nat} (h : n ≤ lim) : safeLen lim n = .ok n := by
  simp [safeLen, h]

/-- `decode_len ∘ encode_long` on a length. -/
theorem decLen_encLong (lim n : Nat) (h : n ≤ lim) (hl : lim < 2^63) (rest : Bytes) :
    decLen lim (encLong n ++ rest) = .ok (n, rest) := by
  unfold decLen
  rw [decLong_encLong (n : Int) (by omega) (by omega)]
  have : ¬ ((n : Int) < 0) := by omega
  simp [this, safeLen, h]

theorem decBytes_encBytes (lim : Nat) (b : Bytes) (h : b.length ≤ lim) (hl : lim < 2^63) (rest : Bytes) :
    decBytes lim (encBytes b ++ rest) = .ok (b, rest) := by
  unfold decBytes encBytes
  rw [List.append_assoc, decLen_encLong lim b.length h hl]
  simp [takeExact_append]

theorem decString_encBytes (lim : Nat) (b : Bytes) (h : b.length ≤ lim) (hl : lim < 2^63)
    (hu : validUtf8 b = true) (rest : Bytes) :
    decString lim (encBytes b ++ rest) = .ok (b, rest) := by
  unfold decString
  rw [decBytes_encBytes lim b h hl]
  simp [hu]

theorem decFixed_ok (lim : Nat) (b : Bytes) (h : b.length ≤ lim) (rest : Bytes) :
    decFixed lim b.length (b ++ rest) = .ok (b, rest) := by
  unfold decFixed
  simp [safeLen, h, takeExact_append]

/-- positive block count: `decode_seq_len`. -/
theorem decSeqLen_pos (lim n : Nat) (hn : 0 < n) (h : n ≤ lim) (hl : lim < 2^63) (rest : Bytes) :
    decSeqLen lim (encLong n ++ rest) = .ok (n, rest) := by
  unfold decSeqLen
  rw [decLong_encLong (n : Int) (by omega) (by omega)]
  have h1 : ¬ ((n : Int) = 0) := by omega
  have h2 : ¬ ((n : Int) < 0) := by omega
  have h3 : ¬ (n = 0) := by omega
  simp [h1, h2, h3, safeLen, h]

theorem encLong_zero : encLong 0 = [0] := by decide

theorem decSeqLen_zero (lim : Nat) (rest : Bytes) : decSeqLen lim (0 :: rest) = .ok (0, rest) := by
  have := decLong_encLong 0 (by omega) (by omega) rest
  rw [encLong_zero] at this
  unfold decSeqLen
  simp at this
  simp [this]

end Avro
