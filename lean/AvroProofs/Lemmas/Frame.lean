import AvroModel
import AvroProofs.Lemmas.DecodeSide
/-!
The decoder is *framed*: a successful decode consumed a prefix `c` of its input, returns the rest
untouched, and gives the same value whatever follows `c`.  Consequences (C06): the encodings of a
schema's values are prefix-free, and a datum cut anywhere inside is an error, never a value.
-/
namespace Avro

def Framed {α : Type} (f : Reader α) : Prop :=
  ∀ bs v r, f bs = .ok (v, r) → ∃ c, bs = c ++ r ∧ ∀ q, f (c ++ q) = .ok (v, q)

/-- sequencing two framed readers -/
def rbind {α β : Type} (f : Reader α) (g : α → Reader β) : Reader β :=
  fun bs => match f bs with
    | .ok (a, r) => g a r
    | .error e => .error e

/-- a step that reads nothing -/
def rpure {α β : Type} (k : α → Except Err β) : α → Reader β :=
  fun a r => match k a with
    | .ok b => .ok (b, r)
    | .error e => .error e

theorem framed_bind {α β : Type} {f : Reader α} {g : α → Reader β} (hf : Framed f) (hg : ∀ a, Framed (g a)) :
    Framed (rbind f g) := by
  intro bs v r h
  unfold rbind at h
  cases hfb : f bs with
  | error e => simp [hfb] at h
  | ok p =>
    obtain ⟨a, r1⟩ := p
    simp only [hfb] at h
    obtain ⟨c1, hc1, hq1⟩ := hf bs a r1 hfb
    obtain ⟨c2, hc2, hq2⟩ := hg a r1 v r h
    refine ⟨c1 ++ c2, by rw [hc1, hc2, List.append_assoc], ?_⟩
    intro q
    unfold rbind
    rw [List.append_assoc, hq1 (c2 ++ q)]
    exact hq2 q

theorem framed_pure {α β : Type} (k : α → Except Err β) (a : α) : Framed (rpure k a) := by
  intro bs v r h
  unfold rpure at h
  cases hk : k a with
  | error e => simp [hk] at h
  | ok b =>
    simp only [hk, Except.ok.injEq, Prod.mk.injEq] at h
    obtain ⟨h1, h2⟩ := h
    subst h1 h2
    exact ⟨[], rfl, fun q => by simp [rpure, hk]⟩

theorem framed_congr {α : Type} {f g : Reader α} (h : ∀ bs, f bs = g bs) (hg : Framed g) : Framed f := by
  have : f = g := funext h
  rw [this]; exact hg

/-! ### primitives -/

theorem framed_decodeVarAux : ∀ (fuel j acc : Nat), Framed (decodeVarAux fuel j acc) := by
  intro fuel
  induction fuel with
  | zero => intro j acc bs v r h; simp [decodeVarAux] at h
  | succ fuel ih =>
    intro j acc bs v r h
    cases bs with
    | nil => simp [decodeVarAux] at h
    | cons b rest =>
      simp only [decodeVarAux] at h
      by_cases hb : b.toNat >>> 7 = 0
      · simp only [hb, if_true, Except.ok.injEq, Prod.mk.injEq] at h
        obtain ⟨h1, h2⟩ := h
        subst h1 h2
        exact ⟨[b], rfl, fun q => by simp [decodeVarAux, hb]⟩
      · simp only [hb, if_false] at h
        obtain ⟨c, hc, hq⟩ := ih _ _ rest v r h
        refine ⟨b :: c, by rw [hc]; rfl, fun q => ?_⟩
        simp only [List.cons_append, decodeVarAux, hb, if_false]
        exact hq q

theorem framed_decodeVar : Framed decodeVar := framed_decodeVarAux 10 0 0

theorem framed_decLong : Framed decLong := by
  apply framed_congr (g := rbind decodeVar (rpure (fun z => .ok (zag z))))
  · intro bs; unfold decLong rbind rpure; cases decodeVar bs <;> rfl
  · exact framed_bind framed_decodeVar (framed_pure _)

theorem framed_decInt : Framed decInt := by
  apply framed_congr (g := rbind decLong (rpure (fun n => if -2147483648 ≤ n ∧ n < 2147483648 then .ok n else .error .i32Range)))
  · intro bs; unfold decInt rbind rpure
    cases decLong bs with
    | error e => rfl
    | ok p => obtain ⟨n, r⟩ := p; simp only []; split <;> rfl
  · exact framed_bind framed_decLong (framed_pure _)

theorem framed_decLen (lim : Nat) : Framed (decLen lim) := by
  apply framed_congr (g := rbind decLong (rpure (fun n => if n < 0 then .error .negLen else safeLen lim n.toNat)))
  · intro bs; unfold decLen rbind rpure
    cases decLong bs with
    | error e => rfl
    | ok p =>
      obtain ⟨n, r⟩ := p
      simp only []
      split
      · rfl
      · cases safeLen lim n.toNat <;> rfl
  · exact framed_bind framed_decLong (framed_pure _)

theorem framed_takeExact : ∀ (n : Nat), Framed (takeExact n) := by
  intro n bs v r h
  obtain ⟨hl, hb⟩ := takeExact_ok n bs v r h
  refine ⟨v, hb, fun q => ?_⟩
  subst hl
  exact takeExact_append v q

theorem framed_decSeqLen (lim : Nat) : Framed (decSeqLen lim) := by
  apply framed_congr (g := rbind decLong (fun raw =>
    if raw = 0 then rpure (fun _ => .ok 0) ()
    else if raw < 0 then
      rbind decLong (rpure (fun _ => if raw = -9223372036854775808 then .error .overflow else safeLen lim (-raw).toNat))
    else rpure (fun _ => safeLen lim raw.toNat) ()))
  · intro bs; unfold decSeqLen rbind
    cases decLong bs with
    | error e => rfl
    | ok p =>
      obtain ⟨raw, r⟩ := p
      simp only []
      split
      · rfl
      · split
        · unfold rpure
          dsimp only
          cases decLong r with
          | error e => rfl
          | ok p2 =>
            obtain ⟨x, r'⟩ := p2
            simp only []
            split
            · rfl
            · cases safeLen lim (-raw).toNat <;> rfl
        · unfold rpure
          cases safeLen lim raw.toNat <;> rfl
  · apply framed_bind framed_decLong
    intro raw
    split
    · exact framed_pure _ _
    · split
      · exact framed_bind framed_decLong (framed_pure _)
      · exact framed_pure _ _

theorem framed_decBytes (lim : Nat) : Framed (decBytes lim) := by
  apply framed_congr (g := rbind (decLen lim) (fun len => takeExact len))
  · intro bs; unfold decBytes rbind; cases decLen lim bs with
    | error e => rfl
    | ok p => rfl
  · exact framed_bind (framed_decLen lim) framed_takeExact

theorem framed_decString (lim : Nat) : Framed (decString lim) := by
  apply framed_congr (g := rbind (decBytes lim) (rpure (fun b => if validUtf8 b then .ok b else .error .badUtf8)))
  · intro bs; unfold decString rbind rpure; cases decBytes lim bs with
    | error e => rfl
    | ok p => obtain ⟨b, r⟩ := p; simp only []; split <;> rfl
  · exact framed_bind (framed_decBytes lim) (framed_pure _)

theorem framed_decFixed (lim size : Nat) : Framed (decFixed lim size) := by
  intro bs v r h
  unfold decFixed at h
  cases hs : safeLen lim size with
  | error e => simp [hs] at h
  | ok k =>
    simp only [hs] at h
    obtain ⟨c, hc, hq⟩ := framed_takeExact size bs v r h
    exact ⟨c, hc, fun q => by unfold decFixed; simp only [hs]; exact hq q⟩

/-! ### loops -/

theorem framed_decodeN {α : Type} {f : Reader α} (hf : Framed f) : ∀ (n : Nat) (acc : List α), Framed (decodeN f n acc) := by
  intro n
  induction n with
  | zero =>
    intro acc bs v r h
    simp only [decodeN, Except.ok.injEq, Prod.mk.injEq] at h
    obtain ⟨h1, h2⟩ := h
    subst h1 h2
    exact ⟨[], rfl, fun q => by simp [decodeN]⟩
  | succ n ih =>
    intro acc bs v r h
    simp only [decodeN] at h
    cases hfb : f bs with
    | error e => simp [hfb] at h
    | ok p =>
      obtain ⟨a, r1⟩ := p
      simp only [hfb] at h
      obtain ⟨c1, hc1, hq1⟩ := hf bs a r1 hfb
      obtain ⟨c2, hc2, hq2⟩ := ih (a :: acc) r1 v r h
      refine ⟨c1 ++ c2, by rw [hc1, hc2, List.append_assoc], fun q => ?_⟩
      simp only [decodeN, List.append_assoc, hq1 (c2 ++ q)]
      exact hq2 q

/-- the block loop with ANY sufficient block budget -/
theorem arrayLoop_frame (cfg : Cfg) {f : Reader Value} (hf : Framed f) :
    ∀ (bfuel : Nat) (acc : List Value) (bs : Bytes) (v : List Value) (r : Bytes),
      arrayLoop cfg f bfuel acc bs = .ok (v, r) →
      ∃ c, bs = c ++ r ∧ ∀ q bfuel', c.length + 1 ≤ bfuel' → arrayLoop cfg f bfuel' acc (c ++ q) = .ok (v, q) := by
  intro bfuel
  induction bfuel with
  | zero => intro acc bs v r h; simp [arrayLoop] at h
  | succ bfuel ih =>
    intro acc bs v r h
    simp only [arrayLoop] at h
    cases hd : decSeqLen cfg.lim bs with
    | error e => simp [hd] at h
    | ok p =>
      obtain ⟨len, r1⟩ := p
      simp only [hd] at h
      obtain ⟨c1, hc1, hq1⟩ := framed_decSeqLen cfg.lim bs len r1 hd
      have hc1len : 1 ≤ c1.length := by
        cases c1 with
        | nil => have := hq1 []; simp [decSeqLen, decLong, decodeVar, decodeVarAux] at this
        | cons _ _ => simp
      by_cases h0 : len = 0
      · simp only [h0, if_true, Except.ok.injEq, Prod.mk.injEq] at h
        obtain ⟨h1, h2⟩ := h
        subst h1 h2
        refine ⟨c1, hc1, fun q bfuel' hb => ?_⟩
        obtain ⟨k, rfl⟩ : ∃ k, bfuel' = k + 1 := ⟨bfuel' - 1, by omega⟩
        simp only [arrayLoop, hq1 q, h0, if_true]
      · simp only [h0, if_false] at h
        by_cases hov : acc.length + len ≥ 2^64
        · simp [hov] at h
        · simp only [hov, if_false] at h
          cases hs : safeCollectionLen cfg.lim cfg.szValue (acc.length + len) with
          | error e => simp [hs] at h
          | ok u =>
            simp only [hs] at h
            cases hn : decodeN f len [] r1 with
            | error e => simp [hn] at h
            | ok p2 =>
              obtain ⟨items, r2⟩ := p2
              simp only [hn] at h
              obtain ⟨c2, hc2, hq2⟩ := framed_decodeN hf len [] r1 items r2 hn
              obtain ⟨c3, hc3, hq3⟩ := ih (acc ++ items) r2 v r h
              refine ⟨c1 ++ c2 ++ c3, by rw [hc1, hc2, hc3]; simp [List.append_assoc], fun q bfuel' hb => ?_⟩
              have hlen : (c1 ++ c2 ++ c3).length = c1.length + c2.length + c3.length := by simp [Nat.add_assoc]
              obtain ⟨k, rfl⟩ : ∃ k, bfuel' = k + 1 := ⟨bfuel' - 1, by omega⟩
              have e1 : c1 ++ c2 ++ c3 ++ q = c1 ++ (c2 ++ (c3 ++ q)) := by simp [List.append_assoc]
              simp only [arrayLoop, e1, hq1 (c2 ++ (c3 ++ q)), h0, if_false, hov, hs, hq2 (c3 ++ q)]
              exact hq3 q k (by omega)

theorem mapLoop_frame (cfg : Cfg) {f : Reader (Bytes × Value)} (hf : Framed f) :
    ∀ (bfuel : Nat) (acc : List (Bytes × Value)) (bs : Bytes) (v : List (Bytes × Value)) (r : Bytes),
      mapLoop cfg f bfuel acc bs = .ok (v, r) →
      ∃ c, bs = c ++ r ∧ ∀ q bfuel', c.length + 1 ≤ bfuel' → mapLoop cfg f bfuel' acc (c ++ q) = .ok (v, q) := by
  intro bfuel
  induction bfuel with
  | zero => intro acc bs v r h; simp [mapLoop] at h
  | succ bfuel ih =>
    intro acc bs v r h
    simp only [mapLoop] at h
    cases hd : decSeqLen cfg.lim bs with
    | error e => simp [hd] at h
    | ok p =>
      obtain ⟨len, r1⟩ := p
      simp only [hd] at h
      obtain ⟨c1, hc1, hq1⟩ := framed_decSeqLen cfg.lim bs len r1 hd
      have hc1len : 1 ≤ c1.length := by
        cases c1 with
        | nil => have := hq1 []; simp [decSeqLen, decLong, decodeVar, decodeVarAux] at this
        | cons _ _ => simp
      by_cases h0 : len = 0
      · simp only [h0, if_true, Except.ok.injEq, Prod.mk.injEq] at h
        obtain ⟨h1, h2⟩ := h
        subst h1 h2
        refine ⟨c1, hc1, fun q bfuel' hb => ?_⟩
        obtain ⟨k, rfl⟩ : ∃ k, bfuel' = k + 1 := ⟨bfuel' - 1, by omega⟩
        simp only [mapLoop, hq1 q, h0, if_true]
      · simp only [h0, if_false] at h
        by_cases hov : acc.length + len ≥ 2^64
        · simp [hov] at h
        · simp only [hov, if_false] at h
          cases hs : safeCollectionLen cfg.lim cfg.szEntry (acc.length + len) with
          | error e => simp [hs] at h
          | ok u =>
            simp only [hs] at h
            cases hn : decodeN f len [] r1 with
            | error e => simp [hn] at h
            | ok p2 =>
              obtain ⟨items, r2⟩ := p2
              simp only [hn] at h
              obtain ⟨c2, hc2, hq2⟩ := framed_decodeN hf len [] r1 items r2 hn
              obtain ⟨c3, hc3, hq3⟩ := ih _ r2 v r h
              refine ⟨c1 ++ c2 ++ c3, by rw [hc1, hc2, hc3]; simp [List.append_assoc], fun q bfuel' hb => ?_⟩
              have hlen : (c1 ++ c2 ++ c3).length = c1.length + c2.length + c3.length := by simp [Nat.add_assoc]
              obtain ⟨k, rfl⟩ : ∃ k, bfuel' = k + 1 := ⟨bfuel' - 1, by omega⟩
              have e1 : c1 ++ c2 ++ c3 ++ q = c1 ++ (c2 ++ (c3 ++ q)) := by simp [List.append_assoc]
              simp only [mapLoop, e1, hq1 (c2 ++ (c3 ++ q)), h0, if_false, hov, hs, hq2 (c3 ++ q)]
              exact hq3 q k (by omega)

theorem framed_decodeFields {f : Schema → Reader Value} (hf : ∀ s, Framed (f s)) :
    ∀ (fields : List (FieldMeta × Schema)), Framed (decodeFieldsWith f fields) := by
  intro fields
  induction fields with
  | nil =>
    intro bs v r h
    simp only [decodeFieldsWith, Except.ok.injEq, Prod.mk.injEq] at h
    obtain ⟨h1, h2⟩ := h
    subst h1 h2
    exact ⟨[], rfl, fun q => by simp [decodeFieldsWith]⟩
  | cons ms rest ih =>
    obtain ⟨m, s⟩ := ms
    intro bs v r h
    simp only [decodeFieldsWith] at h
    cases hfb : f s bs with
    | error e => simp [hfb] at h
    | ok p =>
      obtain ⟨a, r1⟩ := p
      simp only [hfb] at h
      cases hr : decodeFieldsWith f rest r1 with
      | error e => simp [hr] at h
      | ok p2 =>
        obtain ⟨vs, r2⟩ := p2
        simp only [hr, Except.ok.injEq, Prod.mk.injEq] at h
        obtain ⟨h1, h2⟩ := h
        subst h1 h2
        obtain ⟨c1, hc1, hq1⟩ := hf s bs a r1 hfb
        obtain ⟨c2, hc2, hq2⟩ := ih r1 vs r2 hr
        refine ⟨c1 ++ c2, by rw [hc1, hc2, List.append_assoc], fun q => ?_⟩
        simp only [decodeFieldsWith, List.append_assoc, hq1 (c2 ++ q), hq2 q]

theorem framed_decEntry (lim : Nat) {f : Reader Value} (hf : Framed f) : Framed (decEntryWith lim f) := by
  apply framed_congr (g := rbind (decString lim) (fun k => rbind f (rpure (fun v => .ok (k, v)))))
  · intro bs; unfold decEntryWith rbind rpure
    cases decString lim bs with
    | error e => rfl
    | ok p =>
      obtain ⟨k, r⟩ := p
      simp only []
      cases f r with
      | error e => rfl
      | ok p2 => rfl
  · exact framed_bind (framed_decString lim) (fun k => framed_bind hf (framed_pure _))

/-! ### the decoder -/

theorem framed_of_map {α β : Type} {f : Reader α} (hf : Framed f) (k : α → Except Err β) {g : Reader β}
    (hg : ∀ bs, g bs = rbind f (rpure k) bs) : Framed g :=
  framed_congr hg (framed_bind hf (framed_pure k))

theorem framed_decode (cfg : Cfg) (env : Names) : ∀ (fuel : Nat) (s : Schema), Framed (decode cfg env fuel s) := by
  intro fuel
  induction fuel with
  | zero => intro s bs v r h; simp [decode] at h
  | succ fuel ih =>
    intro s
    cases s with
    | null =>
      intro bs v r h
      simp only [decode, Except.ok.injEq, Prod.mk.injEq] at h
      obtain ⟨h1, h2⟩ := h
      subst h1 h2
      exact ⟨[], rfl, fun q => by simp [decode]⟩
    | boolean =>
      intro bs v r h
      cases bs with
      | nil => simp [decode] at h
      | cons b rest =>
        simp only [decode] at h
        refine ⟨[b], ?_, fun q => ?_⟩
        · split at h
          · simp at h; rw [h.2]; rfl
          · split at h
            · simp at h; rw [h.2]; rfl
            · simp at h
        · simp only [List.cons_append, List.nil_append, decode]
          split at h
          · rename_i hb; simp at h; simp [hb, h.1]
          · split at h
            · rename_i hb0 hb1; simp at h; simp [hb1, h.1]
            · simp at h
    | int => exact framed_of_map framed_decInt (fun n => .ok (.int n)) (fun bs => by
        simp only [decode, rbind, rpure]; cases decInt bs <;> rfl)
    | date => exact framed_of_map framed_decInt (fun n => .ok (.date n)) (fun bs => by
        simp only [decode, rbind, rpure]; cases decInt bs <;> rfl)
    | timeMillis => exact framed_of_map framed_decInt (fun n => .ok (.timeMillis n)) (fun bs => by
        simp only [decode, rbind, rpure]; cases decInt bs <;> rfl)
    | long => exact framed_of_map framed_decLong (fun n => .ok (.long n)) (fun bs => by
        simp only [decode, rbind, rpure]; cases decLong bs <;> rfl)
    | longL k => exact framed_of_map framed_decLong (fun n => .ok (.longL k n)) (fun bs => by
        simp only [decode, rbind, rpure]; cases decLong bs <;> rfl)
    | float => exact framed_of_map (framed_takeExact 4) (fun b => .ok (.float (UInt32.ofNat (ofLeBytes b)))) (fun bs => by
        simp only [decode, rbind, rpure]; cases takeExact 4 bs <;> rfl)
    | double => exact framed_of_map (framed_takeExact 8) (fun b => .ok (.double (UInt64.ofNat (ofLeBytes b)))) (fun bs => by
        simp only [decode, rbind, rpure]; cases takeExact 8 bs <;> rfl)
    | bytes => exact framed_of_map (framed_decBytes cfg.lim) (fun b => .ok (.bytes b)) (fun bs => by
        simp only [decode, rbind, rpure]; cases decBytes cfg.lim bs <;> rfl)
    | string => exact framed_of_map (framed_decString cfg.lim) (fun b => .ok (.string b)) (fun bs => by
        simp only [decode, rbind, rpure]; cases decString cfg.lim bs <;> rfl)
    | fixed n size => exact framed_of_map (framed_decFixed cfg.lim size) (fun b => .ok (.fixed size b)) (fun bs => by
        simp only [decode, rbind, rpure]; cases decFixed cfg.lim size bs <;> rfl)
    | decimal p sc inner =>
      cases inner with
      | fixed n size => exact framed_of_map (framed_decFixed cfg.lim size) (fun b => .ok (.decimal (fromSignedBE b) b.length)) (fun bs => by
          simp only [decode, rbind, rpure]; cases decFixed cfg.lim size bs <;> rfl)
      | bytes => exact framed_of_map (framed_decBytes cfg.lim) (fun b => .ok (.decimal (fromSignedBE b) b.length)) (fun bs => by
          simp only [decode, rbind, rpure]; cases decBytes cfg.lim bs <;> rfl)
    | bigDecimal =>
      exact framed_of_map (framed_decBytes cfg.lim)
        (fun b => match deserBigDecimal cfg.lim b with | .ok (u, sc) => .ok (.bigDecimal u sc) | .error e => .error e) (fun bs => by
          simp only [decode, rbind, rpure]
          cases decBytes cfg.lim bs with
          | error e => rfl
          | ok p => obtain ⟨b, r⟩ := p; simp only []; cases deserBigDecimal cfg.lim b with
            | error e => rfl
            | ok p2 => rfl)
    | uuidString =>
      exact framed_of_map (framed_decString cfg.lim)
        (fun b => match uuidParse b with | some u => .ok (.uuid u) | none => .error .badUuid) (fun bs => by
          simp only [decode, rbind, rpure]
          cases decString cfg.lim bs with
          | error e => rfl
          | ok p => obtain ⟨b, r⟩ := p; simp only []; cases uuidParse b <;> rfl)
    | uuidBytes =>
      exact framed_of_map (framed_decBytes cfg.lim)
        (fun b => if b.length = 16 then .ok (.uuid b) else .error .badUuid) (fun bs => by
          simp only [decode, rbind, rpure]
          cases decBytes cfg.lim bs with
          | error e => rfl
          | ok p => obtain ⟨b, r⟩ := p; simp only []; split <;> rfl)
    | uuidFixed n size =>
      exact framed_of_map (framed_decFixed cfg.lim size)
        (fun b => if size ≠ 16 then .error .fixedSize else .ok (.uuid b)) (fun bs => by
          simp only [decode, rbind, rpure]
          cases decFixed cfg.lim size bs with
          | error e => rfl
          | ok p => obtain ⟨b, r⟩ := p; simp only []; split <;> rfl)
    | duration n size =>
      by_cases hs : size = 12
      · exact framed_of_map (framed_takeExact 12)
          (fun b => .ok (.duration (ofLeBytes (b.take 4)) (ofLeBytes ((b.drop 4).take 4)) (ofLeBytes (b.drop 8)))) (fun bs => by
            simp only [decode, hs, if_true, rbind, rpure]; cases takeExact 12 bs <;> rfl)
      · intro bs v r h; simp [decode, hs] at h
    | array inner =>
      intro bs v r h
      simp only [decode] at h
      cases ha : arrayLoop cfg (decode cfg env fuel inner) (bs.length + 1) [] bs with
      | error e => simp [ha] at h
      | ok p =>
        obtain ⟨items, r1⟩ := p
        simp only [ha, Except.ok.injEq, Prod.mk.injEq] at h
        obtain ⟨h1, h2⟩ := h
        subst h1 h2
        obtain ⟨c, hc, hq⟩ := arrayLoop_frame cfg (ih inner) _ _ _ _ _ ha
        refine ⟨c, hc, fun q => ?_⟩
        simp only [decode, hq q ((c ++ q).length + 1) (by simp)]
    | map inner =>
      intro bs v r h
      simp only [decode] at h
      cases ha : mapLoop cfg (decEntryWith cfg.lim (decode cfg env fuel inner)) (bs.length + 1) [] bs with
      | error e => simp [ha] at h
      | ok p =>
        obtain ⟨es, r1⟩ := p
        simp only [ha, Except.ok.injEq, Prod.mk.injEq] at h
        obtain ⟨h1, h2⟩ := h
        subst h1 h2
        obtain ⟨c, hc, hq⟩ := mapLoop_frame cfg (framed_decEntry cfg.lim (ih inner)) _ _ _ _ _ ha
        refine ⟨c, hc, fun q => ?_⟩
        simp only [decode, hq q ((c ++ q).length + 1) (by simp)]
    | union branches =>
      apply framed_congr (g := rbind decLong (fun idx =>
        if idx < 0 then rpure (fun _ => (.error .badIndex : Except Err Value)) ()
        else match branches[idx.toNat]? with
          | none => rpure (fun _ => (.error .badIndex : Except Err Value)) ()
          | some b => rbind (decode cfg env fuel b) (rpure (fun v => .ok (.union (idx.toNat % 2^32) v)))))
      · intro bs
        simp only [decode, rbind]
        cases decLong bs with
        | error e => rfl
        | ok p =>
          obtain ⟨idx, r⟩ := p
          simp only []
          split
          · rfl
          · cases branches[idx.toNat]? with
            | none => rfl
            | some b =>
              unfold rbind rpure
              dsimp only
              cases decode cfg env fuel b r with
              | error e => rfl
              | ok p2 => rfl
      · apply framed_bind framed_decLong
        intro idx
        split
        · exact framed_pure _ _
        · split
          · exact framed_pure _ _
          · exact framed_bind (ih _) (framed_pure _)
    | record n fields =>
      exact framed_of_map (framed_decodeFields (fun s => ih s) fields) (fun fs => .ok (.record fs)) (fun bs => by
        simp only [decode, rbind, rpure]; cases decodeFieldsWith (decode cfg env fuel) fields bs <;> rfl)
    | «enum» n syms d =>
      exact framed_of_map framed_decInt
        (fun i => if i < 0 then .error .badIndex else match syms[i.toNat]? with | some sym => .ok (.enum i.toNat sym) | none => .error .badIndex)
        (fun bs => by
          simp only [decode, rbind, rpure]
          cases decInt bs with
          | error e => rfl
          | ok p =>
            obtain ⟨i, r⟩ := p
            simp only []
            split
            · rfl
            · cases syms[i.toNat]? <;> rfl)
    | ref n =>
      intro bs v r h
      simp only [decode] at h
      cases hf : env.find? n with
      | none => simp [hf] at h
      | some s' =>
        simp only [hf] at h
        obtain ⟨c, hc, hq⟩ := ih s' bs v r h
        exact ⟨c, hc, fun q => by simp only [decode, hf]; exact hq q⟩

/-- a strict prefix of a complete datum is never a datum: decoding it is an error -/
theorem truncated_is_error (cfg : Cfg) (env : Names) (fuel : Nat) (s : Schema) (bs : Bytes) (v : Value)
    (h : decode cfg env fuel s bs = .ok (v, [])) (p q : Bytes) (hp : bs = p ++ q) (hq : q ≠ []) :
    ∃ e, decode cfg env fuel s p = .error e := by
  cases hd : decode cfg env fuel s p with
  | error e => exact ⟨e, rfl⟩
  | ok res =>
    obtain ⟨v', r'⟩ := res
    obtain ⟨c, hc, hframe⟩ := framed_decode cfg env fuel s p v' r' hd
    have := hframe (r' ++ q)
    rw [← List.append_assoc, ← hc, ← hp, h] at this
    simp only [Except.ok.injEq, Prod.mk.injEq] at this
    have : r' ++ q = [] := this.2.symm
    simp at this
    exact absurd this.2 hq

/-- a framed reader never succeeds on a strict prefix of what it consumed -/
theorem framed_prefix_error {α : Type} {f : Reader α} (hf : Framed f) {c : Bytes} {v : α}
    (h : f c = .ok (v, [])) {p q : Bytes} (hp : c = p ++ q) (hq : q ≠ []) : ∃ e, f p = .error e := by
  cases hd : f p with
  | error e => exact ⟨e, rfl⟩
  | ok res =>
    obtain ⟨v', r'⟩ := res
    obtain ⟨c', hc', hframe⟩ := hf p v' r' hd
    have := hframe (r' ++ q)
    rw [← List.append_assoc, ← hc', ← hp, h] at this
    simp only [Except.ok.injEq, Prod.mk.injEq] at this
    have : r' ++ q = [] := this.2.symm
    simp at this
    exact absurd this.2 hq

/-- the container header as a reader: metadata and marker -/
def headerReader (cfg : Cfg) (fuel : Nat) : Reader (List (Bytes × Bytes) × Bytes) :=
  fun bs => match readHeader cfg fuel bs with
    | .ok (md, marker, rest) => .ok ((md, marker), rest)
    | .error e => .error e

theorem framed_headerReader (cfg : Cfg) (fuel : Nat) : Framed (headerReader cfg fuel) := by
  apply framed_congr (g := rbind (takeExact 4) (fun m =>
    if m ≠ magic then rpure (fun _ => (.error .other : Except Err (List (Bytes × Bytes) × Bytes))) ()
    else rbind (decode cfg [] fuel (.map .bytes)) (fun v =>
      match v with
      | .map es => rbind (takeExact 16) (rpure (fun marker => .ok (es.filterMap metaBytesOnly, marker)))
      | _ => rpure (fun _ => (.error .other : Except Err (List (Bytes × Bytes) × Bytes))) ())))
  · intro bs
    unfold headerReader readHeader rbind
    cases takeExact 4 bs with
    | error e => rfl
    | ok p =>
      obtain ⟨m, r⟩ := p
      dsimp only
      by_cases hm : m = magic
      · simp only [hm, ne_eq, not_true_eq_false, if_false]
        cases decode cfg [] fuel (.map .bytes) r with
        | error e => rfl
        | ok p2 =>
          obtain ⟨v, r1⟩ := p2
          dsimp only
          cases v <;> try rfl
          case map es =>
            simp only [rpure]
            cases takeExact 16 r1 with
            | error e => rfl
            | ok p3 => rfl
      · simp [hm, rpure]
  · apply framed_bind (framed_takeExact 4)
    intro m
    split
    · exact framed_pure _ _
    · apply framed_bind (framed_decode cfg [] fuel (.map .bytes))
      intro v
      split
      · exact framed_bind (framed_takeExact 16) (framed_pure _)
      · exact framed_pure _ _

end Avro
