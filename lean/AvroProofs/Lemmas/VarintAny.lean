import AvroModel
import AvroProofs.Lemmas.Varint
/-!
`decode_variable` reads EVERY base-128 digit string of at most ten bytes whose value fits 64 bits - not only the
shortest one `encode_variable` writes: zero-padded ("non-canonical") varints, which other writers may produce and the
specification does not forbid, are read to the same number.
-/
namespace Avro

/-- the number a little-endian base-128 digit string denotes -/
def varintVal : List Nat → Nat
  | [] => 0
  | d :: ds => d + 128 * varintVal ds

/-- a digit string on the wire: continuation bit on every byte but the last -/
def varintBytes (ds : List Nat) (last : Nat) : Bytes :=
  ds.map (fun d => UInt8.ofNat (128 + d)) ++ [UInt8.ofNat last]

theorem decodeVarAux_digits (last : Nat) (hlast : last < 128) (rest : Bytes) :
    ∀ (ds : List Nat) (fuel j acc : Nat), (∀ d ∈ ds, d < 128) → ds.length + 1 ≤ fuel → acc < 2^(7*j) →
      acc + 2^(7*j) * varintVal (ds ++ [last]) < 2^64 →
      decodeVarAux fuel j acc (varintBytes ds last ++ rest) = .ok (acc + 2^(7*j) * varintVal (ds ++ [last]), rest)
  | [], fuel, j, acc, _, hf, hacc, hv => by
    cases fuel with
    | zero => simp at hf
    | succ f =>
      simp only [varintBytes, List.map_nil, List.nil_append, List.cons_append, decodeVarAux, varintVal,
        Nat.mul_zero, Nat.add_zero] at hv ⊢
      have hb : (UInt8.ofNat last).toNat = last := u8_toNat_ofNat last (by omega)
      have hand : last &&& 0x7F = last := by rw [and_7f]; exact Nat.mod_eq_of_lt hlast
      have hsh : last >>> 7 = 0 := by rw [Nat.shiftRight_eq_div_pow]; omega
      rw [hb, hand, or_shift acc last j hacc, if_pos hsh]
      have e : acc + last * 2^(7*j) = acc + 2^(7*j) * last := by rw [Nat.mul_comm]
      rw [e, Nat.mod_eq_of_lt hv]
  | d :: ds, fuel, j, acc, hd, hf, hacc, hv => by
    cases fuel with
    | zero => simp at hf
    | succ f =>
      have hd128 : d < 128 := hd d (by simp)
      simp only [varintBytes, List.map_cons, List.cons_append, decodeVarAux]
      have hb : (UInt8.ofNat (128 + d)).toNat = 128 + d := u8_toNat_ofNat _ (by omega)
      have hand : (128 + d) &&& 0x7F = d := by rw [and_7f]; omega
      have hsh : ¬ ((128 + d) >>> 7 = 0) := by rw [Nat.shiftRight_eq_div_pow]; omega
      rw [hb, hand, or_shift acc d j hacc, if_neg hsh]
      have e7 : 2^(7*(j+1)) = 128 * 2^(7*j) := by rw [Nat.mul_add, Nat.pow_add]; omega
      have hsum : acc + d * 2^(7*j) + 2^(7*(j+1)) * varintVal (ds ++ [last])
          = acc + 2^(7*j) * varintVal (d :: ds ++ [last]) := by
        simp only [List.cons_append, varintVal]
        rw [e7, Nat.mul_add, Nat.mul_comm (2^(7*j)) d, Nat.mul_assoc, Nat.mul_left_comm]
        omega
      have hlt : acc + d * 2^(7*j) < 2^64 := by
        have : acc + d * 2^(7*j) ≤ acc + 2^(7*j) * varintVal (d :: ds ++ [last]) := by
          rw [← hsum]; omega
        exact Nat.lt_of_le_of_lt this hv
      have hacc' : acc + d * 2^(7*j) < 2^(7*(j+1)) := by
        have : (d + 1) * 2^(7*j) ≤ 128 * 2^(7*j) := Nat.mul_le_mul_right _ hd128
        rw [Nat.add_mul] at this
        omega
      rw [Nat.mod_eq_of_lt hlt]
      have ih := decodeVarAux_digits last hlast rest ds f (j+1) (acc + d * 2^(7*j))
        (fun x hx => hd x (by simp [hx])) (by simp at hf; omega) hacc' (by rw [hsum]; exact hv)
      have e : varintBytes ds last = ds.map (fun d => UInt8.ofNat (128 + d)) ++ [UInt8.ofNat last] := rfl
      rw [← e, ih, hsum]; simp only [List.cons_append]

/-- **every digit string is read**: up to ten bytes, value below 2^64, canonical or zero-padded -/
theorem decodeVar_digits (ds : List Nat) (last : Nat) (hd : ∀ d ∈ ds, d < 128) (hlast : last < 128)
    (hlen : ds.length + 1 ≤ 10) (hv : varintVal (ds ++ [last]) < 2^64) (rest : Bytes) :
    decodeVar (varintBytes ds last ++ rest) = .ok (varintVal (ds ++ [last]), rest) := by
  unfold decodeVar
  have := decodeVarAux_digits last hlast rest ds 10 0 0 hd hlen (by simp) (by simpa using hv)
  simpa using this

/-- zero padding does not change the number: `ds ++ [last]` and `ds ++ [last, 0, …, 0]` denote the same value -/
theorem varintVal_pad (ds : List Nat) (k : Nat) : varintVal (ds ++ List.replicate k 0) = varintVal ds := by
  induction ds with
  | nil =>
    induction k with
    | zero => rfl
    | succ k ih => simp only [List.nil_append] at ih; simp [List.replicate_succ, varintVal, ih]
  | cons d ds ih => simp only [List.cons_append, varintVal, ih]

/-- what `encode_variable` writes is the shortest digit string of the number -/
theorem encodeVarAux_digits : ∀ (fuel z : Nat), 0 < fuel → z < 2^(7*fuel) →
    ∃ ds last, encodeVarAux fuel z = varintBytes ds last ∧ varintVal (ds ++ [last]) = z ∧
      (∀ d ∈ ds, d < 128) ∧ last < 128 ∧ ds.length + 1 ≤ fuel
  | 0, _, h, _ => by omega
  | fuel+1, z, _, hz => by
    unfold encodeVarAux
    by_cases hle : z ≤ 0x7F
    · rw [if_pos hle]
      refine ⟨[], z, ?_, by simp [varintVal], by simp, by omega, by simp⟩
      have : z &&& 0x7F = z := by rw [and_7f]; exact Nat.mod_eq_of_lt (by omega)
      simp [varintBytes, this]
    · rw [if_neg hle]
      have hf : 0 < fuel := by
        cases fuel with
        | zero => simp at hz; omega
        | succ f => omega
      have hz' : z >>> 7 < 2^(7*fuel) := by
        rw [Nat.shiftRight_eq_div_pow]
        have e : 2^(7*(fuel+1)) = 2^7 * 2^(7*fuel) := by rw [Nat.mul_add, Nat.pow_add, Nat.mul_comm]
        rw [e] at hz
        exact Nat.div_lt_of_lt_mul hz
      obtain ⟨ds, last, he, hv, hds, hl, hlen⟩ := encodeVarAux_digits fuel (z >>> 7) hf hz'
      have hd : z % 128 < 128 := Nat.mod_lt _ (by omega)
      refine ⟨z % 128 :: ds, last, ?_, ?_, ?_, hl, by simp; omega⟩
      · rw [he, and_7f, or_80 _ hd]; rfl
      · simp only [List.cons_append, varintVal, hv]
        rw [Nat.shiftRight_eq_div_pow]
        have := Nat.div_add_mod z 128
        have e7 : (2:Nat)^7 = 128 := by decide
        rw [e7]; omega
      · intro d hdm
        rcases List.mem_cons.mp hdm with rfl | h
        · exact hd
        · exact hds d h

end Avro
