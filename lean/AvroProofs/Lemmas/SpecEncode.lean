import AvroModel
import AvroProofs.Lemmas.SpecDecode
/-! C02, forward direction: what the model encoder writes for a conforming value is a
specification-legal encoding (a single positive-count block per array/map). -/
namespace Avro
open Avro.Spec

section
variable {cfg : Cfg} {env : Names}

def ES (cfg : Cfg) (env : Names) (s : Schema) (v : Value) : Prop :=
  ∃ enc n, (∀ fuel, n ≤ fuel → encode env fuel s v = .ok enc) ∧ SpecEnc cfg env s v enc

def ESItems (cfg : Cfg) (env : Names) (s : Schema) (vs : List Value) : Prop :=
  ∃ enc n, (∀ fuel, n ≤ fuel → concatMapE (encode env fuel s) vs = .ok enc) ∧ SpecItems cfg env s vs enc

def ESEntries (cfg : Cfg) (env : Names) (s : Schema) (es : List (Bytes × Value)) : Prop :=
  ∃ enc n, (∀ fuel, n ≤ fuel → concatMapE (encEntryWith (encode env fuel s)) es = .ok enc) ∧ SpecEntries cfg env s es enc

def ESFields (cfg : Cfg) (env : Names) (fs : List (FieldMeta × Schema)) (vs : List (Bytes × Value)) : Prop :=
  ∃ enc n, (∀ fuel, n ≤ fuel → ∀ all : List (Bytes × Value), (∀ kv ∈ vs, lookupLast all kv.1 = some kv.2) →
      encodeFieldsWith (encode env fuel) fs all = .ok enc) ∧ SpecFields cfg env fs vs enc

theorem es_leaf {s : Schema} {v : Value} (enc : Bytes) (h : ∀ f, encode env (f+1) s v = .ok enc)
    (hs : SpecEnc cfg env s v enc) : ES cfg env s v :=
  ⟨enc, 1, fun fuel hf => by obtain ⟨f, rfl⟩ : ∃ f, fuel = f + 1 := ⟨fuel - 1, by omega⟩; exact h f, hs⟩

mutual
theorem conforms_es (hl : cfg.lim < 2^63) (hP : PrimFacts) :
    ∀ {s : Schema} {v : Value}, Conforms cfg env s v → ES cfg env s v
  | _, _, .null => es_leaf [] (by intro f; simp [encode, deref]) .null
  | _, _, .boolean b => es_leaf _ (by intro f; simp [encode, deref]) (.boolean b)
  | _, _, .int h => es_leaf _ (by intro f; simp [encode, deref, encInt, ← long_i32 h]) (.int h)
  | _, _, .date h => es_leaf _ (by intro f; simp [encode, deref, encInt, ← long_i32 h]) (.date h)
  | _, _, .timeMillis h => es_leaf _ (by intro f; simp [encode, deref, encInt, ← long_i32 h]) (.timeMillis h)
  | _, _, .long h => es_leaf _ (by intro f; simp [encode, deref, ← long_i64 h]) (.long h)
  | _, _, .longL h => es_leaf _ (by intro f; simp [encode, deref, ← long_i64 h]) (.longL h)
  | _, _, .float b => es_leaf _ (by intro f; simp [encode, deref]) (.float b)
  | _, _, .double b => es_leaf _ (by intro f; simp [encode, deref]) (.double b)
  | _, _, .bytes (b := b) h =>
    es_leaf _ (by intro f; simp [encode, deref, encBytes, ← long_nat b.length (by omega)]) (.bytes h)
  | _, _, .string (u := u) h hu =>
    es_leaf _ (by intro f; simp [encode, deref, encBytes, ← long_nat u.length (by omega)]) (.string h hu)
  | _, _, .fixed h => es_leaf _ (by intro f; simp [encode, deref]) (.fixed h)
  | _, _, .enum (i := i) h hi =>
    es_leaf _ (by intro f; simp [encode, deref, u32AsI32_small hi, encInt, ← long_nat i (by omega)]) (.enum h hi)
  | _, _, .union (i := i) (bs := bs) h hi c => by
    obtain ⟨enc, n, he, hs⟩ := conforms_es hl hP c
    refine ⟨Spec.long i ++ enc, n + 1, ?_, .union h hi hs⟩
    intro fuel hf
    obtain ⟨f, rfl, hf'⟩ := succ_of_le hf
    simp [encode, deref, h, he f hf', long_nat i (by omega)]
  | _, _, .array (items := items) c h1 h2 => by
    obtain ⟨enc, n, he, hs⟩ := all_es hl hP c
    by_cases hemp : items = []
    · subst hemp
      exact es_leaf [0] (by intro f; simp [encode, deref]) (.array .done)
    · have hne : items.isEmpty = false := by cases items <;> simp_all
      refine ⟨Spec.long items.length ++ enc ++ [0], n + 1, ?_, ?_⟩
      · intro fuel hf
        obtain ⟨f, rfl, hf'⟩ := succ_of_le hf
        simp [encode, deref, hne, he f hf', long_nat items.length (by omega)]
      · have := SpecBlocks.pos (cfg := cfg) (env := env) (k := 0) (more := []) hemp hs h1 (by simpa using h2) .done
        simpa using SpecEnc.array this
  | _, _, .map (es := es) c hn h1 h2 => by
    obtain ⟨enc, n, he, hs⟩ := entries_es hl hP c
    by_cases hemp : es = []
    · subst hemp
      exact es_leaf [0] (by intro f; simp [encode, deref]) (.map .done (by simp))
    · have hne : es.isEmpty = false := by cases es <;> simp_all
      refine ⟨Spec.long es.length ++ enc ++ [0], n + 1, ?_, ?_⟩
      · intro fuel hf
        obtain ⟨f, rfl, hf'⟩ := succ_of_le hf
        simp [encode, deref, hne, he f hf', long_nat es.length (by omega)]
      · have := SpecMapBlocks.pos (cfg := cfg) (env := env) (k := 0) (more := []) hemp hs h1 (by simpa using h2) .done
        have := SpecEnc.map (by simpa using this) (by simpa using hn)
        simpa using this
  | _, _, .record (vfs := vfs) c hn => by
    obtain ⟨enc, n, he, hs⟩ := fields_es hl hP c
    refine ⟨enc, n + 1, ?_, .record hs⟩
    intro fuel hf
    obtain ⟨f, rfl, hf'⟩ := succ_of_le hf
    simp only [encode, deref]
    exact he f hf' vfs (lookupLast_of_mem hn)
  | _, _, .decimalFixed (b := b) h1 h2 h3 =>
    es_leaf b (by intro f; simp [encode, deref, h1]) (.decimalFixed h2 h3)
  | _, _, .decimalBytes (b := b) h1 h2 h3 =>
    es_leaf _ (by intro f; simp [encode, deref, h1, encBytes, ← long_nat b.length (by omega)]) (.decimalBytes h2 h3)
  | _, _, .bigDecimal (u := u) (sc := sc) h1 h2 h3 => by
    have hm : (toSignedBE u).length < 2^63 := by simp [encBytes] at h3; omega
    have e1 := long_nat (toSignedBE u).length hm
    have e2 : Spec.long sc = encLong sc := long_i64 h2
    have e3 := long_nat (encBytes (toSignedBE u) ++ encLong sc).length (by omega)
    refine es_leaf (encBytes (encBytes (toSignedBE u) ++ encLong sc)) (by intro f; simp [encode, deref]) ?_
    have := SpecEnc.bigDecimal (cfg := cfg) (env := env) h1 h2 (by simpa [encBytes, e1, e2] using h3)
    simp only [encBytes] at e3
    rw [e1, e2, e3] at this
    unfold encBytes
    exact this
  | _, _, .uuidString (b := b) h1 h2 h3 => by
    -- the canonical text form is 36 characters
    have h16 : b.length = 16 := hP.uuidParse_len _ _ h2
    have t3 := (hP.uuid_text b h16).2.2
    refine es_leaf (encBytes (uuidToText b)) (by intro f; simp [encode, deref]) ?_
    have := SpecEnc.uuidString (cfg := cfg) (env := env) h16 (by omega)
    have e36 : Spec.long (36 : Int) = encLong 36 := long_i64 ⟨by decide, by decide⟩
    rw [e36] at this
    simpa [encBytes, t3] using this
  | _, _, .uuidBytes (b := b) h1 h2 => by
    refine es_leaf (encBytes b) (by intro f; simp [encode, deref]) ?_
    have := SpecEnc.uuidBytes (cfg := cfg) (env := env) h1 h2
    have e16 : Spec.long (16 : Int) = encLong 16 := long_i64 ⟨by decide, by decide⟩
    rw [e16] at this
    simpa [encBytes, h1] using this
  | _, _, .uuidFixed h1 h2 => es_leaf _ (by intro f; simp [encode, deref]) (.uuidFixed h1 h2)
  | _, _, .duration h1 h2 h3 => es_leaf _ (by intro f; simp [encode, deref, durationBytes]) (.duration h1 h2 h3)
  | _, _, .ref (n := n) (s := s) (v := v) h hs c => by
    obtain ⟨enc, n0, he, hsp⟩ := conforms_es hl hP c
    refine ⟨enc, n0 + 1, ?_, .ref h hs hsp⟩
    intro fuel hf
    obtain ⟨f, rfl, hf'⟩ := succ_of_le hf
    rw [encode_ref v f h hs]; exact he (f+1) (by omega)

theorem all_es (hl : cfg.lim < 2^63) (hP : PrimFacts) :
    ∀ {s : Schema} {vs : List Value}, ConformsAll cfg env s vs → ESItems cfg env s vs
  | _, _, .nil => ⟨[], 0, fun _ _ => by simp [concatMapE], .nil⟩
  | _, _, .cons h t => by
    obtain ⟨e1, n1, he1, hs1⟩ := conforms_es hl hP h
    obtain ⟨e2, n2, he2, hs2⟩ := all_es hl hP t
    exact ⟨e1 ++ e2, max n1 n2, fun fuel hf => by simp [concatMapE, he1 fuel (by omega), he2 fuel (by omega)], .cons hs1 hs2⟩

theorem entries_es (hl : cfg.lim < 2^63) (hP : PrimFacts) :
    ∀ {s : Schema} {es : List (Bytes × Value)}, ConformsEntries cfg env s es → ESEntries cfg env s es
  | _, _, .nil => ⟨[], 0, fun _ _ => by simp [concatMapE], .nil⟩
  | _, _, .cons (k := k) hk hu h t => by
    obtain ⟨e1, n1, he1, hs1⟩ := conforms_es hl hP h
    obtain ⟨e2, n2, he2, hs2⟩ := entries_es hl hP t
    refine ⟨Spec.long k.length ++ k ++ e1 ++ e2, max n1 n2, fun fuel hf => ?_, .cons hk hu hs1 hs2⟩
    simp [concatMapE, encEntryWith, he1 fuel (by omega), he2 fuel (by omega), encBytes, long_nat k.length (by omega)]

theorem fields_es (hl : cfg.lim < 2^63) (hP : PrimFacts) :
    ∀ {fs : List (FieldMeta × Schema)} {vs : List (Bytes × Value)}, ConformsFields cfg env fs vs → ESFields cfg env fs vs
  | _, _, .nil => ⟨[], 0, fun _ _ all _ => by simp [encodeFieldsWith], .nil⟩
  | _, _, .cons (m := m) (v := v) h t => by
    obtain ⟨e1, n1, he1, hs1⟩ := conforms_es hl hP h
    obtain ⟨e2, n2, he2, hs2⟩ := fields_es hl hP t
    refine ⟨e1 ++ e2, max n1 n2, fun fuel hf all hall => ?_, .cons hs1 hs2⟩
    have hm : lookupField all m = some v := by
      unfold lookupField
      rw [hall (m.name, v) (by simp)]
    have := he2 fuel (by omega) all (fun kv hkv => hall kv (by simp [hkv]))
    simp [encodeFieldsWith, hm, he1 fuel (by omega), this]
end

end
end Avro
