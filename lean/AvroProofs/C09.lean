import AvroModel
import AvroProofs.Lemmas.RoundTrip
/-!
# C09 — compatibility verdicts

`canRead` is the model of `Checker::full_match_schemas`.  Proved: every well-formed schema is
fully compatible with itself, `mutual_read` is symmetric, each always-safe evolution step keeps the
verdict `Full`.  Soundness of `Full` with respect to reading is FALSE of the code for several type
pairs (recorded findings); it is proved for the plain scalar fragment.
-/
namespace Avro.C09
open Avro

/-! ### mutual compatibility is symmetric -/

theorem and_comm (a b : Compat) : a.and b = b.and a := by cases a <;> cases b <;> rfl

theorem mutual_symmetric (fuel : Nat) (a b : Schema) : mutualRead fuel a b = mutualRead fuel b a := by
  unfold mutualRead
  cases canRead fuel a b <;> cases canRead fuel b a <;> simp [and_comm]

/-! ### every schema is fully compatible with itself -/

theorem unqual_self (w : Schema) :
    (match w.cname?, w.cname? with
     | some a, some b => unqual a != unqual b
     | _, _ => false) = false := by
  cases w.cname? <;> simp

theorem find_self (fields : List (FieldMeta × Schema)) (m : FieldMeta) (s : Schema)
    (hmem : (m, s) ∈ fields) (hnd : (fields.map (fun f => f.1.name)).Nodup) :
    findWriterField fields m = some (m, s) := by
  unfold findWriterField
  simp only [List.findSome?_cons]
  have : fields.find? (fun wf => wf.1.name == m.name) = some (m, s) := by
    induction fields with
    | nil => cases hmem
    | cons hd tl ih =>
      simp only [List.map_cons, List.nodup_cons] at hnd
      rcases List.mem_cons.mp hmem with h | h
      · subst h; simp
      · have hne : hd.1.name ≠ m.name := by
          intro e
          apply hnd.1
          rw [e]
          exact List.mem_map.mpr ⟨(m, s), h, rfl⟩
        simp [hne]
        exact ih h hnd.2
  simp [this]

theorem record_self (go : Schema → Schema → Option Compat) (fields : List (FieldMeta × Schema))
    (hnd : (fields.map (fun f => f.1.name)).Nodup) :
    ∀ (rest : List (FieldMeta × Schema)), (∀ x ∈ rest, x ∈ fields) → (∀ x ∈ rest, go x.2 x.2 = some .full) →
      recordVerdict go fields rest .full = some .full
  | [], _, _ => rfl
  | (m, s) :: rest, hsub, hgo => by
    simp only [recordVerdict]
    rw [find_self fields m s (hsub _ (by simp)) hnd]
    simp only [hgo (m, s) (by simp)]
    exact record_self go fields hnd rest (fun x hx => hsub x (List.mem_cons_of_mem _ hx)) (fun x hx => hgo x (List.mem_cons_of_mem _ hx))

mutual
theorem self_full : ∀ (s : Schema), wfS s = true → ∃ n, ∀ fuel, n ≤ fuel → canRead fuel s s = some .full
  | .null, _ | .boolean, _ | .int, _ | .long, _ | .float, _ | .double, _ | .bytes, _ | .string, _
  | .date, _ | .timeMillis, _ | .longL _, _ | .bigDecimal, _ | .uuidString, _ | .uuidBytes, _ =>
    ⟨1, fun fuel hf => by obtain ⟨f, rfl, _⟩ := succ_of_le hf; simp [canRead, Schema.cname?, Schema.isIntLike, Schema.isLongLike, Schema.isBytesLike, Schema.isFloat, Schema.isDouble, Schema.isUuid]⟩
  | .fixed _ _, _ | .uuidFixed _ _, _ | .duration _ _, _ | .ref _, _ =>
    ⟨1, fun fuel hf => by obtain ⟨f, rfl, _⟩ := succ_of_le hf; simp [canRead, Schema.cname?, Schema.isIntLike, Schema.isLongLike, Schema.isBytesLike, Schema.isFloat, Schema.isDouble, Schema.isUuid, Schema.fixedSize?]⟩
  | .decimal _ _ _, _ =>
    ⟨1, fun fuel hf => by obtain ⟨f, rfl, _⟩ := succ_of_le hf; simp [canRead]; cases ‹DecInner› <;> simp [Schema.cname?]⟩
  | .enum _ syms d, _ =>
    ⟨1, fun fuel hf => by
      obtain ⟨f, rfl, _⟩ := succ_of_le hf
      simp only [canRead, Schema.cname?]
      simp [enumVerdict]⟩
  | .array s, h => by
    obtain ⟨n, H⟩ := self_full s (by simpa [wfS] using h)
    exact ⟨n + 1, fun fuel hf => by obtain ⟨f, rfl, hf'⟩ := succ_of_le hf; simp [canRead, Schema.cname?, H f hf']⟩
  | .map s, h => by
    obtain ⟨n, H⟩ := self_full s (by simpa [wfS] using h)
    exact ⟨n + 1, fun fuel hf => by obtain ⟨f, rfl, hf'⟩ := succ_of_le hf; simp [canRead, Schema.cname?, H f hf']⟩
  | .union bs, h => by
    simp only [wfS, Bool.and_eq_true] at h
    obtain ⟨n, H⟩ := self_full_list bs h.2
    refine ⟨n + 1, fun fuel hf => ?_⟩
    obtain ⟨f, rfl, hf'⟩ := succ_of_le hf
    simp only [canRead, Schema.cname?]
    simp only [unionUnionVerdict]
    have : (bs.map (fun w' => bs.map (fun r' => canRead f w' r'))).all (fun row => row.any (· == some .full)) = true := by
      simp only [List.all_map, List.all_eq_true]
      intro b hb
      simp only [Function.comp, List.any_map, List.any_eq_true]
      exact ⟨b, hb, by simp [H f hf' b hb]⟩
    simp [this]
  | .record _ fields, h => by
    simp only [wfS, Bool.and_eq_true, decide_eq_true_eq] at h
    obtain ⟨n, H⟩ := self_full_fields fields h.2
    refine ⟨n + 1, fun fuel hf => ?_⟩
    obtain ⟨f, rfl, hf'⟩ := succ_of_le hf
    simp only [canRead, Schema.cname?]
    simp
    exact record_self (canRead f) fields h.1 fields (fun _ hx => hx) (fun x hx => H f hf' x hx)

theorem self_full_list : ∀ (bs : List Schema), wfList bs = true →
    ∃ n, ∀ fuel, n ≤ fuel → ∀ b ∈ bs, canRead fuel b b = some .full
  | [], _ => ⟨0, fun _ _ b hb => by cases hb⟩
  | s :: rest, h => by
    simp only [wfList, Bool.and_eq_true] at h
    obtain ⟨n1, H1⟩ := self_full s h.1
    obtain ⟨n2, H2⟩ := self_full_list rest h.2
    refine ⟨max n1 n2, fun fuel hf b hb => ?_⟩
    rcases List.mem_cons.mp hb with e | e
    · subst e; exact H1 fuel (by omega)
    · exact H2 fuel (by omega) b e

theorem self_full_fields : ∀ (fs : List (FieldMeta × Schema)), wfFields fs = true →
    ∃ n, ∀ fuel, n ≤ fuel → ∀ x ∈ fs, canRead fuel x.2 x.2 = some .full
  | [], _ => ⟨0, fun _ _ b hb => by cases hb⟩
  | (m, s) :: rest, h => by
    simp only [wfFields, Bool.and_eq_true] at h
    obtain ⟨n1, H1⟩ := self_full s h.1
    obtain ⟨n2, H2⟩ := self_full_fields rest h.2
    refine ⟨max n1 n2, fun fuel hf b hb => ?_⟩
    rcases List.mem_cons.mp hb with e | e
    · subst e; exact H1 fuel (by omega)
    · exact H2 fuel (by omega) b e
end

/-! ### always-safe evolution steps keep the verdict `Full` -/

/-- numeric promotions and string/bytes (checked over the whole table of plain types) -/
theorem promotions_full (f : Nat) :
    canRead (f+1) .int .long = some .full ∧ canRead (f+1) .int .float = some .full ∧
    canRead (f+1) .int .double = some .full ∧ canRead (f+1) .long .float = some .full ∧
    canRead (f+1) .long .double = some .full ∧ canRead (f+1) .float .double = some .full ∧
    canRead (f+1) .string .bytes = some .full ∧ canRead (f+1) .bytes .string = some .full := by
  simp [canRead, Schema.cname?, Schema.isIntLike, Schema.isLongLike, Schema.isBytesLike, Schema.isFloat, Schema.isDouble]

/-- a reader enum that has every written symbol (symbols added, reordered) is fully compatible -/
theorem enum_symbols_added (wsyms rsyms : List Bytes) (rd : Option Bytes) (h : ∀ s ∈ wsyms, s ∈ rsyms) :
    enumVerdict wsyms rsyms rd = some .full := by
  unfold enumVerdict
  cases rd with
  | some d => simp
  | none =>
    have : wsyms.all (rsyms.contains ·) = true := by
      simp only [List.all_eq_true]
      intro s hs
      simpa using h s hs
    simp
    exact h

/-- a reader union one of whose branches fully reads the (non-union) writer type — e.g. a branch
was added around it — is fully compatible -/
theorem reader_union_branch_added (rs : List (Option Compat)) (h : some Compat.full ∈ rs) :
    anyUnionVerdict rs = some .full := by
  unfold anyUnionVerdict
  have : rs.any (· == some .full) = true := by
    simp only [List.any_eq_true]
    exact ⟨_, h, by simp⟩
  simp [this]

/-- reader union against writer union: every written branch has a reader branch that fully reads
it (branches added to / reordered in the reader) -/
theorem reader_union_superset (rows : List (List (Option Compat))) (h : ∀ row ∈ rows, some Compat.full ∈ row) :
    unionUnionVerdict rows = some .full := by
  unfold unionUnionVerdict
  have : rows.all (fun row => row.any (· == some .full)) = true := by
    simp only [List.all_eq_true, List.any_eq_true]
    intro row hr
    exact ⟨_, h row hr, by simp⟩
  simp [this]

/-- records: if every reader field either reads a written field with verdict `Full` or is new and
has a default, the record is fully compatible — whatever the order of the reader's fields and
whatever else was written (fields added with a default, removed, reordered) -/
theorem record_safe (go : Schema → Schema → Option Compat) (wfields : List (FieldMeta × Schema)) :
    ∀ (rfields : List (FieldMeta × Schema)),
      (∀ x ∈ rfields,
        (∃ wm ws, findWriterField wfields x.1 = some (wm, ws) ∧ go ws x.2 = some .full) ∨
        (findWriterField wfields x.1 = none ∧ x.1.default.isSome = true)) →
      recordVerdict go wfields rfields .full = some .full
  | [], _ => rfl
  | (m, rs) :: rest, h => by
    have ih := record_safe go wfields rest (fun x hx => h x (List.mem_cons_of_mem _ hx))
    simp only [recordVerdict]
    rcases h (m, rs) (by simp) with ⟨wm, ws, hf, hg⟩ | ⟨hf, hd⟩
    · simp only [hf, hg]; exact ih
    · have : m.default.isNone = false := by
        cases hdd : m.default with
        | none => simp [hdd] at hd
        | some j => rfl
      simp only [hf, this]; exact ih

/-! ### soundness of `Full` for the plain scalar types -/

def plainScalar : Schema → Bool
  | .null | .boolean | .int | .long | .float | .double => true
  | _ => false

/-- for null / boolean / int / long / float / double on both sides, a `Full` verdict means that
every value of the writer type resolves against the reader type (the general statement is false
of the code — see the known findings) -/
theorem full_sound_scalars_partial (fo : FloatOps) (cfg : Cfg) (env : Names) (f g : Nat) (w r : Schema)
    (hw : plainScalar w = true) (hr : plainScalar r = true)
    (hfull : canRead (f+1) w r = some .full) (v : Value) (hc : Conforms cfg env w v) :
    ∃ v', resolve fo cfg env (g+1) r v = .ok v' := by
  cases w <;> simp [plainScalar] at hw <;> cases r <;> simp [plainScalar] at hr <;>
    simp [canRead, Schema.cname?, Schema.isIntLike, Schema.isLongLike, Schema.isBytesLike, Schema.isFloat, Schema.isDouble,
      Schema.isUuid, Schema.fixedSize?] at hfull <;>
    cases hc <;> simp [resolve, unwrapFor]

/-! ### witnesses: `Full` is not sound in general, and a safe reorder can be reported incompatible
(the same inputs fail on the crate: `known-findings.json`) -/

/-- `date` → `float`: verdict Full, but no `date` value resolves against `float` -/
theorem full_unsound_logical_to_float (fo : FloatOps) (cfg : Cfg) (n : Int) :
    canRead 2 .date .float = some .full ∧ resolve fo cfg [] 2 .float (.date n) = .error .mismatch := by
  refine ⟨by rfl, by simp [resolve, unwrapFor]⟩

/-- `bytes` → `string`: verdict Full, but bytes that are not UTF-8 do not resolve -/
theorem full_unsound_bytes_to_string (fo : FloatOps) (cfg : Cfg) :
    canRead 2 .bytes .string = some .full ∧ resolve fo cfg [] 2 .string (.bytes [0xff]) = .error .badUtf8 := by
  refine ⟨by rfl, by rfl⟩

/-- `string` → `uuid`: verdict Full, but a string that is no UUID does not resolve -/
theorem full_unsound_string_to_uuid (fo : FloatOps) (cfg : Cfg) :
    canRead 2 .string .uuidString = some .full ∧ resolve fo cfg [] 2 .uuidString (.string [97]) = .error .badUuid := by
  refine ⟨by rfl, by rfl⟩

/-- reordering two fields when the first defines a named type the second refers to: the reader
then has the definition where the writer has the reference, and the checker says incompatible -/
theorem reorder_with_named_type_incompatible :
    let e : Schema := .enum [69] [[65], [66]] none
    let w : Schema := .record [82] [({ name := [101] }, e), ({ name := [102] }, .ref [69])]
    let r : Schema := .record [82] [({ name := [102] }, e), ({ name := [101] }, .ref [69])]
    canRead 5 w r = none := by
  rfl

end Avro.C09
