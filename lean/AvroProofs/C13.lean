import AvroModel
import AvroModel.Sink
import AvroModel.Generated.WriteSites
/-!
# C13 — writers never lose data silently on short writes or sink errors

The theorem is generic over the sink script (every choice of per-call accepted length, every
error position, `Interrupted` included) and over the table of write sites; the table itself is
regenerated from the Rust sources by the translator on every run, and the instance
`all_sites_use_writeAll` is re-checked by `decide`.
-/
namespace Avro.C13
open Avro

theorem writeAllAux_ok : ∀ (script : List SinkStep) (delivered b : Bytes) (st' : SinkSt),
    Sink.writeAllAux script delivered b = (st', .ok ()) → st'.delivered = delivered ++ b := by
  intro script
  induction script with
  | nil =>
    intro delivered b st' h
    cases b with
    | nil => simp [Sink.writeAllAux] at h; rw [← h]; simp
    | cons x xs => simp [Sink.writeAllAux] at h; rw [← h]
  | cons step rest ih =>
    intro delivered b st' h
    cases b with
    | nil => simp [Sink.writeAllAux] at h; rw [← h]; simp
    | cons x xs =>
      cases step with
      | accept k =>
        simp only [Sink.writeAllAux] at h
        split at h
        · simp at h
        · have := ih _ _ st' h
          rw [this, List.append_assoc, List.take_append_drop]
      | fail i =>
        cases i with
        | true => simp only [Sink.writeAllAux] at h; exact ih _ _ st' h
        | false => simp [Sink.writeAllAux] at h

/-- `write_all` either delivers exactly the buffer or reports an error — for **every** sink. -/
theorem writeAll_exact (st : SinkSt) (b : Bytes) (st' : SinkSt)
    (h : Sink.writeAll st b = (st', .ok ())) : st'.delivered = st.delivered ++ b :=
  writeAllAux_ok st.script st.delivered b st' h

/-- a path that uses `write_all` at every site delivers exactly the concatenation of its
buffers whenever it reports success. -/
theorem path_exact : ∀ (p : List (SiteMethod × Bytes)) (st st' : SinkSt),
    (∀ site ∈ p, site.1 = .writeAll) → Sink.runPath st p = (st', .ok ()) →
    st'.delivered = st.delivered ++ (p.map Prod.snd).flatten := by
  intro p
  induction p with
  | nil => intro st st' _ h; simp [Sink.runPath] at h; rw [h]; simp
  | cons site rest ih =>
    intro st st' hall h
    obtain ⟨m, b⟩ := site
    have hm : m = .writeAll := hall (m, b) (by simp)
    subst hm
    simp only [Sink.runPath] at h
    cases hw : Sink.writeAll st b with
    | mk st1 r =>
      rw [hw] at h
      cases r with
      | error e => simp at h
      | ok u =>
        simp only [] at h
        have h1 := writeAll_exact st b st1 hw
        have h2 := ih st1 st' (fun s hs => hall s (List.mem_cons_of_mem _ hs)) h
        rw [h2, h1]; simp

/-- the converse: a single `write` site is enough to lose data silently — there is a contract-obeying
sink on which the path reports success yet delivers a strict prefix. -/
theorem short_write_loses (b : Bytes) (hb : 2 ≤ b.length) :
    ∃ st st', Sink.runPath st [(.write, b)] = (st', .ok ()) ∧ st'.delivered.length < b.length := by
  refine ⟨{ script := [.accept 1], delivered := [] }, { script := [], delivered := b.take 1 }, ?_, ?_⟩
  · simp [Sink.runPath, Sink.write]
  · simp; omega

/-- **instance re-checked against the current sources on every run**: every expression in the
production write paths that sends bytes to a sink calls `write_all`. -/
theorem all_sites_use_writeAll :
    Avro.Generated.writeSites.all (fun s => s.method == .writeAll) = true := by decide

/-- the table is not vacuous: the translator found write sites in each of the production files that
send bytes to a caller-supplied sink -/
theorem sites_found :
    ["avro/src/encode.rs", "avro/src/util.rs", "avro/src/writer/mod.rs", "avro/src/writer/single_object.rs"].all
      (fun f => Avro.Generated.writeSites.any (fun s => s.file == f)) = true := by decide

/-- non-vacuity: a sink that interrupts, then takes 1 byte, then 2, then fails -/
example : (Sink.writeAll { script := [.fail true, .accept 1, .accept 2], delivered := [] } [1, 2, 3, 4]).1.delivered
    = [1, 2, 3, 4] := by decide
example : (Sink.writeAll { script := [.accept 1, .fail false], delivered := [] } [1, 2, 3]).2 = .error .io := rfl

end Avro.C13
