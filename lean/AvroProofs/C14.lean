import AvroModel
import AvroProofs.Lemmas.Container
import AvroProofs.Lemmas.Truncation
import AvroProofs.Lemmas.Frame
/-!
# C14 — a truncated or marker-corrupted file yields only a true prefix, then an error

Statements are about the model reader's block loop (`readBlocks`) on the *body* of a file (what
follows the header); `blocks` are well-formed blocks as the writer lays them out (`BlockOk`).
The header part (a cut inside the header makes opening fail) is `cut_inside_header`: the header
reader is framed (magic, metadata map through the framed datum decoder, marker), so it cannot
succeed on a strict prefix of the bytes it consumed - for every file, every metadata layout and
every offset inside the header.
-/
namespace Avro.C14
open Avro

variable (cfg : Cfg) (codec : Codec) (f : Reader Value) (marker : Bytes)

/-- cut exactly on a block boundary: the values of the blocks before the cut, clean end -/
theorem cut_on_boundary (hm : marker.length = 16) (hc : ∀ x, codec.decompress (codec.compress x) = .ok x)
    (blocks : List Items) (hok : ∀ b ∈ blocks, BlockOk cfg codec f b) (k : Nat) (fuel : Nat) :
    readBlocks cfg codec f marker ((blocks.take k).length + (fuel + 1)) ((blocks.take k).flatMap (blockOf codec marker)) =
      ((blocks.take k).flatMap Items.values, .clean) := by
  have := readBlocks_append cfg codec f marker hm hc (blocks.take k)
    (fun b hb => hok b (List.mem_of_mem_take hb)) [] (fuel + 1)
  simpa [readBlocks] using this

/-- **cut inside a block**: the file holds `k` whole blocks followed by a non-empty strict prefix
`p` of the next one (wherever the cut falls: in the count — also after the first byte of a
two-byte count —, in the size, in the payload or in the marker).  Exactly the values of the `k`
whole blocks are delivered and the stop is an error. -/
theorem cut_inside_block (hm : marker.length = 16) (hc : ∀ x, codec.decompress (codec.compress x) = .ok x)
    (blocks : List Items) (hok : ∀ b ∈ blocks, BlockOk cfg codec f b)
    (next : Items) (hnext : BlockOk cfg codec f next)
    (p q : Bytes) (hp : p ≠ []) (hq : q ≠ []) (hcut : p ++ q = blockOf codec marker next) (fuel : Nat) :
    ∃ e, readBlocks cfg codec f marker (blocks.length + (fuel + 1)) (blocks.flatMap (blockOf codec marker) ++ p) =
      (blocks.flatMap Items.values, .error e) := by
  obtain ⟨_, hlen, hsz, hl63, _, _⟩ := hnext
  obtain ⟨e, he⟩ := readBlocks_partial cfg codec f marker hm next.length (codec.compress next.payload)
    hlen hsz hl63 p q hp hq hcut fuel
  refine ⟨e, ?_⟩
  rw [readBlocks_append cfg codec f marker hm hc blocks hok p (fuel + 1), he]
  simp

/-- **corrupted marker**: if block `k`'s trailing marker differs from the file's sync marker in
any bit (`bad ≠ marker`), exactly the values of the blocks before it are delivered, nothing of that
block or of anything after it (`rest` is arbitrary), and an error is reported. -/
theorem marker_corrupt (hm : marker.length = 16) (hc : ∀ x, codec.decompress (codec.compress x) = .ok x)
    (blocks : List Items) (hok : ∀ b ∈ blocks, BlockOk cfg codec f b)
    (victim : Items) (hv : BlockOk cfg codec f victim) (bad : Bytes) (hb16 : bad.length = 16) (hne : bad ≠ marker)
    (rest : Bytes) (fuel : Nat) :
    readBlocks cfg codec f marker (blocks.length + (fuel + 1))
        (blocks.flatMap (blockOf codec marker) ++ (blockBytes bad victim.length (codec.compress victim.payload) ++ rest)) =
      (blocks.flatMap Items.values, .error .other) := by
  obtain ⟨_, hlen, hsz, hl63, _, _⟩ := hv
  rw [readBlocks_append cfg codec f marker hm hc blocks hok _ (fuel + 1),
    readBlocks_bad_marker cfg codec f marker bad hb16 hne victim.length _ hlen hsz hl63 rest fuel]
  simp

/-- an altered magic makes opening fail -/
theorem magic_corrupt (rcfg : Cfg) (m : Bytes) (hm4 : m.length = 4) (hne : m ≠ magic) (rest : Bytes) :
    ∃ e, ∀ fuel, readHeader rcfg fuel (m ++ rest) = .error e := by
  refine ⟨.other, fun fuel => ?_⟩
  unfold readHeader
  rw [takeExact_append' 4 m rest hm4]
  simp [hne]

/-- **cut inside the header**: if opening a file succeeds, the header is a prefix `hdr` of the file
(`file = hdr ++ body`), opening does not depend on the body, and opening any strict prefix of `hdr`
fails - whatever the metadata map looks like (several blocks, negative counts, unknown keys) -/
theorem cut_inside_header (rcfg : Cfg) (fuel : Nat) (file : Bytes) (md : List (Bytes × Bytes)) (marker body : Bytes)
    (h : readHeader rcfg fuel file = .ok (md, marker, body)) :
    ∃ hdr, file = hdr ++ body ∧ (∀ q, readHeader rcfg fuel (hdr ++ q) = .ok (md, marker, q)) ∧
      ∀ p q, hdr = p ++ q → q ≠ [] → ∃ e, readHeader rcfg fuel p = .error e := by
  have hh : headerReader rcfg fuel file = .ok ((md, marker), body) := by simp [headerReader, h]
  obtain ⟨hdr, hfile, hq⟩ := framed_headerReader rcfg fuel file (md, marker) body hh
  have back : ∀ bs x r, headerReader rcfg fuel bs = .ok (x, r) → readHeader rcfg fuel bs = .ok (x.1, x.2, r) := by
    intro bs x r hx
    unfold headerReader at hx
    cases hr : readHeader rcfg fuel bs with
    | error e => simp [hr] at hx
    | ok t =>
      obtain ⟨a, b, c⟩ := t
      simp only [hr, Except.ok.injEq, Prod.mk.injEq] at hx
      obtain ⟨hx1, hx2⟩ := hx
      subst hx1 hx2
      rfl
  refine ⟨hdr, hfile, fun q => back _ _ _ (hq q), fun p q hp hne => ?_⟩
  have hex := hq []
  rw [List.append_nil] at hex
  obtain ⟨e, he⟩ := framed_prefix_error (framed_headerReader rcfg fuel) hex hp hne
  refine ⟨e, ?_⟩
  unfold headerReader at he
  cases hr : readHeader rcfg fuel p with
  | error e' => simp [hr] at he; rw [he]
  | ok t => obtain ⟨a, b, c⟩ := t; simp [hr] at he

/-- a varint cut anywhere before its last byte is an end-of-input error, never a shorter number
(this is what makes a two-byte block count cut after its first byte an error) -/
theorem varint_cut_is_eof (n : Int) (p q : Bytes) (h : p ++ q = encLong n) (hq : q ≠ []) :
    decLong p = .error .eof := decLong_prefix_eof n p q h hq

/-! non-vacuity: a two-block file of `long`s, cut one byte into the second block's count -/
example :
    let marker : Bytes := List.replicate 16 7
    let b1 := blockBytes marker 2 [2, 4]
    (readBlocks { lim := 1000 } Codec.null (decode { lim := 1000 } [] 2 .long) marker 5 (b1 ++ [200])).2
      = .error .eof := by decide
example :
    let marker : Bytes := List.replicate 16 7
    let b1 := blockBytes marker 2 [2, 4]
    (readBlocks { lim := 1000 } Codec.null (decode { lim := 1000 } [] 2 .long) marker 5 b1).2 = .clean := by decide

end Avro.C14
