import AvroModel
import AvroProofs.Lemmas.SpecEncode
import AvroProofs.Lemmas.Prim
/-!
# C02 — binary encoding follows the Avro specification

`Spec.SpecEnc cfg env s v bytes` (AvroModel/Spec/Encoding.lean) is the specification's encoding
written as a relation, independently of the crate's encoder: arithmetic zig-zag, base-128 digits,
**any** sequence of array/map blocks (positive counts, or negative counts followed by a byte
size), logical types on their underlying type.
-/
namespace Avro.C02
open Avro Avro.Spec

/-- the crate's bit-twiddled zig-zag + varint loop computes the specification's arithmetic -/
theorem long_eq_spec (n : Int) (h : i64ok n) : encLong n = Spec.long n := encLong_eq_spec n h

/-- **what the library writes is specification-legal** (this is what an independent decoder
accepts): for every conforming value the encoder succeeds and its bytes are related to the value by
the specification relation. -/
theorem encode_sound (cfg : Cfg) (env : Names) (hl : cfg.lim < 2^63) (s : Schema) (v : Value)
    (hc : Conforms cfg env s v) :
    ∃ enc n, (∀ fuel, n ≤ fuel → encode env fuel s v = .ok enc) ∧ SpecEnc cfg env s v enc :=
  conforms_es hl primFacts hc

/-- **every specification-legal layout is read back**: arrays and maps split over several
blocks, blocks written with a negative count followed by a byte size, any union branch, logical
types — the decoder returns the value and exactly the unread rest. -/
theorem decode_complete (cfg : Cfg) (env : Names) (hl : cfg.lim < 2^63) (h1 : 1 ≤ cfg.szValue) (h2 : 1 ≤ cfg.szEntry)
    (s : Schema) (v : Value) (enc : Bytes) (h : SpecEnc cfg env s v enc) :
    ∃ n, ∀ fuel, n ≤ fuel → ∀ rest, decode cfg env fuel s (enc ++ rest) = .ok (v, rest) :=
  spec_dc hl h1 h2 primFacts h

/-! non-vacuity: `[1, 2, 3]` written as a negative-count block of two items (with its byte size)
followed by a positive-count block of one item is specification-legal -/
example : ∃ enc, SpecEnc { lim := 1000 } [] (.array .long) (.array [.long 1, .long 2, .long 3]) enc := by
  have b2 : SpecBlocks { lim := 1000 } [] .long 2 ([.long 3] ++ []) _ :=
    SpecBlocks.pos (cfg := { lim := 1000 }) (env := []) (s := .long) (k := 2) (blk := [.long 3]) (more := [])
      (by simp) (.cons (.long ⟨by decide, by decide⟩) .nil) (by decide) (by decide) .done
  have hsz : (Spec.long 1 ++ (Spec.long 2 ++ [])).length < 2^63 := by
    rw [← encLong_eq_spec 1 ⟨by decide, by decide⟩, ← encLong_eq_spec 2 ⟨by decide, by decide⟩]; decide
  exact ⟨_, .array (SpecBlocks.neg (cfg := { lim := 1000 }) (env := []) (s := .long) (k := 0)
    (blk := [.long 1, .long 2]) (more := [.long 3] ++ [])
    (by simp) (.cons (.long ⟨by decide, by decide⟩) (.cons (.long ⟨by decide, by decide⟩) .nil)) (by decide) (by decide)
    hsz b2)⟩

end Avro.C02
