import AvroModel
import AvroProofs.Lemmas.SpecEncode
import AvroProofs.Lemmas.Prim
import AvroProofs.Lemmas.VarintAny
/-!
# C02 — binary encoding follows the Avro specification

`Spec.SpecEnc cfg env s v bytes` (AvroModel/Spec/Encoding.lean) is the specification's encoding
written as a relation, independently of the crate's encoder: arithmetic zig-zag, base-128 digits,
**any** sequence of array/map blocks (positive counts, or negative counts followed by a byte
size), logical types on their underlying type.
-/
namespace Avro.C02
open Avro Avro.Spec

/-- the crate's bit-twiddled zig-zag + varint loop computes the specification's arithmetic -/
theorem long_eq_spec (n : Int) (h : i64ok n) : encLong n = Spec.long n := encLong_eq_spec n h

/-- **what the library writes is specification-legal** (this is what an independent decoder
accepts): for every conforming value the encoder succeeds and its bytes are related to the value by
the specification relation. -/
theorem encode_sound (cfg : Cfg) (env : Names) (hl : cfg.lim < 2^63) (s : Schema) (v : Value)
    (hc : Conforms cfg env s v) :
    ∃ enc n, (∀ fuel, n ≤ fuel → encode env fuel s v = .ok enc) ∧ SpecEnc cfg env s v enc :=
  conforms_es hl primFacts hc

/-- **every specification-legal layout is read back**: arrays and maps split over several
blocks, blocks written with a negative count followed by a byte size, any union branch, logical
types — the decoder returns the value and exactly the unread rest. -/
theorem decode_complete (cfg : Cfg) (env : Names) (hl : cfg.lim < 2^63) (h1 : 1 ≤ cfg.szValue) (h2 : 1 ≤ cfg.szEntry)
    (s : Schema) (v : Value) (enc : Bytes) (h : SpecEnc cfg env s v enc) :
    ∃ n, ∀ fuel, n ≤ fuel → ∀ rest, decode cfg env fuel s (enc ++ rest) = .ok (v, rest) :=
  spec_dc hl h1 h2 primFacts h

/-- **every base-128 digit string is read**, not only the shortest one the crate writes: up to ten bytes, value below
2^64, with or without trailing zero digits (`SpecEnc` itself relates a number to its shortest form only) -/
theorem varint_any_digits (ds : List Nat) (last : Nat) (hd : ∀ d ∈ ds, d < 128) (hlast : last < 128)
    (hlen : ds.length + 1 ≤ 10) (hv : varintVal (ds ++ [last]) < 2^64) (rest : Bytes) :
    decodeVar (varintBytes ds last ++ rest) = .ok (varintVal (ds ++ [last]), rest) :=
  decodeVar_digits ds last hd hlast hlen hv rest

/-- **a zero-padded long is read to the same number**: what the crate writes for `n` is a digit string, and the same
digits followed by `k + 1` zero digits (another writer's non-canonical form) are read back as `n` -/
theorem padded_long_read (n : Int) (hn : i64ok n) (k : Nat) (rest : Bytes) :
    ∃ ds last, encLong n = varintBytes ds last ∧
      (ds.length + 1 + (k + 1) ≤ 10 →
        decLong (varintBytes (ds ++ last :: List.replicate k 0) 0 ++ rest) = .ok (n, rest)) := by
  obtain ⟨ds, last, he, hv, hds, hl, _⟩ := encodeVarAux_digits 10 (zig n) (by omega) (Nat.lt_of_lt_of_le (zig_lt n) (by decide))
  refine ⟨ds, last, he, ?_⟩
  intro hlen
  have hval : varintVal ((ds ++ last :: List.replicate k 0) ++ [0]) = zig n := by
    have e : (ds ++ last :: List.replicate k 0) ++ [0] = (ds ++ [last]) ++ List.replicate (k + 1) 0 := by
      simp [List.replicate_succ']
    rw [e, varintVal_pad, hv]
  have hall : ∀ d ∈ ds ++ last :: List.replicate k 0, d < 128 := by
    intro d hd
    rcases List.mem_append.mp hd with h | h
    · exact hds d h
    · rcases List.mem_cons.mp h with rfl | h
      · exact hl
      · have := List.eq_of_mem_replicate h; omega
  have := decodeVar_digits (ds ++ last :: List.replicate k 0) 0 hall (by omega)
    (by simp at hlen ⊢; omega) (by rw [hval]; exact zig_lt n) rest
  unfold decLong
  rw [this, hval]
  simp only [zag_zig n hn.1 hn.2]

/-- non-vacuity: `0x82 0x80 0x00` (the digits 2, 0, 0) is read as the long 1, like the canonical `0x02` -/
example : decLong [0x82, 0x80, 0x00] = .ok (1, []) ∧ decLong [0x02] = .ok (1, []) := ⟨by rfl, by rfl⟩

/-! non-vacuity: `[1, 2, 3]` written as a negative-count block of two items (with its byte size)
followed by a positive-count block of one item is specification-legal -/
example : ∃ enc, SpecEnc { lim := 1000 } [] (.array .long) (.array [.long 1, .long 2, .long 3]) enc := by
  have b2 : SpecBlocks { lim := 1000 } [] .long 2 ([.long 3] ++ []) _ :=
    SpecBlocks.pos (cfg := { lim := 1000 }) (env := []) (s := .long) (k := 2) (blk := [.long 3]) (more := [])
      (by simp) (.cons (.long ⟨by decide, by decide⟩) .nil) (by decide) (by decide) .done
  have hsz : (Spec.long 1 ++ (Spec.long 2 ++ [])).length < 2^63 := by
    rw [← encLong_eq_spec 1 ⟨by decide, by decide⟩, ← encLong_eq_spec 2 ⟨by decide, by decide⟩]; decide
  exact ⟨_, .array (SpecBlocks.neg (cfg := { lim := 1000 }) (env := []) (s := .long) (k := 0)
    (blk := [.long 1, .long 2]) (more := [.long 3] ++ [])
    (by simp) (.cons (.long ⟨by decide, by decide⟩) (.cons (.long ⟨by decide, by decide⟩) .nil)) (by decide) (by decide)
    hsz b2)⟩

end Avro.C02
