import AvroModel
import AvroProofs.Lemmas.RoundTrip
import AvroProofs.Lemmas.Prim
/-!
# C01 — datum round-trip

Property theorems only (helper lemmas live under `AvroProofs/Lemmas`).  Every statement is about
the model in `AvroModel/*`; the tie to `/repo` is the correspondence run of `./check C01`.
-/
namespace Avro.C01
open Avro

/-- zig-zag is invertible on every 64-bit pattern (`zig_i64` / `zag_i64` bit twiddling as written). -/
theorem zag_zig_bits (n : BitVec 64) : zagBV (zigBV n) = n := zag_zig_bv n

/-- `zag_i64 ∘ zig_i64 = id` on every `i64`. -/
theorem zag_zig (n : Int) (h : i64ok n) : zag (zig n) = n := Avro.zag_zig n h.1 h.2

/-- `decode_variable (encode_variable z ++ rest) = (z, rest)` for every `u64`, every tail. -/
theorem decodeVar_encodeVar (z : Nat) (hz : z < 2^64) (rest : Bytes) :
    decodeVar (encodeVar z ++ rest) = .ok (z, rest) := Avro.decodeVar_encodeVar z hz rest

/-- **Main theorem.** For every names table, schema and conforming value (any nesting, any size
within the allocation limit), encoding succeeds and decoding the produced bytes followed by *any*
tail returns exactly the value and exactly the tail — for every sufficiently large recursion
budget (`fuel` only models the thread stack, which the property leaves out). -/
theorem decode_encode (cfg : Cfg) (env : Names) (hl : cfg.lim < 2^63) (s : Schema) (v : Value)
    (hc : Conforms cfg env s v) :
    ∃ bs n, ∀ fuel, n ≤ fuel →
      encode env fuel s v = .ok bs ∧
      ∀ rest, decode cfg env fuel s (bs ++ rest) = .ok (v, rest) :=
  conforms_rt hl hc

/-- Datums can be concatenated and read back one after another. -/
theorem decode_concat (cfg : Cfg) (env : Names) (hl : cfg.lim < 2^63) (s₁ s₂ : Schema) (v₁ v₂ : Value)
    (h₁ : Conforms cfg env s₁ v₁) (h₂ : Conforms cfg env s₂ v₂) :
    ∃ b₁ b₂ n, ∀ fuel, n ≤ fuel → ∀ rest,
      encode env fuel s₁ v₁ = .ok b₁ ∧ encode env fuel s₂ v₂ = .ok b₂ ∧
      decode cfg env fuel s₁ (b₁ ++ b₂ ++ rest) = .ok (v₁, b₂ ++ rest) ∧
      decode cfg env fuel s₂ (b₂ ++ rest) = .ok (v₂, rest) := by
  obtain ⟨b₁, n₁, H₁⟩ := conforms_rt hl h₁
  obtain ⟨b₂, n₂, H₂⟩ := conforms_rt hl h₂
  refine ⟨b₁, b₂, max n₁ n₂, ?_⟩
  intro fuel hf rest
  obtain ⟨e₁, d₁⟩ := H₁ fuel (by omega)
  obtain ⟨e₂, d₂⟩ := H₂ fuel (by omega)
  refine ⟨e₁, e₂, ?_, d₂ rest⟩
  rw [List.append_assoc]; exact d₁ _

/-! ### non-vacuity: concrete, non-trivial conforming values -/

/-- `record L { v: long, next: ["null", L] }` -/
def listSchema : Schema :=
  .record [76] [({ name := [118] }, .long), ({ name := [110] }, .union [.null, .ref [76]])]
def listEnv : Names := [([76], listSchema)]
def cfg0 : Cfg := { lim := 1024 }

/-- the two-element list `{v: i64::MIN, next: {v: 64, next: null}}` conforms. -/
example : Conforms cfg0 listEnv (.ref [76])
    (.record [([118], .long (-9223372036854775808)),
              ([110], .union 1 (.record [([118], .long 64), ([110], .union 0 .null)]))]) := by
  refine .ref (s := listSchema) rfl trivial ?_
  refine .record (.cons (.long ⟨by decide, by decide⟩) (.cons (.union (b := .ref [76]) rfl (by decide) ?_) .nil)) (by decide)
  refine .ref (s := listSchema) rfl trivial ?_
  exact .record (.cons (.long ⟨by decide, by decide⟩) (.cons (.union (b := .null) rfl (by decide) .null) .nil)) (by decide)

/-- a NaN payload, a map inside a union, an enum: hypotheses of `decode_encode` are satisfiable. -/
example : Conforms cfg0 [] (.union [.null, .map (.array .double)])
    (.union 1 (.map [([107], .array [.double 0x7FF4000000000001, .double 0x8000000000000000])])) := by
  refine .union (b := .map (.array .double)) rfl (by decide) ?_
  refine .map (.cons (by decide) (by decide) ?_ .nil) (by decide) (by decide) (by decide)
  exact .array (.cons (.double _) (.cons (.double _) .nil)) (by decide) (by decide)

/-! ### conformance of logical values, from the proved facts about the modelled primitives

`Conforms` carries the round trips of the modelled num-bigint / uuid primitives as premises of its
decimal, big-decimal and uuid-string constructors.  `AvroProofs/Lemmas/Prim.lean` proves them for
every number and every 16-byte uuid, so these values conform outright: -/

/-- the width in bytes a decimal needs (`to_signed_bytes_be().len()`, 0 for zero) -/
def decimalWidth (i : Int) : Nat := if i = 0 then 0 else minWidth i

/-- every decimal whose unscaled number fits the declared width conforms (bytes-backed) -/
theorem conforms_decimal_bytes (cfg : Cfg) (env : Names) (p sc : Nat) (i : Int) (len : Nat)
    (hfit : decimalWidth i ≤ len) (hlim : len ≤ cfg.lim) :
    Conforms cfg env (.decimal p sc .bytes) (.decimal i len) := by
  obtain ⟨b, hs, hl, hv⟩ := signExtend_ok i len hfit
  subst hl
  exact .decimalBytes hs hv hlim

/-- every decimal whose unscaled number fits the size of the fixed conforms (fixed-backed) -/
theorem conforms_decimal_fixed (cfg : Cfg) (env : Names) (p sc : Nat) (name : Bytes) (i : Int) (size : Nat)
    (hfit : decimalWidth i ≤ size) (hlim : size ≤ cfg.lim) :
    Conforms cfg env (.decimal p sc (.fixed name size)) (.decimal i size) := by
  obtain ⟨b, hs, hl, hv⟩ := signExtend_ok i size hfit
  subst hl
  exact .decimalFixed hs hv hlim

/-- every big decimal within the allocation limit conforms -/
theorem conforms_bigDecimal (cfg : Cfg) (env : Names) (u sc : Int) (hsc : i64ok sc)
    (hlim : (encBytes (toSignedBE u) ++ encLong sc).length ≤ cfg.lim) :
    Conforms cfg env .bigDecimal (.bigDecimal u sc) :=
  .bigDecimal (fromSignedBE_toSignedBE u) hsc hlim

/-- every uuid conforms to the string-backed uuid schema -/
theorem conforms_uuidString (cfg : Cfg) (env : Names) (b : Bytes) (hb : b.length = 16) (hlim : 36 ≤ cfg.lim) :
    Conforms cfg env .uuidString (.uuid b) := by
  obtain ⟨h1, h2, h3⟩ := uuid_text b hb
  exact .uuidString h1 h2 (by omega)

/-- so: every decimal that fits its width round-trips, whatever its sign and magnitude -/
theorem decimal_roundtrip (cfg : Cfg) (env : Names) (hl : cfg.lim < 2^63) (p sc : Nat) (i : Int) (len : Nat)
    (hfit : decimalWidth i ≤ len) (hlim : len ≤ cfg.lim) :
    ∃ bs n, ∀ fuel, n ≤ fuel →
      encode env fuel (.decimal p sc .bytes) (.decimal i len) = .ok bs ∧
      ∀ rest, decode cfg env fuel (.decimal p sc .bytes) (bs ++ rest) = .ok (.decimal i len, rest) :=
  decode_encode cfg env hl _ _ (conforms_decimal_bytes cfg env p sc i len hfit hlim)

/-- non-vacuity: -129 needs two bytes and conforms in a three-byte slot -/
example : decimalWidth (-129) = 2 := by decide
example : Conforms cfg0 [] (.decimal 5 2 .bytes) (.decimal (-129) 3) :=
  conforms_decimal_bytes cfg0 [] 5 2 (-129) 3 (by decide) (by decide)

end Avro.C01
