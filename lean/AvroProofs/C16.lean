import AvroModel
import AvroProofs.Lemmas.Datum
import AvroProofs.Lemmas.RecordOrder
/-!
# C16 — the serde path

Theorems about the model of the schema-aware serializer (`serS`) for the fragment it covers.
* `count_eq_length`: the number the serializer returns is the number of bytes it emitted.
* `direct_layout` / `buffered_layout`: for EVERY target block size an array or map is written as a
  legal sequence of blocks that carries exactly the items' encodings, in order, followed by the end
  marker - the partition into blocks is the only thing the setting changes.
* `record_in_schema_order`: whatever order a `Serialize` impl hands a struct's fields over in (serde's derive does so
  in declaration order, a map-style impl in any order), whichever it skips and whichever it never mentions, the bytes
  written are the fields' bytes in SCHEMA order, each being the bytes of the value given under that field's name or alias,
  or of the field's default - the out-of-order cache never drops, duplicates or misplaces a field.
`AvroProofs/C16Datum.lean` builds on these: the bytes are a specification-legal datum (`ser_is_spec_datum`) that the
generic decoder reads back as exactly one datum (`ser_decodes_as_one_datum`).  That the value read back is the one the
Rust value converts to, and the schema-aware deserializer, are decided by the correspondence run and the oracle.
-/
namespace Avro.C16
open Avro

/-- "the returned count is the length of the bytes" for one call -/
def Counted (r : SerOut) : Prop := ∀ b n, r = .ok (b, n) → n = b.length

theorem counted_error (e : Err) : Counted (.error e) := by intro b n h; cases h
theorem counted_ok {b : Bytes} {n : Nat} (h : n = b.length) : Counted (.ok (b, n)) := by
  intro b' n' e; cases e; exact h

theorem withLen_counted (b : Bytes) : (withLen b).2 = (withLen b).1.length := by simp [withLen]
theorem varint_counted (n : Int) : (varint n).2 = (varint n).1.length := by simp [varint]

theorem direct_counted (ser : SerdeVal → SerOut) (keyed : Bool) (serKey : SerdeVal → SerOut) (len : Nat)
    (hs : ∀ v, Counted (ser v)) (hk : ∀ k, Counted (serKey k)) :
    ∀ (es : List (SerdeVal × SerdeVal)) (out : Bytes) (cnt : Nat), cnt = out.length →
      Counted (directBlocks ser keyed serKey len es out cnt)
  | [], out, cnt, h => by
    simp only [directBlocks]; exact counted_ok (by simp [h])
  | (k, v) :: rest, out, cnt, h => by
    simp only [directBlocks]
    cases keyed with
    | false =>
      simp only [Bool.false_eq_true, if_false]
      cases hv : ser v with
      | error e => exact counted_error e
      | ok r =>
        obtain ⟨vb, vn⟩ := r
        have := hs v vb vn hv
        exact direct_counted ser false serKey len hs hk rest _ _ (by simp [h, this])
    | true =>
      simp only [if_true]
      cases hkk : serKey k with
      | error e => exact counted_error e
      | ok rk =>
        obtain ⟨kb, kn⟩ := rk
        have h1 := hk k kb kn hkk
        cases hv : ser v with
        | error e => exact counted_error e
        | ok r =>
          obtain ⟨vb, vn⟩ := r
          have := hs v vb vn hv
          exact direct_counted ser true serKey len hs hk rest _ _ (by simp [h, this, h1]; omega)

theorem writeBlock_counted (items : Nat) (buffer out : Bytes) (cnt : Nat) (h : cnt = out.length) :
    (writeBlock items buffer out cnt).2 = (writeBlock items buffer out cnt).1.length := by
  simp [writeBlock, h]; omega

theorem buffered_counted (ser : SerdeVal → SerOut) (keyed : Bool) (serKey : SerdeVal → SerOut) (target : Nat) :
    ∀ (es : List (SerdeVal × SerdeVal)) (buffer : Bytes) (items : Nat) (out : Bytes) (cnt : Nat), cnt = out.length →
      Counted (bufferedBlocks ser keyed serKey target es buffer items out cnt)
  | [], buffer, items, out, cnt, h => by
    simp only [bufferedBlocks]
    by_cases hi : items > 0
    · simp only [hi, if_true]
      exact counted_ok (by
        have := writeBlock_counted items buffer out cnt h
        simp [this])
    · simp only [hi, if_false]
      exact counted_ok (by simp [h])
  | (k, v) :: rest, buffer, items, out, cnt, h => by
    simp only [bufferedBlocks]
    cases (if keyed = true then serKey k else .ok ([], 0)) with
    | error e => exact counted_error e
    | ok rk =>
      obtain ⟨kb, kn⟩ := rk
      simp only
      cases ser v with
      | error e => exact counted_error e
      | ok r =>
        obtain ⟨vb, vn⟩ := r
        simp only
        split
        · exact buffered_counted ser keyed serKey target rest [] 0 _ _
            (writeBlock_counted (items + 1) (buffer ++ kb ++ vb) out cnt h)
        · exact buffered_counted ser keyed serKey target rest _ _ out cnt h

theorem blockSer_counted (tbs : Option Nat) (ser : SerdeVal → SerOut) (keyed : Bool) (serKey : SerdeVal → SerOut)
    (len : Option Nat) (es : List (SerdeVal × SerdeVal)) (hs : ∀ v, Counted (ser v)) (hk : ∀ k, Counted (serKey k)) :
    Counted (blockSer tbs ser keyed serKey len es) := by
  unfold blockSer
  split
  · rename_i n
    by_cases hn : (n != 0) = true
    · simp only [hn, if_true]
      exact direct_counted ser keyed serKey n hs hk es _ _ (varint_counted n)
    · simp only [hn, if_false]
      exact direct_counted ser keyed serKey n hs hk es _ _ rfl
  · exact buffered_counted ser keyed serKey _ es [] 0 [] 0 rfl

theorem tupleFields_counted (ser : Schema → SerdeVal → SerOut) (hs : ∀ s v, Counted (ser s v)) :
    ∀ (fs : List (FieldMeta × Schema)) (xs : List SerdeVal) (out : Bytes) (cnt : Nat), cnt = out.length →
      Counted (tupleFields ser fs xs out cnt)
  | [], [], out, cnt, h => by simp only [tupleFields]; exact counted_ok h
  | [], _ :: _, _, _, _ => by simp only [tupleFields]; exact counted_error _
  | _ :: _, [], _, _, _ => by simp only [tupleFields]; exact counted_error _
  | (m, s) :: fs, x :: xs, out, cnt, h => by
    simp only [tupleFields]
    cases hv : ser s x with
    | error e => exact counted_error e
    | ok r =>
      obtain ⟨b, n⟩ := r
      have := hs s x b n hv
      exact tupleFields_counted ser hs fs xs _ _ (by simp [h, this])

/-- the record serializer's invariant: the running count is the length of what was written -/
def RecOk (st : RecSt) : Prop := st.cnt = st.out.length

theorem flushCache_ok : ∀ (fuel : Nat) (st : RecSt), RecOk st → RecOk (flushCache fuel st)
  | 0, st, h => h
  | fuel+1, st, h => by
    simp only [flushCache]
    split
    · exact flushCache_ok fuel _ (by simp [RecOk] at h ⊢; omega)
    · exact h

theorem nextField_ok (n : Nat) (st : RecSt) (position : Nat) (bytesOf : SerOut) (hb : Counted bytesOf)
    (h : RecOk st) (st' : RecSt) (hr : nextField n st position bytesOf = .ok st') : RecOk st' := by
  unfold nextField at hr
  split at hr
  · cases hbo : bytesOf with
    | error e => simp [hbo] at hr
    | ok r =>
      obtain ⟨b, m⟩ := r
      simp only [hbo] at hr
      cases hr
      exact flushCache_ok _ _ (by simp [RecOk] at h ⊢; rw [hb b m hbo]; omega)
  · split at hr
    · cases hbo : bytesOf with
      | error e => simp [hbo] at hr
      | ok r =>
        obtain ⟨b, m⟩ := r
        simp only [hbo] at hr
        split at hr
        · cases hr
        · cases hr; exact h
    · cases hr

theorem recordFields_ok (env : Names) (ser : Schema → SerdeVal → SerOut) (hs : ∀ s v, Counted (ser s v))
    (fields : List (FieldMeta × Schema)) :
    ∀ (given : List (Bytes × Option SerdeVal)) (st st' : RecSt), RecOk st →
      recordFields env ser fields given st = .ok st' → RecOk st'
  | [], st, st', h, hr => by simp [recordFields] at hr; subst hr; exact h
  | (key, val) :: rest, st, st', h, hr => by
    simp only [recordFields] at hr
    split at hr
    · cases hr
    · split at hr
      · cases hr
      · rename_i m s _
        split at hr
        · cases hr
        · rename_i st1 hn
          refine recordFields_ok env ser hs fields rest st1 st' (nextField_ok _ st _ _ ?_ h st1 hn) hr
          cases val with
          | some v => exact hs s v
          | none =>
            simp only
            split
            · exact counted_error _
            · split
              · exact hs s _
              · exact counted_error _

theorem recordEnd_ok (env : Names) (ser : Schema → SerdeVal → SerOut) (hs : ∀ s v, Counted (ser s v))
    (fields : List (FieldMeta × Schema)) :
    ∀ (fuel : Nat) (st st' : RecSt), RecOk st → recordEnd env ser fields fuel st = .ok st' → RecOk st'
  | 0, st, st', h, hr => by
    simp only [recordEnd] at hr
    split at hr
    · cases hr; exact h
    · cases hr
  | fuel+1, st, st', h, hr => by
    simp only [recordEnd] at hr
    split at hr
    · cases hr; exact h
    · split at hr
      · cases hr
      · rename_i m s _
        split at hr
        · cases hr
        · split at hr
          · cases hr
          · rename_i st1 hn
            refine recordEnd_ok env ser hs fields fuel st1 st' (nextField_ok _ st _ _ ?_ h st1 hn) hr
            split
            · exact hs s _
            · exact counted_error _

theorem counted_pair (p : Bytes × Nat) (h : p.2 = p.1.length) : Counted (.ok p) := by
  intro b n e; cases e; exact h

macro "fin" : tactic => `(tactic| first | exact counted_error _ | exact counted_pair _ (by simp [withLen, varint, leBytes_length]))

/-- **the returned count is the number of bytes emitted**, for every value of the modelled
fragment, every schema, every block size and every recursion budget -/
theorem count_eq_length (tbs : Option Nat) (env : Names) : ∀ (fuel : Nat) (s : Schema) (x : SerdeVal),
    Counted (serS tbs env fuel s x)
  | 0, _, _ => by simp only [serS]; exact counted_error _
  | fuel+1, s0, x => by
    have ih := count_eq_length tbs env fuel
    simp only [serS]
    cases hd : derefS env s0 with
    | none => exact counted_error _
    | some s =>
      simp only
      cases x
      case bool b => cases s <;> simp only [] <;> fin
      case i8 n => cases s <;> simp only [Schema.isIntLikeS, Bool.false_eq_true, if_true, if_false] <;> fin
      case i16 n => cases s <;> simp only [Schema.isIntLikeS, Bool.false_eq_true, if_true, if_false] <;> fin
      case i32 n => cases s <;> simp only [Schema.isIntLikeS, Bool.false_eq_true, if_true, if_false] <;> fin
      case u8 n => cases s <;> simp only [Schema.isIntLikeS, Bool.false_eq_true, if_true, if_false] <;> fin
      case u16 n => cases s <;> simp only [Schema.isIntLikeS, Bool.false_eq_true, if_true, if_false] <;> fin
      case i64 n => cases s <;> simp only [Schema.isLongLikeS, Bool.false_eq_true, if_true, if_false] <;> fin
      case u32 n => cases s <;> simp only [Schema.isLongLikeS, Bool.false_eq_true, if_true, if_false] <;> fin
      case u64 n => exact counted_error _
      case f32 b => cases s <;> simp only [] <;> fin
      case f64 b => cases s <;> simp only [] <;> fin
      case char u => cases s <;> simp only [] <;> fin
      case str u => cases s <;> simp only [] <;> fin
      case bytes b =>
        cases s <;> simp only [] <;> (try fin)
        all_goals first
          | (split <;> fin)
          | (rename_i p sc inner; cases inner <;> simp only [] <;> first | fin | (split <;> fin))
      case none =>
        cases s <;> simp only [] <;> (try fin)
        split <;> fin
      case some v =>
        cases s <;> simp only [] <;> (try fin)
        split
        · split
          · rename_i b _
            cases hv : serS tbs env fuel b v with
            | error e => exact counted_error e
            | ok r =>
              obtain ⟨vb, vn⟩ := r
              have := ih b v vb vn hv
              exact counted_ok (by simp [varint, this])
          · fin
        · fin
      case unit => cases s <;> simp only [] <;> fin
      case unitStruct name =>
        cases s <;> simp only [] <;> (try fin)
        rename_i rn fields
        cases fields <;> simp only [] <;> (try fin)
        split <;> fin
      case unitVariant nm idx variant =>
        cases s <;> simp only [] <;> (try fin)
        split
        · fin
        · split <;> fin
      case newtypeStruct name v =>
        cases s <;> simp only [] <;> (try fin)
        rename_i rn fields
        match fields with
        | [] => simp only []; fin
        | [(m, fs)] =>
          simp only []
          split
          · exact ih fs v
          · fin
        | _ :: _ :: _ => simp only []; fin
      case seq len items =>
        cases s <;> simp only [] <;> (try fin)
        rename_i inner
        exact blockSer_counted tbs _ false _ len _ (fun v => ih inner v) (fun _ => counted_ok rfl)
      case tuple items =>
        cases s <;> simp only [] <;> (try fin)
        all_goals
          split
          · first | fin | (split <;> fin)
          · split
            · split
              · exact ih _ _
              · fin
            · first | fin | (split <;> first | exact tupleFields_counted _ ih _ _ _ _ rfl | fin)
      case tupleStruct name items =>
        cases s <;> simp only [] <;> (try fin)
        split
        · exact tupleFields_counted _ ih _ _ _ _ rfl
        · fin
      case map len entries =>
        cases s <;> simp only [] <;> (try fin)
        rename_i inner
        exact blockSer_counted tbs _ true _ len _ (fun v => ih inner v) (fun k => ih .string k)
      case struct name fields =>
        cases s <;> simp only [] <;> (try fin)
        rename_i rn rfields
        cases h1 : recordFields env (serS tbs env fuel) rfields fields {} with
        | error e => exact counted_error e
        | ok st =>
          simp only []
          have hst := recordFields_ok env _ ih rfields fields {} st rfl h1
          cases h2 : recordEnd env (serS tbs env fuel) rfields (rfields.length + 1) st with
          | error e => exact counted_error e
          | ok st' =>
            simp only []
            exact counted_ok (recordEnd_ok env _ ih rfields _ st st' hst h2)

/-! ### the layout of arrays and maps, for every block size -/

/-- the bytes one entry contributes (the key, for a map, then the value); `none` when a serializer fails -/
def entryBytes (ser : SerdeVal → SerOut) (keyed : Bool) (serKey : SerdeVal → SerOut) (kv : SerdeVal × SerdeVal) :
    Option Bytes :=
  match (if keyed then serKey kv.1 else .ok ([], 0)), ser kv.2 with
  | .ok (kb, _), .ok (vb, _) => some (kb ++ vb)
  | _, _ => none

/-- one block in the sized form: negative item count, byte size, the items -/
def negBlock (items : List Bytes) : Bytes :=
  encLong (0 - (items.length : Int)) ++ encLong items.flatten.length ++ items.flatten

/-- the bytes of a result -/
def bytesOf (r : SerOut) : Except Err Bytes := match r with | .ok (b, _) => .ok b | .error e => .error e

/-- without a target block size (and with the length known): the count, the items, the end marker -/
theorem direct_layout (ser : SerdeVal → SerOut) (keyed : Bool) (serKey : SerdeVal → SerOut) (len : Nat) :
    ∀ (es : List (SerdeVal × SerdeVal)) (ebs : List Bytes) (out : Bytes) (cnt : Nat),
      es.mapM (entryBytes ser keyed serKey) = some ebs →
      bytesOf (directBlocks ser keyed serKey len es out cnt) = .ok (out ++ ebs.flatten ++ [0])
  | [], ebs, out, cnt, h => by
    simp at h; subst h
    simp [directBlocks, bytesOf]
  | (k, v) :: rest, ebs, out, cnt, h => by
    simp only [List.mapM_cons, entryBytes] at h
    cases hk : (if keyed = true then serKey k else Except.ok ([], 0)) with
    | error e => simp [hk] at h
    | ok rk =>
      obtain ⟨kb, kn⟩ := rk
      cases hv : ser v with
      | error e => simp [hk, hv] at h
      | ok rv =>
        obtain ⟨vb, vn⟩ := rv
        simp only [hk, hv] at h
        cases hr : rest.mapM (entryBytes ser keyed serKey) with
        | none => simp [hr] at h
        | some ebs' =>
          simp [hr] at h
          subst h
          have ih := direct_layout ser keyed serKey len rest ebs' (out ++ kb ++ vb) (cnt + kn + vn) hr
          simp only [directBlocks, hk, hv]
          rw [ih]
          simp [List.append_assoc]

/-- **for every target block size** the buffered serializer writes a sequence of non-empty sized
blocks whose items, concatenated, are exactly the pending items followed by the entries' bytes, in
order, and then the end marker -/
theorem buffered_layout (ser : SerdeVal → SerOut) (keyed : Bool) (serKey : SerdeVal → SerOut) (target : Nat) :
    ∀ (es : List (SerdeVal × SerdeVal)) (ebs pend : List Bytes) (out : Bytes) (cnt : Nat),
      es.mapM (entryBytes ser keyed serKey) = some ebs →
      ∃ (parts : List (List Bytes)), (∀ p ∈ parts, p ≠ []) ∧ parts.flatten = pend ++ ebs ∧
        bytesOf (bufferedBlocks ser keyed serKey target es pend.flatten pend.length out cnt) =
          .ok (out ++ (parts.map negBlock).flatten ++ [0])
  | [], ebs, pend, out, cnt, h => by
    simp at h; subst h
    by_cases hp : pend.length > 0
    · refine ⟨[pend], ?_, by simp, ?_⟩
      · intro p hpm; simp at hpm; subst hpm; intro he; subst he; simp at hp
      · simp [bufferedBlocks, hp, writeBlock, negBlock, bytesOf, List.append_assoc]
    · have : pend = [] := by cases pend <;> simp_all
      subst this
      exact ⟨[], by simp, by simp, by simp [bufferedBlocks, bytesOf]⟩
  | (k, v) :: rest, ebs, pend, out, cnt, h => by
    simp only [List.mapM_cons, entryBytes] at h
    cases hk : (if keyed = true then serKey k else Except.ok ([], 0)) with
    | error e => simp [hk] at h
    | ok rk =>
      obtain ⟨kb, kn⟩ := rk
      cases hv : ser v with
      | error e => simp [hk, hv] at h
      | ok rv =>
        obtain ⟨vb, vn⟩ := rv
        simp only [hk, hv] at h
        cases hr : rest.mapM (entryBytes ser keyed serKey) with
        | none => simp [hr] at h
        | some ebs' =>
          simp [hr] at h
          subst h
          have hflat : pend.flatten ++ kb ++ vb = (pend ++ [kb ++ vb]).flatten := by simp [List.append_assoc]
          have hlen : pend.length + 1 = (pend ++ [kb ++ vb]).length := by simp
          simp only [bufferedBlocks, hk, hv]
          by_cases hge : (pend.flatten ++ kb ++ vb).length ≥ target
          · simp only [hge, if_true]
            obtain ⟨parts, hne, hfl, hrun⟩ := buffered_layout ser keyed serKey target rest ebs' []
              (writeBlock (pend.length + 1) (pend.flatten ++ kb ++ vb) out cnt).1
              (writeBlock (pend.length + 1) (pend.flatten ++ kb ++ vb) out cnt).2 hr
            refine ⟨(pend ++ [kb ++ vb]) :: parts, ?_, ?_, ?_⟩
            · intro p hp
              rcases List.mem_cons.mp hp with rfl | hp
              · simp
              · exact hne p hp
            · simp [hfl, List.append_assoc]
            · simp only [List.flatten_nil, List.length_nil] at hrun
              rw [hrun]
              simp [writeBlock, negBlock, hflat, List.append_assoc]
          · simp only [hge, if_false]
            obtain ⟨parts, hne, hfl, hrun⟩ := buffered_layout ser keyed serKey target rest ebs' (pend ++ [kb ++ vb]) out cnt hr
            refine ⟨parts, hne, by simp [hfl, List.append_assoc], ?_⟩
            rw [hflat, hlen]
            exact hrun

/-! ### the record serializer's out-of-order cache -/

/-- **record fields come out in schema order**: when serializing a struct against a record schema succeeds, the bytes
are the concatenation, over the schema's fields in schema order, of `specField … i`: the bytes of the value handed
over under a key that resolves to field `i` (its default when that value was skipped), or of the field's default
when the type never handed the field over.  For every order of the fields, every set of skipped or missing fields,
every schema, block size and recursion budget. -/
theorem record_in_schema_order (tbs : Option Nat) (env : Names) (fuel : Nat) (s0 : Schema) (rn : Bytes)
    (rfields : List (FieldMeta × Schema)) (name : Bytes) (given : List (Bytes × Option SerdeVal)) (b : Bytes) (k : Nat)
    (hs : derefS env s0 = some (.record rn rfields))
    (hok : serS tbs env (fuel + 1) s0 (.struct name given) = .ok (b, k)) :
    ∃ bs : List Bytes, bs.length = rfields.length ∧ b = bs.flatten ∧
      ∀ i x, bs[i]? = some x → ∃ n, specField env (serS tbs env fuel) rfields given i = .ok (x, n) := by
  simp only [serS, hs] at hok
  cases h1 : recordFields env (serS tbs env fuel) rfields given {} with
  | error e => rw [h1] at hok; simp at hok
  | ok st =>
    rw [h1] at hok
    simp only at hok
    cases h2 : recordEnd env (serS tbs env fuel) rfields (rfields.length + 1) st with
    | error e => rw [h2] at hok; simp at hok
    | ok st' =>
      rw [h2] at hok
      simp only [Except.ok.injEq, Prod.mk.injEq] at hok
      have hinit : RInv (specField env (serS tbs env fuel) rfields given) rfields.length true ({} : RecSt) :=
        ⟨by intro e he; simp at he, by intro e he; simp at he, ⟨[], rfl, by intro i x hx; simp at hx, rfl⟩⟩
      obtain ⟨i1, i2⟩ := recordFields_inv env (serS tbs env fuel) rfields given given [] {} st (by simp) hinit
        (by intro kv hkv; simp at hkv) h1
      obtain ⟨j1, j2⟩ := recordEnd_inv env (serS tbs env fuel) rfields given _ st st' i1 i2 h2
      obtain ⟨bs, hl, hsp, hout⟩ := j1.outSpec
      exact ⟨bs, by rw [hl, j2], by rw [← hok.1, hout], hsp⟩

/-- non-vacuity: `record R {a: int, b: string = "x", c: long}` handed `c`, then `a` (and never `b`): the bytes are
`a`'s, the default of `b`, then `c`'s -/
example : serS none [] 5
    (.record [82] [({ name := [97] }, .int), ({ name := [98], default := some (.str [120]) }, .string), ({ name := [99] }, .long)])
    (.struct [82] [([99], some (.i64 (-1))), ([97], some (.i32 3))]) = .ok ([6, 2, 120, 1], 4) := by rfl

end Avro.C16
