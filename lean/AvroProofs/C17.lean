import AvroModel.Derive
import AvroProofs.Lemmas.DeriveWf
/-
C17 - derived schemas.  `Avro.deriveSchema` is the model of `T::get_schema()` for a type defined in
the type-definition language of `AvroModel/Derive.lean`; the correspondence check compares it, row
by row, with the schemas the real derive macro produces for a generated corpus of definitions.

What is proved here, for every environment of definitions, every type and every amount of fuel:

* the derived record fields are exactly the unskipped fields, in declaration order, under the names
  serde uses for them (`derived_fields_are_serde_fields`, `derived_tuple_fields`);
* the branches of a derived union of records are exactly the unskipped variants, in declaration
  order, named as serde names them (`derived_variants_are_serde_variants`);
* the default of a derived plain enum is one of its symbols (`plain_enum_default_is_symbol`);
* `Option<T>` derives to `[null, T]` or panics, never anything else, and it panics exactly when the
  two-branch union is no legal union (`option_shape`);
* a struct or plain enum whose name is already defined derives to a reference - it is never defined
  twice on the path through one `named` set (`defined_name_gives_ref`);
* a transparent struct derives to what its one unskipped field derives to (`transparent_is_its_field`);
  a flattened field is replaced in place by the record fields of its type (`flatten_splices`), and
  flattening a type without record fields is a panic (`flatten_of_non_record_panics`);
* `derive_wf_partial`: when the names the attributes produce are identifiers and distinct within each
  record / enum (`DeriveEnvOk`, a decidable condition on the definitions; it is what the kebab-case
  finding violates), every derived schema satisfies `wfP` - the well-formedness predicate every
  schema accepted by the parser satisfies (C11): names, symbols and field names match the grammars,
  field names are unique, unions obey the union rules, enum defaults are symbols.  The field names
  `field_0, field_1, …` of tuple variants are proved to be distinct identifiers outright.  What
  `wfP` does NOT say is that full names are defined once in the whole schema - that is exactly what
  `variant_records_defined_twice` refutes.

The full statement of C17 (the derived schema is well formed for every type) is FALSE of the code,
and the three ways it fails are kernel-checked here on concrete definitions and replayed on the crate
by the correspondence check (known findings): `option_of_union_panics`, `kebab_case_symbol_outside_grammar`,
`variant_records_defined_twice`.
-/
namespace Avro
namespace C17

/-! ### fields and variants follow serde's view of the type -/

theorem derived_fields_are_serde_fields (go : List PName → Option Bytes → TyExpr → DOut) (goF : List PName → Option Bytes → TyExpr → DFields) (dflt : TyExpr → Option Json) (rule : RenameRule) :
    ∀ (fs : List FieldDef) (named : List PName) (ns : Option Bytes) out named',
      deriveFieldsWith go goF dflt rule fs named ns = some (out, named') → fs.all (fun f => !f.flatten) = true →
      out.map (fun f => f.1.name) = (fs.filter (fun f => !f.skip)).map (fun f => fieldName f rule) := by
  intro fs
  induction fs with
  | nil => intro named ns out named' h _; simp [deriveFieldsWith] at h; simp [h.1]
  | cons f rest ih =>
    intro named ns out named' h hnf
    have hnf2 : f.flatten = false ∧ rest.all (fun f => !f.flatten) = true := by simpa using hnf
    unfold deriveFieldsWith at h
    by_cases hs : f.skip = true
    · simp [hs] at h
      simpa [List.filter, hs] using ih _ _ _ _ h hnf2.2
    · simp [hs, hnf2.1] at h
      cases hg : go named ns f.ty with
      | none => simp [hg] at h
      | some r =>
        obtain ⟨s, n1⟩ := r
        simp [hg] at h
        cases hr : deriveFieldsWith go goF dflt rule rest n1 ns with
        | none => simp [hr] at h
        | some r2 =>
          obtain ⟨fs2, n2⟩ := r2
          simp [hr] at h
          obtain ⟨h1, _⟩ := h
          subst h1
          have := ih _ _ _ _ hr hnf2.2
          simp [List.filter, hs, this]

/-- tuple variants: one field per element, named `field_0`, `field_1`, … -/
theorem derived_tuple_fields (go : List PName → Option Bytes → TyExpr → DOut) (dflt : TyExpr → Option Json) :
    ∀ (tys : List TyExpr) (i : Nat) (named : List PName) (ns : Option Bytes) out named',
      deriveTupleFieldsWith go dflt tys i named ns = some (out, named') →
      out.map (fun f => f.1.name) = (List.range tys.length).map (fun k => b!"field_" ++ natBytes (i + k)) := by
  intro tys
  induction tys with
  | nil => intro i named ns out named' h; simp [deriveTupleFieldsWith] at h; simp [h.1]
  | cons t rest ih =>
    intro i named ns out named' h
    unfold deriveTupleFieldsWith at h
    cases hg : go named ns t with
    | none => simp [hg] at h
    | some r =>
      obtain ⟨s, n1⟩ := r
      simp [hg] at h
      cases hr : deriveTupleFieldsWith go dflt rest (i+1) n1 ns with
      | none => simp [hr] at h
      | some r2 =>
        obtain ⟨fs2, n2⟩ := r2
        simp [hr] at h
        obtain ⟨h1, _⟩ := h
        subst h1
        have := ih _ _ _ _ _ hr
        simp only [List.map_cons, List.length_cons, List.range_succ_eq_map, this, List.map_map, Function.comp_def,
          Nat.add_zero, List.cons.injEq]
        refine ⟨rfl, ?_⟩
        apply List.map_congr_left
        intro a _
        rw [show i + 1 + a = i + a.succ by omega]

/-- the name of the record a variant derives to -/
theorem derived_variant_name (go : List PName → Option Bytes → TyExpr → DOut) (goF : List PName → Option Bytes → TyExpr → DFields) (dflt : TyExpr → Option Json) (r rf : RenameRule)
    (v : VariantDef) (named : List PName) (ns : Option Bytes) (s : PSchema) (named' : List PName)
    (h : deriveVariantWith go goF dflt r rf v named ns = some (s, named')) :
    ∃ pn, PName.make (variantName v r) ns = some pn ∧ s.pname? = some pn := by
  unfold deriveVariantWith at h
  cases hm : PName.make (variantName v r) ns with
  | none => simp [hm] at h
  | some pn =>
    refine ⟨pn, rfl, ?_⟩
    simp [hm] at h
    cases hsh : v.shape with
    | unit => simp [hsh] at h; rw [← h.1]; rfl
    | tuple tys =>
      simp [hsh] at h
      cases hr : deriveTupleFieldsWith go dflt tys 0 named ns with
      | none => simp [hr] at h
      | some r2 => simp only [hr] at h; rw [(recordOf_some h).1]; rfl
    | struct fields =>
      simp [hsh] at h
      cases hr : deriveFieldsWith go goF dflt (v.renameAll.or rf) fields named ns with
      | none => simp [hr] at h
      | some r2 => simp only [hr] at h; rw [(recordOf_some h).1]; rfl

theorem derived_variants_are_serde_variants (go : List PName → Option Bytes → TyExpr → DOut) (goF : List PName → Option Bytes → TyExpr → DFields) (dflt : TyExpr → Option Json) (r rf : RenameRule) :
    ∀ (vs : List VariantDef) (named : List PName) (ns : Option Bytes) out named',
      deriveVariantsWith go goF dflt r rf vs named ns = some (out, named') →
      out.map PSchema.pname? = (vs.filter (fun v => !v.skip)).map (fun v => PName.make (variantName v r) ns) := by
  intro vs
  induction vs with
  | nil => intro named ns out named' h; simp [deriveVariantsWith] at h; simp [h.1]
  | cons v rest ih =>
    intro named ns out named' h
    unfold deriveVariantsWith at h
    by_cases hs : v.skip = true
    · simp [hs] at h
      simpa [List.filter, hs] using ih _ _ _ _ h
    · simp [hs] at h
      cases hg : deriveVariantWith go goF dflt r rf v named ns with
      | none => simp [hg] at h
      | some r1 =>
        obtain ⟨s, n1⟩ := r1
        simp [hg] at h
        cases hr : deriveVariantsWith go goF dflt r rf rest n1 ns with
        | none => simp [hr] at h
        | some r2 =>
          obtain ⟨ss, n2⟩ := r2
          simp [hr] at h
          obtain ⟨h1, _⟩ := h
          subst h1
          obtain ⟨pn, hpn, hname⟩ := derived_variant_name go goF dflt r rf v named ns s n1 hg
          have := ih _ _ _ _ hr
          simp [List.filter, hs, this, hname, hpn]

/-! ### plain enums, options, references -/

/-- what a unit-only enum derives to -/
def plainEnumOf (pn : PName) (al : Option (List PName)) (doc : Option Bytes) (rule : RenameRule) (variants : List VariantDef) : PSchema :=
  let live := variants.filter (fun v => !v.skip)
  .enum pn al doc (live.map (fun v => variantName v rule)) ((live.find? (fun v => v.isDefault)).map (fun v => variantName v rule)) []

theorem plain_enum_default_is_symbol (pn : PName) (al doc) (rule : RenameRule) (variants : List VariantDef)
    (name al' doc' symbols d attrs)
    (h : plainEnumOf pn al doc rule variants = .enum name al' doc' symbols (some d) attrs) : d ∈ symbols := by
  unfold plainEnumOf at h
  injection h with _ _ _ hs hd _
  subst hs
  cases hf : (variants.filter (fun v => !v.skip)).find? (fun v => v.isDefault) with
  | none => rw [hf] at hd; simp at hd
  | some v =>
    rw [hf] at hd
    simp only [Option.map_some, Option.some.injEq] at hd
    subst hd
    exact List.mem_map.mpr ⟨v, List.mem_of_find?_eq_some hf, rfl⟩

/-- a unit-only enum that is not yet defined derives to `plainEnumOf`, and is then defined -/
theorem plain_enum_shape (env : DEnv) (fuel : Nat) (named : List PName) (ns : Option Bytes) (ident : Bytes)
    (i name doc aliases rule rulef variants) (pn : PName) (al : Option (List PName))
    (hfind : env.find? ident = some (.enum i name doc aliases rule rulef variants))
    (hunit : plainLike variants = true)
    (hname : PName.make name ns = some pn) (hnew : pn ∉ named) (hal : deriveAliases aliases = some al) :
    deriveTy env (fuel+1) named ns (.named ident) = some (plainEnumOf pn al doc rule variants, pn :: named) := by
  simp [deriveTy, hfind, hunit, hname, hnew, hal, plainEnumOf]

/-- `Option<T>`: `[null, T]`, or a panic exactly when that is no legal union -/
theorem option_shape (env : DEnv) (fuel : Nat) (named : List PName) (ns : Option Bytes) (t : TyExpr) :
    deriveTy env (fuel+1) named ns (.option t) =
      match deriveTy env fuel named ns t with
      | none => none
      | some (s, named') => if (unionNew [.null, s] [] []).isSome then some (.union [.null, s], named') else none := by
  simp only [deriveTy]
  cases deriveTy env fuel named ns t with
  | none => rfl
  | some r =>
    obtain ⟨s, n'⟩ := r
    cases h : unionNew [.null, s] [] [] <;> simp [h]

/-- a union inside an `Option` is such a panic -/
theorem option_of_union_is_a_panic (env : DEnv) (fuel : Nat) (named named' : List PName) (ns : Option Bytes) (t : TyExpr)
    (bs : List PSchema) (h : deriveTy env fuel named ns t = some (.union bs, named')) :
    deriveTy env (fuel+1) named ns (.option t) = none := by
  rw [option_shape, h]
  simp [unionNew, PSchema.pname?, PSchema.baseKind]

/-- a struct whose name is in the set of defined names derives to a reference -/
theorem defined_name_gives_ref (env : DEnv) (fuel : Nat) (named : List PName) (ns : Option Bytes) (ident : Bytes)
    (i name doc aliases rule fields) (pn : PName)
    (hfind : env.find? ident = some (.struct i name doc aliases rule fields))
    (hname : PName.make name ns = some pn) (hin : pn ∈ named) :
    deriveTy env (fuel+1) named ns (.named ident) = some (.ref pn, named) := by
  simp [deriveTy, hfind, hname, hin]

/-! ### transparent structs and flattened fields -/

/-- a transparent struct derives to exactly what the type of its one unskipped field derives to
(nothing is registered under the struct's own name) -/
theorem transparent_is_its_field (env : DEnv) (fuel : Nat) (named : List PName) (ns : Option Bytes) (ident i : Bytes)
    (fields : List FieldDef) (f : FieldDef)
    (hfind : env.find? ident = some (.transparent i fields)) (hf : transparentField fields = some f) :
    deriveTy env (fuel+1) named ns (.named ident) = deriveTy env fuel named ns f.ty := by
  simp [deriveTy, hfind, hf]

/-- a flattened field is replaced, in place, by the record fields of its type -/
theorem flatten_splices (go : List PName → Option Bytes → TyExpr → DOut) (goF : List PName → Option Bytes → TyExpr → DFields)
    (dflt : TyExpr → Option Json) (rule : RenameRule) (f : FieldDef) (rest : List FieldDef) (named named' named'' : List PName)
    (ns : Option Bytes) (inner fs : List (FieldHdr × PSchema))
    (hskip : f.skip = false) (hflat : f.flatten = true)
    (h1 : goF named ns f.ty = some (some inner, named'))
    (h2 : deriveFieldsWith go goF dflt rule rest named' ns = some (fs, named'')) :
    deriveFieldsWith go goF dflt rule (f :: rest) named ns = some (inner ++ fs, named'') := by
  simp [deriveFieldsWith, hskip, hflat, h1, h2]

/-- flattening a type without record fields (a scalar, an `Option`, a `Vec`, an enum) is a panic in `get_schema()` -/
theorem flatten_of_non_record_panics (go : List PName → Option Bytes → TyExpr → DOut) (goF : List PName → Option Bytes → TyExpr → DFields)
    (dflt : TyExpr → Option Json) (rule : RenameRule) (f : FieldDef) (rest : List FieldDef) (named named' : List PName) (ns : Option Bytes)
    (hskip : f.skip = false) (hflat : f.flatten = true) (h1 : goF named ns f.ty = some (none, named')) :
    deriveFieldsWith go goF dflt rule (f :: rest) named ns = none := by
  simp [deriveFieldsWith, hskip, hflat, h1]

/-- the fields a derived struct offers for flattening are built in the CALLER's namespace: the struct's
own `#[avro(namespace)]` does not apply to the named types its fields mention -/
def envFlatNs : DEnv :=
  [ .struct b!"Point" b!"Point" none [] .none [ { ident := b!"x", ty := .i32 } ],
    .struct b!"Spot" b!"geo.Spot" none [] .none [ { ident := b!"at", ty := .named b!"Point" } ],
    .struct b!"Flat" b!"Flat" none [] .none [ { ident := b!"spot", ty := .named b!"Spot", flatten := true } ] ]

example :
    deriveSchema envFlatNs 20 b!"Spot" = some
      (.record ⟨some b!"geo", b!"Spot"⟩ none none
        [ (⟨b!"at", none, [], none, []⟩, .record ⟨some b!"geo", b!"Point"⟩ none none [ (⟨b!"x", none, [], none, []⟩, .int) ] []) ] []) := by
  rfl

example :
    deriveSchema envFlatNs 20 b!"Flat" = some
      (.record ⟨none, b!"Flat"⟩ none none
        [ (⟨b!"at", none, [], none, []⟩, .record ⟨none, b!"Point"⟩ none none [ (⟨b!"x", none, [], none, []⟩, .int) ] []) ] []) := by
  rfl

/-! ### local well-formedness -/

theorem derive_wf_partial (env : DEnv) (henv : DeriveEnvOk env) (fuel : Nat) (ident : Bytes) (s : PSchema)
    (h : deriveSchema env fuel ident = some s) : wfP s = true := by
  unfold deriveSchema at h
  cases hr : deriveTy env fuel [] none (.named ident) with
  | none => simp [hr] at h
  | some r =>
    obtain ⟨s', n'⟩ := r
    simp [hr] at h
    subst h
    exact deriveTy_good env henv fuel _ _ _ _ _ hr

/-! ### the three ways the full statement fails (kernel-checked witnesses; known findings) -/

def envOpt : DEnv :=
  [ .enum b!"E" b!"E" none [] .none .none
      [ { ident := b!"A" }, { ident := b!"B", shape := .tuple [.i32] } ],
    .struct b!"S" b!"S" none [] .none [ { ident := b!"f", ty := .option (.named b!"E") } ] ]

/-- `struct S { f: Option<E> }` with `enum E { A, B(i32) }`: `S::get_schema()` panics -/
theorem option_of_union_panics : deriveSchema envOpt 20 b!"S" = none := by rfl

/-- `Option<Option<i32>>` likewise -/
theorem option_of_option_panics :
    deriveSchema [ .struct b!"S" b!"S" none [] .none [ { ident := b!"f", ty := .option (.option .i32) } ] ] 20 b!"S" = none := by
  rfl

def envKebab : DEnv :=
  [ .enum b!"E" b!"E" none [] .kebab .none [ { ident := b!"FirstOne", isDefault := true }, { ident := b!"Second" } ] ]

/-- `#[serde(rename_all = "kebab-case")] enum E { FirstOne, Second }` derives the symbol `first-one`,
which is no Avro name -/
theorem kebab_case_symbol_outside_grammar :
    ∃ pn, deriveSchema envKebab 20 b!"E" = some (.enum pn none none [b!"first-one", b!"second"] (some b!"first-one") [])
      ∧ isIdent b!"first-one" = false := by
  refine ⟨{ ns := none, name := b!"E" }, by rfl, by decide⟩

def envTwice : DEnv :=
  [ .enum b!"E" b!"E" none [] .none .none
      [ { ident := b!"A" }, { ident := b!"B", shape := .tuple [.i32] } ],
    .struct b!"S" b!"S" none [] .none [ { ident := b!"x", ty := .named b!"E" }, { ident := b!"y", ty := .named b!"E" } ] ]

/-- all record definitions (not references) in a schema, in order -/
def definedRecords : Nat → PSchema → List PName
  | 0, _ => []
  | fuel+1, .record n _ _ fs _ => n :: fs.flatMap (fun f => definedRecords fuel f.2)
  | fuel+1, .array s _ => definedRecords fuel s
  | fuel+1, .map s _ => definedRecords fuel s
  | fuel+1, .union bs => bs.flatMap (definedRecords fuel)
  | _, _ => []

/-- `struct S { x: E, y: E }` with `enum E { A, B(i32) }`: the records `A` and `B` are defined twice -/
theorem variant_records_defined_twice :
    (deriveSchema envTwice 20 b!"S").map (definedRecords 10) =
      some [⟨none, b!"S"⟩, ⟨none, b!"A"⟩, ⟨none, b!"B"⟩, ⟨none, b!"A"⟩, ⟨none, b!"B"⟩] := by
  rfl

/-! ### non-vacuity: a definition that derives -/

def envOk : DEnv :=
  [ .enum b!"Suit" b!"Suit" none [] .none .none [ { ident := b!"Clubs", isDefault := true }, { ident := b!"Hearts", skip := true }, { ident := b!"Spades" } ],
    .struct b!"T" b!"ns.T" none [] .camel
      [ { ident := b!"my_suit", ty := .named b!"Suit" }, { ident := b!"hidden", ty := .i32, skip := true },
        { ident := b!"others", ty := .vec (.named b!"Suit") }, { ident := b!"next", ty := .option (.boxed (.named b!"T")) } ] ]

example :
    deriveSchema envOk 20 b!"T" = some
      (.record ⟨some b!"ns", b!"T"⟩ none none
        [ (⟨b!"mySuit", none, [], none, []⟩, .enum ⟨some b!"ns", b!"Suit"⟩ none none [b!"Clubs", b!"Spades"] (some b!"Clubs") []),
          (⟨b!"others", none, [], none, []⟩, .array (.ref ⟨some b!"ns", b!"Suit"⟩) []),
          (⟨b!"next", none, [], some .null, []⟩, .union [.null, .ref ⟨some b!"ns", b!"T"⟩]) ] []) := by
  rfl

/-- the hypothesis of `derive_wf_partial` holds of this environment, and fails of the kebab-case one -/
example : DeriveEnvOk envOk := by unfold DeriveEnvOk; decide
example : DeriveEnvOk envTwice := by unfold DeriveEnvOk; decide
example : ¬ DeriveEnvOk envKebab := by unfold DeriveEnvOk; decide

end C17
end Avro
