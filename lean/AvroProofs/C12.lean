import AvroModel
namespace Avro.C12
open Avro
end Avro.C12
