import AvroModel
import AvroProofs.Lemmas.Rabin
/-!
# C12 — Parsing Canonical Form and fingerprints

The Rabin fingerprint is CRC-64-AVRO of the canonical form (proved for every byte string: `Avro.rabin_eq_crc64`,
also used by C18, re-exported here).  About the form itself: a primitive name is written
quoted; an object with more than one entry is determined by its relevant entries alone (docs,
aliases, defaults and every other attribute do not influence it); the PRIMITIVES rule is applied
only to objects with exactly one entry, which is why a primitive that carried a logical type keeps
its object form (`logical_primitive_not_reduced`, the open finding).
-/
namespace Avro.C12
open Avro

/-- the table-driven fingerprint of the crate equals the bit-serial CRC-64-AVRO of the
specification, for every byte string -/
theorem rabin_is_crc64 (data : Bytes) : rabinState data = crc64Avro data := Avro.rabin_eq_crc64 data

/-- PRIMITIVES / STRINGS: a type name is written as a quoted string -/
theorem pcf_name (f : Nat) (s : Bytes) (d : List Bytes) : pcf (f+1) (.str s) d = some (pcfString s, d) := by
  simp [pcf]

/-- STRIP: in an object that has more than one entry, an entry whose key is not relevant for the
node's kind changes nothing -/
theorem pcfEntries_skip_irrelevant (g : Json → List Bytes → Option (Bytes × List Bytes)) (n : Nat) (hn : n ≠ 1)
    (relevant : List Bytes) (name : Option Bytes) (k : Bytes) (v : Json) (rest : List (Bytes × Json))
    (d : List Bytes) (acc : List (Nat × Bytes)) (hk : relevant.contains k = false) :
    pcfEntries g n relevant name ((k, v) :: rest) d acc = pcfEntries g n relevant name rest d acc := by
  have h1 : (n == 1) = false := by simpa using hn
  simp only [pcfEntries, h1, Bool.false_and, Bool.false_eq_true, if_false, hk, Bool.not_false, if_true]

/-- STRIP, for the whole object: with more than one entry, only the relevant entries matter -/
theorem pcfEntries_only_relevant (g : Json → List Bytes → Option (Bytes × List Bytes)) (n : Nat) (hn : n ≠ 1)
    (relevant : List Bytes) (name : Option Bytes) :
    ∀ (es : List (Bytes × Json)) (d : List Bytes) (acc : List (Nat × Bytes)),
      pcfEntries g n relevant name es d acc =
      pcfEntries g n relevant name (es.filter (fun kv => relevant.contains kv.1)) d acc
  | [], _, _ => rfl
  | (k, v) :: rest, d, acc => by
    cases hk : relevant.contains k with
    | false =>
      rw [pcfEntries_skip_irrelevant g n hn relevant name k v rest d acc hk]
      simp only [List.filter_cons, hk, Bool.false_eq_true, if_false]
      exact pcfEntries_only_relevant g n hn relevant name rest d acc
    | true =>
      have h1 : (n == 1) = false := by simpa using hn
      simp only [List.filter_cons, hk, if_true]
      simp only [pcfEntries, h1, Bool.false_and, Bool.false_eq_true, if_false, hk, Bool.not_true]
      cases fieldPos k with
      | none => exact pcfEntries_only_relevant g n hn relevant name rest d acc
      | some pos =>
        simp only
        split
        · exact pcfEntries_only_relevant g n hn relevant name rest d _
        · split
          · split
            · split
              · split
                · exact pcfEntries_only_relevant g n hn relevant name rest d _
                · rfl
              · rfl
            · split
              · exact pcfEntries_only_relevant g n hn relevant name rest d _
              · rfl
            · rfl
          · split
            · split
              · exact pcfEntries_only_relevant g n hn relevant name rest _ _
              · rfl
            · split
              · exact pcfEntries_only_relevant g n hn relevant name rest _ _
              · rfl
            · split
              · exact pcfEntries_only_relevant g n hn relevant name rest _ _
              · rfl
            · rfl

/-- what the relevant entries are: exactly the attributes the specification lists per kind -/
theorem relevant_record : relevantKeys (some b!"record") = [b!"name", b!"type", b!"fields"] := by decide
theorem relevant_enum : relevantKeys (some b!"enum") = [b!"name", b!"type", b!"symbols"] := by decide
theorem relevant_fixed : relevantKeys (some b!"fixed") = [b!"name", b!"type", b!"size"] := by decide
theorem relevant_array : relevantKeys (some b!"array") = [b!"type", b!"items"] := by decide
theorem relevant_map : relevantKeys (some b!"map") = [b!"type", b!"values"] := by decide

/-- witness of the open finding: a `long` carrying a logical type keeps its object form
(`{"type":"long"}`), while the plain `long` is written `"long"` -/
theorem logical_primitive_not_reduced :
    canonicalForm 10 .tsMicros = some b!"{\"type\":\"long\"}" ∧ canonicalForm 10 .long = some b!"\"long\"" := by
  constructor <;> rfl

/-- precision and scale of a decimal, and the logical type, are stripped -/
theorem decimal_stripped (p sc : Nat) : canonicalForm 10 (.decimal p sc none) = some b!"{\"type\":\"bytes\"}" := by
  rfl

end Avro.C12
