import AvroModel
import AvroModel.CodecWrap
import AvroProofs.Lemmas.Datum
/-!
# C15 — codecs: the wrapper logic that is the library's own

The compression algorithms are third-party; their round trip and interoperability are *validated*
by the harness against independent reference codecs (Python zlib/bz2/lzma, an own snappy raw
codec), not proved.  What is proved is the library's code around them.
-/
namespace Avro.C15
open Avro

theorem beBytes_length (k n : Nat) : (beBytes k n).length = k := by simp [beBytes, leBytes_length]

theorem ofBeBytes_beBytes (k n : Nat) (h : n < 256^k) : ofBeBytes (beBytes k n) = n := by
  unfold ofBeBytes beBytes
  rw [List.reverse_reverse, ofLeBytes_leBytes]
  exact Nat.mod_eq_of_lt h

theorem crc32_lt (bs : Bytes) : crc32 bs < 256^4 := by
  unfold crc32
  have := (~~~(bs.foldl crc32Byte 0xFFFFFFFF#32)).isLt
  omega

/-- **snappy frame round trip**, given the raw codec's round trip (validated by the harness):
the data comes back whenever it fits the allocation limit -/
theorem snappy_frame (lim : Nat) (raw : RawCodec) (x : Bytes)
    (h1 : raw.decompress (raw.compress x) = .ok x) (h2 : raw.decompressLen (raw.compress x) = .ok x.length)
    (hl : x.length ≤ lim) : snappyDecompress lim raw (snappyCompress raw x) = .ok x := by
  unfold snappyDecompress snappyCompress
  have hlen : (raw.compress x ++ beBytes 4 (crc32 x)).length = (raw.compress x).length + 4 := by
    simp [beBytes_length]
  have hnot : ¬ ((raw.compress x ++ beBytes 4 (crc32 x)).length < 4) := by omega
  simp only [hnot, if_false, hlen, Nat.add_sub_cancel]
  rw [List.take_left', List.drop_left', h2]
  · simp only [safeLen, hl, if_true, h1]
    rw [ofBeBytes_beBytes 4 _ (crc32_lt x)]
    simp
  · rfl
  · rfl

/-- **a wrong checksum is rejected** (whatever the trailer is, if it is not the big-endian CRC-32
of what the body decompresses to) -/
theorem snappy_bad_crc (lim : Nat) (raw : RawCodec) (body trailer decoded : Bytes) (ht : trailer.length = 4)
    (hd : raw.decompress body = .ok decoded) (hbad : ofBeBytes trailer ≠ crc32 decoded) :
    ∃ e, snappyDecompress lim raw (body ++ trailer) = .error e := by
  unfold snappyDecompress
  have hlen : (body ++ trailer).length = body.length + 4 := by simp [ht]
  have hnot : ¬ ((body ++ trailer).length < 4) := by omega
  simp only [hnot, if_false, hlen, Nat.add_sub_cancel]
  rw [List.take_left', List.drop_left']
  · cases raw.decompressLen body with
    | error e => exact ⟨e, rfl⟩
    | ok size =>
      simp only []
      cases safeLen lim size with
      | error e => exact ⟨e, rfl⟩
      | ok k => simp only [hd]; rw [if_neg hbad]; exact ⟨_, rfl⟩
  · rfl
  · rfl

/-- a block shorter than the checksum is an error — no slice underflow -/
theorem snappy_short (lim : Nat) (raw : RawCodec) (s : Bytes) (h : s.length < 4) :
    snappyDecompress lim raw s = .error .other := by
  unfold snappyDecompress; simp [h]

/-- the size a snappy stream *declares* is bounded before anything is allocated for it -/
theorem snappy_declared_size_bounded (lim : Nat) (raw : RawCodec) (s out : Bytes)
    (h : snappyDecompress lim raw s = .ok out) :
    ∃ size, raw.decompressLen (s.take (s.length - 4)) = .ok size ∧ size ≤ lim := by
  unfold snappyDecompress at h
  split at h
  · cases h
  · simp only [] at h
    cases hq : raw.decompressLen (s.take (s.length - 4)) with
    | error e => rw [hq] at h; cases h
    | ok size =>
      rw [hq] at h; simp only [] at h
      refine ⟨size, rfl, ?_⟩
      by_cases hle : size ≤ lim
      · exact hle
      · simp [safeLen, hle] at h

/-- **output cap** of the streaming decoders, for every limit: an output within the limit is
returned whole, anything larger is an error, and what is returned never exceeds the limit -/
theorem capped_read (lim : Nat) (stream : Bytes) :
    (stream.length ≤ lim → cappedRead lim stream = .ok stream) ∧
    (lim < stream.length → cappedRead lim stream = .error .allocLimit) ∧
    (∀ out, cappedRead lim stream = .ok out → out.length ≤ lim) := by
  unfold cappedRead
  refine ⟨?_, ?_, ?_⟩
  · intro h
    have : ¬ ((stream.take (lim + 1)).length > lim) := by simp; omega
    simp only [this, if_false]
    rw [List.take_of_length_le (by omega)]
  · intro h
    have : (stream.take (lim + 1)).length > lim := by simp; omega
    simp only [this, if_true]
  · intro out h
    simp only [] at h
    by_cases hgt : (stream.take (lim + 1)).length > lim
    · rw [if_pos hgt] at h; cases h
    · rw [if_neg hgt] at h
      cases h; omega

/-- CRC-32 check value of the standard test vector "123456789" -/
example : crc32 [0x31, 0x32, 0x33, 0x34, 0x35, 0x36, 0x37, 0x38, 0x39] = 0xCBF43926 := by decide +kernel

end Avro.C15
