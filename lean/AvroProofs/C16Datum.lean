import AvroModel
import AvroProofs.C02
import AvroProofs.Lemmas.SerSpec
/-!
# C16 — what the schema-aware serializer writes is exactly one specification-legal datum

`ser_is_spec_datum`: for every serde value of the modelled fragment that meets `SerOk` (what the Rust types
guarantee: integer ranges, valid UTF-8, declared lengths, distinct map keys; plus the size conditions under which a
reader with allocation limit `cfg.lim` has to accept the datum), every schema, every names table, **every target block
size** and every recursion budget: when the serializer succeeds, the bytes it wrote are a specification-legal
encoding (`Spec.SpecEnc`: the relation of C02, written independently of the crate's encoder) of some value under that
schema.  With C02's `decode_complete` the generic decoder therefore reads them back as exactly one datum, leaving
exactly what follows (`ser_decodes_as_one_datum`).

Logical types are inside the statement in the form their Rust types hand them over (`SerOk`): a uuid as its 16 bytes or
its canonical text, a duration as its 12 bytes, a big-decimal as its serialized form, decimals as any byte string of the
right size.  Outside the statement (and covered by the correspondence run and the oracle only): unions other than
`Option`-shaped ones, `u64` and 128-bit integers, flattened structs; that the value read back is the one the Rust value
converts to; the schema-aware deserializer.
-/
namespace Avro.C16
open Avro Avro.Spec

/-- **the bytes are a specification-legal datum**, for every target block size -/
theorem ser_is_spec_datum (cfg : Cfg) (env : Names) (henv : EnvOk env) (hl : cfg.lim < 2^63) (tbs : Option Nat)
    (fuel : Nat) (s : Schema) (x : SerdeVal) (b : Bytes) (n : Nat)
    (hx : SerOk cfg env s x) (hser : serS tbs env fuel s x = .ok (b, n)) (hb : b.length < 2^63) :
    ∃ v, SpecEnc cfg env s v b :=
  ser_spec henv hl tbs fuel s x b n hx hser hb

/-- **…which the generic decoder reads back as exactly one datum**, whatever follows it -/
theorem ser_decodes_as_one_datum (cfg : Cfg) (env : Names) (henv : EnvOk env) (hl : cfg.lim < 2^63)
    (h1 : 1 ≤ cfg.szValue) (h2 : 1 ≤ cfg.szEntry) (tbs : Option Nat)
    (fuel : Nat) (s : Schema) (x : SerdeVal) (b : Bytes) (n : Nat)
    (hx : SerOk cfg env s x) (hser : serS tbs env fuel s x = .ok (b, n)) (hb : b.length < 2^63) :
    ∃ v k, ∀ dfuel, k ≤ dfuel → ∀ rest, decode cfg env dfuel s (b ++ rest) = .ok (v, rest) := by
  obtain ⟨v, hv⟩ := ser_is_spec_datum cfg env henv hl tbs fuel s x b n hx hser hb
  obtain ⟨k, hk⟩ := C02.decode_complete cfg env hl h1 h2 s v b hv
  exact ⟨v, k, hk⟩

/-! non-vacuity: `record R {a: int, xs: array<long>}` handed `xs = [1, 2]` before `a = 3`, with a target block size
of one byte (every item closes a sized block) -/
def exSchema : Schema := .record [82] [({ name := [97] }, .int), ({ name := [120] }, .array .long)]
def exValue : SerdeVal := .struct [82] [([120], some (.seq (some 2) [.i64 1, .i64 2])), ([97], some (.i32 3))]

example : serS (some 1) [] 6 exSchema exValue = .ok ([6, 1, 2, 2, 1, 2, 4, 0], 8) := by rfl

example : SerOk { lim := 1000 } [] exSchema exValue := by
  refine .struct ?_ ?_
  · intro rn rfields hd kv hkv v p ms hv hp hf
    simp only [exSchema, derefS, Option.some.injEq, Schema.record.injEq] at hd
    obtain ⟨_, hd⟩ := hd
    subst hd
    simp only [List.mem_cons, List.not_mem_nil, or_false] at hkv
    rcases hkv with rfl | rfl
    · simp only [Option.some.injEq] at hv; subst hv
      have : p = 1 := by simpa [lookupPos, lookupPos.go] using hp.symm
      subst this
      simp only [List.getElem?_cons_succ, List.getElem?_cons_zero, Option.some.injEq] at hf; subst hf
      refine .seq (Or.inr rfl) (by decide) (by decide) ?_
      intro inner _ i hi
      simp only [List.mem_cons, List.not_mem_nil, or_false] at hi
      rcases hi with rfl | rfl <;> exact .i64 ⟨by decide, by decide⟩
    · simp only [Option.some.injEq] at hv; subst hv
      have : p = 0 := by simpa [lookupPos, lookupPos.go] using hp.symm
      subst this
      simp only [List.getElem?_cons_zero, Option.some.injEq] at hf; subst hf
      exact .i32 ⟨by decide, by decide⟩
  · intro rn rfields hd ms hms d dv hdf _
    simp only [exSchema, derefS, Option.some.injEq, Schema.record.injEq] at hd
    obtain ⟨_, hd⟩ := hd
    subst hd
    simp only [List.mem_cons, List.not_mem_nil, or_false] at hms
    rcases hms with rfl | rfl <;> simp at hdf

end Avro.C16
