import AvroModel
import AvroProofs.Lemmas.Container
import AvroProofs.Lemmas.SpecEncode
import AvroProofs.Lemmas.Prim
/-!
# C04 — object container files conform to the specified layout in both directions

`magic ++ metadata-map ++ marker ++ blocks`, each block `count ++ size ++ payload ++ marker`.
The metadata map is an Avro `map<bytes>` datum, so *any* specification-legal layout of it (several
blocks, negative counts, any entry order, unknown keys) is accepted because the datum decoder
accepts it (C02).
-/
namespace Avro.C04
open Avro Avro.Spec

/-- the metadata entries as a `map<bytes>` value -/
def metaValue (es : List (Bytes × Bytes)) : Value := .map (es.map (fun kv => (kv.1, Value.bytes kv.2)))

theorem filterMap_meta (es : List (Bytes × Bytes)) :
    (es.map (fun kv => (kv.1, Value.bytes kv.2))).filterMap metaBytesOnly = es := by
  induction es with
  | nil => rfl
  | cons a tl ih => simp [metaBytesOnly, ih]

/-- **reader, header**: any specification-legal encoding `menc` of the metadata map — whatever
its block partitioning and whatever additional keys it holds — followed by a 16-byte marker is
accepted; the reader sees exactly the entries and the marker. -/
theorem header_accepted (cfg : Cfg) (hl : cfg.lim < 2^63) (h1 : 1 ≤ cfg.szValue) (h2 : 1 ≤ cfg.szEntry)
    (es : List (Bytes × Bytes)) (menc marker : Bytes) (hm : marker.length = 16)
    (hspec : SpecEnc cfg [] (.map .bytes) (metaValue es) menc) :
    ∃ n, ∀ fuel, n ≤ fuel → ∀ rest,
      readHeader cfg fuel (magic ++ menc ++ marker ++ rest) = .ok (es, marker, rest) := by
  obtain ⟨n, H⟩ := spec_dc hl h1 h2 primFacts hspec
  refine ⟨n, fun fuel hf rest => ?_⟩
  unfold readHeader
  have e : magic ++ menc ++ marker ++ rest = magic ++ (menc ++ (marker ++ rest)) := by simp
  rw [e, takeExact_append' 4 magic _ rfl]
  simp only [ne_eq, not_true_eq_false, if_false]
  rw [H fuel hf (marker ++ rest)]
  simp only [metaValue]
  rw [takeExact_append' 16 marker rest hm]
  simp only []
  rw [filterMap_meta]

/-- **reader, whole file**: a file laid out as the specification says — header as above, then
any number of well-formed blocks in any partitioning (one value per block, one block, …), any codec
with a round trip — is read to exactly its metadata, marker and values, ending cleanly. -/
theorem reader_accepts (cfg : Cfg) (codec : Codec) (env : Names) (schema : Schema)
    (hl : cfg.lim < 2^63) (h1 : 1 ≤ cfg.szValue) (h2 : 1 ≤ cfg.szEntry)
    (es : List (Bytes × Bytes)) (menc marker : Bytes) (hm : marker.length = 16)
    (hspec : SpecEnc cfg [] (.map .bytes) (metaValue es) menc)
    (hc : ∀ x, codec.decompress (codec.compress x) = .ok x)
    (blocks : List Items)
    (hblk : ∀ b ∈ blocks, b ≠ [] ∧ b.length < 2^63 ∧ (codec.compress b.payload).length ≤ cfg.lim ∧ Uniform b)
    (hdec : ∃ n, ∀ fuel, n ≤ fuel → ∀ b ∈ blocks, Decodes (decode cfg env fuel schema) b) :
    ∃ n, ∀ fuel, n ≤ fuel →
      readFile cfg codec env fuel schema (magic ++ menc ++ marker ++ blocks.flatMap (blockOf codec marker)) =
        .ok (es, marker, blocks.flatMap Items.values, .clean) := by
  obtain ⟨n1, H1⟩ := header_accepted cfg hl h1 h2 es menc marker hm hspec
  obtain ⟨n2, H2⟩ := hdec
  refine ⟨max n1 n2, fun fuel hf => ?_⟩
  unfold readFile
  rw [H1 fuel (by omega)]
  simp only []
  have hall : ∀ b ∈ blocks, BlockOk cfg codec (decode cfg env fuel schema) b := by
    intro b hb
    obtain ⟨a, b', c, d⟩ := hblk b hb
    exact ⟨a, b', c, hl, H2 fuel (by omega) b hb, d⟩
  have hfuel : blocks.length < (blocks.flatMap (blockOf codec marker)).length + 1 := by
    have : ∀ bs : List Items, bs.length ≤ (bs.flatMap (blockOf codec marker)).length := by
      intro bs
      induction bs with
      | nil => simp
      | cons x xs ih =>
        have hp : 0 < (blockOf codec marker x).length := by
          have := encLong_ne_nil (x.length : Int)
          have : 0 < (encLong (x.length : Int)).length := List.length_pos_iff.mpr this
          simp [blockOf, blockBytes]; omega
        simp only [List.flatMap_cons, List.length_append, List.length_cons]; omega
    have := this blocks; omega
  rw [readBlocks_ok cfg codec _ marker hm hc blocks hall _ hfuel]

/-- **writer**: the header the writer emits is `magic`, a specification-legal `map<bytes>` holding
`avro.schema` (+ codec entries + user metadata), and the marker — provided the keys are distinct
valid UTF-8 strings within the limit. -/
theorem writer_header_spec (cfg : Cfg) (hl : cfg.lim < 2^63) (es : List (Bytes × Bytes)) (hne : es ≠ [])
    (hk : ∀ kv ∈ es, kv.1.length ≤ cfg.lim ∧ validUtf8 kv.1 = true ∧ kv.2.length ≤ cfg.lim)
    (hnd : (es.map Prod.fst).Nodup) (hlen : es.length ≤ cfg.lim) (hsz : es.length * cfg.szEntry ≤ cfg.lim) :
    SpecEnc cfg [] (.map .bytes) (metaValue es) (encMetaMap es) := by
  have hent : ∀ (l : List (Bytes × Bytes)), (∀ kv ∈ l, kv.1.length ≤ cfg.lim ∧ validUtf8 kv.1 = true ∧ kv.2.length ≤ cfg.lim) →
      SpecEntries cfg [] .bytes (l.map (fun kv => (kv.1, Value.bytes kv.2)))
        ((l.map (fun kv => encBytes kv.1 ++ encBytes kv.2)).flatten) := by
    intro l
    induction l with
    | nil => intro _; exact .nil
    | cons a tl ih =>
      intro h
      obtain ⟨a1, a2, a3⟩ := h a (by simp)
      have := SpecEntries.cons (cfg := cfg) (env := []) (s := .bytes) (k := a.1) (v := .bytes a.2) a1 a2
        (SpecEnc.bytes a3) (ih (fun kv hkv => h kv (List.mem_cons_of_mem _ hkv)))
      simp only [List.map_cons, List.flatten_cons]
      have e : encBytes a.1 ++ encBytes a.2 = Spec.long a.1.length ++ a.1 ++ (Spec.long a.2.length ++ a.2) := by
        simp only [encBytes]
        rw [← long_nat a.1.length (by omega), ← long_nat a.2.length (by omega)]
      rw [e]
      simpa using this
  unfold encMetaMap metaValue
  have he : es.isEmpty = false := by cases es <;> simp_all
  simp only [he]
  have := SpecMapBlocks.pos (cfg := cfg) (env := []) (s := .bytes) (k := 0)
    (blk := es.map (fun kv => (kv.1, Value.bytes kv.2))) (more := [])
    (by simpa using hne) (hent es hk) (by simpa using hlen) (by simpa using hsz) .done
  have hm := SpecEnc.map (by simpa using this) (by simpa [Function.comp_def] using hnd)
  rw [← long_nat es.length (by omega)]
  simpa using hm

/-- … and therefore a file written by the library (any history, C03) is accepted by any reader
of the specification's layout: it *is* such a layout.  (`history_layout` gives
`sink = header ++ blocks` with `header = magic ++ encMetaMap … ++ marker`.) -/
theorem writer_layout (cfg : WCfg) (marker : Bytes) (ops : List WOp) (hok : RunOk cfg { marker := marker } ops) :
    ∃ g : Ghost, Inv cfg (Writer.run cfg { marker := marker } ops) g :=
  let ⟨g, hg, _⟩ := inv_run ops (st := { marker := marker }) (g := ⟨[], [], []⟩)
    ⟨by simp, by simp, by simp, by simp, by simp, by intro h; simp at h⟩ hok
  ⟨g, hg⟩

end Avro.C04
