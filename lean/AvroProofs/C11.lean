import AvroModel
import AvroProofs.Lemmas.ParseWf
/-!
# C11 — the parser accepts only well-formed schemas (and is total)

`parseJ` is a total function (every Lean function is), so "never panics or hangs" holds of the
model by construction; the tie to the crate is the correspondence run on arbitrary JSON and mutated
schemas.  Proved here: every accepted schema is well formed, for every input and every recursion
budget, and what "well formed" implies in readable terms.  NOT part of `wfP` (false of the code, see
`known-findings.json`): uniqueness of full names, validity of a decimal's precision for its fixed
size.
-/
namespace Avro.C11
open Avro

/-- **Main theorem.** Whatever JSON value is given and whatever the recursion budget, a schema the
parser accepts is well formed. -/
theorem parse_wf (dflt : DfltFn) (fuel : Nat) (j : Json) (s : PSchema) (h : parseTop dflt fuel j = some s) :
    wfP s = true := by
  unfold parseTop at h
  cases hp : parseJ dflt fuel {} j none with
  | none => simp [hp] at h
  | some r =>
    obtain ⟨s', st'⟩ := r
    simp [hp] at h
    subst h
    have hst : stOk ({} : PSt) := ⟨fun kv hkv => (by cases hkv), fun kv hkv => (by cases hkv)⟩
    exact (parseJ_good dflt fuel _ _ _ _ _ hst hp).1

/-- every name the parser builds matches the grammar: the name part is an identifier and the
namespace, when there is one, is a non-empty dotted sequence of identifiers -/
theorem names_match_grammar (s : Bytes) (e : Option Bytes) (n : PName) (h : PName.make s e = some n) :
    isIdent n.name = true ∧ ∀ ns, n.ns = some ns → ns ≠ [] ∧ isNamespace ns = true := by
  have := make_ok h
  unfold PName.ok at this
  simp only [Bool.and_eq_true] at this
  refine ⟨this.1, fun ns hns => ?_⟩
  rw [hns] at this
  simp only [Bool.and_eq_true, Bool.not_eq_true', List.isEmpty_eq_false_iff] at this
  exact ⟨this.2.1, this.2.2⟩

/-- two branches of a union are of the same branch type when both are named alike, or both are
unnamed and of the same base kind -/
def sameBranchType (a b : PSchema) : Prop :=
  match a.pname?, b.pname? with
  | some x, some y => x = y
  | none, none => a.baseKind = b.baseKind
  | _, _ => False

theorem unionNew_inv : ∀ (bs : List PSchema) (names : List PName) (kinds : List BaseKind),
    unionNew bs names kinds = some () →
      (∀ b ∈ bs, (∀ n, b.pname? = some n → n ∉ names) ∧ (b.pname? = none → b.baseKind ≠ .union ∧ b.baseKind ∉ kinds)) ∧
      bs.Pairwise (fun a b => ¬ sameBranchType a b)
  | [], _, _, _ => ⟨fun _ h => (by cases h), List.Pairwise.nil⟩
  | s :: rest, names, kinds, h => by
    unfold unionNew at h
    cases hn : s.pname? with
    | some n =>
      simp only [hn] at h
      by_cases hc : names.contains n = true
      · rw [if_pos hc] at h; cases h
      · rw [if_neg hc] at h
        have hc' : n ∉ names := fun hm => hc (List.contains_iff_mem.mpr hm)
        obtain ⟨ih1, ih2⟩ := unionNew_inv rest (n :: names) kinds h
        refine ⟨?_, List.Pairwise.cons ?_ ih2⟩
        · intro b hb
          rcases List.mem_cons.mp hb with rfl | hb
          · refine ⟨fun m hm => ?_, fun hm => ?_⟩
            · rw [hn] at hm; cases hm; exact hc'
            · rw [hn] at hm; cases hm
          · obtain ⟨h1, h2⟩ := ih1 b hb
            exact ⟨fun m hm hmem => h1 m hm (List.mem_cons_of_mem _ hmem), h2⟩
        · intro b hb hs
          unfold sameBranchType at hs
          rw [hn] at hs
          cases hb' : b.pname? with
          | none => simp [hb'] at hs
          | some m =>
            simp only [hb'] at hs
            subst hs
            exact (ih1 b hb).1 n hb' (by simp)
    | none =>
      simp only [hn] at h
      by_cases hu : (s.baseKind == BaseKind.union) = true
      · rw [if_pos hu] at h; cases h
      · rw [if_neg hu] at h
        by_cases hk : kinds.contains s.baseKind = true
        · rw [if_pos hk] at h; cases h
        · rw [if_neg hk] at h
          have hk' : s.baseKind ∉ kinds := fun hm => hk (List.contains_iff_mem.mpr hm)
          obtain ⟨ih1, ih2⟩ := unionNew_inv rest names (s.baseKind :: kinds) h
          refine ⟨?_, List.Pairwise.cons ?_ ih2⟩
          · intro b hb
            rcases List.mem_cons.mp hb with rfl | hb
            · refine ⟨fun m hm => ?_, fun _ => ⟨?_, hk'⟩⟩
              · rw [hn] at hm; cases hm
              · intro he; exact hu (by rw [he]; rfl)
            · obtain ⟨h1, h2⟩ := ih1 b hb
              exact ⟨h1, fun hm => ⟨(h2 hm).1, fun hmem => (h2 hm).2 (List.mem_cons_of_mem _ hmem)⟩⟩
          · intro b hb hs
            unfold sameBranchType at hs
            rw [hn] at hs
            cases hb' : b.pname? with
            | some m => simp [hb'] at hs
            | none =>
              simp only [hb'] at hs
              exact ((ih1 b hb).2 hb').2 (by rw [← hs]; simp)

/-- an accepted union contains no union directly, and no two branches of the same branch type
(equal names, or both unnamed with the same base kind) -/
theorem union_rules (bs : List PSchema) (h : wfP (.union bs) = true) :
    (∀ b ∈ bs, b.baseKind ≠ .union) ∧ bs.Pairwise (fun a b => ¬ sameBranchType a b) := by
  simp only [wfP, Bool.and_eq_true, Option.isSome_iff_exists] at h
  obtain ⟨⟨u, hu⟩, _⟩ := h
  cases u
  obtain ⟨h1, h2⟩ := unionNew_inv bs [] [] hu
  refine ⟨fun b hb => ?_, h2⟩
  cases hn : b.pname? with
  | none => exact ((h1 b hb).2 hn).1
  | some n =>
    intro hk
    cases b <;> first
      | (simp [PSchema.pname?] at hn; done)
      | (rename_i inner; cases inner <;> simp [PSchema.baseKind] at hk)
      | (simp [PSchema.baseKind] at hk; done)

theorem fieldLookup_inv : ∀ (fs : List (FieldHdr × PSchema)) (keys : List Bytes), fieldLookupOk fs keys = true →
    (fs.map (fun f => f.1.name)).Nodup ∧ ∀ f ∈ fs, f.1.name ∉ keys
  | [], _, _ => ⟨List.nodup_nil, fun _ h => (by cases h)⟩
  | (hd, s) :: rest, keys, h => by
    unfold fieldLookupOk at h
    by_cases hc : keys.contains hd.name = true
    · rw [if_pos hc] at h; cases h
    · rw [if_neg hc] at h
      obtain ⟨ih1, ih2⟩ := fieldLookup_inv rest _ h
      refine ⟨?_, ?_⟩
      · simp only [List.map_cons, List.nodup_cons]
        refine ⟨fun hmem => ?_, ih1⟩
        obtain ⟨f, hf, hfe⟩ := List.mem_map.mp hmem
        exact ih2 f hf (by rw [hfe]; simp)
      · intro f hf
        rcases List.mem_cons.mp hf with rfl | hf
        · intro hmem; exact hc (List.contains_iff_mem.mpr hmem)
        · intro hk
          exact ih2 f hf (by simp [hk])

/-- an accepted record has a well-formed name, field names that are identifiers and pairwise
distinct, and well-formed field types -/
theorem record_rules (n : PName) (al : Option (List PName)) (doc : Option Bytes) (fields : List (FieldHdr × PSchema))
    (attrs : Attrs) (h : wfP (.record n al doc fields attrs) = true) :
    n.ok = true ∧ (fields.map (fun f => f.1.name)).Nodup ∧ wfPFields fields = true := by
  simp only [wfP, Bool.and_eq_true] at h
  exact ⟨h.1.1, (fieldLookup_inv fields [] h.1.2).1, h.2⟩

/-- an accepted enum has a well-formed name, symbols that are identifiers and pairwise distinct,
and a default (if any) that is one of the symbols -/
theorem enum_rules (n : PName) (al : Option (List PName)) (doc : Option Bytes) (syms : List Bytes) (d : Option Bytes)
    (attrs : Attrs) (h : wfP (.enum n al doc syms d attrs) = true) :
    n.ok = true ∧ (∀ s ∈ syms, isIdent s = true) ∧ syms.Nodup ∧ (∀ x, d = some x → x ∈ syms) := by
  simp only [wfP, Bool.and_eq_true, decide_eq_true_eq, List.all_eq_true] at h
  refine ⟨h.1.1.1, h.1.1.2, h.1.2, fun x hx => ?_⟩
  subst hx
  simpa [optMem] using h.2

/-- an accepted decimal has `1 ≤ precision` and `scale ≤ precision` -/
theorem decimal_rules (p sc : Nat) (inner : Option FixedP) (h : wfP (.decimal p sc inner) = true) : 1 ≤ p ∧ sc ≤ p := by
  simp only [wfP, Bool.and_eq_true, decide_eq_true_eq] at h
  exact ⟨h.1.1, h.1.2⟩

end Avro.C11
