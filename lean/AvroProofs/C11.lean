import AvroModel
namespace Avro.C11
open Avro
end Avro.C11
