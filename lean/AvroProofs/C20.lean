import AvroModel
/-!
# C20 — multi-schema parsing

`parseListWith` takes the hash order of the pending inputs as an explicit argument.  Proved: two
inputs with one full name are rejected up front whatever the order; a successful result has exactly
one schema per input, in input order, each the one filed under that input's name.  NOT proved,
because false of the code: that the result is the same for every hash order - `order_dependent_*`
are kernel-checked witnesses (the open findings); for the generated input sets the driver enumerates
ALL hash orders of the model at run time and checks that every outcome the crate produced is one of
them.
-/
namespace Avro.C20
open Avro

theorem inputNames_inv : ∀ (texts : List Json) (seen : List PName) (named : List (PName × Json)),
    inputNames texts seen = some named →
      (named.map Prod.fst).Nodup ∧ (∀ n ∈ named.map Prod.fst, n ∉ seen) ∧ named.map Prod.snd = texts
  | [], _, named, h => by simp [inputNames] at h; subst h; simp
  | j :: rest, seen, named, h => by
    cases j <;> simp only [inputNames] at h <;> try (cases h; done)
    rename_i kvs
    split at h
    · cases h
    · rename_i n _
      by_cases hc : seen.contains n = true
      · rw [if_pos hc] at h; cases h
      · rw [if_neg hc] at h
        cases hr : inputNames rest (n :: seen) with
        | none => simp [hr] at h
        | some named' =>
          simp [hr] at h
          subst h
          obtain ⟨h1, h2, h3⟩ := inputNames_inv rest (n :: seen) named' hr
          refine ⟨?_, ?_, ?_⟩
          · simp only [List.map_cons, List.nodup_cons]
            exact ⟨fun hm => h2 n hm (by simp), h1⟩
          · intro m hm
            simp only [List.map_cons, List.mem_cons] at hm
            rcases hm with rfl | hm
            · exact fun hs => hc (List.contains_iff_mem.mpr hs)
            · exact fun hs => h2 m hm (List.mem_cons_of_mem _ hs)
          · simp [h3]

/-- two inputs with the same full name are rejected before anything is parsed, in every order -/
theorem duplicate_input_names_rejected (dflt : DfltFn) (fuel : Nat) (texts : List Json)
    (order : List (PName × Json) → List (PName × Json)) (out : List PSchema)
    (h : parseListWith dflt fuel texts order = some out) :
    ∃ named, inputNames texts [] = some named ∧ (named.map Prod.fst).Nodup := by
  unfold parseListWith at h
  cases hn : inputNames texts [] with
  | none => simp [hn] at h
  | some named => exact ⟨named, rfl, (inputNames_inv texts [] named hn).1⟩

theorem collect_inv : ∀ (names : List PName) (parsed : List (PName × PSchema)) (out : List PSchema),
    collectInOrder names parsed = some out → out.length = names.length
  | [], _, out, h => by simp [collectInOrder] at h; subst h; rfl
  | n :: rest, parsed, out, h => by
    simp only [collectInOrder] at h
    split at h
    · cases h
    · rename_i s _
      cases hr : collectInOrder rest (tblRemove parsed n) with
      | none => simp [hr] at h
      | some out' =>
        simp [hr] at h
        subst h
        simp [collect_inv rest _ out' hr]

/-- a successful result has exactly one schema per input (handed out in input order) -/
theorem one_schema_per_input (dflt : DfltFn) (fuel : Nat) (texts : List Json)
    (order : List (PName × Json) → List (PName × Json)) (out : List PSchema)
    (h : parseListWith dflt fuel texts order = some out) : out.length = texts.length := by
  unfold parseListWith at h
  cases hn : inputNames texts [] with
  | none => simp [hn] at h
  | some named =>
    simp only [hn] at h
    split at h
    · cases h
    · have := collect_inv _ _ _ h
      have h3 := (inputNames_inv texts [] named hn).2.2
      rw [this, List.length_map, ← h3, List.length_map]

/-! ### witnesses: the result depends on the hash order -/

def jstr (s : Bytes) : Json := .str s

/-- input `Host` defines `Nested` inline, input `Guest` refers to it -/
def host : Json := .obj [(b!"fields", .arr [.obj [(b!"name", jstr b!"n"),
    (b!"type", .obj [(b!"name", jstr b!"Nested"), (b!"size", .int 3), (b!"type", jstr b!"fixed")])]]),
  (b!"name", jstr b!"Host"), (b!"type", jstr b!"record")]
def guest : Json := .obj [(b!"fields", .arr [.obj [(b!"name", jstr b!"n"), (b!"type", jstr b!"Nested")]]),
  (b!"name", jstr b!"Guest"), (b!"type", jstr b!"record")]

/-- a closed set (every reference is defined within it) parses when `Host` comes first in the hash
order and FAILS when `Guest` does -/
theorem order_dependent_success :
    (parseListWith (fun _ _ _ => true) 20 [host, guest] id).isSome = true ∧
    (parseListWith (fun _ _ _ => true) 20 [host, guest] List.reverse).isSome = false := by
  constructor <;> rfl

/-- input `B` is a fixed of size 2; input `A` defines, nested, another `B` of size 1 -/
def inA : Json := .obj [(b!"fields", .arr [.obj [(b!"name", jstr b!"f"),
    (b!"type", .obj [(b!"name", jstr b!"B"), (b!"size", .int 1), (b!"type", jstr b!"fixed")])]]),
  (b!"name", jstr b!"A"), (b!"type", jstr b!"record")]
def inB : Json := .obj [(b!"name", jstr b!"B"), (b!"size", .int 2), (b!"type", jstr b!"fixed")]

def sizeOfSecond (r : Option (List PSchema)) : Option Nat :=
  match r with
  | some [_, .fixed f] => some f.size
  | _ => none

/-- both orders succeed, and the schema returned for input `B` has size 2 in one and size 1 in the
other: a duplicate definition is neither rejected nor resolved the same way -/
theorem order_dependent_definition :
    sizeOfSecond (parseListWith (fun _ _ _ => true) 20 [inA, inB] id) = some 2 ∧
    sizeOfSecond (parseListWith (fun _ _ _ => true) 20 [inA, inB] List.reverse) = some 1 := by
  constructor <;> rfl

end Avro.C20
